#!/bin/sh
# Build everything from files on disk (offline): Lean model + proofs + driver, Rust harness, shim.
set -e
cd "$(dirname "$0")"
export CARGO_NET_OFFLINE=true
python3 tools/extract_params.py >/dev/null
(cd lean && lake build FjallModel Generated driver)
(cd harness && cargo build --offline --release --bins && cargo build --offline --bins)
cc -shared -fPIC -O2 -o shim/crashshim.so shim/crashshim.c -ldl
echo setup-ok
