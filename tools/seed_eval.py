#!/usr/bin/env python3
"""Apply a seeded change to /repo (or $VERIF_REPO), run the given checks of the verif tree this script lives in, restore the repo.
Usage: seed_eval.py <seeded dir> <check ids...> [--tier t]"""
import subprocess, sys, json, os, time
REPO = os.environ.get("VERIF_REPO", "/repo")
ROOT = os.path.dirname(os.path.dirname(os.path.abspath(__file__)))
d = sys.argv[1]; ids = [a for a in sys.argv[2:] if not a.startswith("--")]
tier = "quick"
if "--tier" in sys.argv: tier = sys.argv[sys.argv.index("--tier") + 1]; ids = [i for i in ids if i != tier]
patch = os.path.join(d, "patch.diff")
assert subprocess.run(["git", "-C", REPO, "status", "--porcelain", "--untracked-files=no"], capture_output=True, text=True).stdout.strip() == "", REPO + " not clean"
r = subprocess.run(["git", "-C", REPO, "apply", patch], capture_output=True, text=True)
if r.returncode != 0: print("APPLY FAILED", r.stderr); sys.exit(2)
res = {}
try:
    for i in ids:
        t0 = time.time()
        p = subprocess.run([os.path.join(ROOT, "check"), i, "--tier", tier], capture_output=True, text=True, cwd=ROOT)
        lines = [l for l in p.stdout.splitlines() if l.startswith(("VIOLATION", "OK ", "KNOWN-FINDING"))]
        res[i] = dict(rc=p.returncode, wall=round(time.time() - t0, 1), lines=lines[-3:])
        detail = ""
        for l in p.stdout.splitlines():
            if l.startswith("VIOLATION"):
                rp = l.split("replay=")[1].split()[0]
                try: detail = open(rp).read()[:600]
                except Exception: pass
        res[i]["detail"] = detail
        print(i, "rc=", p.returncode, lines[-2:], "\n   ", detail.replace("\n", " ")[:500])
finally:
    subprocess.run(["git", "-C", REPO, "checkout", "--", "."])
json.dump(res, open(os.path.join(d, f"eval_{tier}.json"), "w"), indent=1)
