"""Per-property configuration shared by ./check and tools/gen_manifest.py."""

JOURNAL_TB = [
    "xxh3 and the LZ4 block codec are parameters of the journal theorems (h, compress, decompress); "
    "needed laws are hypotheses (decompress (compress v) |v| = some v; h x < 2^64); the driver "
    "instantiates them with a Lean XXH3-64 port (validated every run against xxhash-rust) and a Lean "
    "LZ4 decoder (every lz4_flex output used is re-validated against it)",
    "modelled, not verified: std BufWriter/BufReader, the OS file API, lsm-tree, lz4_flex, xxhash-rust",
]

PROPS = {
    "C03": dict(
        title="Batches and transactions are all-or-nothing across crashes",
        modules=["FjallModel.Props.C03"],
        theorems=["Fjall.Journal.c03_torn_tail", "Fjall.Journal.c03_repair_then_append"],
        statements={
            "c03_torn_tail": "forall params p (Valid), codec c (Law), hash h, batches bs, batch b, cut n < |enc b|, padding m: "
                             "readJournal (enc bs ++ take n (enc b) ++ zeros m) = (bs, |enc bs|, no error)",
            "c03_repair_then_append": "the file truncated to finalLen, with any batch b' appended, reads back as bs ++ [b']",
        },
        engines=[dict(bin="journal", args=["--mode", "c03"], cases_quick=48, cases_thorough=800,
                      profiles=["release"], profiles_thorough=["release", "dev"])],
        rule="case = random program (single writes, removes, weak removes, clears, multi-keyspace batches, "
             "single-writer transactions; values on both sides of the 4096 compression threshold; lz4/none) run on "
             "the real crate; its journal is compared bit-for-bit with the model writer, then cut at every offset of "
             "the last batch (byte budget) x zero paddings {0, small, 64 MiB} and read by the real reader (hook), the "
             "model reader and the oracle 'exactly the complete batches before the cut'; sampled real reopen + append "
             "+ reopen. non-trivial = journal has >= 2 batches, one multi-item; distinct = hash of the batch list",
        trusted_base=JOURNAL_TB,
        assumptions=["process-crash image = bytes of completed write(2) calls (OS page cache semantics)",
                     "the journal tail after a torn append is the preallocated zero padding or end of file"],
        level_text="Lean 4 theorems (kernel-checked, unbounded in batch list, cut offset and padding) about an executable "
                   "model of the journal codec and reader; the model is tied to the code on every run by a bit-exact "
                   "writer diff, a reader diff at every cut, and constants/layouts re-extracted from the source",
        level_note="trusted: Lean kernel; xxh3/LZ4 as parameters with stated laws; harness + extractor; OS file semantics",
        technique="Lean 4 proof (induction over batches/entries, prefix-determinism of the decoder) + differential correspondence",
        design_ref="6 C03",
    ),
    "C15": dict(
        title="Journal records round-trip bit-exactly; damage is never read as different data",
        modules=["FjallModel.Props.C15"],
        theorems=["Fjall.Journal.c15_decode_encode", "Fjall.Journal.c15_roundtrip"],
        statements={
            "c15_decode_encode": "decodeEntry (encodeEntry e ++ rest) = some (e, rest) for every well-formed entry",
            "c15_roundtrip": "readJournal (encodeBatches bs) = (bs, length, no error) for every list of well-formed batches, "
                             "any per-item compression choice",
        },
        engines=[dict(bin="journal", args=["--mode", "c15"], cases_quick=48, cases_thorough=600,
                      profiles=["release"], profiles_thorough=["release", "dev"])],
        rule="case = random program as for C03 under journal compression lz4 or none; model writer bytes == file bytes; "
             "model reader == real reader == batches written; reopen under the *other* compression setting; "
             "single-byte alterations (boundary bytes: all 255 values sampled; elsewhere +1 / xor 0x80) read by the real "
             "reader and the model reader, oracle 'error or a prefix of the batches, never different items'",
        trusted_base=JOURNAL_TB,
        assumptions=["a 64-bit non-keyed checksum cannot exclude crafted collisions; alteration results are stated under NoAccidentalMatch"],
        level_text="Lean 4 theorems for the codec and the reader round trip (all entries, all batch lists), tied to the code by "
                   "bit-exact writer comparison and reader comparison incl. altered files",
        level_note="trusted: Lean kernel; xxh3/LZ4 parameters; harness + extractor",
        technique="Lean 4 proof (codec inverses, reader induction) + differential correspondence",
        design_ref="6 C15",
    ),
}

ALL_IDS = [f"C{i:02d}" for i in range(1, 19)]
