"""Per-property configuration shared by ./check and tools/gen_manifest.py."""

JOURNAL_TB = [
    "xxh3 and the LZ4 block codec are parameters of the journal theorems (h, compress, decompress); "
    "needed laws are hypotheses (decompress (compress v) |v| = some v; h x < 2^64); the driver "
    "instantiates them with a Lean XXH3-64 port (validated every run against xxhash-rust) and a Lean "
    "LZ4 decoder (every lz4_flex output used is re-validated against it)",
    "modelled, not verified: std BufWriter/BufReader, the OS file API, lsm-tree, lz4_flex, xxhash-rust",
]

PROPS = {
    "C03": dict(
        title="Batches and transactions are all-or-nothing across crashes",
        modules=["FjallModel.Props.C03"],
        theorems=["Fjall.Journal.c03_torn_tail", "Fjall.Journal.c03_repair_then_append"],
        statements={
            "c03_torn_tail": "forall params p (Valid), codec c (Law), hash h, batches bs, batch b, cut n < |enc b|, padding m: "
                             "readJournal (enc bs ++ take n (enc b) ++ zeros m) = (bs, |enc bs|, no error)",
            "c03_repair_then_append": "the file truncated to finalLen, with any batch b' appended, reads back as bs ++ [b']",
        },
        engines=[dict(bin="journal", args=["--mode", "c03"], cases_quick=48, cases_thorough=96,
                      profiles=["release"], profiles_thorough=["release", "dev"]),
                 dict(bin="dbeng", args=["--mode", "c03"], cases_quick=320, cases_thorough=6000, profiles=["release"])],
        rule="dbeng: crash images of programs with multi-keyspace batches where the keyspaces are flushed at different times "
             "(a batch must be recovered as a whole or not at all: the image's content is compared with 'every acknowledged "
             "operation', each entirely). journal: case = random program (single writes, removes, weak removes, clears, multi-keyspace batches, "
             "single-writer transactions; values on both sides of the 4096 compression threshold; lz4/none) run on "
             "the real crate; its journal is compared bit-for-bit with the model writer, then cut at every offset of "
             "the last batch (byte budget) x zero paddings {0, small, 64 MiB} and read by the real reader (hook), the "
             "model reader and the oracle 'exactly the complete batches before the cut'; sampled real reopen + append "
             "+ reopen. non-trivial = journal has >= 2 batches, one multi-item; distinct = hash of the batch list",
        trusted_base=JOURNAL_TB,
        assumptions=["process-crash image = bytes of completed write(2) calls (OS page cache semantics)",
                     "the journal tail after a torn append is the preallocated zero padding or end of file"],
        level_text="Lean 4 theorems (kernel-checked, unbounded in batch list, cut offset and padding) about an executable "
                   "model of the journal codec and reader; the model is tied to the code on every run by a bit-exact "
                   "writer diff, a reader diff at every cut, and constants/layouts re-extracted from the source",
        level_note="trusted: Lean kernel; xxh3/LZ4 as parameters with stated laws; harness + extractor; OS file semantics",
        technique="Lean 4 proof (induction over batches/entries, prefix-determinism of the decoder) + differential correspondence",
        design_ref="6 C03",
    ),
    "C15": dict(
        title="Journal records round-trip bit-exactly; damage is never read as different data",
        modules=["FjallModel.Props.C15"],
        theorems=["Fjall.Journal.c15_decode_encode", "Fjall.Journal.c15_roundtrip",
                  "Fjall.Journal.c15_emitted_batch_authenticated"],
        statements={
            "c15_decode_encode": "decodeEntry (encodeEntry e ++ rest) = some (e, rest) for every well-formed entry",
            "c15_roundtrip": "readJournal (encodeBatches bs) = (bs, length, no error) for every list of well-formed batches, "
                             "any per-item compression choice",
            "c15_emitted_batch_authenticated": "for ARBITRARY file bytes: every batch readJournal emits sits between a Start and an End marker in the file, "
                             "has the announced item count, is exactly the payload decoded in between, and the stored checksum = h(re-encoding of exactly that payload) "
                             "(different data can only be read through a hash collision)",
        },
        engines=[dict(bin="journal", args=["--mode", "c15"], cases_quick=48, cases_thorough=96,
                      profiles=["release"], profiles_thorough=["release", "dev"])],
        rule="case = random program as for C03 under journal compression lz4 or none; model writer bytes == file bytes; "
             "model reader == real reader == batches written; reopen under the *other* compression setting; "
             "single-byte alterations (boundary bytes: all 255 values sampled; elsewhere +1 / xor 0x80) read by the real "
             "reader and the model reader, oracle 'error or a prefix of the batches, never different items'",
        trusted_base=JOURNAL_TB,
        assumptions=["a 64-bit non-keyed checksum cannot exclude crafted collisions; alteration results are stated under NoAccidentalMatch"],
        level_text="Lean 4 theorems for the codec, the reader round trip (all entries, all batch lists) and reader soundness on arbitrary bytes, tied to the code by "
                   "bit-exact writer comparison and reader comparison incl. altered files",
        level_note="trusted: Lean kernel; xxh3/LZ4 parameters; harness + extractor",
        technique="Lean 4 proof (codec inverses, reader induction) + differential correspondence",
        design_ref="6 C15",
    ),
}

PROPS["C16"] = dict(
    title="Keyspace options chosen at creation stay in force",
    modules=["FjallModel.Props.C16"],
    theorems=["Fjall.Config.c16_options_roundtrip", "Fjall.Config.c16_policy_roundtrip_compression",
              "Fjall.Config.c16_policy_roundtrip_pinning", "Fjall.Config.c16_policy_roundtrip_block_size",
              "Fjall.Config.c16_policy_roundtrip_restart_interval", "Fjall.Config.c16_policy_roundtrip_filter",
              "Fjall.Config.c16_counterexample_ratio_256"],
    statements={
        "c16_options_roundtrip": "forall option sets o within the accepted domain (vectors <= 255 entries, numbers within field widths): "
                                 "fromKvs (lookup (encodeKvs o)) = some o",
        "c16_policy_roundtrip_*": "decPolicy dec (encPolicy enc xs) = some xs for every vector of <= 255 elements, for each element codec",
        "c16_counterexample_ratio_256": "a 256-entry vector is stored with count byte 0 and decodes to [] (finding F17: the guard is exact)",
    },
    engines=[dict(bin="config", cases_quick=400, cases_thorough=20000, profiles=["release"], profiles_thorough=["release", "dev"])],
    rule="case = random KeyspaceCreateOptions built through every public setter (policy vectors of length 1..255, all strategies and "
         "parameters, blob options present/absent, extreme numerics incl. NaN/inf bit patterns); stored meta rows compared bit-exactly "
         "with model encodeKvs; after 1..3 reopens *passing different options* the effective options (read through the struct fields, "
         "get_config() and a hook for crate-private scalars) must equal the creation-time options and the model's fromKvs of the stored "
         "rows. non-trivial = >= 3 options differ from defaults and one vector has a non-default length; distinct = hash of the option set",
    trusted_base=["lsm-tree's policy constructors (accept 1..255 entries) and strategy get_config() are modelled from their source, not verified",
                  "f32 values are carried as bit patterns"],
    assumptions=["option values are observed through public (doc-hidden) struct fields, get_config(), and the cfg(fjall_verif) hook keyspace_scalar_options"],
    level_text="Lean 4 theorems: the six policy codecs and the whole encode_kvs/from_kvs pair are inverse on every accepted option set; tied to "
               "the code by bit-exact comparison of the stored rows and by comparing effective options across reopen",
    level_note="trusted: Lean kernel; harness; lsm-tree constructors/get_config as read; level_count fixed at 7 is not user-settable",
    technique="Lean 4 proof (generic policy-vector round trip + row-lookup evaluation) + differential correspondence",
    design_ref="6 C16",
)

PROPS["C17"] = dict(
    title="One live instance per directory, and only compatible directories open",
    modules=["FjallModel.Props.C17"],
    theorems=["Fjall.Version.c17_version_accepts_iff", "Fjall.Version.c17_refused_open_writes_nothing",
              "Fjall.Version.c17_locked_refuses", "Fjall.Version.c17_open_ok_only_when_free",
              "Fjall.Version.c17_unlocked_after_last_drop", "Fjall.Version.c17_late_lock_spoils_live_directory", "Fjall.Version.c17_open_during_drop_sees_synced_journal", "Fjall.Version.c17_open_during_flush_refused", "Fjall.Version.c17_lock_released_before_sync_counterexample", "Fjall.Version.c17_marker_absent_refused"],
    statements={
        "c17_version_accepts_iff": "forall marker bytes: checkVersion bytes = ok <-> bytes starts with 'F' 'J' 'L' 0x03",
        "c17_refused_open_writes_nothing": "on a directory with a marker, a refused open (wrong/unknown version, or locked) leaves the directory state unchanged",
        "c17_locked_refuses": "while >= 1 handle is alive every open attempt is refused and changes nothing",
        "c17_open_ok_only_when_free": "an open succeeds only from 0 live handles and leaves exactly 1",
        "c17_marker_absent_refused": "a directory that holds keyspaces but no marker is refused with invalid-version and left untouched, whatever journals it holds (repaired, F12)",
    },
    engines=[dict(bin="lockver", cases_quick=240, cases_thorough=4000, profiles=["release"], shards=8)],
    rule="even case seeds: marker file contents (1-byte edits, truncations, extensions, random bytes, other versions) on a real database "
         "directory -> open result class vs model checkVersion vs oracle 'accepted iff prefix FJL\\x03', directory tree hash unchanged on refusal; "
         "odd seeds: random open / clone (Database, Keyspace, tx database handles) / drop orders with second-open attempts while handles live; "
         "open results vs model vs oracle 'ok iff no handle alive'. non-trivial = marker differs from FJL\\x03, or a second open is attempted "
         "while a handle is alive A second open attempted inside the drop of the last handle, at the moment fjall logs 'Dropping journal' (log facade as pause point), must be refused.",
    trusted_base=["flock(2) semantics, thread shutdown and the final journal sync at drop are runtime behaviour: exercised, not proved",
                  "the Dir model abstracts the directory to (marker bytes, 0.jnl present, mutation counter, live-handle count)"],
    assumptions=["one process; handles of all kinds share one lock guard (read from the source: LockedFileGuard is an Arc cloned into every Keyspace)"],
    level_text="Lean 4 theorems about the version gate (all byte strings), the open/lock state machine (all open/clone/drop sequences) and the refusal of a directory "
               "whose marker is absent (after fix F12); partial: OS locking, worker shutdown and drop-time sync are exercised by the engine (incl. drop with background work "
               "pending or still running), not modelled",
    level_note="partial: flock/thread/drop behaviour trusted; model granularity is the directory-level state machine",
    technique="Lean 4 proof (case analysis on marker bytes; state-machine invariants) + differential correspondence",
    design_ref="6 C17",
)

PROPS["C05"] = dict(
    title="Snapshots, read transactions and iterators are frozen in time",
    modules=["FjallModel.Props.C05"],
    theorems=["Fjall.Tracker.c05_tracker_inv", "Fjall.Tracker.c05_tracker_inv_run", "Fjall.Tracker.c05_watermark_monotone",
              "Fjall.Tracker.c05_live_instant_protected", "Fjall.Tracker.c05_counterexample_gc_sentinel",
              "Fjall.Conc.c05_watermark_below_views"],
    statements={
        "c05_watermark_below_views": "Conc model, forall programs and schedules (two-step open under the shared GC lock, write floor, registrations, gc after rotations / ingestions / "
                                     "explicit): the GC watermark is <= the instant of every live view and <= the instant any open in progress will get",
        "c05_tracker_inv": "in every state reachable by open/clone/close/publish/set/gc(any DashMap order)/pullup with nonces closed once: "
                           "table counts every live nonce; watermark <= I-1 for every live instant I; watermark <= visible-1; no future keys",
        "c05_watermark_monotone": "no step decreases the GC watermark (pullup stores visible-1; safe by the invariant)",
        "c05_counterexample_gc_sentinel": "the pre-fix gc (0 as 'nothing yet' marker) on table {5,0,9} in that order yields watermark 8 > live 5 (F19, fixed)",
    },
    engines=[dict(bin="tracker", cases_quick=2000, cases_thorough=40000, profiles=["release"], profiles_thorough=["release", "dev"]),
             dict(bin="conc", cases_quick=240, cases_thorough=6000, profiles=["release"]),
             dict(bin="tx", args=["--mode", "c08"], cases_quick=600, cases_thorough=10000, profiles=["release"])],
    rule="conc: schedule-controlled threads (see C06) with tracker GC runs and GC-lock block probes (a gc started while an open() is parked between its two loads must wait), "
         "watermark compared with the model after every step, oracle 'watermark <= every live snapshot instant'. tracker: views are snapshots, clones of snapshots and iterators created from snapshots, dropped in any order, with writes / removes, memtable rotation + flush + queued compactions, major compactions in between; after every step every live view is read (point read, sometimes a full scan; iterators are advanced) and must show exactly the content it had at creation and never panic; open_snapshots() must equal the number of live views. case = random sequence of snapshot open (half the cases start with a snapshot of the fresh database, instant 0) / drop / writes "
         "(publish) / keyspace creation / tracker gc / pullup on a real database; after every step open_snapshots(), the GC watermark and "
         "the visible seqno are compared with the Lean tracker model, and the oracle 'watermark <= every live instant > 0' is checked. "
         "non-trivial = two nonces share an instant or a gc runs while a nonce is alive Views of the tracker engine include write transactions of a single-writer database (snapshot at the current instant, one batch, release).",
    trusted_base=["stage 1 covers the tracker; version history (lsm-tree SuperVersions) and iterators are modelled in later stages",
                  "DashMap/RwLock atomicity of single tracker operations is trusted"],
    assumptions=["each SnapshotNonce is closed exactly once (Clone/Drop discipline)"],
    level_text="Lean 4 invariant proofs: the tracker (all histories, all DashMap visiting orders: the watermark never passes a live instant) and the Conc model "
               "(all schedules: two-step open under the shared GC lock, write floor, registrations, GC after rotations / ingestions), tied to the real SnapshotTracker by "
               "step-by-step comparison of its observables, a frozen-content oracle on real views (snapshots, clones, iterators) and schedule-controlled real threads",
    level_note="partial: thread schedules and lsm-tree's version history are trusted/exercised",
    technique="Lean 4 proof (inductive invariant over operation histories) + differential correspondence",
    design_ref="6 C05",
)

PROPS["C08"] = dict(
    title="Transaction-local semantics: read-your-writes, last write wins, clean rollback",
    modules=["FjallModel.Props.C08"],
    theorems=["Fjall.Tx.c08_ryow", "Fjall.Tx.c08_point_scan_agree", "Fjall.Tx.c08_commit_final_write_once",
              "Fjall.Tx.c08_commit_equals_view", "Fjall.Tx.c08_read_only_commit_emits_nothing",
              "Fjall.Sw.c08_single_writer_serial", "Fjall.Sw.c08_no_lost_update", "Fjall.Sw.c08_snapshot_before_lock_counterexample"],
    statements={
        "c08_single_writer_serial": "forall thread counts, job lists (write transactions with any program ending in commit / rollback, read-only snapshots) and "
                                    "thread schedules: at most one thread holds the single-writer lock; the committed log = the committed transactions' batches in "
                                    "commit order; every committed transaction returned and wrote what it returns and writes when run alone on the log its "
                                    "predecessors left; every read-only snapshot saw a committed prefix",
        "c08_no_lost_update": "forall schedules: concurrent read-modify-write appends to one key end in the concatenation of ALL committed pieces in commit order",
        "c08_snapshot_before_lock_counterexample": "with the snapshot opened before the lock (seeded change C08-1) two appends commit and one byte is stored",
        "c08_ryow": "forall snapshots and in-transaction programs (reads, scans with any bounds, inserts, removes, take/fetch_update/update_fetch "
                    "with any update function, any number of keyspaces): every output = output of a plain map per keyspace with each write applied at once",
        "c08_point_scan_agree": "(k,v) is in the transaction's scan view iff get k = some v",
        "c08_commit_final_write_once": "the commit batch holds, per (keyspace,key) written, exactly the newest entry, once",
        "c08_commit_equals_view": "applying the commit batch to the snapshot gives the transaction's final view",
    },
    engines=[dict(bin="tx", args=["--mode", "c08"], cases_quick=1600, cases_thorough=40000, profiles=["release"], profiles_thorough=["release", "dev"]),
             dict(bin="swtx", args=[], cases_quick=240, cases_thorough=6000, profiles=["release"], profiles_thorough=["release", "dev"])],
    rule="swtx: case = 2-5 real threads with 1-3 jobs each (write transactions ending commit / rollback / drop, read-only snapshots; counter-style "
         "read-modify-writes on a hot key) on a SingleWriterTxDatabase, stepped one at a time through the pause points swtx.locked / swtx.committed and "
         "harness points between operations under a random schedule incl. block probes (a write_tx released while the lock is held must not get "
         "through); every step's outcome compared with the Lean Sw model; oracles: lock holders never overlap, every transaction's observations = "
         "serial replay on a plain map at its commit point (read-only: at its snapshot), final content. non-trivial = >= 2 threads committed and a "
         "thread stepped or probed while another held the lock. tx --mode c08: case = one transaction on the optimistic or the single-writer database (random), 1-2 keyspaces seeded with random rows, 3-25 ops over a "
         "small colliding key alphabet (all read methods, all write methods, 5 update-function families), ending commit / rollback / drop; every "
         "output compared with the Lean model and with a BTreeMap overlay oracle; content outside the transaction sampled before commit; final "
         "content compared. non-trivial = a key written >= 2x, or a scan after a write to that keyspace",
    trusted_base=["lsm-tree's merge of the ephemeral memtable into scans is modelled as 'own newest entry wins' and exercised",
                  "the commit of a single-writer transaction is one step of the Sw model: its atomicity / visibility before return is C06's theorem"],
    assumptions=["the snapshot is frozen (C05)", "all writes go through the transactional keyspace handles (inner() is doc-hidden and bypasses the lock)"],
    level_text="Lean 4 refinement proof: the transaction model refines a plain map per keyspace for every program; commit batch characterised exactly; "
               "single-writer transactions serial for every thread schedule (invariant over the Sw thread model); "
               "tied to both transactional databases by per-operation output comparison and by schedule-controlled real threads",
    level_note="trusted: Lean kernel; harness; lsm-tree memtable/merge; std::sync::Mutex",
    technique="Lean 4 proof (forward simulation to a reference map, list lemmas) + differential correspondence",
    design_ref="6 C08",
)

PROPS["C07"] = dict(
    title="Optimistic transactions are serializable",
    modules=["FjallModel.Props.C07"],
    theorems=["Fjall.Tx.c07_footprint_sound", "Fjall.Tx.c07_validated_commit_replays", "Fjall.Tx.c07_writes_marked",
              "Fjall.Tx.c07_counterexample_size_of_unmarked", "Fjall.Tx.c07_serializable", "Fjall.Tx.c07_readonly_at_snapshot",
              "Fjall.Tx.c07_conflict_no_effect", "Fjall.CommitMutex.c07_commit_mutex_atomic", "Fjall.CommitMutex.c07_validation_still_holds_at_apply",
              "Fjall.CommitMutex.c07_ssi_commit_is_atomic", "Fjall.CommitMutex.c07_mutex_released_after_validation_counterexample"],
    statements={
        "c07_commit_mutex_atomic": "thread model of Oracle::with_commit (lock; validate + prune; apply + register; unlock as separate steps; any validation / application semantics, any number of threads "
                                   "and commit requests, every schedule): at most one thread is inside a commit, the verdicts are those of the finished commits executed one after the other as single events, "
                                   "and whenever nobody is inside a commit the shared state is that sequential state",
        "c07_ssi_commit_is_atomic": "the event model's commit (SsiDb.commit, which c07_serializable is about) is the atomic commit of the instance ssiSem of that thread model, followed by the nonce drop",
        "c07_mutex_released_after_validation_counterexample": "with the mutex released between validation and application (seeded change C07-7) two threads commit a write skew that no sequential order allows",
        "c07_footprint_sound": "for every in-transaction program: if two snapshots agree on every key covered by the recorded footprints, all outputs and the write set are equal",
        "c07_validated_commit_replays": "if validation finds no conflict with the transactions committed since the snapshot, re-executing the program on the state at the "
                                        "commit point yields the same observations and the same commit batch (serializable in commit order)",
        "c07_writes_marked": "every key written is in the conflict-key set",
        "c07_counterexample_size_of_unmarked": "with size_of recording nothing (pre-fix), footprint soundness fails (finding F7, fixed)",
        "c07_serializable": "forall histories (any number of open transactions; begin / op / commit / rollback / gc events in any order): the committed writers, "
                            "executed one after the other in commit order each on the log its predecessors produced, return the outputs they returned "
                            "concurrently and write exactly the batches of the committed log (conflict-table pruning included)",
        "c07_readonly_at_snapshot": "forall histories: every read-only transaction's outputs = executing it alone on the committed state of its snapshot",
        "c07_conflict_no_effect": "a refused commit leaves log and seqno unchanged",
    },
    engines=[dict(bin="tx", args=["--mode", "c07"], cases_quick=1600, cases_thorough=50000, profiles=["release"], profiles_thorough=["release", "dev"])],
    rule="case = history of <= 4 concurrently open optimistic transactions over 1-2 keyspaces driven from one thread: begin / any read or write "
         "method / commit / rollback or drop / single-operation helper writes / tracker gc, 6-45 events over a small colliding key alphabet incl. "
         "inverted and empty ranges; every output, commit outcome and the counters (seqno, visible, open snapshots, watermark) compared with the "
         "Lean model; oracle: each committed writer's observations replayed serially at its commit point (read-only ones at their snapshot), "
         "committed content = serial result after every commit. non-trivial = >= 2 commits and a writer overlapped another commit or a conflict occurred",
    trusted_base=["commit is atomic under the oracle mutex (one thread drives the history; multi-thread commit interleavings are the Conc stage)",
                  "the whole-history theorem is over the sequential event model (one event at a time); the mutex that makes commit one event is C06/C14's Conc model"],
    assumptions=["snapshots are frozen (C05)", "the tracker discipline holds (after the F5 fix)"],
    level_text="Lean 4 theorems: footprint soundness for every read method, the per-commit serializability step, and serializability of whole histories "
               "by induction over events (incl. conflict-table pruning), for all programs; tied to the "
               "real OptimisticTxDatabase by comparing outcomes/observations of random concurrent histories and by a serial-replay oracle",
    level_note="whole-history theorem proved over the event model; multi-threaded commit schedules rest on the commit mutex (modelled, not proved here)",
    technique="Lean 4 proof (footprint soundness by case analysis on operations, agreement-on-footprint argument) + differential correspondence",
    design_ref="6 C07",
)

PROPS["C01"] = dict(
    title="Ordered-map equivalence under background maintenance",
    modules=["FjallModel.Props.C01"],
    theorems=["Fjall.Mvcc.c01_refines_map", "Fjall.Mvcc.c01_get_scan_agree", "Fjall.Mvcc.c01_maintenance_invisible",
              "Fjall.Mvcc.c01_invariant_reachable"],
    statements={
        "c01_refines_map": "forall programs over any number of keyspaces (insert, remove, batch, clear, ingest) with rotate / flush(any watermark) / "
                           "compact(any contiguous segment, any watermark, tombstone eviction at the last run) anywhere: every read output "
                           "(get, contains, size_of, range scans, len, is_empty, first, last) = output of a plain sorted map per keyspace with maintenance erased",
        "c01_get_scan_agree": "in every reachable state (k,v) is in the scan iff get k = some v",
        "c01_maintenance_invisible": "rotate, flush w, compact i n w never change absGet, for any tree satisfying the invariant",
        "c01_invariant_reachable": "Ordered (lookup order = seqno order) and Distinct hold in every reachable state",
    },
    engines=[dict(bin="kv", cases_quick=640, cases_thorough=20000, profiles=["release"], profiles_thorough=["release", "dev"]),
             dict(bin="conc", cases_quick=240, cases_thorough=6000, profiles=["release"])],
    rule="case = program of 20-70 (thorough: 200) ops over 1-3 keyspaces x configurations {standard | blob-separated (threshold 64 B)} x "
         "{default | 1 KB memtable}; writes: insert, remove, multi-keyspace batch, clear, sorted bulk ingestion with tombstones; maintenance as a "
         "controlled input with 0 worker threads: rotate_memtable, one queued worker message at a time (flush / compact / rotate) through the "
         "verif_worker_step hook, major_compact, journal rotation; reads: get, contains_key, size_of, range with every bound kind (forward, "
         "reverse, consumed from both ends), prefix incl. empty and 0xFF prefixes, len, is_empty, first/last; each output compared with the Lean "
         "model and a BTreeMap; final dumps three ways + point reads of every key. non-trivial = an overwritten/removed key is read (or a scan "
         "runs) after a maintenance step that followed the overwrite; distinct = hash of the op trace",
    trusted_base=["lsm-tree's tables, blocks, filters, blob files, merge iterator and compaction strategies are modelled as 'runs of versioned entries' "
                  "(first-hit point reads, newest-visible scans, CompactionStream GC rule) and exercised, not verified",
                  "strategy-chosen compactions are not mirrored structurally in the model run (every segment choice is proved invisible)",
                  "remove_weak (documented as undefined after an overwrite) and FIFO compaction with overlapping runs (lsm-tree asserts disjoint L0) are outside"],
    assumptions=["single thread; a batch / an ingestion names each key of a keyspace at most once"],
    level_text="Lean 4 refinement theorem over all programs, maintenance placements, segments and watermarks (forward simulation to a sorted map; "
               "invariant: lookup order = seqno order), tied to the real crate by running the same program on both with every background step made "
               "a deterministic input",
    level_note="trusted: Lean kernel; harness; lsm-tree internals as modelled; OS scheduling of real worker threads is covered by C14's stage",
    technique="Lean 4 proof (inductive invariant + forward simulation; compaction-stream GC characterised as a filter) + differential correspondence",
    design_ref="6 C01",
)

DB_TB = ["log-level model: a keyspace's tables / memtables are the operations they reflect; first-hit reads and GC inside tables are the Mvcc layer (C01)",
         "stage 1 covers databases whose journal has not been rotated for the recover theorem (sealed journals, the skip rule and eviction are modelled and "
         "compared by the engine, their end-to-end theorem is stage 2)",
         "process crash = the bytes of completed write(2) calls survive (OS page cache); lsm-tree's own file protocol (manifest swap, table fsync) is trusted"]

PROPS["C04"] = dict(
    title="Close and reopen reproduces exactly the same logical content",
    modules=["FjallModel.Props.C04"],
    theorems=["Fjall.Db.c04_reopen_same", "Fjall.Db.c04_reopen_same_keyspaces", "Fjall.Db.c04_replay_idempotent", "Fjall.Db.c04_ingested_tombstone_comes_back"],
    statements={
        "c04_reopen_same": "forall histories (create/delete keyspace, write, batch, clear, memtable rotate, flush, bulk ingestion of values, lowered persisted seqno after tombstone "
                           "eviction, journal rotation, eviction of sealed journals by maintenance, earlier reopen cycles): abs (recover db) id ~ abs db id for every keyspace id, where "
                           "recover replays the sealed journals oldest first, then the active one, each record only if above the highest seqno found in the keyspace's tables, and seals "
                           "the memtables after each sealed journal",
        "c04_ingested_tombstone_comes_back": "counterexample (known finding F13-ingest): with an ingested tombstone evicted by compaction, recover brings the deleted key back",
        "c04_reopen_same_keyspaces": "the same (id, name) list comes back",
        "c04_replay_idempotent": "re-applying an already reflected clear-free suffix followed by the rest changes nothing",
    },
    engines=[dict(bin="dbeng", args=["--mode", "c04"], cases_quick=480, cases_thorough=10000, profiles=["release"], profiles_thorough=["release", "dev"])],
    rule="case = program of 12-45 (thorough 90) events over up to 3 keyspace names: create / delete (handles kept or dropped) / insert, remove, multi-keyspace batch, clear / "
         "memtable rotation / all queued worker messages (flush, compaction) / major compaction / journal rotation (hook) / journal maintenance / clean reopen / "
         "process-crash image (sparse copy of the directory, reopened) / full check; after every event journal_count is compared with the model; contents are compared "
         "three ways (real scan + point reads, Lean log-level model, reference map per name). non-trivial = a reopen or crash image while both tables and journal "
         "hold data, or a journal eviction happened",
    trusted_base=DB_TB,
    assumptions=["ingested tombstones (known finding F13-ingest) and compaction filters (C18) are outside the theorem's hypothesis ProgWF", "single thread",
                 "the highest persisted seqno observed after a compaction satisfies KsL.physOk (a newest-for-its-key value is never dropped); the driver checks this on every observed value"],
    level_text="Lean 4 theorem: recovery reproduces every keyspace for all histories incl. journal rotation, eviction of sealed journals, ingestion of values, tombstone eviction and earlier reopens "
               "(inductive coverage invariant DInv: seqno order within and across journal files, watermarks cover what is only in memory, stale re-replayed tails are invisible), "
               "tied to the real crate by an engine that replays the same histories, takes crash images and issues refused (invalid-key) operations",
    level_note="the theorem covers sealed journals and eviction; compaction filters and ingested tombstones are outside ProgWF (known findings F13)",
    technique="Lean 4 proof (coverage invariant over operation histories, last-writer-wins idempotence) + differential correspondence",
    design_ref="6 C04",
)
PROPS["C02"] = dict(
    title="Acknowledged writes survive a process crash, in commit order",
    modules=["FjallModel.Props.C02"],
    theorems=["Fjall.Db.c02_crash_prefix", "Fjall.Db.c02_crash_mid_operation", "Fjall.Journal.c03_torn_tail"],
    statements={
        "c02_crash_prefix": "crash at an operation boundary: recovery yields exactly the state of all acknowledged operations (all keyspaces)",
        "c02_crash_mid_operation": "the in-flight batch is in the journal completely or not at all (c03_torn_tail); both cases recover to the state of a prefix of the committed operations",
    },
    engines=[dict(bin="dbeng", args=["--mode", "c02"], cases_quick=480, cases_thorough=10000, profiles=["release"]),
             dict(bin="journal", args=["--mode", "c03"], cases_quick=24, cases_thorough=48, profiles=["release"]),
             dict(bin="fault", args=["--mode", "c02"], cases_quick=48, cases_thorough=240, profiles=["release"])],
    rule="fault --mode c02: journal workloads on a plain, single-writer-transactional or optimistic-transactional database (inserts, removes, clears, batches and "
         "write transactions with every durability level or the default, persists, journal rotations; manual and automatic journal persist) killed before a "
         "system call; the directory as the OS has it is reopened and must hold a prefix containing every acknowledged operation up to the last one whose journal "
         "bytes had to be handed to the OS. dbeng: crash images (directory copies with 0 worker threads = process-crash image) at random points of programs with flushes, journal rotation and eviction, "
         "reopened and compared with 'every acknowledged operation'; journal: every byte cut of the last batch x zero paddings, real reader + sampled real reopen + append + reopen",
    trusted_base=DB_TB,
    assumptions=["default journal persist mode (Buffer per operation)", "crashes inside lsm-tree's flush/compaction file protocol are trusted"],
    level_text="Lean 4 theorems: acknowledged prefix at operation boundaries (log level) composed with the byte-level torn-tail theorem; crash images of real runs compared",
    level_note="partial: syscall-granular kill enumeration (shim) and crashes during recovery itself are not yet built",
    technique="Lean 4 proof (C04 coverage invariant + C03 torn tail) + crash-image correspondence",
    design_ref="6 C02",
)
PROPS["C10"] = dict(
    title="A journal file is deleted only when nothing in it is still needed",
    modules=["FjallModel.Props.C10"],
    theorems=["Fjall.Db.c10_evicts_oldest_flushed_only", "Fjall.Db.c10_watermark_covers_memory", "Fjall.Db.c10_returns_to_one", "Fjall.Db.c10_crash_after_eviction_loses_nothing"],
    statements={
        "c10_evicts_oldest_flushed_only": "maintenance removes a prefix of the sealed journals only, touches nothing else, and each removed journal had every watermark (ks, lsn) satisfied: keyspace deleted, or persisted >= lsn, or nothing held in memory",
        "c10_crash_after_eviction_loses_nothing": "forall reachable states (any history incl. journal rotations, flushes in any order, earlier evictions, reopens): maintenance followed by a crash and recovery yields the content before",
        "c10_returns_to_one": "if every live keyspace holds nothing in memory (all flushed), maintenance removes every sealed journal (repaired, F10)",
        "c10_watermark_covers_memory": "at journal rotation every keyspace with unflushed records gets a watermark >= each of their seqnos",
    },
    engines=[dict(bin="dbeng", args=["--mode", "c10"], cases_quick=480, cases_thorough=10000, profiles=["release"])],
    rule="as C04; journal_count after every event vs the model's eviction rule (the persisted seqno after last-level compactions is an observed input that only "
         "lowers the model's value); crash images after evictions; 'flush every keyspace + maintenance => one journal file' as an implementation-only oracle Once per run: a bulk ingestion held at ingest.locked while a writer of its keyspace starts (held at write.drawn if it gets that far), then journal rotation, maintenance and a crash image.",
    trusted_base=DB_TB,
    assumptions=["crash = process crash at an operation boundary (files as of the last completed operation); torn tails are C03"],
    level_text="Lean 4 theorems about the eviction rule and the rotation watermarks, and end to end: in every reachable state a crash right after an eviction loses nothing; "
               "tied to the code by journal counts after every event, crash images after evictions and writers racing journal rotations",
    level_note="partial: end-to-end theorem over sealed journals is stage 2; the real >64 MB trigger is replaced by a hook calling the same rotate_journal",
    technique="Lean 4 proof (prefix-removal induction, fold maximum) + differential correspondence",
    design_ref="6 C10",
)
PROPS["C11"] = dict(
    title="After reopening, new writes supersede everything recovered",
    modules=["FjallModel.Props.C11"],
    theorems=["Fjall.Db.c11_seqno_dominates", "Fjall.Db.c11_overwrite_wins"],
    statements={
        "c11_seqno_dominates": "for every disk state: after recover the seqno counter exceeds every seqno in any table, memtable and journal record (resolved or not)",
        "c11_overwrite_wins": "a put to a live keyspace is what get returns afterwards; a remove hides the key",
    },
    engines=[dict(bin="dbeng", args=["--mode", "c11"], cases_quick=480, cases_thorough=10000, profiles=["release"])],
    rule="as C04; after every reopen: Database::seqno() > highest batch seqno found in every journal file (read with the real reader from copies) and > every tree's highest "
         "seqno, visible = seqno; programs continue with overwrites / removes / checks after each reopen",
    trusted_base=DB_TB,
    assumptions=[],
    level_text="Lean 4 theorem over every disk state for the counter; overwrite/remove semantics at log level; engine checks the real counter against the real journal files",
    level_note="the model does not draw the extra seqnos tree.clear() consumes during replay (the real counter is only ever higher)",
    technique="Lean 4 proof (fold maximum) + differential correspondence",
    design_ref="6 C11",
)
PROPS["C12"] = dict(
    title="Keyspaces are isolated, and a deleted keyspace never comes back",
    modules=["FjallModel.Props.C12"],
    theorems=["Fjall.Db.c12_isolation", "Fjall.Db.c12_deleted_is_gone", "Fjall.Db.c12_new_id_is_fresh", "Fjall.Db.c12_recreated_is_empty"],
    statements={
        "c12_isolation": "a write / batch / clear that does not name keyspace b leaves b's content unchanged",
        "c12_new_id_is_fresh": "in every reachable state a newly created keyspace gets an id that no live keyspace has and no journal record carries",
        "c12_recreated_is_empty": "creating a name that does not exist yields an empty keyspace",
    },
    engines=[dict(bin="dbeng", args=["--mode", "c12"], cases_quick=480, cases_thorough=10000, profiles=["release"])],
    rule="as C04 with create / delete / re-create over 3 names, stale handles kept or dropped, reopen and crash images anywhere; stale handles must refuse writes; directory "
         "of a deleted keyspace gone after the last handle and queued work; ids vs the model (journal-aware reseed); contents vs reference map per name Insert / remove / remove_weak through the handle of a deleted keyspace must be refused.",
    trusted_base=DB_TB,
    assumptions=["a deleted keyspace's directory may outlive the user's last handle while a sealed journal's watermark list holds a clone (finding F16)"],
    level_text="Lean 4 theorems: isolation, fresh ids in every reachable state (no id is reused while a journal mentions it), re-created names start empty; engine covers crash/reopen at every point",
    level_note="partial: sealed-journal histories in the engine only",
    technique="Lean 4 proof (invariant over histories) + differential correspondence",
    design_ref="6 C12",
)

WR_TB = ["std::io::BufWriter is modelled from its documented / observed rule (flush-before-overflow, bypass for writes >= capacity, unwritten bytes stay buffered after a failed flush); validated by syscall-trace equality on every run",
         "the LD_PRELOAD shim (shim/crashshim.c) interposes write / fsync / fdatasync / ftruncate on *.jnl files of the child process",
         "device behaviour below fsync, metadata durability and lsm-tree's table files are outside the model"]
PROPS["C09"] = dict(
    title="persist(SyncData|SyncAll) makes all earlier writes power-loss durable",
    modules=["FjallModel.Props.C09"],
    theorems=["Fjall.Journal.c09_sync_durable", "Fjall.Journal.c09_manual_buffer", "Fjall.Journal.c09_inv_after_write", "Fjall.Journal.c09_inv_after_persist",
              "Fjall.Journal.c09_rotate_seals_durably", "Fjall.Journal.c09_journal_files_survive_power_loss", "Fjall.Journal.c09_fresh_filesOk",
              "Fjall.Journal.c09_rotate_without_folder_sync_loses_file"],
    statements={
        "c09_journal_files_survive_power_loss": "for every operation sequence with any number of journal rotations under any fault plan, from a state satisfying FilesOk (the fresh database does: c09_fresh_filesOk): "
                                                "after a power loss every journal file created so far is in the folder, the sealed ones whole, the active one up to its last sync (rests on the folder fsync in rotate, "
                                                "which is an event of the compared trace)",
        "c09_rotate_without_folder_sync_loses_file": "without the folder fsync (seeded change C09-7) a write made durable with SyncAll after a rotation sits in a file a power loss removes",
        "c09_sync_durable": "under every fault plan: persist(SyncData|SyncAll) = Ok implies the user-space buffer is empty and synced = file length",
        "c09_rotate_seals_durably": "a successful journal rotation leaves the sealed file holding every byte handed to the writer before it, all covered by the fsync; the new file starts empty",
        "c09_manual_buffer": "persist(Buffer) = Ok implies the user-space buffer is empty (manual journal persist)",
        "c09_inv_*": "the writer never holds buffered bytes while is_buffer_dirty is false, after every append and persist",
    },
    engines=[dict(bin="fault", args=["--mode", "c09"], cases_quick=64, cases_thorough=320, profiles=["release"], shards=8, timeout_quick=900)],
    rule="case = journal workload (insert, remove, clear, batches with every durability incl. none, persist with every mode; values 0 B .. 9000 B so that the 8 KiB "
         "BufWriter overflows and is bypassed; journal rotations; manual persist on/off; lz4/none) run in a child process under the shim: (1) the syscall trace (write sizes, fsync / "
         "fdatasync, creation of a journal file, fsync of the journal folder) must equal the Lean writer model's trace and the file bytes the model's bytes; (2) power-loss images: the child is killed before syscall n "
         "(sampled; all n in thorough), every journal file is cut to the length covered by its own last successful sync (from the shim log, per file descriptor), the active one zero-padded, reopened: the "
         "content must be the state of a prefix of the operations containing everything acknowledged before the last acknowledged sync. non-trivial = a sync "
         "persist occurs strictly inside the workload One more image per workload is taken after the clean drop of the database: every operation must be there.",
    trusted_base=WR_TB + JOURNAL_TB,
    assumptions=["fsync/fdatasync make all previously written bytes of the file durable", "fsync of a directory makes the entries of the files created in it before durable"],
    level_text="Lean 4 theorems about the BufWriter + writer state machine under arbitrary fault plans; tied to the real process by syscall-trace equality and byte equality, "
               "plus power-loss images reopened with the real crate",
    level_note="partial: the device and file-system layers below the syscalls are assumed, rotation / drop are covered by the same persist theorem",
    technique="Lean 4 proof (state-machine invariants, induction over flush loops) + syscall-trace correspondence + power-loss images",
    design_ref="6 C09",
)
PROPS["C13"] = dict(
    title="Fail-stop after a journal I/O failure",
    modules=["FjallModel.Props.C13"],
    theorems=["Fjall.Journal.c13_fail_stop", "Fjall.Journal.c13_error_poisons", "Fjall.Journal.c13_poisoned_is_inert"],
    statements={
        "c13_fail_stop": "for every workload and fault plan: if operation i reported an error then every later insert / remove / clear / non-empty batch / commit / persist returns Poisoned",
        "c13_error_poisons": "every write path sets the poison flag on any journal I/O error (incl. the append of a batch / clear marker, finding F8 fixed)",
    },
    engines=[dict(bin="fault", args=["--mode", "c13"], cases_quick=64, cases_thorough=600, profiles=["release"], shards=8, timeout_quick=900)],
    rule="case = journal workload as for C09; for n in a sample of the journal syscalls (all n in thorough): the n-th and every later syscall fails with EIO / ENOSPC / "
         "after a short write; per-operation results must equal the model's; oracle: no acknowledgement after the first error; reopening without faults yields a "
         "prefix of the acknowledged operations containing everything acknowledged up to the last acknowledged buffer flush, optionally followed by whole failed "
         "operations. non-trivial = the first failing operation is neither the first nor the last Once per run the failing call is the fsync of the worker's own journal rotation (66 MiB journal, one worker thread): every later write must be refused and dropping the database must return.",
    trusted_base=WR_TB + JOURNAL_TB,
    assumptions=["one writer thread (the poison flag is read under the journal lock; multi-thread clause is the Conc stage)"],
    level_text="Lean 4 theorem: fail-stop for all workloads and fault plans (permanent or transient, failing or short system calls) on the modelled write paths; tied to the "
               "code by injecting the same faults into a real process",
    level_note="partial: multi-threaded writers and worker-thread poisoning are not in the model",
    technique="Lean 4 proof (case analysis of every write path, induction over the workload) + fault-injection correspondence",
    design_ref="6 C13",
)

PROPS["C18"] = dict(
    title="Compaction filters act only where assigned, and only as their verdicts say",
    modules=["FjallModel.Props.C18"],
    theorems=["Fjall.Mvcc.c18_filtered_either", "Fjall.Mvcc.c18_keep_untouched", "Fjall.Mvcc.c18_filtered_monotone",
              "Fjall.Mvcc.c18_unfiltered_unchanged", "Fjall.Mvcc.c18_assignment"],
    statements={
        "c18_filtered_either": "forall filters f (key -> keep | remove | replace v), trees satisfying the C01 invariant, maintenance sequences (rotate, flush w, filtered compaction of any "
                               "segment with any watermark) and keys: the visible value is the original one or filtered f k original, nothing else",
        "c18_keep_untouched": "f k = keep implies the visible value never changes under any maintenance sequence",
        "c18_filtered_monotone": "once a key shows its filtered form, every further maintenance sequence keeps showing it",
        "c18_unfiltered_unchanged": "a compaction without filter changes no visible value (C01)",
        "c18_assignment": "in every state reachable by create / delete / reopen, hasFilter k = assigner(k.name) for every live keyspace",
    },
    engines=[dict(bin="filt", cases_quick=320, cases_thorough=8000, profiles=["release"])],
    rule="case = assigner variant (by name: only f*, all, none) x program over keyspaces f1, f2, u1: inserts / removes / overwrites of keys whose first byte fixes the verdict "
         "(k* keep, r* remove, p* replace by a key-derived value), rotations, queued worker steps, major compactions, reopen anywhere; after every step every key of every "
         "keyspace is read: keep-keys and all keys of unassigned keyspaces must equal the reference map, filtered keys must show original or filtered form and stay filtered "
         "once seen until rewritten; keyspace_has_compaction_filter (hook) == assigner(name) after create and after reopen; the Mvcc filter model is run on the same program "
         "until the first reopen. non-trivial = a filtered key was observed in filtered form and a reopen happened The tree's own configuration must carry the filter factory exactly where assigned; keyspaces with FIFO strategy, key-value separation and a small memtable are probed created and recovered.",
    trusted_base=["lsm-tree's CompactionStream filter hook is modelled as 'map the visible (newest, above-watermark) entry of each key of the compacted segment through the verdict, "
                  "then the C01 GC rule'; exercised, not verified",
                  "keyspace_has_compaction_filter (cfg fjall_verif hook) reports the factory stored in the keyspace's tree config"],
    assumptions=["deterministic filters deciding from the key", "single thread",
                 "reopen while the journal still holds a record of a key the filter removed is the known finding F13-remove (excluded from the random exploration, probed by a stored witness)"],
    level_text="Lean 4 theorems over all filters, maintenance sequences and keys (on top of the C01 tree invariant) plus the assignment invariant over create / delete / reopen histories; "
               "tied to the real crate by the filt engine with every background step a deterministic input",
    level_note="partial: reopen of a filtered keyspace is covered by the engine and the log-level recovery theorem (C04), not by a combined theorem",
    technique="Lean 4 proof (per-key case analysis of the filtered compaction over the C01 invariant; invariant over keyspace histories) + differential correspondence",
    design_ref="6 C18",
)

CONC_TB = ["the Conc model abstracts memtables, tables and the journal file to 'the list of applied versioned entries' and 'the list of journaled writes'; flush / compaction / keyspace creation appear only "
           "as version registrations (draw a seqno, advance the shared visible seqno); their content-neutrality is C01's theorem",
           "atomicity of the modelled steps: seqno generator next(), visible-seqno fetch_max, write-floor store/load, one memtable insert, mutex acquire/release are taken as atomic (std atomics, crossbeam skiplist, std Mutex)",
           "pause points (cfg fjall_verif) make the schedule an input at the granularity of the model's steps; interleavings *inside* lsm-tree calls (a memtable insert, a version registration) are not controlled",
           "OS scheduling fairness is not modelled (liveness is not claimed beyond the lock discipline)"]
PROPS["C06"] = dict(
    title="A committed batch becomes visible to readers atomically",
    modules=["FjallModel.Props.C06"],
    theorems=["Fjall.Conc.c06_atomic", "Fjall.Conc.c06_commit_order", "Fjall.Conc.c06_view_below_inflight", "Fjall.Conc.c06_unrepaired_counterexample"],
    statements={
        "c06_atomic": "forall thread programs (writes of any number of items over any keyspaces, snapshot opens, reads through views, latest reads, version registrations, rotations) and "
                      "forall schedules: every read through a view with instant i returns the value of the state in which exactly the writes with seqno < i are applied, each entirely",
        "c06_commit_order": "journal order = seqno order (strictly increasing), so a view that sees a write sees every write committed before it",
        "c06_view_below_inflight": "in every reachable state every view's instant is at most the seqno of the write holding the journal lock and at most the seqno generator",
        "c06_unrepaired_counterexample": "with open() handing out the raw counter (code before the fix of finding F6) a 13-step schedule violates atomic visibility (closed term, by decide)",
    },
    engines=[dict(bin="conc", cases_quick=480, cases_thorough=12000, profiles=["release"], profiles_thorough=["release", "dev"]),
             dict(bin="swtx", args=[], cases_quick=160, cases_thorough=3000, profiles=["release"])],
    rule="swtx (committed transactions): as C08; half of the commits are held at write.unlocked, i.e. right after the transaction's journal batch left its critical "
         "section, while read-only snapshots of other threads read keys of all keyspaces it wrote; a second batch inside one commit is a violation. "
         "conc: case = 1-3 writer threads (inserts, removes, multi-item multi-keyspace batches, latest reads, memtable rotations) + 1-2 reader threads (snapshot; 2-4 reads through it; again) as real "
         "threads parked at pause points (journal lock taken, write floor set, seqno drawn, after each item, published, unlocked; counter loaded inside open()), released one step at a time "
         "by a controller following a random schedule, with version registrations (compactions of a side keyspace) in between and block probes (a thread released into a held journal lock "
         "must not get past it); after every step counter / visible seqno / write floor / snapshot instants / read results are compared with the Lean model run on the same schedule; "
         "implementation-only oracle: every snapshot read equals 'all writes with seqno below the instant, each entirely', final content equals the acknowledged writes in seqno order. "
         "non-trivial = another thread acted while a writer was between seqno draw and publish, and at least one read went through a snapshot The conc engine also runs, once per run, every single-write path (insert / remove / remove_weak / one-item batch) queued behind a writer held at write.locked: the write that took the lock last decides get, scan and snapshot.",
    trusted_base=CONC_TB,
    assumptions=["a batch names each key of a keyspace at most once", "Keyspace::clear is not an MVCC operation and is outside this property's model"],
    level_text="Lean 4 theorem over all programs and schedules of a small-step model at lock / atomic granularity (inductive invariant: views never exceed the seqno in flight); tied to the real "
               "crate by driving real threads through the same schedules via pause points",
    level_note="partial: interleavings inside lsm-tree calls and OS-level preemption between pause points are exercised by the thorough tier's free-running soak only",
    technique="Lean 4 proof (inductive invariant over interleavings) + schedule-controlled differential correspondence + implementation-only atomicity oracle",
    design_ref="6 C06",
)
PROPS["C14"] = dict(
    title="Concurrent single operations are linearizable and no write is lost",
    modules=["FjallModel.Props.C14"],
    theorems=["Fjall.Conc.c14_linearizable", "Fjall.Conc.c14_real_time", "Fjall.Conc.c14_orders_agree", "Fjall.Conc.c14_final_content",
              "Fjall.Stall.c14_stall_no_deadlock", "Fjall.Stall.c14_stall_bounded_work",
              "Fjall.Stall.c14_worker_blocking_send_deadlocks", "Fjall.Stall.c14_stall_inside_lock_deadlocks",
              "Fjall.L0Halt.c14_l0_halt_releases", "Fjall.L0Halt.c14_l0_halt_stale_version_never_releases", "Fjall.Conc.c14_get_then_scan_counterexample"],
    statements={
        "c14_get_then_scan_counterexample": "known finding F27 on the Conc model: a get sees an applied, unpublished item and the scan opened afterwards does not "
                                            "(c14_linearizable is about writes and point reads; scans are snapshot reads)",
        "c14_stall_no_deadlock": "Stall model (writers: lock / write+unlock+rotation request / stall check; workers: rotation requests and flushes through a bounded channel and the journal "
                                 "lock), any capacity, any threshold >= 1, any writers and programs, >= 1 worker, every schedule: in every reachable state with an unfinished writer some "
                                 "thread's next step is effective and lowers rank",
        "c14_stall_bounded_work": "every schedule has at most (11 + 2 x fanout) x (number of writes) effective steps; with no_deadlock: any fair scheduler lets every writer finish",
        "c14_worker_blocking_send_deadlocks": "with the pre-F24 blocking send a reachable state exists where the writer waits for a flush and the only worker for room in its own channel: nothing enabled",
        "c14_stall_inside_lock_deadlocks": "with the stall check inside the journal critical section (seeded C14-2) a reachable state exists where nothing is enabled",
        "c14_linearizable": "forall programs and schedules: replaying the linearization points (a write at its memtable apply inside the journal critical section, a latest read at its read) in "
                            "history order against a sequential map reproduces the result of every read",
        "c14_real_time": "calls and returns of a thread alternate and every linearization point lies between its operation's call and return, so the linearization order extends real-time order",
        "c14_orders_agree": "seqno order = journal order (strict) = memtable apply order (non-decreasing)",
        "c14_final_content": "whenever no write is in flight the memtables hold exactly the items of all journaled (= acknowledged) writes, each entirely, in seqno order",
    },
    engines=[dict(bin="conc", args=["--mode", "c14"], cases_quick=480, cases_thorough=12000, profiles=["release"], profiles_thorough=["release", "dev"]),
             dict(bin="stall", args=[], cases_quick=160, cases_thorough=4000, profiles=["release"], profiles_thorough=["release", "dev"])],
    rule="stall: case = 1-3 writer threads (2-8 writes of 40-1500 bytes against a 2000-byte memtable limit) and 1, 2 or 4 worker threads running the crate's own "
         "worker_tick, stepped one at a time through write.locked / write.unlocked / write.stall and the worker.* pause points under a random schedule with "
         "lock block probes; one case in three holds flushes back until a writer is halted by 4 sealed memtables; after every step the Lean Stall model must "
         "agree on effective-or-waiting, the phase reached, and the counters (sealed memtables, queued flush tasks, queued worker messages); oracle: no "
         "deadlock (some thread can always be moved) and all writers finish within the step budget. non-trivial = >= 2 rotations and a flush. "
         "conc: as C06; additionally every Keyspace::get result is compared with the model at its linearization point, block probes check that insert / remove / batch commit / rotate_memtable "
         "cannot enter the journal critical section while another thread is inside, and the final content of every key is compared with 'acknowledged writes in seqno order' conc --mode c14 also runs a lock-order probe: a memtable rotation parked inside its housekeeping walk (gate = version-history lock of an idle keyspace) while a journal rotation starts; both and a plain insert must return.",
    trusted_base=CONC_TB,
    assumptions=["the write-stall clause is proved on the Stall model (one keyspace; rotation requests with memtable generations, flush = all sealed memtables, compaction messages, "
                 "bounded channel, journal lock), tied step by step by the stall engine (half of its cases with a worker channel of 2-6 messages through the capacity hook, so that a full channel is reached) "
                 "and at scenario level by the stall probe and the worker-channel probe (the real capacity of 1000); L0-run throttling (sleep loops on l0_run_count), worker 0 handing compactions on, several keyspaces and compaction progress inside lsm-tree are not "
                 "modelled; fairness of the OS scheduler is assumed"],
    level_text="Lean 4 theorems over all programs and schedules (linearization by forward simulation with explicit linearization points, bracket discipline of the history, order "
               "agreement) and, for the write halt, deadlock freedom + bounded work of the Stall model; both tied to the real crate by schedule-controlled runs of real threads",
    level_note="journal rotation and flush content are covered sequentially (C01/C04/C10); liveness = deadlock freedom + bounded work on the Stall model, tied by the stall engine",
    technique="Lean 4 proof (forward simulation to a sequential map, history invariants) + schedule-controlled differential correspondence",
    design_ref="6 C14",
)

ALL_IDS = [f"C{i:02d}" for i in range(1, 19)]
