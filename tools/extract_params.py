#!/usr/bin/env python3
"""Re-read the journal constants and the straight-line codec layouts from /repo's *current*
sources and regenerate lean/Generated/{Params,Layout}.lean.

This is a translator only for a handful of straight-line functions
(`serialize_marker_item`, `Entry::encode_into`); everything else in the model is hand-written
and tied to the code by the correspondence engines.  If a pattern is not found (the code was
refactored) the pinned defaults are emitted and `extraction_ok=false` is reported: then the
byte-exact correspondence alone decides.
"""
import json, os, re, sys

REPO = os.environ.get("VERIF_REPO", "/repo")
OUT = os.path.join(os.path.dirname(os.path.abspath(__file__)), "..", "lean", "Generated")

DEFAULTS = dict(tagStart=1, tagItem=2, tagEnd=3, tagClear=4, magic=[0x46, 0x4A, 0x4C, 3],
                threshold=4096, bufCap=8192, prealloc=64 * 1024 * 1024)

def read(p):
    with open(os.path.join(REPO, p)) as f:
        return f.read()

def strip_comments(s):
    return re.sub(r"//[^\n]*", "", s)

def num(s):
    s = s.replace("_", "").strip()
    total = 1
    for part in s.split("*"):
        total *= int(part.strip(), 0)
    return total

def fn_body(src, header_re):
    m = re.search(header_re, src)
    if not m:
        return None
    i = src.index("{", m.end() - 1) if src[m.end() - 1] != "{" else m.end() - 1
    depth = 0
    for j in range(i, len(src)):
        if src[j] == "{":
            depth += 1
        elif src[j] == "}":
            depth -= 1
            if depth == 0:
                return src[i + 1:j]
    return None

WRITE = re.compile(
    r"(?:writer|self\.buf|w)\s*\.\s*(write_u8|write_u16|write_u32|write_u64|write_all)\s*(?:::\s*<\s*(\w+)\s*>)?\s*\(([^;]*)\)\s*\?\s*;"
    r"|(\w+)\s*\.\s*encode_into\s*\(\s*writer\s*\)\s*\?\s*;")

def layout(body):
    out = []
    for m in WRITE.finditer(body):
        if m.group(4):
            out.append(("enc", m.group(4)))
            continue
        call, endian, arg = m.group(1), m.group(2), m.group(3)
        arg = re.sub(r"\s+", "", arg)
        arg = re.sub(r"^\*", "", arg)
        wd = {"write_u8": "u8", "write_all": "raw"}.get(call)
        if wd is None:
            e = {"LittleEndian": "le", "BigEndian": "be"}.get(endian, "??")
            wd = call.replace("write_", "") + e
        out.append((wd, arg))
    return out

SRC_NAMES = {
    "Tag::Item.into()": "tagItem", "Tag::Start.into()": "tagStart", "Tag::End.into()": "tagEnd",
    "Tag::Clear.into()": "tagClear", "u8::from(value_type)": "valueType", "compression": "compression",
    "keyspace_id": "ksId", "key.len()asu16": "keyLen", "value.len()asu32": "valLen",
    "compressed_value.len()asu32": "storedLen", "key": "key", "&compressed_value": "stored",
    "item_count": "count", "seqno": "seqno", "val": "checksum", "MAGIC_BYTES": "magic",
}

def lean_fields(fields):
    items = []
    for wd, arg in fields:
        src = SRC_NAMES.get(arg)
        if src is None:
            src = "unknown"
        items.append(f"⟨.{wd}, .{src}⟩")
    return "[" + ", ".join(items) + "]"

def main():
    ok = True
    notes = []
    vals = dict(DEFAULTS)
    try:
        entry = strip_comments(read("src/journal/entry.rs"))
        m = re.search(r"pub enum Tag\s*\{([^}]*)\}", entry)
        tags = dict((k, num(v)) for k, v in re.findall(r"(\w+)\s*=\s*([0-9_xa-fA-F]+)", m.group(1)))
        vals.update(tagStart=tags["Start"], tagItem=tags["Item"], tagEnd=tags["End"], tagClear=tags["Clear"])
        # the decoder's table must agree with the enum
        dec = re.search(r"fn try_from\(value: u8\)[^{]*\{(.*?)\n    \}", entry, re.S).group(1)
        for name in ("Start", "Item", "End", "Clear"):
            mm = re.search(r"(\d+)\s*=>\s*Ok\(" + name + r"\)", dec)
            if not mm or int(mm.group(1)) != tags[name]:
                ok = False
                notes.append(f"decoder tag table disagrees with enum for {name}")
    except Exception as e:  # noqa
        ok = False
        notes.append(f"tags: {e!r}")
    try:
        filers = strip_comments(read("src/file.rs"))
        m = re.search(r"MAGIC_BYTES\s*:\s*&\[u8\]\s*=\s*&\[([^\]]*)\]", filers)
        magic = []
        for tok in m.group(1).split(","):
            tok = tok.strip()
            if not tok:
                continue
            mm = re.fullmatch(r"b'(.)'", tok)
            magic.append(ord(mm.group(1)) if mm else num(tok))
        vals["magic"] = magic
    except Exception as e:
        ok = False
        notes.append(f"magic: {e!r}")
    try:
        w = strip_comments(read("src/journal/writer.rs"))
        vals["bufCap"] = num(re.search(r"JOURNAL_BUFFER_BYTES\s*:\s*usize\s*=\s*([^;]+);", w).group(1))
        vals["prealloc"] = num(re.search(r"PRE_ALLOCATED_BYTES\s*:\s*u64\s*=\s*([^;]+);", w).group(1))
        c = strip_comments(read("src/db_config.rs"))
        vals["threshold"] = num(re.search(r"journal_compression_threshold\s*:\s*([0-9_]+)\s*,", c).group(1))
    except Exception as e:
        ok = False
        notes.append(f"writer consts: {e!r}")

    item_fields = start_fields = end_fields = clear_fields = None
    try:
        body = fn_body(entry, r"pub fn serialize_marker_item<[^>]*>\s*\([^)]*\)\s*->\s*[^{]*\{")
        item_fields = layout(body)
        enc = fn_body(entry, r"fn encode_into<[^>]*>\s*\(&self,[^)]*\)\s*->\s*[^{]*\{")
        arms = re.split(r"\n\s*(?=Start\s*\{|Item\s*\{|End\(|Clear\s*\{)", enc)
        for a in arms:
            a = a.strip()
            if a.startswith("Start"):
                start_fields = layout(a)
            elif a.startswith("End"):
                end_fields = layout(a)
            elif a.startswith("Clear"):
                clear_fields = layout(a)
    except Exception as e:
        ok = False
        notes.append(f"layout: {e!r}")
    if not (item_fields and start_fields and end_fields and clear_fields):
        ok = False
        notes.append("layout not found; using pinned layout")
        item_fields = [("u8", "Tag::Item.into()"), ("u8", "u8::from(value_type)"), ("enc", "compression"),
                       ("u64le", "keyspace_id"), ("u16le", "key.len()asu16"), ("u32le", "value.len()asu32"),
                       ("u32le", "compressed_value.len()asu32"), ("raw", "key"), ("raw", "&compressed_value")]
        start_fields = [("u8", "Tag::Start.into()"), ("u32le", "item_count"), ("u64le", "seqno")]
        end_fields = [("u8", "Tag::End.into()"), ("u64le", "val"), ("raw", "MAGIC_BYTES")]
        clear_fields = [("u8", "Tag::Clear.into()"), ("u64le", "keyspace_id")]

    os.makedirs(OUT, exist_ok=True)
    magic_s = ", ".join(str(b) for b in vals["magic"])
    params = f"""-- GENERATED by tools/extract_params.py from {REPO}/src (journal/entry.rs, file.rs, journal/writer.rs,
-- db_config.rs) on every run. Do not edit.
import FjallModel.Journal.Entry
namespace Generated
open Fjall.Journal
def params : Params :=
  {{ tagStart := {vals['tagStart']}, tagItem := {vals['tagItem']}, tagEnd := {vals['tagEnd']}, tagClear := {vals['tagClear']}, magic := [{magic_s}] }}
def compressionThreshold : Nat := {vals['threshold']}
def journalBufferBytes : Nat := {vals['bufCap']}
def preAllocatedBytes : Nat := {vals['prealloc']}
end Generated
"""
    lay = f"""-- GENERATED by tools/extract_params.py: field layouts of `serialize_marker_item` and
-- `Entry::encode_into` as the sequence of write calls found in the source. Do not edit.
import FjallModel.Journal.Layout
namespace Generated
open Fjall.Journal.Layout
def itemLayout : List Field := {lean_fields(item_fields)}
def startLayout : List Field := {lean_fields(start_fields)}
def endLayout : List Field := {lean_fields(end_fields)}
def clearLayout : List Field := {lean_fields(clear_fields)}
end Generated
"""
    changed = False
    for name, text in (("Params.lean", params), ("Layout.lean", lay)):
        p = os.path.join(OUT, name)
        old = open(p).read() if os.path.exists(p) else None
        if old != text:
            with open(p, "w") as f:
                f.write(text)
            changed = True
    print(json.dumps(dict(extraction_ok=ok, notes=notes, values=vals, changed=changed,
                          item_layout=item_fields, start_layout=start_fields,
                          end_layout=end_fields, clear_layout=clear_fields)))

if __name__ == "__main__":
    main()
