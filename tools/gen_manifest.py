#!/usr/bin/env python3
"""writes MANIFEST.json from tools/props.py"""
import json, os, subprocess, sys
ROOT = os.path.join(os.path.dirname(os.path.abspath(__file__)), "..")
sys.path.insert(0, os.path.dirname(os.path.abspath(__file__)))
from props import PROPS, ALL_IDS

PENDING = {}
try:
    PENDING = json.load(open(os.path.join(ROOT, "tools", "pending.json")))
except Exception:
    pass

def repo_commits():
    try:
        out = subprocess.run(["git", "-C", "/repo", "log", "--format=%H %s"], capture_output=True, text=True).stdout
        return [l.split()[0] for l in out.splitlines() if "verif hooks" in l]
    except Exception:
        return []

checks = []
for pid in ALL_IDS:
    if pid not in PROPS:
        continue
    c = PROPS[pid]
    checks.append(dict(
        property_id=pid,
        quick_cmd=f"./check {pid} --tier quick",
        thorough_cmd=f"./check {pid} --tier thorough",
        evidence_file=f"/verif/evidence/{pid}.json",
        replay_cmd_template=f"./check {pid} --replay {{path}}",
        engine=",".join(e["bin"] for e in c["engines"]),
        level_claimed=dict(category="proof", text=c["level_text"], design_ref=c.get("design_ref", "")),
        level_note=c["level_note"],
        technique=c["technique"],
    ))
na = [dict(property_id=pid, reason=PENDING.get(pid, "not claimed yet: model/theorems for this property are still being built (see DESIGN.md section 9)"))
      for pid in ALL_IDS if pid not in PROPS]
engines = {}
for pid, c in PROPS.items():
    for e in c["engines"]:
        engines.setdefault(e["bin"], set()).add(pid)
m = dict(
    version=1,
    setup_cmd="./setup.sh",
    hooks=dict(guard="fjall_verif", enable="RUSTFLAGS='--cfg fjall_verif' (set in harness/.cargo/config.toml; the harness has a path dependency on /repo)",
               baseline_off_cmd="cd /repo && cargo test --workspace --no-fail-fast --offline",
               source_commits=repo_commits(), add_only=True),
    engines=[dict(name=k, path=f"harness/src/bin/{k}.rs", serves_properties=sorted(v),
                  kind_free_text="Rust correspondence engine: real crate in-process vs compiled Lean model driver (line protocol) vs implementation-only oracle")
             for k, v in sorted(engines.items())],
    checks=checks,
    not_applicable=na,
    notes="Technique family: machine-checked proof in Lean 4 with a differential correspondence check tying the hand-written model to /repo on every run. See DESIGN.md.",
)
json.dump(m, open(os.path.join(ROOT, "MANIFEST.json"), "w"), indent=1)
print("MANIFEST.json:", len(checks), "checks,", len(na), "not yet claimed")
