//! minimal JSON value + writer (no external crates)
use std::fmt::Write;

#[derive(Clone, Debug)]
pub enum J {
    Null,
    Bool(bool),
    Int(i64),
    Num(f64),
    Str(String),
    Arr(Vec<J>),
    Obj(Vec<(String, J)>),
}

impl J {
    pub fn obj() -> J {
        J::Obj(vec![])
    }
    pub fn set(&mut self, k: &str, v: J) -> &mut Self {
        if let J::Obj(o) = self {
            if let Some(e) = o.iter_mut().find(|(kk, _)| kk == k) {
                e.1 = v;
            } else {
                o.push((k.to_string(), v));
            }
        }
        self
    }
    pub fn s(x: impl Into<String>) -> J {
        J::Str(x.into())
    }
    pub fn i(x: impl TryInto<i64>) -> J {
        J::Int(x.try_into().unwrap_or(i64::MAX))
    }
    pub fn render(&self) -> String {
        let mut s = String::new();
        self.w(&mut s);
        s
    }
    fn w(&self, s: &mut String) {
        match self {
            J::Null => s.push_str("null"),
            J::Bool(b) => s.push_str(if *b { "true" } else { "false" }),
            J::Int(i) => {
                let _ = write!(s, "{i}");
            }
            J::Num(f) => {
                let _ = write!(s, "{f}");
            }
            J::Str(x) => {
                s.push('"');
                for c in x.chars() {
                    match c {
                        '"' => s.push_str("\\\""),
                        '\\' => s.push_str("\\\\"),
                        '\n' => s.push_str("\\n"),
                        '\r' => s.push_str("\\r"),
                        '\t' => s.push_str("\\t"),
                        c if (c as u32) < 0x20 => {
                            let _ = write!(s, "\\u{:04x}", c as u32);
                        }
                        c => s.push(c),
                    }
                }
                s.push('"');
            }
            J::Arr(a) => {
                s.push('[');
                for (i, x) in a.iter().enumerate() {
                    if i > 0 {
                        s.push(',');
                    }
                    x.w(s);
                }
                s.push(']');
            }
            J::Obj(o) => {
                s.push('{');
                for (i, (k, v)) in o.iter().enumerate() {
                    if i > 0 {
                        s.push(',');
                    }
                    J::Str(k.clone()).w(s);
                    s.push(':');
                    v.w(s);
                }
                s.push('}');
            }
        }
    }
}
