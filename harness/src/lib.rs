//! Shared pieces of the correspondence harness: PRNG, Lean driver pipe, hex, scratch dirs, JSON.

use std::io::{BufRead, BufReader, Write};
use std::path::{Path, PathBuf};
use std::process::{Child, ChildStdin, ChildStdout, Command, Stdio};

pub mod json;
pub mod wl;
pub mod txops;

/// xorshift64* — every random choice of a run derives from one state.
#[derive(Clone)]
pub struct Rng(pub u64);

impl Rng {
    pub fn new(seed: u64) -> Self {
        let mut s = seed ^ 0x9E37_79B9_7F4A_7C15;
        if s == 0 {
            s = 0xDEAD_BEEF_CAFE_F00D;
        }
        let mut r = Rng(s);
        for _ in 0..4 {
            r.next();
        }
        r
    }
    pub fn next(&mut self) -> u64 {
        let mut x = self.0;
        x ^= x >> 12;
        x ^= x << 25;
        x ^= x >> 27;
        self.0 = x;
        x.wrapping_mul(0x2545_F491_4F6C_DD1D)
    }
    pub fn below(&mut self, n: u64) -> u64 {
        if n == 0 {
            0
        } else {
            self.next() % n
        }
    }
    pub fn range(&mut self, lo: usize, hi_incl: usize) -> usize {
        lo + self.below((hi_incl - lo + 1) as u64) as usize
    }
    pub fn chance(&mut self, num: u64, den: u64) -> bool {
        self.below(den) < num
    }
    pub fn pick<'a, T>(&mut self, xs: &'a [T]) -> &'a T {
        &xs[self.below(xs.len() as u64) as usize]
    }
    pub fn bytes(&mut self, n: usize) -> Vec<u8> {
        let mut v = Vec::with_capacity(n);
        while v.len() < n {
            let x = self.next().to_le_bytes();
            let take = (n - v.len()).min(8);
            v.extend_from_slice(&x[..take]);
        }
        v
    }
    /// fork a child generator (so that a case is replayable from its own seed)
    pub fn fork(&mut self) -> u64 {
        self.next()
    }
}

pub fn hex(b: &[u8]) -> String {
    if b.is_empty() {
        return "-".into();
    }
    const D: &[u8; 16] = b"0123456789abcdef";
    let mut s = String::with_capacity(b.len() * 2);
    for x in b {
        s.push(D[(x >> 4) as usize] as char);
        s.push(D[(x & 15) as usize] as char);
    }
    s
}

pub fn unhex(s: &str) -> Option<Vec<u8>> {
    if s == "-" {
        return Some(vec![]);
    }
    let b = s.as_bytes();
    if b.len() % 2 != 0 {
        return None;
    }
    let v = |c: u8| -> Option<u8> {
        match c {
            b'0'..=b'9' => Some(c - b'0'),
            b'a'..=b'f' => Some(c - b'a' + 10),
            b'A'..=b'F' => Some(c - b'A' + 10),
            _ => None,
        }
    };
    let mut out = Vec::with_capacity(b.len() / 2);
    for p in b.chunks(2) {
        out.push(v(p[0])? * 16 + v(p[1])?);
    }
    Some(out)
}

/// The compiled Lean model driver behind a line protocol.
pub struct Lean {
    child: Option<Child>,
    stdin: Option<ChildStdin>,
    stdout: Option<BufReader<ChildStdout>>,
    pub requests: u64,
}

/// `VERIF_NO_MODEL=1`: run the implementation-only oracles alone (used to search for a concrete
/// failing input after a proof obligation or the correspondence broke); every model reply is "".
pub fn no_model() -> bool { std::env::var("VERIF_NO_MODEL").map(|v| v == "1").unwrap_or(false) }

impl Lean {
    pub fn spawn() -> Self {
        if no_model() { return Lean { child: None, stdin: None, stdout: None, requests: 0 }; }
        let exe = std::env::var("VERIF_DRIVER")
            .unwrap_or_else(|_| "/verif/lean/.lake/build/bin/driver".to_string());
        let mut child = Command::new(&exe)
            .stdin(Stdio::piped())
            .stdout(Stdio::piped())
            .spawn()
            .unwrap_or_else(|e| panic!("cannot start Lean driver {exe}: {e}"));
        let stdin = child.stdin.take().unwrap();
        let stdout = BufReader::new(child.stdout.take().unwrap());
        Lean { child: Some(child), stdin: Some(stdin), stdout: Some(stdout), requests: 0 }
    }
    pub fn ask(&mut self, line: &str) -> String {
        let (Some(stdin), Some(stdout)) = (self.stdin.as_mut(), self.stdout.as_mut()) else { return String::new(); };
        self.requests += 1;
        stdin.write_all(line.as_bytes()).unwrap();
        stdin.write_all(b"\n").unwrap();
        stdin.flush().unwrap();
        let mut out = String::new();
        stdout.read_line(&mut out).expect("driver died");
        if out.is_empty() {
            panic!("Lean driver closed its output on request: {}", &line[..line.len().min(200)]);
        }
        out.trim_end().to_string()
    }
}

impl Drop for Lean {
    fn drop(&mut self) {
        if let Some(c) = self.child.as_mut() { let _ = c.kill(); let _ = c.wait(); }
    }
}

/// scratch directories live on tmpfs and are removed on drop
pub struct Scratch {
    pub path: PathBuf,
}

impl Scratch {
    pub fn new(tag: &str) -> Self {
        use std::sync::atomic::{AtomicU64, Ordering};
        static N: AtomicU64 = AtomicU64::new(0);
        let base = std::env::var("VERIF_SCRATCH").unwrap_or_else(|_| "/dev/shm".into());
        let path = PathBuf::from(base).join(format!(
            "verif-{}-{}-{}",
            std::process::id(),
            tag,
            N.fetch_add(1, Ordering::SeqCst)
        ));
        let _ = std::fs::remove_dir_all(&path);
        std::fs::create_dir_all(&path).unwrap();
        Scratch { path }
    }
    pub fn join(&self, p: &str) -> PathBuf {
        self.path.join(p)
    }
}

impl Drop for Scratch {
    fn drop(&mut self) {
        let _ = std::fs::remove_dir_all(&self.path);
    }
}

/// copy a directory tree, keeping sparse files sparse (journals are preallocated to 64 MiB)
pub fn copy_dir_sparse(from: &Path, to: &Path) {
    let _ = std::fs::remove_dir_all(to);
    let st = Command::new("cp")
        .arg("-a")
        .arg("--sparse=always")
        .arg(from)
        .arg(to)
        .status()
        .unwrap();
    assert!(st.success(), "cp failed");
}

/// journal content without the zero padding of the preallocated tail.
/// (a completed record ends with the non-zero last trailer byte, so this is exact)
pub fn journal_content(path: &Path) -> Vec<u8> {
    let mut v = std::fs::read(path).unwrap();
    while v.last() == Some(&0) {
        v.pop();
    }
    v
}

pub fn env_u64(name: &str, default: u64) -> u64 {
    std::env::var(name).ok().and_then(|s| s.parse().ok()).unwrap_or(default)
}

pub fn tier_is_thorough() -> bool {
    std::env::var("VERIF_TIER").map(|t| t == "thorough").unwrap_or(false)
}
