//! Transaction operations shared by the `swtx` engine: operation type, generator, executors on the real
//! crate, line-protocol encoding and plain-map reference semantics (same definitions as in bin/tx.rs).
use crate::{hex, Rng};
use fjall::{Readable, SingleWriterTxKeyspace};
use std::collections::BTreeMap;
use std::ops::Bound;

pub type Map = BTreeMap<Vec<u8>, Vec<u8>>;

#[derive(Clone, Debug)]
pub enum F { None, Set(Vec<u8>), App(Vec<u8>), Toggle, Keep }
impl F {
    pub fn apply(&self, o: Option<&[u8]>) -> Option<Vec<u8>> {
        match self {
            F::None => None,
            F::Set(v) => Some(v.clone()),
            F::App(v) => { let mut x = o.map(|x| x.to_vec()).unwrap_or_default(); x.extend_from_slice(v); Some(x) }
            F::Toggle => if o.is_some() { None } else { Some(vec![1]) },
            F::Keep => o.map(|x| x.to_vec()),
        }
    }
    pub fn spec(&self) -> String {
        match self { F::None => "F:none".into(), F::Set(v) => format!("F:set:{}", hex(v)), F::App(v) => format!("F:app:{}", hex(v)), F::Toggle => "F:toggle".into(), F::Keep => "F:keep".into() }
    }
}

#[derive(Clone, Debug)]
pub enum B { U, I(Vec<u8>), E(Vec<u8>) }
impl B {
    pub fn spec(&self) -> String { match self { B::U => "U".into(), B::I(k) => format!("I{}", hex(k)), B::E(k) => format!("E{}", hex(k)) } }
    pub fn to(&self) -> Bound<Vec<u8>> { match self { B::U => Bound::Unbounded, B::I(k) => Bound::Included(k.clone()), B::E(k) => Bound::Excluded(k.clone()) } }
}

#[derive(Clone, Debug)]
pub enum Op {
    Get(usize, Vec<u8>), Contains(usize, Vec<u8>), SizeOf(usize, Vec<u8>), Range(usize, B, B), Prefix(usize, Vec<u8>),
    Iter(usize), First(usize), Last(usize), Len(usize), IsEmpty(usize),
    Insert(usize, Vec<u8>, Vec<u8>), Remove(usize, Vec<u8>), FetchUpdate(usize, Vec<u8>, F), UpdateFetch(usize, Vec<u8>, F), Take(usize, Vec<u8>),
}

impl Op {
    pub fn is_write(&self) -> bool { matches!(self, Op::Insert(..) | Op::Remove(..) | Op::FetchUpdate(..) | Op::UpdateFetch(..) | Op::Take(..)) }
    pub fn name(&self) -> &'static str {
        match self { Op::Get(..) => "get", Op::Contains(..) => "contains", Op::SizeOf(..) => "sizeof", Op::Range(..) => "range", Op::Prefix(..) => "prefix", Op::Iter(..) => "iter", Op::First(..) => "first", Op::Last(..) => "last", Op::Len(..) => "len", Op::IsEmpty(..) => "isempty", Op::Insert(..) => "insert", Op::Remove(..) => "remove", Op::FetchUpdate(..) => "fetchupdate", Op::UpdateFetch(..) => "updatefetch", Op::Take(..) => "take" }
    }
    pub fn spec(&self, ids: &[u64]) -> String {
        match self {
            Op::Get(k, key) => format!("get {} {}", ids[*k], hex(key)),
            Op::Contains(k, key) => format!("contains {} {}", ids[*k], hex(key)),
            Op::SizeOf(k, key) => format!("sizeof {} {}", ids[*k], hex(key)),
            Op::Range(k, lo, hi) => format!("range {} {} {}", ids[*k], lo.spec(), hi.spec()),
            Op::Prefix(k, p) => format!("prefix {} {}", ids[*k], hex(p)),
            Op::Iter(k) => format!("iter {}", ids[*k]),
            Op::First(k) => format!("first {}", ids[*k]),
            Op::Last(k) => format!("last {}", ids[*k]),
            Op::Len(k) => format!("len {}", ids[*k]),
            Op::IsEmpty(k) => format!("isempty {}", ids[*k]),
            Op::Insert(k, key, v) => format!("insert {} {} {}", ids[*k], hex(key), hex(v)),
            Op::Remove(k, key) => format!("remove {} {}", ids[*k], hex(key)),
            Op::FetchUpdate(k, key, f) => format!("fetchupdate {} {} {}", ids[*k], hex(key), f.spec()),
            Op::UpdateFetch(k, key, f) => format!("updatefetch {} {} {}", ids[*k], hex(key), f.spec()),
            Op::Take(k, key) => format!("take {} {}", ids[*k], hex(key)),
        }
    }
}

pub fn gen_key(r: &mut Rng) -> Vec<u8> {
    match r.below(12) {
        0 => vec![b'a', 0xff],
        1 => vec![0xff, 0xff],
        2 => vec![b'a'],
        _ => vec![b'a' + r.below(3) as u8, b'0' + r.below(3) as u8],
    }
}
pub fn gen_val(r: &mut Rng) -> Vec<u8> {
    match r.below(6) { 0 => vec![], 1 => r.bytes(40), _ => vec![b'v', r.below(256) as u8] }
}
pub fn gen_bound(r: &mut Rng) -> B {
    match r.below(5) { 0 => B::U, 1 | 2 => B::I(gen_key(r)), _ => B::E(gen_key(r)) }
}
pub fn gen_f(r: &mut Rng) -> F {
    match r.below(5) { 0 => F::None, 1 => F::Set(gen_val(r)), 2 => F::App(vec![b'+']), 3 => F::Toggle, _ => F::Keep }
}
pub fn gen_op(r: &mut Rng, nks: usize, write_bias: u64) -> Op {
    let k = r.range(0, nks - 1);
    if r.below(10) < write_bias {
        match r.below(8) {
            0 | 1 | 2 => Op::Insert(k, gen_key(r), gen_val(r)),
            3 | 4 => Op::Remove(k, gen_key(r)),
            5 => Op::FetchUpdate(k, gen_key(r), gen_f(r)),
            6 => Op::UpdateFetch(k, gen_key(r), gen_f(r)),
            _ => Op::Take(k, gen_key(r)),
        }
    } else {
        match r.below(14) {
            0 | 1 | 2 => Op::Get(k, gen_key(r)),
            3 => Op::Contains(k, gen_key(r)),
            4 | 5 => Op::SizeOf(k, gen_key(r)),
            6 | 7 => Op::Range(k, gen_bound(r), gen_bound(r)),
            8 => Op::Prefix(k, match r.below(4) { 0 => vec![], 1 => vec![0xff], 2 => vec![b'a', 0xff], _ => vec![b'a' + r.below(3) as u8] }),
            9 => Op::Iter(k),
            10 => Op::First(k),
            11 => Op::Last(k),
            12 => Op::Len(k),
            _ => Op::IsEmpty(k),
        }
    }
}

pub fn pairs(it: fjall::Iter) -> Result<String, String> {
    let mut v = vec![];
    for g in it {
        let (k, val) = g.into_inner().map_err(|e| format!("{e:?}"))?;
        v.push(format!("{}={}", hex(&k), hex(&val)));
    }
    Ok(format!("pairs:{}", v.join(",")))
}
pub fn pair(g: Option<fjall::Guard>) -> Result<String, String> {
    match g {
        None => Ok("pair:none".into()),
        Some(g) => { let (k, v) = g.into_inner().map_err(|e| format!("{e:?}"))?; Ok(format!("pair:{}={}", hex(&k), hex(&v))) }
    }
}
pub fn val(v: Option<fjall::UserValue>) -> String { match v { None => "val:none".into(), Some(v) => format!("val:{}", hex(&v)) } }

pub fn do_read<T: Readable>(tx: &T, ks: &fjall::Keyspace, op: &Op) -> Result<String, String> {
    let e = |e: fjall::Error| format!("{e:?}");
    Ok(match op {
        Op::Get(_, k) => val(tx.get(ks, k).map_err(e)?),
        Op::Contains(_, k) => format!("bool:{}", tx.contains_key(ks, k).map_err(e)? as u8),
        Op::SizeOf(_, k) => match tx.size_of(ks, k).map_err(e)? { None => "size:none".into(), Some(n) => format!("size:{n}") },
        Op::Range(_, lo, hi) => pairs(tx.range::<Vec<u8>, _>(ks, (lo.to(), hi.to())))?,
        Op::Prefix(_, p) => pairs(tx.prefix(ks, p))?,
        Op::Iter(_) => pairs(tx.iter(ks))?,
        Op::First(_) => pair(tx.first_key_value(ks))?,
        Op::Last(_) => pair(tx.last_key_value(ks))?,
        Op::Len(_) => format!("count:{}", tx.len(ks).map_err(e)?),
        Op::IsEmpty(_) => format!("bool:{}", tx.is_empty(ks).map_err(e)? as u8),
        _ => unreachable!(),
    })
}

pub fn do_sw(tx: &mut fjall::SingleWriterWriteTx, kss: &[SingleWriterTxKeyspace], op: &Op) -> Result<String, String> {
    let e = |e: fjall::Error| format!("{e:?}");
    Ok(match op {
        Op::Insert(k, key, v) => { tx.insert(&kss[*k], key.clone(), v.clone()); "unit".into() }
        Op::Remove(k, key) => { tx.remove(&kss[*k], key.clone()); "unit".into() }
        Op::FetchUpdate(k, key, f) => val(tx.fetch_update(&kss[*k], key.clone(), |o| f.apply(o.map(|x| &**x)).map(Into::into)).map_err(e)?),
        Op::UpdateFetch(k, key, f) => val(tx.update_fetch(&kss[*k], key.clone(), |o| f.apply(o.map(|x| &**x)).map(Into::into)).map_err(e)?),
        Op::Take(k, key) => val(tx.take(&kss[*k], key.clone()).map_err(e)?),
        Op::Get(k, ..) | Op::Contains(k, ..) | Op::SizeOf(k, ..) | Op::Range(k, ..) | Op::Prefix(k, ..) | Op::Iter(k) | Op::First(k) | Op::Last(k) | Op::Len(k) | Op::IsEmpty(k) => do_read(tx, kss[*k].inner(), op)?,
    })
}

/// reference semantics on plain maps (implementation-only oracle)
pub fn in_range(k: &[u8], lo: &B, hi: &B) -> bool {
    (match lo { B::U => true, B::I(b) => k >= &b[..], B::E(b) => k > &b[..] }) && (match hi { B::U => true, B::I(b) => k <= &b[..], B::E(b) => k < &b[..] })
}
pub fn ref_pairs<'a>(it: impl Iterator<Item = (&'a Vec<u8>, &'a Vec<u8>)>) -> String {
    format!("pairs:{}", it.map(|(k, v)| format!("{}={}", hex(k), hex(v))).collect::<Vec<_>>().join(","))
}
pub fn ref_op(m: &mut [Map], op: &Op) -> String {
    let v = |o: Option<&Vec<u8>>| match o { None => "val:none".to_string(), Some(v) => format!("val:{}", hex(v)) };
    match op {
        Op::Get(k, key) => v(m[*k].get(key)),
        Op::Contains(k, key) => format!("bool:{}", m[*k].contains_key(key) as u8),
        Op::SizeOf(k, key) => match m[*k].get(key) { None => "size:none".into(), Some(x) => format!("size:{}", x.len()) },
        Op::Range(k, lo, hi) => ref_pairs(m[*k].iter().filter(|(key, _)| in_range(key, lo, hi))),
        Op::Prefix(k, p) => ref_pairs(m[*k].iter().filter(|(key, _)| key.starts_with(p))),
        Op::Iter(k) => ref_pairs(m[*k].iter()),
        Op::First(k) => match m[*k].iter().next() { None => "pair:none".into(), Some((a, b)) => format!("pair:{}={}", hex(a), hex(b)) },
        Op::Last(k) => match m[*k].iter().next_back() { None => "pair:none".into(), Some((a, b)) => format!("pair:{}={}", hex(a), hex(b)) },
        Op::Len(k) => format!("count:{}", m[*k].len()),
        Op::IsEmpty(k) => format!("bool:{}", m[*k].is_empty() as u8),
        Op::Insert(k, key, val) => { m[*k].insert(key.clone(), val.clone()); "unit".into() }
        Op::Remove(k, key) => { m[*k].remove(key); "unit".into() }
        Op::FetchUpdate(k, key, f) => {
            let prev = m[*k].get(key).cloned();
            match f.apply(prev.as_deref()) { Some(n) => { m[*k].insert(key.clone(), n); } None => { m[*k].remove(key); } }
            v(prev.as_ref())
        }
        Op::UpdateFetch(k, key, f) => {
            let prev = m[*k].get(key).cloned();
            let n = f.apply(prev.as_deref());
            match &n { Some(n) => { m[*k].insert(key.clone(), n.clone()); } None => { m[*k].remove(key); } }
            v(n.as_ref())
        }
        Op::Take(k, key) => { let prev = m[*k].remove(key); v(prev.as_ref()) }
    }
}

pub fn dump(ks: &fjall::Keyspace) -> Map {
    ks.iter().map(|g| { let (k, v) = g.into_inner().unwrap(); (k.to_vec(), v.to_vec()) }).collect()
}
