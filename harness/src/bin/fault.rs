//! `fault` engine: journal workloads in a child process under the LD_PRELOAD shim.
//!  --mode c09: syscall trace of the real run == trace of the Lean writer model (BufWriter rule,
//!              fsync / fdatasync placement); power-loss images (kill before syscall n, journal cut
//!              to its last synced length) reopen to a state containing everything acknowledged
//!              before the last acknowledged sync
//!  --mode c13: the n-th journal syscall (and every later one) fails with EIO / ENOSPC / a short
//!              write: per-operation results == model; oracle: nothing acknowledged after the first
//!              failure; reopen = acknowledged prefix (+ possibly whole failed operations)
use fjall::{Database, KeyspaceCreateOptions};
use std::collections::BTreeMap;
use std::path::Path;
use std::process::Command;
use verif_harness::json::J;
use verif_harness::wl::{self, Mode, WOp, Workload};
use verif_harness::*;

type Map = BTreeMap<Vec<u8>, Vec<u8>>;
struct Failure { kind: &'static str, detail: String }

struct ChildRun { second: Option<(String, String)>, ids: Vec<u64>, results: Vec<(String, u64)>, dropped: bool, log: Vec<(String, u64, i64)>, files: Vec<String>,
    /// (number of journal system calls before it, "create:<file>" | "dirsync")
    dir_events: Vec<(usize, String)>, status: Option<i32> }

fn run_child(dir: &Path, seed: u64, rot: bool, env: &[(&str, String)]) -> ChildRun {
    let _ = std::fs::remove_dir_all(dir);
    let arm = dir.with_extension("arm");
    let log = dir.with_extension("log");
    let _ = std::fs::remove_file(&arm);
    let _ = std::fs::remove_file(&log);
    let exe = std::env::current_exe().unwrap().parent().unwrap().join("crash_child");
    let mut c = Command::new(exe);
    c.arg(dir).arg(seed.to_string()).arg(if rot { "rot" } else { "norot" })
        .env("LD_PRELOAD", std::env::var("VERIF_SHIM").unwrap_or_else(|_| "/verif/shim/crashshim.so".to_string()))
        .env("VERIF_SHIM_LOG", &log)
        .env("VERIF_SHIM_ARM_FILE", &arm);
    for (k, v) in env { c.env(k, v); }
    let out = c.output().expect("crash_child");
    let text = String::from_utf8_lossy(&out.stdout).to_string();
    let mut ids = vec![];
    let mut results = vec![];
    let mut dropped = false;
    let mut second = None;
    for l in text.lines() {
        let p: Vec<&str> = l.split(' ').collect();
        match p[0] {
            "IDS" => ids = p[1].split(',').filter_map(|x| x.parse().ok()).collect(),
            "R" if p[1] == "drop" => dropped = true,
            "B" => second = Some((p[1].to_string(), p[2].to_string())),
            "R" => results.push((p[2].to_string(), p[3].parse().unwrap_or(0))),
            _ => {}
        }
    }
    let mut lg = vec![];
    let mut files: Vec<String> = vec![];
    let mut fdname: BTreeMap<i64, String> = BTreeMap::new();
    let mut dir_events: Vec<(usize, String)> = vec![];
    if let Ok(t) = std::fs::read_to_string(&log) {
        for l in t.lines() {
            let p: Vec<&str> = l.split(' ').collect();
            if p.len() >= 4 {
                let fd: i64 = p.get(4).and_then(|x| x.parse().ok()).unwrap_or(-1);
                if let Some(name) = p[1].strip_prefix("open:") { fdname.insert(fd, name.to_string()); continue; }
                // directory-level events (not system calls of a journal file): position = number of journal calls so far
                if let Some(name) = p[1].strip_prefix("create:") { dir_events.push((lg.len(), format!("create:{name}"))); continue; }
                if p[1] == "dirsync" { dir_events.push((lg.len(), "dirsync".to_string())); continue; }
                lg.push((p[1].to_string(), p[2].parse().unwrap_or(0), p[3].parse().unwrap_or(0)));
                files.push(fdname.get(&fd).cloned().unwrap_or_default());
            }
        }
    }
    let _ = std::fs::remove_file(&arm);
    let _ = std::fs::remove_file(&log);
    ChildRun { second, ids, results, dropped, log: lg, files, dir_events, status: out.status.code() }
}

fn dump(dir: &Path, nks: usize) -> Result<Vec<Map>, String> {
    let r = std::panic::catch_unwind(|| -> Result<Vec<Map>, String> {
        let db = Database::builder(dir).worker_threads_unchecked(0).open().map_err(|e| format!("open: {e:?}"))?;
        let mut out = vec![];
        for i in 0..nks {
            let ks = db.keyspace(&format!("ks{i}"), KeyspaceCreateOptions::default).map_err(|e| format!("{e:?}"))?;
            let mut m = Map::new();
            for g in ks.iter() { let (k, v) = g.into_inner().map_err(|e| format!("{e:?}"))?; m.insert(k.to_vec(), v.to_vec()); }
            out.push(m);
        }
        Ok(out)
    });
    match r { Ok(x) => x, Err(_) => Err("panic".into()) }
}

fn apply(state: &mut Vec<Map>, op: &WOp) {
    match op {
        WOp::Insert(k, key, v) => { state[*k].insert(key.clone(), v.clone()); }
        WOp::Remove(k, key) => { state[*k].remove(key); }
        WOp::Clear(k) => state[*k].clear(),
        WOp::Batch(_, items) => for (k, key, v) in items { match v { Some(v) => { state[*k].insert(key.clone(), v.clone()); } None => { state[*k].remove(key); } } },
        WOp::Persist(_) | WOp::RotateJournal => {}
        WOp::Tx(..) => unreachable!("modelled() turns transactions into batches"),
    }
}

fn mode_s(m: &Mode) -> &'static str { match m { Mode::Buffer => "buffer", Mode::SyncData => "syncdata", Mode::SyncAll => "syncall" } }

fn model_cmd(op: &WOp, seq: u64, ids: &[u64]) -> String {
    match op {
        WOp::Insert(k, key, v) => format!("wr.op single {seq};I,{},V,N,{},{}", ids[*k], hex(key), hex(v)),
        WOp::Remove(k, key) => format!("wr.op single {seq};I,{},T,N,{},-", ids[*k], hex(key)),
        WOp::Clear(k) => format!("wr.op clear {seq};C,{}", ids[*k]),
        WOp::Batch(dur, items) => {
            let mut s = format!("{seq}");
            for (k, key, v) in items {
                match v { Some(v) => s.push_str(&format!(";I,{},V,N,{},{}", ids[*k], hex(key), hex(v))), None => s.push_str(&format!(";I,{},T,N,{},-", ids[*k], hex(key))) }
            }
            format!("wr.op batch {} {s}", dur.as_ref().map(mode_s).unwrap_or("none"))
        }
        WOp::Persist(m) => format!("wr.op persist {}", mode_s(m)),
        WOp::RotateJournal => "wr.op rotate".into(),
        WOp::Tx(..) => unreachable!("modelled() turns transactions into batches"),
    }
}

/// C13, background clause: the journal sync that fails is the one of the worker's journal rotation (Flush tick,
/// journal past 64 MB).  Afterwards insert / remove / batch / persist must all be refused.
fn rotation_fault_probe() -> Option<Failure> {
    let scratch = Scratch::new("rotfault");
    let dir = scratch.join("db");
    let arm = dir.with_extension("arm");
    let log = dir.with_extension("log");
    let exe = std::env::current_exe().ok()?.parent()?.join("crash_child");
    let out = Command::new(exe).arg(&dir).arg("0").arg("bigrot")
        .env("LD_PRELOAD", std::env::var("VERIF_SHIM").unwrap_or_else(|_| "/verif/shim/crashshim.so".to_string()))
        .env("VERIF_SHIM_LOG", &log).env("VERIF_SHIM_ARM_FILE", &arm).env("VERIF_SHIM_FAIL", "1:5:once").env("RUST_BACKTRACE", "0")
        .output().ok()?;
    let text = String::from_utf8_lossy(&out.stdout).to_string();
    let shim = std::fs::read_to_string(&log).unwrap_or_default();
    let _ = std::fs::remove_file(&arm); let _ = std::fs::remove_file(&log);
    let failed_sync = shim.lines().any(|l| l.contains("fsync-fail") || l.contains("fdatasync-fail"));
    let res: Vec<(String, String)> = text.lines().filter_map(|l| { let p: Vec<&str> = l.split(' ').collect(); if p[0] == "P" && p.len() >= 3 { Some((p[1].to_string(), p[2].to_string())) } else { None } }).collect();
    if !failed_sync || res.len() != 4 { return None; } // the fault did not hit the rotation's sync (or the child did not finish): nothing probed
    let acked: Vec<&str> = res.iter().filter(|(_, r)| r == "ok").map(|(o, _)| o.as_str()).collect();
    if acked.is_empty() {
        // fail-stop held; the instance must also be closable, or nothing can be reopened (finding F28, fixed)
        if text.lines().any(|l| l == "D hung") {
            return Some(Failure { kind: "impl-vs-oracle", detail: "after the worker crashed on the failed journal sync (database poisoned, all writes refused) dropping the last handles of the database did not return within 10 s: the crashed worker is still counted as running, so the instance can never be closed and reopened".into() });
        }
        return None;
    }
    Some(Failure { kind: "impl-vs-oracle", detail: format!("the fsync of the worker's journal rotation (journal past 64 MB) failed with EIO, yet afterwards these writes were acknowledged: {acked:?} (results {res:?}) - the database was not poisoned") })
}

/// turns the directory a child left behind into what a power loss leaves: every journal file is cut to the length
/// covered by its own last successful sync, a journal file created after the last fsync of the folder is gone, the
/// newest file keeps its preallocated length.  Returns the number of journal bytes known durable.
fn power_loss_image(dir: &Path, run: &ChildRun, hist: &mut BTreeMap<String, u64>) -> u64 {
    // bytes known durable, per journal file: everything written to it before its last successful sync
    let mut written: BTreeMap<String, u64> = BTreeMap::new();
    let mut synced: BTreeMap<String, u64> = BTreeMap::new();
    for ((wh, _, res), file) in run.log.iter().zip(run.files.iter()) {
        match wh.as_str() {
            "write" => *written.entry(file.clone()).or_insert(0) += *res as u64,
            "fsync" | "fdatasync" => { let wv = written.get(file).copied().unwrap_or(0); synced.insert(file.clone(), wv); }
            _ => {}
        }
    }
    // power loss: a journal file created during the run whose directory was not fsynced afterwards has no
    // durable directory entry - it is gone as a whole
    for (i, (_, ev)) in run.dir_events.iter().enumerate() {
        if let Some(name) = ev.strip_prefix("create:") {
            if !run.dir_events[i + 1..].iter().any(|(_, e)| e == "dirsync") {
                let _ = std::fs::remove_file(dir.join(name));
                *hist.entry("power-loss-journal-file-without-directory-entry".into()).or_insert(0) += 1;
            }
        }
    }
    // power loss: unsynced journal bytes are gone (the active file keeps its preallocated length)
    let mut present: Vec<u64> = std::fs::read_dir(&dir).map(|d| d.filter_map(|e| e.ok()).filter_map(|e| e.file_name().to_str().and_then(|n| n.strip_suffix(".jnl").and_then(|x| x.parse().ok()))).collect()).unwrap_or_default();
    present.sort();
    let mut synced_total = 0u64;
    for j in &present {
        let name = format!("{j}.jnl");
        let jp = dir.join(&name);
        let data = std::fs::read(&jp).unwrap_or_default();
        let sy = synced.get(&name).copied().unwrap_or(0);
        synced_total += sy;
        let keep = &data[..(sy as usize).min(data.len())];
        std::fs::write(&jp, keep).unwrap();
        if Some(j) == present.last() {
            let f = std::fs::OpenOptions::new().write(true).open(&jp).unwrap();
            f.set_len(64 * 1024 * 1024).unwrap();
        }
    }
    synced_total
}

fn log_str(l: &[(String, u64, i64)]) -> String {
    l.iter().map(|(w, a, r)| match w.as_str() {
        "write" | "write-short" => format!("write:{a}:{r}"),
        "write-fail" => format!("write-fail:{a}"),
        "fsync" => "fsync:1".into(), "fsync-fail" => "fsync:0".into(),
        "fdatasync" => "fdatasync:1".into(), "fdatasync-fail" => "fdatasync:0".into(),
        o => format!("{o}:{a}"),
    }).collect::<Vec<_>>().join(",")
}

fn register_lz4(lean: &mut Lean, w: &Workload) {
    if !w.lz4 { return; }
    let mut reg = |v: &Vec<u8>| { if v.len() >= 4096 { let c = lz4_flex::compress(v); lean.ask(&format!("lz4 {} {}", hex(v), hex(&c))); } };
    for op in &w.ops {
        match op { WOp::Insert(_, _, v) => reg(v), WOp::Batch(_, items) => for (_, _, v) in items { if let Some(v) = v { reg(v) } }, _ => {} }
    }
}

/// drive the model through the workload; returns per-op (result, trace) and the final file
fn run_model(lean: &mut Lean, w: &Workload, ids: &[u64], seqs: &[u64], fault: &str) -> (Vec<(String, String)>, String) {
    lean.ask(&format!("wr.reset {} comp={} {fault}", w.manual as u8, if w.lz4 { "L" } else { "N" }));
    let mut out = vec![];
    for (i, op) in w.ops.iter().enumerate() {
        let seq = seqs.get(i).copied().unwrap_or(0);
        let r = lean.ask(&model_cmd(op, seq, ids));
        let res = r.split(' ').next().unwrap_or("").to_string();
        let tr = r.split("trace=[").nth(1).and_then(|s| s.split(']').next()).unwrap_or("").to_string();
        out.push((res, tr));
    }
    let r = lean.ask("wr.op persist syncall"); // Journal::drop
    let tr = r.split("trace=[").nth(1).and_then(|s| s.split(']').next()).unwrap_or("").to_string();
    out.push(("drop".into(), tr));
    (out, lean.ask("wr.files"))
}

fn run_case(seed: u64, mode: &str, thorough: bool, lean: &mut Lean, hist: &mut BTreeMap<String, u64>, samples: &mut Vec<J>) -> (Vec<Failure>, bool, u64) {
    let mut fails = vec![];
    let rot = mode == "c09" || mode == "c02";
    let w = wl::gen_with(seed, rot).modelled(); // transactions appear as the batch their commit emits
    let scratch = Scratch::new("flt");
    let dir = scratch.join("db");
    let mut r = Rng::new(seed ^ 0xabcdef);
    macro_rules! fail { ($k:expr, $($a:tt)*) => {{ fails.push(Failure { kind: $k, detail: format!("{} [workload seed {seed}: manual={} lz4={} ops={:?}]", format!($($a)*), w.manual, w.lz4, w.ops.iter().map(|o| short(o)).collect::<Vec<_>>()) }); return (fails, false, 0); }} }

    // 1. clean logged run
    let base = run_child(&dir, seed, rot, &[]);
    if base.results.len() != w.ops.len() || !base.dropped { fail!("harness", "clean run did not complete ({} of {} ops, status {:?})", base.results.len(), w.ops.len(), base.status); }
    if base.results.iter().any(|(r, _)| r != "ok") { fail!("impl-vs-oracle", "an operation failed without any injected fault: {:?}", base.results); }
    let seqs: Vec<u64> = base.results.iter().map(|x| x.1).collect();
    register_lz4(lean, &w);
    let (model, model_file) = run_model(lean, &w, &base.ids, &seqs, "");
    let model_trace: Vec<String> = model.iter().map(|x| x.1.clone()).filter(|s| !s.is_empty()).collect();
    let real_trace = log_str(&base.log);
    // the model's trace also has the directory-level events of a rotation (file created, folder fsynced) in their place
    let real_trace_dir = {
        let mut parts: Vec<String> = vec![];
        let mut de = base.dir_events.iter().peekable();
        for (i, e) in base.log.iter().enumerate() {
            while let Some((p, ev)) = de.peek() { if *p <= i { parts.push(if ev.starts_with("create:") { "create".into() } else { ev.clone() }); de.next(); } else { break; } }
            parts.push(log_str(std::slice::from_ref(e)));
        }
        for (_, ev) in de { parts.push(if ev.starts_with("create:") { "create".into() } else { ev.clone() }); }
        parts.join(",")
    };
    let real_trace = if no_model() { real_trace } else { real_trace_dir };
    if !no_model() && model_trace.join(",") != real_trace {
        fail!("model-vs-impl", "syscall trace differs:\n model={}\n real ={}", model_trace.join(","), real_trace);
    }
    let mut jfiles: Vec<u64> = std::fs::read_dir(&dir).map(|d| d.filter_map(|e| e.ok()).filter_map(|e| e.file_name().to_str().and_then(|n| n.strip_suffix(".jnl").and_then(|x| x.parse().ok()))).collect()).unwrap_or_default();
    jfiles.sort();
    let content = jfiles.iter().map(|j| { let c = journal_content(&dir.join(format!("{j}.jnl"))); if c.is_empty() { "-".to_string() } else { hex(&c) } }).collect::<Vec<_>>().join("|");
    if !no_model() && content != model_file { fail!("model-vs-impl", "journal files differ from the writer model ({} vs {} chars over {} files)", content.len(), model_file.len(), jfiles.len()); }
    if w.ops.iter().any(|o| matches!(o, WOp::RotateJournal)) { *hist.entry("workloads-with-journal-rotation".into()).or_insert(0) += 1; }
    if mode == "c09" {
        // the database was dropped: a power loss now must leave every operation of the workload ("the same holds for
        // data written ... before the database is dropped")
        power_loss_image(&dir, &base, hist);
        *hist.entry("power-loss-image-after-drop".into()).or_insert(0) += 1;
        match dump(&dir, w.nks) {
            Err(e) => fail!("impl-vs-oracle", "power loss after the database was dropped: reopening failed: {e}"),
            Ok(got) => {
                let mut st = vec![Map::new(); w.nks];
                for op in &w.ops { apply(&mut st, op); }
                if st != got { fail!("impl-vs-oracle", "power loss right after the database was dropped (all {} operations acknowledged, drop returned): the recovered content is not the final state - journal bytes written before the drop were not covered by a sync", w.ops.len()); }
            }
        }
    }
    let nsys = base.log.len();
    *hist.entry(format!("syscalls/8={}", nsys / 8 * 8)).or_insert(0) += 1;
    *hist.entry(format!("manual={}", w.manual)).or_insert(0) += 1;
    let mut nontrivial = false;

    if mode == "c13" {
        // multi-thread clause: a second writer held right before the journal lock while the first one fails
        {
            let n = 1 + r.below(nsys as u64) as usize;
            let second_is_persist = r.chance(1, 2);
            let run = run_child(&dir, seed, rot, &[("VERIF_SHIM_FAIL", format!("{n}:5:once")), ("VERIF_TWO_WRITERS", if second_is_persist { "persist".into() } else { "insert".into() }), ("RUST_BACKTRACE", "0".into())]);
            *hist.entry("two-writer-runs".into()).or_insert(0) += 1;
            if let Some((at, res)) = &run.second {
                if at != "end" && at != "notheld" && res == "ok" {
                    fail!("impl-vs-oracle", "syscall {n} failing: operation #{at} of the first writer reported an error, yet a second thread's {} that was waiting to enter the journal critical section was acknowledged afterwards (results of the first writer: {:?})", if second_is_persist { "persist(SyncAll)" } else { "insert" }, run.results.iter().map(|x| x.0.as_str()).collect::<Vec<_>>());
                }
                if at != "end" && at != "notheld" { *hist.entry("two-writer-runs-with-failure".into()).or_insert(0) += 1; }
            }
        }
        let tries = if thorough { nsys } else { nsys.min(6) };
        let mut ns: Vec<usize> = (1..=nsys).collect();
        while ns.len() > tries { let i = r.below(ns.len() as u64) as usize; ns.remove(i); }
        for n in ns {
            let (errno, short) = match r.below(3) { 0 => (5, None), 1 => (28, None), _ => (5, Some(1 + r.below(40))) };
            // a third of the faults are transient: only this one system call fails (or is short), the device works again afterwards
            let once = r.chance(1, 3);
            let mut env = vec![("VERIF_SHIM_FAIL", match short { Some(k) => format!("{n}:{errno}:short={k}"), None => format!("{n}:{errno}") } + if once { ":once" } else { "" })];
            env.push(("RUST_BACKTRACE", "0".into()));
            let run = run_child(&dir, seed, rot, &env);
            *hist.entry(format!("fault:{}{}", match (errno, short) { (_, Some(_)) => "short-write", (5, _) => "EIO", _ => "ENOSPC" }, if once { " (transient)" } else { "" })).or_insert(0) += 1;
            if run.results.len() != w.ops.len() { fail!("impl-vs-oracle", "with syscall {n} failing the workload did not run to completion (panic?): {} of {} ops, status {:?}", run.results.len(), w.ops.len(), run.status); }
            let res: Vec<&str> = run.results.iter().map(|x| x.0.as_str()).collect();
            let first_err = res.iter().position(|x| *x != "ok");
            // model
            let seqs2: Vec<u64> = run.results.iter().map(|x| x.1).collect();
            let fault = match short { Some(k) => format!("fail={n} short={k}"), None => format!("fail={n}") } + if once { " once" } else { "" };
            let (m, _) = run_model(lean, &w, &run.ids, &seqs2, &fault);
            let mres: Vec<&str> = m.iter().take(w.ops.len()).map(|x| x.0.as_str()).collect();
            if !no_model() && mres != res { fail!("model-vs-impl", "syscall {n} failing ({fault}): model results {:?} vs real {:?}", mres, res); }
            // oracle 1: fail-stop
            if let Some(f) = first_err {
                nontrivial = nontrivial || (f > 0 && f + 1 < res.len());
                // an empty batch touches nothing and is always fine
                for (j, x) in res.iter().enumerate().skip(f + 1) {
                    let empty_batch = matches!(&w.ops[j], WOp::Batch(_, it) if it.is_empty());
                    if *x == "ok" && !empty_batch { fail!("impl-vs-oracle", "syscall {n} failing ({fault}): operation #{f} reported {}, yet operation #{j} was acknowledged afterwards; results={:?}", res[f], res); }
                }
            }
            // oracle 2: reopen = a prefix of the acknowledged operations that contains everything
            // acknowledged up to the last acknowledged operation that pushed the journal buffer to
            // the OS (with manual persist / durability None nothing is promised until then),
            // optionally followed by whole failed operations
            let acked = first_err.unwrap_or(res.len());
            let mut must = 0;
            for (i, op) in w.ops[..acked].iter().enumerate() {
                let pushes = match op {
                    WOp::Insert(..) | WOp::Remove(..) | WOp::Clear(..) => !w.manual,
                    WOp::Batch(d, it) => d.is_some() && !it.is_empty(),
                    WOp::Persist(_) | WOp::RotateJournal => true,
                    WOp::Tx(..) => unreachable!(),
                };
                if pushes { must = i + 1; }
            }
            let failed: Vec<&WOp> = w.ops[acked..].iter().filter(|o| !matches!(o, WOp::Persist(_))).collect();
            match dump(&dir, w.nks) {
                Err(e) => fail!("impl-vs-oracle", "syscall {n} failing ({fault}): reopening afterwards failed: {e}"),
                Ok(got) => {
                    let k = failed.len().min(8);
                    let mut ok = false;
                    let mut pref = vec![Map::new(); w.nks];
                    'outer: for p in 0..=acked {
                        if p >= must {
                            for mask in 0..(1u32 << k) {
                                // whole failed operations can only follow the complete acknowledged history
                                if mask != 0 && p != acked { continue; }
                                let mut st = pref.clone();
                                for (i, op) in failed.iter().take(k).enumerate() { if mask >> i & 1 == 1 { apply(&mut st, op); } }
                                if st == got { ok = true; break 'outer; }
                            }
                        }
                        if p < acked { apply(&mut pref, &w.ops[p]); }
                    }
                    if !ok { fail!("impl-vs-oracle", "syscall {n} failing ({fault}): after reopen the content is not a prefix of the acknowledged operations containing the first {must} (acknowledged: {acked}), nor that plus whole failed operations; results={:?}", res); }
                }
            }
        }
    } else {
        // c09: power-loss images
        let tries = if thorough { nsys } else { nsys.min(5) };
        let mut ns: Vec<usize> = (1..=nsys).collect();
        while ns.len() > tries { let i = r.below(ns.len() as u64) as usize; ns.remove(i); }
        for n in ns {
            let run = run_child(&dir, seed, rot, &[("VERIF_SHIM_KILL", n.to_string())]);
            if run.status != Some(137) { fail!("harness", "kill@{n}: child exited with {:?}", run.status); }
            // process crash (C02): everything handed to the OS is there; every acknowledged operation up to the
            // last one that pushes the journal buffer to the OS (any operation unless manual persist is on;
            // a batch / transaction with a durability level; persist; journal rotation) must be recovered
            {
                let acked = run.results.len();
                let mut must = 0;
                for (i, op) in w.ops[..acked].iter().enumerate() {
                    let pushes = match op {
                        WOp::Insert(..) | WOp::Remove(..) | WOp::Clear(..) => !w.manual,
                        WOp::Batch(d, it) => d.is_some() && !it.is_empty(),
                        WOp::Persist(_) | WOp::RotateJournal => true,
                        WOp::Tx(..) => unreachable!(),
                    };
                    if pushes { must = i + 1; }
                }
                let img = dir.with_extension("crashimg");
                let _ = std::fs::remove_dir_all(&img);
                copy_dir_sparse(&dir, &img);
                *hist.entry("process-crash-images".into()).or_insert(0) += 1;
                if must > 0 { nontrivial = true; }
                match dump(&img, w.nks) {
                    Err(e) => fail!("impl-vs-oracle", "process crash before syscall {n}: reopening failed: {e}"),
                    Ok(got) => {
                        let mut st = vec![Map::new(); w.nks];
                        let mut ok = false;
                        for p in 0..=w.ops.len() {
                            if p >= must && p <= (acked + 1).min(w.ops.len()) && st == got { ok = true; break; }
                            if p < w.ops.len() { apply(&mut st, &w.ops[p]); }
                        }
                        if !ok { fail!("impl-vs-oracle", "process crash before syscall {n}: the recovered content is not the state of a prefix containing the {must} operations acknowledged before the crash whose journal bytes had to be handed to the OS ({acked} acknowledged in total, database flavour {})", w.flavour); }
                    }
                }
                let _ = std::fs::remove_dir_all(&img);
                if mode == "c02" { continue; }
            }
            let synced_total = power_loss_image(&dir, &run, hist);
            let synced = synced_total;
            let acked = run.results.len();
            // last acknowledged operation that synced
            let mut must = 0;
            for (i, op) in w.ops[..acked].iter().enumerate() {
                let syncs = match op { WOp::Persist(m) | WOp::Batch(Some(m), _) => *m != Mode::Buffer, WOp::RotateJournal => true, _ => false };
                let nonempty = !matches!(op, WOp::Batch(_, it) if it.is_empty());
                if syncs && nonempty { must = i + 1; }
            }
            if must > 0 && must < w.ops.len() { nontrivial = true; }
            *hist.entry("power-loss-images".into()).or_insert(0) += 1;
            match dump(&dir, w.nks) {
                Err(e) => fail!("impl-vs-oracle", "power loss before syscall {n}: reopening failed: {e}"),
                Ok(got) => {
                    let mut st = vec![Map::new(); w.nks];
                    let mut ok = false;
                    for p in 0..=w.ops.len() {
                        if p >= must && p <= (acked + 1).min(w.ops.len()) && st == got { ok = true; break; }
                        if p < w.ops.len() { apply(&mut st, &w.ops[p]); }
                    }
                    if !ok { fail!("impl-vs-oracle", "power loss before syscall {n} (journal durable up to byte {synced}): the recovered content is not the state of a prefix containing the {must} operations acknowledged before the last acknowledged sync ({acked} acknowledged in total)"); }
                }
            }
        }
    }
    if samples.len() < 2 {
        let mut s = J::obj();
        s.set("case_seed", J::s(seed.to_string()));
        s.set("ops", J::Arr(w.ops.iter().map(|o| J::s(short(o))).collect()));
        s.set("syscall_trace", J::s(real_trace.clone()));
        samples.push(s);
    }
    (fails, nontrivial, seed)
}

fn short(o: &WOp) -> String {
    match o {
        WOp::Insert(k, key, v) => format!("insert ks{k} {} [{}B]", hex(key), v.len()),
        WOp::Remove(k, key) => format!("remove ks{k} {}", hex(key)),
        WOp::Clear(k) => format!("clear ks{k}"),
        WOp::Batch(d, it) => format!("batch {:?} {:?}", d, it.iter().map(|(k, key, v)| (k, hex(key), v.as_ref().map(|x| x.len()))).collect::<Vec<_>>()),
        WOp::Persist(m) => format!("persist {m:?}"),
        WOp::RotateJournal => "rotate-journal".into(),
        WOp::Tx(..) => unreachable!(),
    }
}

fn main() {
    let args: Vec<String> = std::env::args().collect();
    let mut replay = None;
    let mut mode = "c13".to_string();
    let mut i = 1;
    while i < args.len() {
        if args[i] == "--replay-seed" { replay = args[i + 1].parse().ok(); i += 1; }
        if args[i] == "--mode" { mode = args[i + 1].clone(); i += 1; }
        i += 1;
    }
    let thorough = tier_is_thorough();
    let seed = env_u64("VERIF_SEED", 1);
    let n = env_u64("VERIF_CASES", if thorough { 600 } else { 40 });
    if std::env::var("VERIF_QUIET_PANICS").is_ok() { std::panic::set_hook(Box::new(|_| {})); }
    let t0 = std::time::Instant::now();
    let mut lean = Lean::spawn();
    let mut master = Rng::new(seed);
    let seeds: Vec<u64> = match replay { Some(s) => vec![s], None => (0..n).map(|_| master.fork()).collect() };
    let mut all = vec![];
    let mut nontrivial = std::collections::HashSet::new();
    let mut samples = vec![];
    let mut hist = BTreeMap::new();
    let mut cases = 0;
    if mode == "c13" && replay.is_none() {
        if let Some(f) = rotation_fault_probe() { all.push((0, f)); }
        *hist.entry("journal-rotation-sync-failure-probe".to_string()).or_insert(0) += 1;
    }
    for cs in seeds {
        let res = std::panic::catch_unwind(std::panic::AssertUnwindSafe(|| run_case(cs, &mode, thorough, &mut lean, &mut hist, &mut samples)));
        cases += 1;
        match res {
            Ok((f, nt, h)) => { if nt { nontrivial.insert(h); } for x in f { all.push((cs, x)); } }
            Err(_) => all.push((cs, Failure { kind: "harness", detail: "panic in the fault engine".into() })),
        }
        if all.len() > 5 { break; }
    }
    let mut res = J::obj();
    res.set("engine", J::s("fault"));
    res.set("mode", J::s(mode));
    res.set("seed", J::i(seed as i64));
    res.set("cases", J::i(cases));
    res.set("distinct_nontrivial", J::i(nontrivial.len() as i64));
    res.set("distribution", J::Obj(hist.iter().map(|(k, v)| (k.clone(), J::i(*v as i64))).collect()));
    res.set("model_requests", J::i(lean.requests as i64));
    res.set("samples", J::Arr(samples));
    res.set("wall_s", J::Num(t0.elapsed().as_secs_f64()));
    res.set("failures", J::Arr(all.iter().map(|(cs, f)| { let mut o = J::obj(); o.set("case_seed", J::s(cs.to_string())); o.set("kind", J::s(f.kind)); o.set("detail", J::s(f.detail.clone())); o }).collect()));
    println!("RESULT {}", res.render());
    std::process::exit(if all.is_empty() { 0 } else { 1 });
}
