//! `swtx` engine (C08, thread schedules): write transactions and read-only snapshots of several real
//! threads on a `SingleWriterTxDatabase`, driven step by step through the pause points of
//! `write_tx` / `commit` (`swtx.locked`, `swtx.committed`) and harness-level points between
//! operations, so that the thread schedule is an input.  The same schedule is run on the Lean `Sw`
//! model (every step's outcome compared).  Implementation-only oracles: mutual exclusion of lock
//! holders, serial replay of every transaction on a plain map at its commit point (read-only ones
//! at their snapshot), final content.
use fjall::{KeyspaceCreateOptions, SingleWriterTxDatabase, SingleWriterTxKeyspace};
use std::cell::Cell;
use std::collections::BTreeMap;
use std::sync::{Arc, Condvar, Mutex, OnceLock};
use std::time::{Duration, Instant};
use verif_harness::json::J;
use verif_harness::txops::*;
use verif_harness::*;

#[derive(Clone, Copy, Debug, PartialEq)]
enum Kind { Commit, Rollback, DropTx,
    /// the thread panics while the transaction is open (a panic in user code): the unwinding drops the transaction
    Panic,
    Ro,
    /// a single-operation helper of `SingleWriterTxKeyspace` (insert / remove / take / fetch_update / update_fetch):
    /// documented to run as a one-operation write transaction
    Helper }
#[derive(Clone, Debug)]
struct Job { kind: Kind, ops: Vec<Op> }

#[derive(Default)]
struct Agent { at: Option<&'static str>, gen: u64, done: bool, out: Vec<String>, panicked: bool }
struct Ctl { m: Mutex<Vec<Agent>>, cv: Condvar }
static CTL: OnceLock<Ctl> = OnceLock::new();
thread_local! { static AGENT: Cell<Option<usize>> = Cell::new(None); }
fn ctl() -> &'static Ctl { CTL.get_or_init(|| Ctl { m: Mutex::new(vec![]), cv: Condvar::new() }) }

fn park(id: usize, name: &'static str) {
    let c = ctl();
    let mut g = c.m.lock().unwrap();
    g[id].at = Some(name);
    let my = g[id].gen;
    c.cv.notify_all();
    while g[id].gen == my { g = c.cv.wait(g).unwrap(); }
    g[id].at = None;
}
/// per agent: also stop at `write.unlocked`, i.e. right after a journal batch of the commit left its critical
/// section (a transaction commit is one batch: everything it wrote must be visible by then)
static PARK_UNLOCKED: [std::sync::atomic::AtomicBool; 8] = [const { std::sync::atomic::AtomicBool::new(false) }; 8];
fn hook(name: &'static str) {
    if let Some(id) = AGENT.with(|a| a.get()) {
        match name {
            "swtx.locked" | "swtx.committed" => park(id, name),
            "write.unlocked" if id < 8 && PARK_UNLOCKED[id].load(std::sync::atomic::Ordering::Acquire) => park(id, name),
            _ => {}
        }
    }
}
fn release(id: usize) { let c = ctl(); let mut g = c.m.lock().unwrap(); g[id].gen += 1; g[id].at = None; c.cv.notify_all(); }
/// waits until the agent is parked (returns the point) or finished ("done"); None = timeout
fn wait_parked(id: usize, timeout: Duration) -> Option<&'static str> {
    let c = ctl();
    let deadline = Instant::now() + timeout;
    let mut g = c.m.lock().unwrap();
    loop {
        if let Some(p) = g[id].at { return Some(p); }
        if g[id].done { return Some("done"); }
        let now = Instant::now();
        if now >= deadline { return None; }
        let (g2, _) = c.cv.wait_timeout(g, deadline - now).unwrap();
        g = g2;
    }
}
fn push_out(id: usize, s: String) { ctl().m.lock().unwrap()[id].out.push(s); }

fn agent_body(id: usize, jobs: Vec<Job>, db: SingleWriterTxDatabase, kss: Vec<SingleWriterTxKeyspace>) {
    AGENT.with(|a| a.set(Some(id)));
    for job in jobs {
        park(id, "job.begin");
        if job.kind == Kind::Helper {
            let e = |e: fjall::Error| format!("err:{e:?}");
            let out = match &job.ops[0] {
                Op::Insert(k, key, v) => kss[*k].insert(key.clone(), v.clone()).map(|()| "unit".to_string()).unwrap_or_else(e),
                Op::Remove(k, key) => kss[*k].remove(key.clone()).map(|()| "unit".to_string()).unwrap_or_else(e),
                Op::Take(k, key) => kss[*k].take(key.clone()).map(val).unwrap_or_else(e),
                Op::FetchUpdate(k, key, f) => kss[*k].fetch_update(key.clone(), |o| f.apply(o.map(|x| &**x)).map(Into::into)).map(val).unwrap_or_else(e),
                Op::UpdateFetch(k, key, f) => kss[*k].update_fetch(key.clone(), |o| f.apply(o.map(|x| &**x)).map(Into::into)).map(val).unwrap_or_else(e),
                _ => unreachable!(),
            };
            push_out(id, out);
        } else if job.kind == Kind::Ro {
            let snap = db.read_tx();
            for op in &job.ops {
                park(id, "op.begin");
                let k = match op { Op::Get(k, ..) | Op::Contains(k, ..) | Op::SizeOf(k, ..) | Op::Range(k, ..) | Op::Prefix(k, ..) | Op::Iter(k) | Op::First(k) | Op::Last(k) | Op::Len(k) | Op::IsEmpty(k) => *k, _ => unreachable!() };
                push_out(id, do_read(&snap, kss[k].inner(), op).unwrap_or_else(|e| format!("err:{e}")));
            }
            park(id, "tx.end");
            drop(snap);
        } else {
            let mut tx = db.write_tx(); // parks inside at swtx.locked
            for op in &job.ops {
                park(id, "op.begin");
                push_out(id, do_sw(&mut tx, &kss, op).unwrap_or_else(|e| format!("err:{e}")));
            }
            park(id, "tx.end");
            match job.kind {
                Kind::Commit => { let r = tx.commit(); /* parks inside at swtx.committed */ push_out(id, match r { Ok(()) => "commit:ok".into(), Err(e) => format!("commit:err:{e:?}") }); }
                Kind::Rollback => tx.rollback(),
                Kind::Panic => { let _ = std::panic::catch_unwind(std::panic::AssertUnwindSafe(move || { let _tx = tx; panic!("user code panics inside the transaction"); })); }
                _ => drop(tx),
            }
        }
    }
    let c = ctl();
    let mut g = c.m.lock().unwrap();
    g[id].done = true;
    c.cv.notify_all();
}

struct Failure { kind: &'static str, detail: String }

fn gen_jobs(r: &mut Rng, nks: usize, thorough: bool) -> Vec<Vec<Job>> {
    let nth = r.range(2, if thorough { 5 } else { 4 });
    let hot = gen_key(r);
    (0..nth).map(|_| {
        (0..r.range(1, 3)).map(|_| {
            let kind = match r.below(13) { 0 => Kind::Rollback, 1 => Kind::DropTx, 2 | 3 => Kind::Ro, 4 | 5 | 6 => Kind::Helper, 7 => Kind::Panic, _ => Kind::Commit };
            let ops = if kind == Kind::Helper {
                let k = r.range(0, nks - 1);
                let key = if r.chance(1, 2) { hot.clone() } else { gen_key(r) };
                vec![match r.below(6) { 0 | 1 => Op::Insert(k, key, gen_val(r)), 2 => Op::Remove(k, key), 3 => Op::Take(k, key), 4 => Op::FetchUpdate(k, key, gen_f(r)), _ => Op::UpdateFetch(k, key, F::App(vec![b'+'])) }]
            } else if kind == Kind::Ro {
                (0..r.range(0, 4)).map(|_| if r.chance(1, 2) { Op::Get(r.range(0, nks - 1), hot.clone()) } else { gen_op(r, nks, 0) }).collect()
            } else if r.chance(1, 3) {
                // a counter-style read-modify-write on the hot key: a lost update shows in the final value
                vec![Op::UpdateFetch(0, hot.clone(), F::App(vec![b'+']))]
            } else {
                (0..r.range(0, 5)).map(|_| if r.chance(1, 4) { Op::FetchUpdate(0, hot.clone(), F::App(vec![b'a' + r.below(26) as u8])) } else { gen_op(r, nks, 5) }).collect()
            };
            Job { kind, ops }
        }).collect()
    }).collect()
}

fn kind_word(k: Kind) -> &'static str { match k { Kind::Commit | Kind::Helper => "commit", Kind::Ro => "ro", _ => "rollback" } }

fn run_case(seed: u64, lean: &mut Lean, hist: &mut BTreeMap<String, u64>, samples: &mut Vec<J>, thorough: bool) -> (Vec<Failure>, bool, u64) {
    let mut r = Rng::new(seed);
    let mut fails: Vec<Failure> = vec![];
    let nks = r.range(1, 2);
    let ids: Vec<u64> = (1..=nks as u64).collect();
    let jobs = gen_jobs(&mut r, nks, thorough);
    let nth = jobs.len();
    let scratch = Scratch::new("swtx");
    let db = match SingleWriterTxDatabase::builder(scratch.join("db")).open() { Ok(d) => d, Err(e) => return (vec![Failure { kind: "harness", detail: format!("open: {e:?}") }], false, 0) };
    let kss: Vec<SingleWriterTxKeyspace> = (0..nks).map(|i| db.keyspace(&format!("k{i}"), KeyspaceCreateOptions::default).unwrap()).collect();
    let mut refm: Vec<Map> = vec![Map::new(); nks];
    let t = TIMEOUT;
    macro_rules! ask { ($($a:tt)*) => {{ let q = format!($($a)*); let a = lean.ask(&q); (q, a) }} }
    let _ = ask!("sw.init 1");
    // committed content before the threads start
    for _ in 0..r.range(0, 4) {
        let k = r.range(0, nks - 1); let key = gen_key(&mut r); let v = gen_val(&mut r);
        kss[k].insert(key.clone(), v.clone()).unwrap();
        refm[k].insert(key.clone(), v.clone());
        let _ = ask!("sw.seed {} {} {}", ids[k], hex(&key), hex(&v));
    }
    let mut h = 0xcbf29ce484222325u64;
    for (tid, js) in jobs.iter().enumerate() {
        for j in js {
            let spec = j.ops.iter().map(|o| o.spec(&ids)).collect::<Vec<_>>().join(" ; ");
            for b in spec.bytes() { h ^= b as u64; h = h.wrapping_mul(0x100000001b3); }
            let (q, a) = ask!("sw.job {} {} {}", tid, kind_word(j.kind), spec);
            if a != "ok" && !no_model() { fails.push(Failure { kind: "harness", detail: format!("model refused `{q}`: {a}") }); }
            *hist.entry(format!("job-{}", kind_word(j.kind))).or_insert(0) += 1;
        }
    }
    { let mut g = ctl().m.lock().unwrap(); g.clear(); for _ in 0..nth { g.push(Agent::default()); } }
    let handles: Vec<_> = jobs.iter().cloned().enumerate().map(|(id, js)| {
        let db = db.clone(); let kss = kss.clone();
        std::thread::spawn(move || {
            let res = std::panic::catch_unwind(std::panic::AssertUnwindSafe(|| agent_body(id, js, db, kss)));
            if res.is_err() { let c = ctl(); let mut g = c.m.lock().unwrap(); g[id].panicked = true; g[id].done = true; c.cv.notify_all(); }
        })
    }).collect();

    // controller state
    let mut job_ix = vec![0usize; nth];          // index of the current job per agent
    let mut out_ix = vec![0usize; nth];          // outputs consumed so far per agent
    let mut tx_outs: Vec<Vec<String>> = vec![vec![]; nth]; // outputs of the current transaction
    let mut ro_ref: Vec<Option<Vec<Map>>> = vec![None; nth];
    let mut pending = vec![false; nth];          // released into `write_tx` while the lock was held
    let mut holder: Option<usize> = None;        // from real events
    let mut commits = 0u64; let mut probes = 0u64; let mut overlapped = 0u64; let mut committers = std::collections::BTreeSet::new();
    let mut trace: Vec<String> = vec![];
    let mut steps = 0;
    for id in 0..nth { if wait_parked(id, t).is_none() { fails.push(Failure { kind: "harness", detail: format!("agent {id} did not start") }); } }

    // after the lock was released: a pending agent gets it at once
    macro_rules! settle_pending { () => {{
        if pending.iter().any(|p| *p) {
            let deadline = Instant::now() + t;
            let mut got = None;
            while Instant::now() < deadline && got.is_none() {
                for id in 0..nth { if pending[id] { if let Some(p) = wait_parked(id, Duration::from_millis(5)) { got = Some((id, p)); break; } } }
            }
            match got {
                Some((id, "swtx.locked")) => {
                    pending[id] = false;
                    if let Some(o) = holder { fails.push(Failure { kind: "impl-vs-oracle", detail: format!("thread {id} entered its write transaction while thread {o} still holds the single-writer lock; trace: {}", trace.join(" | ")) }); }
                    holder = Some(id);
                    let (_, a) = ask!("sw.step {id}");
                    trace.push(format!("t{id}:acquired-after-wait"));
                    if a != "locked" && !no_model() { fails.push(Failure { kind: "model-vs-impl", detail: format!("waiting thread {id} acquired the lock, model says `{a}`; trace: {}", trace.join(" | ")) }); }
                }
                Some((id, p)) => fails.push(Failure { kind: "harness", detail: format!("pending agent {id} surfaced at {p}") }),
                None => fails.push(Failure { kind: "impl-vs-oracle", detail: format!("the single-writer lock was released but no waiting transaction got it within {t:?}; trace: {}", trace.join(" | ")) }),
            }
        }
    }} }

    loop {
        if !fails.is_empty() || steps > 400 { break; }
        let cands: Vec<usize> = { let g = ctl().m.lock().unwrap(); (0..nth).filter(|i| !g[*i].done && !pending[*i]).collect() };
        if cands.is_empty() { break; }
        let id = *r.pick(&cands);
        let at = match wait_parked(id, t) { Some(p) => p, None => { fails.push(Failure { kind: "harness", detail: format!("agent {id} neither parked nor done") }); break; } };
        if at == "done" { continue; }
        let job = &jobs[id][job_ix[id]];
        steps += 1;
        if holder.is_some() && holder != Some(id) { overlapped += 1; }
        match at {
            "job.begin" if job.kind == Kind::Ro => {
                ro_ref[id] = Some(refm.clone());
                release(id);
                let p = wait_parked(id, t);
                let (_, a) = ask!("sw.step {id}");
                trace.push(format!("t{id}:read_tx"));
                if p.is_none() { fails.push(Failure { kind: "impl-vs-oracle", detail: format!("read_tx of thread {id} did not return within {t:?} (lock holder: {holder:?}); trace: {}", trace.join(" | ")) }); }
                if a != "reading" && !no_model() { fails.push(Failure { kind: "model-vs-impl", detail: format!("read_tx: model says `{a}`") }); }
            }
            "job.begin" => {
                if holder.is_none() {
                    release(id);
                    match wait_parked(id, t) {
                        Some("swtx.locked") => { holder = Some(id); }
                        other => fails.push(Failure { kind: "impl-vs-oracle", detail: format!("write_tx of thread {id} with the lock free did not reach the locked point within {t:?} (at {other:?}); trace: {}", trace.join(" | ")) }),
                    }
                    let (_, a) = ask!("sw.step {id}");
                    trace.push(format!("t{id}:write_tx"));
                    if a != "locked" && !no_model() { fails.push(Failure { kind: "model-vs-impl", detail: format!("write_tx with the lock free: model says `{a}`; trace: {}", trace.join(" | ")) }); }
                } else if r.chance(1, 2) {
                    // block probe: the thread must wait inside write_tx
                    release(id);
                    probes += 1;
                    let p = wait_parked(id, Duration::from_millis(if thorough { 60 } else { 30 }));
                    let (_, a) = ask!("sw.step {id}");
                    trace.push(format!("t{id}:write_tx-while-held"));
                    if let Some(p) = p { fails.push(Failure { kind: "impl-vs-oracle", detail: format!("write transactions overlap: thread {id} got through write_tx (now at {p}) while thread {:?} holds the single-writer lock; trace: {}", holder.unwrap(), trace.join(" | ")) }); }
                    else { pending[id] = true; }
                    if a != "blocked" && !no_model() { fails.push(Failure { kind: "model-vs-impl", detail: format!("write_tx while the lock is held: model says `{a}`") }); }
                }
            }
            "swtx.locked" if job.kind == Kind::Helper => {
                // the helper opens its snapshot, runs its one operation and commits without a stop in between
                let mut m = refm.clone();
                let exp = ref_op(&mut m, &job.ops[0]);
                release(id);
                let p = wait_parked(id, t);
                let (_, a1) = ask!("sw.step {id}");
                let (_, a2) = ask!("sw.step {id}");
                let (_, a3) = ask!("sw.step {id}");
                trace.push(format!("t{id}:helper {}", job.ops[0].spec(&ids)));
                *hist.entry(format!("helper-{}", job.ops[0].name())).or_insert(0) += 1;
                if p != Some("swtx.committed") { fails.push(Failure { kind: "harness", detail: format!("helper of agent {id} after its commit at {p:?}") }); }
                refm = m; commits += 1; committers.insert(id);
                tx_outs[id] = vec![exp, a2.strip_prefix("out ").unwrap_or(&a2).to_string()];
                if (a1 != "opened" || !a2.starts_with("out ") || !a3.starts_with("committed")) && !no_model() { fails.push(Failure { kind: "model-vs-impl", detail: format!("helper operation: model says `{a1}` / `{a2}` / `{a3}`") }); }
            }
            "swtx.locked" => {
                release(id);
                let p = wait_parked(id, t);
                let (_, a) = ask!("sw.step {id}");
                trace.push(format!("t{id}:snapshot"));
                tx_outs[id].clear();
                if p.is_none() { fails.push(Failure { kind: "harness", detail: format!("agent {id} stuck after swtx.locked") }); }
                if a != "opened" && !no_model() { fails.push(Failure { kind: "model-vs-impl", detail: format!("snapshot after lock: model says `{a}`") }); }
            }
            "op.begin" => {
                release(id);
                let p = wait_parked(id, t);
                if p.is_none() { fails.push(Failure { kind: "harness", detail: format!("agent {id} stuck in an operation") }); break; }
                let real = { let g = ctl().m.lock().unwrap(); g[id].out.get(out_ix[id]).cloned().unwrap_or_else(|| "missing".into()) };
                out_ix[id] += 1;
                let (q, a) = ask!("sw.step {id}");
                let opn = tx_outs[id].len();
                trace.push(format!("t{id}:{}={}", job.ops[opn].spec(&ids), real));
                tx_outs[id].push(real.clone());
                *hist.entry(format!("op-{}", job.ops[opn].name())).or_insert(0) += 1;
                if a != format!("out {real}") && !no_model() { fails.push(Failure { kind: "model-vs-impl", detail: format!("`{q}` ({}) real `{real}` model `{a}`; trace: {}", job.ops[opn].spec(&ids), trace.join(" | ")) }); }
            }
            "tx.end" => {
                // serial replay at the commit point (read-only: at the snapshot)
                let mut m = if job.kind == Kind::Ro { ro_ref[id].take().unwrap_or_else(|| refm.clone()) } else { refm.clone() };
                let exp: Vec<String> = job.ops.iter().map(|o| ref_op(&mut m, o)).collect();
                if exp != tx_outs[id] {
                    fails.push(Failure { kind: "impl-vs-oracle", detail: format!("thread {id}'s {} transaction observed {:?}; executed alone at its {} it observes {:?} (ops: {}); trace: {}", kind_word(job.kind), tx_outs[id], if job.kind == Kind::Ro { "snapshot" } else { "commit point" }, exp, job.ops.iter().map(|o| o.spec(&ids)).collect::<Vec<_>>().join(" ; "), trace.join(" | ")) });
                }
                let hold_mid_commit = job.kind == Kind::Commit && id < 8 && r.chance(1, 2);
                if id < 8 { PARK_UNLOCKED[id].store(hold_mid_commit, std::sync::atomic::Ordering::Release); }
                release(id);
                let p = wait_parked(id, t);
                let (_, a) = ask!("sw.step {id}");
                match job.kind {
                    Kind::Commit => {
                        trace.push(format!("t{id}:commit{}", if p == Some("write.unlocked") { " (held right after its journal batch left the critical section)" } else { "" }));
                        if p == Some("write.unlocked") { *hist.entry("commit-held-after-its-batch".into()).or_insert(0) += 1; }
                        if p != Some("swtx.committed") && p != Some("write.unlocked") { fails.push(Failure { kind: "harness", detail: format!("agent {id} after commit at {p:?}") }); }
                        refm = m; commits += 1; committers.insert(id);
                        if !a.starts_with("committed") && !no_model() { fails.push(Failure { kind: "model-vs-impl", detail: format!("commit: model says `{a}`") }); }
                    }
                    Kind::Ro => {
                        trace.push(format!("t{id}:read_tx-end"));
                        job_ix[id] += 1; tx_outs[id].clear();
                        if a != "readdone" && !no_model() { fails.push(Failure { kind: "model-vs-impl", detail: format!("end of read_tx: model says `{a}`") }); }
                    }
                    _ => {
                        trace.push(format!("t{id}:{}", if job.kind == Kind::Panic { "thread panics inside the transaction (dropped by unwinding)" } else { "rollback" }));
                        if job.kind == Kind::Panic { *hist.entry("panic-inside-transaction".into()).or_insert(0) += 1; }
                        job_ix[id] += 1; tx_outs[id].clear();
                        if holder == Some(id) { holder = None; }
                        if a != "rolledback" && !no_model() { fails.push(Failure { kind: "model-vs-impl", detail: format!("rollback: model says `{a}`") }); }
                        settle_pending!();
                    }
                }
            }
            "write.unlocked" => {
                // the commit goes on: a transaction commit is one journal batch, so the next stop is the end of the commit
                release(id);
                let p = wait_parked(id, t);
                trace.push(format!("t{id}:commit continues"));
                if p == Some("write.unlocked") { fails.push(Failure { kind: "impl-vs-oracle", detail: format!("the commit of thread {id}'s transaction went through a second journal batch: a transaction is not committed as one batch; trace: {}", trace.join(" | ")) }); }
                else if p != Some("swtx.committed") { fails.push(Failure { kind: "harness", detail: format!("agent {id} after its batch at {p:?}") }); }
                if id < 8 { PARK_UNLOCKED[id].store(false, std::sync::atomic::Ordering::Release); }
            }
            "swtx.committed" => {
                if id < 8 { PARK_UNLOCKED[id].store(false, std::sync::atomic::Ordering::Release); }
                release(id);
                let p = wait_parked(id, t);
                if p.is_none() { fails.push(Failure { kind: "harness", detail: format!("agent {id} stuck after commit") }); }
                let real = { let g = ctl().m.lock().unwrap(); g[id].out.get(out_ix[id]).cloned().unwrap_or_else(|| "missing".into()) };
                out_ix[id] += 1;
                if job.kind == Kind::Helper {
                    // tx_outs = [serial-replay expectation, model output]
                    trace.push(format!("t{id}:helper-result {real}"));
                    if real != tx_outs[id][0] { fails.push(Failure { kind: "impl-vs-oracle", detail: format!("helper operation {} of thread {id} returned {real}; executed alone at its commit point it returns {}; trace: {}", job.ops[0].spec(&ids), tx_outs[id][0], trace.join(" | ")) }); }
                    if real != tx_outs[id][1] && !no_model() { fails.push(Failure { kind: "model-vs-impl", detail: format!("helper operation {}: real `{real}` model `{}`", job.ops[0].spec(&ids), tx_outs[id][1]) }); }
                } else if real != "commit:ok" { fails.push(Failure { kind: "impl-vs-oracle", detail: format!("commit of thread {id} returned {real}") }); }
                let (_, a) = ask!("sw.step {id}");
                trace.push(format!("t{id}:guard-dropped"));
                job_ix[id] += 1; tx_outs[id].clear();
                if holder == Some(id) { holder = None; }
                if a != "released" && !no_model() { fails.push(Failure { kind: "model-vs-impl", detail: format!("guard drop: model says `{a}`") }); }
                settle_pending!();
            }
            other => { fails.push(Failure { kind: "harness", detail: format!("agent {id} at unexpected point {other}") }); break; }
        }
    }
    // let everything finish (also after a failure, so that no thread is left parked)
    let deadline = Instant::now() + Duration::from_secs(20);
    loop {
        let all_done = { let g = ctl().m.lock().unwrap(); g.iter().all(|a| a.done) };
        if all_done || Instant::now() > deadline { break; }
        for id in 0..nth { if wait_parked(id, Duration::from_millis(2)).map(|p| p != "done").unwrap_or(false) { release(id); } }
    }
    let finished = { let g = ctl().m.lock().unwrap(); g.iter().all(|a| a.done) };
    if finished { for hnd in handles { let _ = hnd.join(); } } else { std::mem::forget(handles); fails.push(Failure { kind: "harness", detail: "agents did not finish".into() }); std::mem::forget(scratch); return (fails, false, h); }
    if ctl().m.lock().unwrap().iter().any(|a| a.panicked) { fails.push(Failure { kind: "impl-vs-oracle", detail: format!("a transaction thread panicked; trace: {}", trace.join(" | ")) }); }
    if fails.is_empty() {
        for k in 0..nks {
            let real = dump(kss[k].inner());
            if real != refm[k] { fails.push(Failure { kind: "impl-vs-oracle", detail: format!("final content of keyspace {k} differs from the committed transactions applied in commit order: real {:?} expected {:?}; trace: {}", real.iter().map(|(a, b)| format!("{}={}", hex(a), hex(b))).collect::<Vec<_>>(), refm[k].iter().map(|(a, b)| format!("{}={}", hex(a), hex(b))).collect::<Vec<_>>(), trace.join(" | ")) }); }
            let (_, a) = ask!("sw.top {}", ids[k]);
            let exp = ref_pairs(refm[k].iter());
            if a != exp && !no_model() { fails.push(Failure { kind: "model-vs-impl", detail: format!("final content keyspace {k}: model `{a}` real `{exp}`") }); }
        }
        let (_, a) = ask!("sw.lock");
        if a != "none" && !no_model() { fails.push(Failure { kind: "model-vs-impl", detail: format!("lock after all threads finished: model `{a}`") }); }
    }
    *hist.entry("steps".into()).or_insert(0) += steps as u64;
    *hist.entry("block-probes".into()).or_insert(0) += probes;
    *hist.entry("steps-while-another-holds".into()).or_insert(0) += overlapped;
    *hist.entry("commits".into()).or_insert(0) += commits;
    if samples.len() < 3 { let mut o = J::obj(); o.set("threads", J::i(nth as i64)); o.set("trace", J::s(trace.join(" | "))); samples.push(o); }
    let nontrivial = committers.len() >= 2 && (probes > 0 || overlapped > 0);
    (fails, nontrivial, h)
}

const TIMEOUT: Duration = Duration::from_secs(60);

fn main() {
    let args: Vec<String> = std::env::args().collect();
    let mut replay = None;
    let mut i = 1;
    while i < args.len() { if args[i] == "--replay-seed" { replay = args[i + 1].parse().ok(); i += 1; } i += 1; }
    let thorough = tier_is_thorough();
    let seed = env_u64("VERIF_SEED", 1);
    let n = env_u64("VERIF_CASES", if thorough { 4000 } else { 300 });
    if std::env::var("VERIF_QUIET_PANICS").is_ok() { std::panic::set_hook(Box::new(|_| {})); }
    fjall::verif::pause::set(Some(Arc::new(hook)));
    let t0 = Instant::now();
    let mut lean = Lean::spawn();
    let mut master = Rng::new(seed);
    let seeds: Vec<u64> = match replay { Some(s) => vec![s], None => (0..n).map(|_| master.fork()).collect() };
    let mut all = vec![];
    let mut nontrivial = std::collections::HashSet::new();
    let mut samples = vec![];
    let mut hist = BTreeMap::new();
    let mut cases = 0;
    for cs in seeds {
        let res = std::panic::catch_unwind(std::panic::AssertUnwindSafe(|| run_case(cs, &mut lean, &mut hist, &mut samples, thorough)));
        cases += 1;
        match res {
            Ok((f, nt, h)) => { if nt { nontrivial.insert(h); } for x in f { all.push((cs, x)); } }
            Err(_) => all.push((cs, Failure { kind: "harness", detail: "panic in the swtx engine".into() })),
        }
        if all.len() > 3 { break; }
    }
    let mut res = J::obj();
    res.set("engine", J::s("swtx"));
    res.set("seed", J::i(seed as i64));
    res.set("cases", J::i(cases));
    res.set("distinct_nontrivial", J::i(nontrivial.len() as i64));
    res.set("distribution", J::Obj(hist.iter().map(|(k, v)| (k.clone(), J::i(*v as i64))).collect()));
    res.set("model_requests", J::i(lean.requests as i64));
    res.set("samples", J::Arr(samples));
    res.set("wall_s", J::Num(t0.elapsed().as_secs_f64()));
    res.set("failures", J::Arr(all.iter().map(|(cs, f)| { let mut o = J::obj(); o.set("case_seed", J::s(cs.to_string())); o.set("kind", J::s(f.kind)); o.set("detail", J::s(f.detail.clone())); o }).collect()));
    println!("RESULT {}", res.render());
    std::process::exit(if all.is_empty() { 0 } else { 1 });
}
