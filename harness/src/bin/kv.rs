//! `kv` engine: multi-keyspace programs with background maintenance as a controlled input
//! (0 worker threads + verif_worker_step) vs the Lean Mvcc/Kv model vs a BTreeMap oracle.
//!   --mode c01 : ordered-map equivalence under maintenance
use fjall::{Database, Keyspace, KeyspaceCreateOptions, KvSeparationOptions};
use std::collections::BTreeMap;
use std::ops::Bound;
use std::sync::Arc;
use verif_harness::json::J;
use verif_harness::*;

type Map = BTreeMap<Vec<u8>, Vec<u8>>;

#[derive(Clone, Debug)]
enum B { U, I(Vec<u8>), E(Vec<u8>) }
impl B {
    fn spec(&self) -> String { match self { B::U => "U".into(), B::I(k) => format!("I{}", hex(k)), B::E(k) => format!("E{}", hex(k)) } }
    fn to(&self) -> Bound<Vec<u8>> { match self { B::U => Bound::Unbounded, B::I(k) => Bound::Included(k.clone()), B::E(k) => Bound::Excluded(k.clone()) } }
}
fn in_range(k: &[u8], lo: &B, hi: &B) -> bool {
    (match lo { B::U => true, B::I(b) => k >= &b[..], B::E(b) => k > &b[..] }) && (match hi { B::U => true, B::I(b) => k <= &b[..], B::E(b) => k < &b[..] })
}
fn range_ok(lo: &B, hi: &B) -> bool {
    // std's BTreeMap / lsm-tree panic on inverted bounds: legal only when lo <= hi
    match (lo, hi) {
        (B::I(a), B::I(b)) => a <= b,
        (B::I(a), B::E(b)) | (B::E(a), B::I(b)) => a <= b,
        (B::E(a), B::E(b)) => a < b,
        _ => true,
    }
}

#[derive(Clone, Debug)]
enum Op {
    Insert(usize, Vec<u8>, Vec<u8>), Remove(usize, Vec<u8>), Batch(Vec<(usize, Vec<u8>, Option<Vec<u8>>)>), Clear(usize),
    Ingest(usize, Vec<(Vec<u8>, Option<Vec<u8>>)>),
    Rotate(usize), Step, MajorCompact(usize), JournalRotate,
    Get(usize, Vec<u8>), Contains(usize, Vec<u8>), SizeOf(usize, Vec<u8>), Scan(usize, B, B), Prefix(usize, Vec<u8>),
    Len(usize), IsEmpty(usize), First(usize), Last(usize),
}

fn gen_key(r: &mut Rng) -> Vec<u8> {
    match r.below(16) {
        0 => vec![0xff],
        1 => vec![b'a', 0xff],
        2 => vec![b'a'],
        3 => vec![0],
        _ => vec![b'a' + r.below(3) as u8, b'0' + r.below(4) as u8],
    }
}
fn gen_val(r: &mut Rng) -> Vec<u8> {
    match r.below(8) { 0 => vec![], 1 => r.bytes(100), 2 => r.bytes(700), 3 => vec![b'x'; 2000], _ => vec![b'v', r.below(256) as u8] }
}
fn gen_bound(r: &mut Rng) -> B { match r.below(5) { 0 => B::U, 1 | 2 => B::I(gen_key(r)), _ => B::E(gen_key(r)) } }

fn gen_op(r: &mut Rng, nks: usize) -> Op {
    let k = r.range(0, nks - 1);
    match r.below(40) {
        0..=8 => Op::Insert(k, gen_key(r), gen_val(r)),
        9..=12 => Op::Remove(k, gen_key(r)),
        13 | 14 => {
            let n = r.range(0, 5);
            // a batch may name a key more than once (the last item wins); half of the batches do
            let dedupe = r.chance(1, 2);
            let mut seen = std::collections::HashSet::new();
            let mut items: Vec<(usize, Vec<u8>, Option<Vec<u8>>)> = vec![];
            for _ in 0..n {
                let ks = r.range(0, nks - 1);
                let key = if !dedupe && !items.is_empty() && r.chance(1, 2) { let p = r.pick(&items); (p.0, p.1.clone()) } else { (ks, gen_key(r)) };
                if !dedupe || seen.insert(key.clone()) {
                    items.push((key.0, key.1, if r.chance(3, 4) { Some(gen_val(r)) } else { None }));
                }
            }
            Op::Batch(items)
        }
        15 => Op::Clear(k),
        16 | 17 => {
            let n = r.range(0, 5);
            let mut m: BTreeMap<Vec<u8>, Option<Vec<u8>>> = BTreeMap::new();
            for _ in 0..n { m.insert(gen_key(r), if r.chance(4, 5) { Some(gen_val(r)) } else { None }); }
            Op::Ingest(k, m.into_iter().collect())
        }
        18..=20 => Op::Rotate(k),
        21..=25 => Op::Step,
        26 => Op::MajorCompact(k),
        27 => Op::JournalRotate,
        28..=30 => Op::Get(k, gen_key(r)),
        31 => Op::Contains(k, gen_key(r)),
        32 => Op::SizeOf(k, gen_key(r)),
        33 | 34 => loop { let (lo, hi) = (gen_bound(r), gen_bound(r)); if range_ok(&lo, &hi) { break Op::Scan(k, lo, hi); } },
        35 => Op::Prefix(k, match r.below(4) { 0 => vec![], 1 => vec![0xff], 2 => vec![b'a', 0xff], _ => vec![b'a' + r.below(3) as u8] }),
        36 => Op::Len(k),
        37 => Op::IsEmpty(k),
        38 => Op::First(k),
        _ => Op::Last(k),
    }
}

fn pairs_str<'a>(it: impl Iterator<Item = (&'a Vec<u8>, &'a Vec<u8>)>) -> String {
    format!("pairs:{}", it.map(|(k, v)| format!("{}={}", hex(k), hex(v))).collect::<Vec<_>>().join(","))
}
fn collect(it: fjall::Iter) -> Result<Vec<(Vec<u8>, Vec<u8>)>, String> {
    let mut v = vec![];
    for g in it { let (k, val) = g.into_inner().map_err(|e| format!("{e:?}"))?; v.push((k.to_vec(), val.to_vec())); }
    Ok(v)
}
fn collect_rev(it: fjall::Iter) -> Result<Vec<(Vec<u8>, Vec<u8>)>, String> {
    let mut v = vec![];
    for g in it.rev() { let (k, val) = g.into_inner().map_err(|e| format!("{e:?}"))?; v.push((k.to_vec(), val.to_vec())); }
    Ok(v)
}
/// consume from both ends, alternating by `pattern` bits
fn collect_both(mut it: fjall::Iter, mut pattern: u64) -> Result<Vec<(Vec<u8>, Vec<u8>)>, String> {
    let mut front = vec![];
    let mut back = vec![];
    loop {
        let from_front = pattern & 1 == 0;
        pattern = pattern.rotate_right(1);
        let g = if from_front { it.next() } else { it.next_back() };
        match g {
            None => break,
            Some(g) => { let (k, v) = g.into_inner().map_err(|e| format!("{e:?}"))?; if from_front { front.push((k.to_vec(), v.to_vec())); } else { back.push((k.to_vec(), v.to_vec())); } }
        }
    }
    back.reverse();
    front.extend(back);
    Ok(front)
}

struct Failure { kind: &'static str, detail: String }

#[derive(Clone, Debug)]
struct KsCfg { blob: bool, tiny_memtable: bool, fifo: bool }

fn make_opts(c: &KsCfg) -> KeyspaceCreateOptions {
    let mut o = KeyspaceCreateOptions::default();
    if c.blob { o = o.with_kv_separation(Some(KvSeparationOptions::default().separation_threshold(64))); }
    if c.tiny_memtable { o = o.max_memtable_size(1_000); }
    if c.fifo { o = o.compaction_strategy(Arc::new(fjall::compaction::Fifo::new(u64::MAX / 4, None))); }
    o
}

fn drain_if_stalling(db: &Database, kss: &[Keyspace], ids: &[u64], lean: &mut Lean, trace: &mut Vec<String>) -> Result<(), String> {
    // with 0 worker threads a writer would spin forever once 4 memtables are sealed or L0 has 20 runs
    let mut guard = 0;
    while kss.iter().any(|k| k.sealed_memtable_count() >= 3 || k.l0_table_count() >= 12) && guard < 200 {
        guard += 1;
        if step(db, kss, ids, lean, trace)?.is_none() { break; }
    }
    Ok(())
}

/// run one queued worker message on this thread and mirror its effect in the model
fn step(db: &Database, kss: &[Keyspace], ids: &[u64], lean: &mut Lean, trace: &mut Vec<String>) -> Result<Option<&'static str>, String> {
    let sealed_before: Vec<usize> = kss.iter().map(|k| k.sealed_memtable_count()).collect();
    let kind = fjall::verif::verif_worker_step(db).map_err(|e| format!("worker step failed: {e:?}"))?;
    let Some(kind) = kind else { return Ok(None) };
    trace.push(format!("step:{kind}"));
    for (i, k) in kss.iter().enumerate() {
        let after = k.sealed_memtable_count();
        if kind == "flush" && after < sealed_before[i] {
            lean.ask(&format!("kv.op flush {} 0", ids[i]));
        }
        if kind == "rotate" && after > sealed_before[i] {
            lean.ask(&format!("kv.op rotate {}", ids[i]));
        }
    }
    // strategy-chosen compactions: which runs were merged is the strategy's business; the model
    // proves every choice invisible, so nothing is mirrored for "compact"
    Ok(Some(kind))
}

fn run_case(seed: u64, lean: &mut Lean, hist: &mut BTreeMap<String, u64>, samples: &mut Vec<J>, thorough: bool) -> (Vec<Failure>, bool, u64) {
    let mut r = Rng::new(seed);
    let mut fails = vec![];
    let nks = r.range(1, 3);
    let cfgs: Vec<KsCfg> = (0..nks).map(|_| KsCfg { blob: r.chance(1, 3), tiny_memtable: r.chance(1, 3), fifo: false }).collect();
    let scratch = Scratch::new("kv");
    let db = Database::builder(scratch.join("db")).worker_threads_unchecked(0).open().unwrap();
    let kss: Vec<Keyspace> = (0..nks).map(|i| db.keyspace(&format!("ks{i}"), || make_opts(&cfgs[i])).unwrap()).collect();
    let ids: Vec<u64> = kss.iter().map(|k| k.id()).collect();
    for c in &cfgs { *hist.entry(format!("cfg:blob={},tiny={},fifo={}", c.blob, c.tiny_memtable, c.fifo)).or_insert(0) += 1; }
    lean.ask("kv.reset");
    let mut refm: Vec<Map> = vec![Map::new(); nks];
    let nops = r.range(20, if thorough { 200 } else { 70 });
    let mut trace: Vec<String> = vec![];
    let mut maint_between = false; // a maintenance op happened since some overwrite/remove
    let mut dirty: std::collections::HashSet<(usize, Vec<u8>)> = Default::default();
    let mut maint_after_dirty = false;
    let mut nontrivial = false;

    macro_rules! fail { ($k:expr, $($a:tt)*) => {{ fails.push(Failure { kind: $k, detail: format!("{}; trace={:?}", format!($($a)*), trace) }); return (fails, false, 0); }} }

    for _ in 0..nops {
        let op = gen_op(&mut r, nks);
        let name = format!("{op:?}");
        let name = name.split('(').next().unwrap().to_string();
        *hist.entry(format!("op={name}")).or_insert(0) += 1;
        if let Err(e) = drain_if_stalling(&db, &kss, &ids, lean, &mut trace) { fail!("impl-vs-oracle", "{e}"); }
        let res = std::panic::catch_unwind(std::panic::AssertUnwindSafe(|| -> Result<(Option<String>, Option<String>, Option<String>), String> {
            let e = |e: fjall::Error| format!("{e:?}");
            // returns (model command, real output, oracle output)
            Ok(match &op {
                Op::Insert(k, key, v) => {
                    kss[*k].insert(key.clone(), v.clone()).map_err(e)?;
                    refm[*k].insert(key.clone(), v.clone());
                    (Some(format!("insert {} {} {}", ids[*k], hex(key), hex(v))), Some("unit".into()), Some("unit".into()))
                }
                Op::Remove(k, key) => {
                    kss[*k].remove(key.clone()).map_err(e)?;
                    refm[*k].remove(key);
                    (Some(format!("remove {} {}", ids[*k], hex(key))), Some("unit".into()), Some("unit".into()))
                }
                Op::Batch(items) => {
                    let mut b = db.batch();
                    for (k, key, v) in items {
                        match v { Some(v) => b.insert(&kss[*k], key.clone(), v.clone()), None => b.remove(&kss[*k], key.clone()) }
                    }
                    b.commit().map_err(e)?;
                    for (k, key, v) in items { match v { Some(v) => { refm[*k].insert(key.clone(), v.clone()); } None => { refm[*k].remove(key); } } }
                    let spec: Vec<String> = items.iter().map(|(k, key, v)| format!("{}:{}:{}", ids[*k], hex(key), v.as_ref().map(|v| hex(v)).unwrap_or("~".into()))).collect();
                    (Some(if spec.is_empty() { "batch".into() } else { format!("batch {}", spec.join(";")) }), Some("unit".into()), Some("unit".into()))
                }
                Op::Clear(k) => {
                    kss[*k].clear().map_err(e)?;
                    refm[*k].clear();
                    (Some(format!("clear {}", ids[*k])), Some("unit".into()), Some("unit".into()))
                }
                Op::Ingest(k, items) => {
                    let mut ing = kss[*k].start_ingestion().map_err(e)?;
                    for (key, v) in items { match v { Some(v) => ing.write(key.clone(), v.clone()).map_err(e)?, None => ing.write_tombstone(key.clone()).map_err(e)? } }
                    ing.finish().map_err(e)?;
                    for (key, v) in items { match v { Some(v) => { refm[*k].insert(key.clone(), v.clone()); } None => { refm[*k].remove(key); } } }
                    let spec: Vec<String> = items.iter().map(|(key, v)| format!("{}:{}", hex(key), v.as_ref().map(|v| hex(v)).unwrap_or("~".into()))).collect();
                    (Some(if spec.is_empty() { format!("ingest {}", ids[*k]) } else { format!("ingest {} {}", ids[*k], spec.join(";")) }), Some("unit".into()), Some("unit".into()))
                }
                Op::Rotate(k) => {
                    let rotated = kss[*k].rotate_memtable().map_err(e)?;
                    (if rotated { Some(format!("rotate {}", ids[*k])) } else { None }, None, None)
                }
                Op::Step => { (None, None, None) }
                Op::MajorCompact(k) => {
                    kss[*k].major_compact().map_err(e)?;
                    (Some(format!("compactall {} 0", ids[*k])), None, None)
                }
                Op::JournalRotate => { fjall::verif::verif_rotate_journal(&db).map_err(e)?; (None, None, None) }
                Op::Get(k, key) => {
                    let real = match kss[*k].get(key).map_err(e)? { None => "val:none".to_string(), Some(v) => format!("val:{}", hex(&v)) };
                    let orc = match refm[*k].get(key) { None => "val:none".to_string(), Some(v) => format!("val:{}", hex(v)) };
                    (Some(format!("get {} {}", ids[*k], hex(key))), Some(real), Some(orc))
                }
                Op::Contains(k, key) => (Some(format!("contains {} {}", ids[*k], hex(key))), Some(format!("bool:{}", kss[*k].contains_key(key).map_err(e)? as u8)), Some(format!("bool:{}", refm[*k].contains_key(key) as u8))),
                Op::SizeOf(k, key) => {
                    let real = match kss[*k].size_of(key).map_err(e)? { None => "size:none".to_string(), Some(n) => format!("size:{n}") };
                    let orc = match refm[*k].get(key) { None => "size:none".to_string(), Some(v) => format!("size:{}", v.len()) };
                    (Some(format!("sizeof {} {}", ids[*k], hex(key))), Some(real), Some(orc))
                }
                Op::Scan(k, lo, hi) => {
                    let fwd = collect(kss[*k].range::<Vec<u8>, _>((lo.to(), hi.to())))?;
                    let rev = collect_rev(kss[*k].range::<Vec<u8>, _>((lo.to(), hi.to())))?;
                    let both = collect_both(kss[*k].range::<Vec<u8>, _>((lo.to(), hi.to())), r.next())?;
                    let mut rr = rev.clone(); rr.reverse();
                    if rr != fwd { return Err(format!("reverse scan is not the reverse of the forward scan for {op:?}")); }
                    if both != fwd { return Err(format!("consuming the scan from both ends does not yield a prefix and a suffix of the forward scan for {op:?}")); }
                    (Some(format!("scan {} {} {}", ids[*k], lo.spec(), hi.spec())), Some(pairs_str(fwd.iter().map(|(a, b)| (a, b)))), Some(pairs_str(refm[*k].iter().filter(|(key, _)| in_range(key, lo, hi)))))
                }
                Op::Prefix(k, p) => {
                    let fwd = collect(kss[*k].prefix(p))?;
                    let rev = collect_rev(kss[*k].prefix(p))?;
                    let mut rr = rev; rr.reverse();
                    if rr != fwd { return Err(format!("reverse prefix scan is not the reverse of the forward scan for {op:?}")); }
                    (Some(format!("prefix {} {}", ids[*k], hex(p))), Some(pairs_str(fwd.iter().map(|(a, b)| (a, b)))), Some(pairs_str(refm[*k].iter().filter(|(key, _)| key.starts_with(p)))))
                }
                Op::Len(k) => {
                    let it = collect(kss[*k].iter())?;
                    let n = kss[*k].len().map_err(e)?;
                    if it.len() != n { return Err(format!("len() = {n} but iter() yields {} items", it.len())); }
                    (Some(format!("len {}", ids[*k])), Some(format!("count:{n}")), Some(format!("count:{}", refm[*k].len())))
                }
                Op::IsEmpty(k) => (Some(format!("isempty {}", ids[*k])), Some(format!("bool:{}", kss[*k].is_empty().map_err(e)? as u8)), Some(format!("bool:{}", refm[*k].is_empty() as u8))),
                Op::First(k) => {
                    let real = match kss[*k].first_key_value() { None => "pair:none".to_string(), Some(g) => { let (a, b) = g.into_inner().map_err(e)?; format!("pair:{}={}", hex(&a), hex(&b)) } };
                    let orc = match refm[*k].iter().next() { None => "pair:none".to_string(), Some((a, b)) => format!("pair:{}={}", hex(a), hex(b)) };
                    (Some(format!("first {}", ids[*k])), Some(real), Some(orc))
                }
                Op::Last(k) => {
                    let real = match kss[*k].last_key_value() { None => "pair:none".to_string(), Some(g) => { let (a, b) = g.into_inner().map_err(e)?; format!("pair:{}={}", hex(&a), hex(&b)) } };
                    let orc = match refm[*k].iter().next_back() { None => "pair:none".to_string(), Some((a, b)) => format!("pair:{}={}", hex(a), hex(b)) };
                    (Some(format!("last {}", ids[*k])), Some(real), Some(orc))
                }
            })
        }));
        trace.push(match &op { Op::Insert(k, key, v) => format!("insert ks{k} {} [{}B]", hex(key), v.len()), Op::Ingest(k, it) => format!("ingest ks{k} {:?}", it.iter().map(|(a, b)| (hex(a), b.as_ref().map(|x| x.len()))).collect::<Vec<_>>()), Op::Batch(it) => format!("batch {:?}", it.iter().map(|(k, a, b)| (k, hex(a), b.as_ref().map(|x| x.len()))).collect::<Vec<_>>()), o => format!("{o:?}") });
        let (cmd, real, orc) = match res {
            Ok(Ok(x)) => x,
            Ok(Err(e)) => fail!("impl-vs-oracle", "{e}"),
            Err(_) => fail!("impl-vs-oracle", "panic in {op:?}"),
        };
        if let Op::Step = op {
            match step(&db, &kss, &ids, lean, &mut trace) { Ok(_) => {}, Err(e) => fail!("impl-vs-oracle", "{e}") }
        }
        // bookkeeping for the non-triviality rule
        match &op {
            Op::Insert(k, key, _) | Op::Remove(k, key) => { if refm[*k].contains_key(key) || matches!(op, Op::Remove(..)) { dirty.insert((*k, key.clone())); } }
            Op::Rotate(_) | Op::Step | Op::MajorCompact(_) | Op::JournalRotate => { if !dirty.is_empty() { maint_after_dirty = true; maint_between = true; } }
            Op::Get(k, key) => { if maint_after_dirty && dirty.contains(&(*k, key.clone())) { nontrivial = true; } }
            Op::Scan(..) | Op::Prefix(..) | Op::Len(..) => { if maint_after_dirty { nontrivial = true; } }
            _ => {}
        }
        if let (Some(real), Some(orc)) = (&real, &orc) {
            if real != orc { fail!("impl-vs-oracle", "{op:?} returned {} but a sorted map returns {}", clip(real), clip(orc)); }
        }
        if let Some(cmd) = cmd {
            let m = lean.ask(&format!("kv.op {cmd}"));
            if let Some(real) = &real {
                if !no_model() && &m != real { fail!("model-vs-impl", "{op:?}: model {} vs real {}", clip(&m), clip(real)); }
            } else if !no_model() && m != "unit" { fail!("model-vs-impl", "{op:?}: model says {m}"); }
        }
        // internal observable compared as a relation only
        if db.visible_seqno() > db.seqno() { fail!("impl-vs-oracle", "visible seqno {} above seqno counter {}", db.visible_seqno(), db.seqno()); }
    }
    // final: full dump of every keyspace, three ways
    for k in 0..nks {
        let real = match collect(kss[k].iter()) { Ok(v) => v, Err(e) => fail!("impl-vs-oracle", "{e}") };
        let real_s = pairs_str(real.iter().map(|(a, b)| (a, b)));
        let orc = pairs_str(refm[k].iter());
        if real_s != orc { fail!("impl-vs-oracle", "final content of ks{k} differs from the sorted map"); }
        let m = lean.ask(&format!("kv.op scan {} U U", ids[k]));
        if !no_model() && m != real_s { fail!("model-vs-impl", "final content of ks{k}: model {} vs real {}", clip(&m), clip(&real_s)); }
        for (key, v) in &real {
            match kss[k].get(key) { Ok(Some(x)) if &*x == &v[..] => {}, other => fail!("impl-vs-oracle", "point read of {} disagrees with the scan: {:?}", hex(key), other.map(|o| o.map(|x| x.len()))) }
        }
    }
    let _ = maint_between;
    if samples.len() < 2 && nontrivial && trace.len() < 40 {
        let mut s = J::obj();
        s.set("case_seed", J::s(seed.to_string()));
        s.set("configs", J::s(format!("{cfgs:?}")));
        s.set("program", J::Arr(trace.iter().map(|t| J::s(t.clone())).collect()));
        samples.push(s);
    }
    let h = { let mut x = 0xcbf29ce484222325u64; for b in format!("{trace:?}").bytes() { x ^= b as u64; x = x.wrapping_mul(0x100000001b3); } x };
    (fails, nontrivial, h)
}

fn clip(s: &str) -> String { if s.len() > 400 { format!("{}…[{} chars]", &s[..400], s.len()) } else { s.to_string() } }

fn main() {
    let args: Vec<String> = std::env::args().collect();
    let mut replay = None;
    let mut i = 1;
    while i < args.len() {
        if args[i] == "--replay-seed" { replay = args[i + 1].parse().ok(); i += 1; }
        i += 1;
    }
    let thorough = tier_is_thorough();
    let seed = env_u64("VERIF_SEED", 1);
    let n = env_u64("VERIF_CASES", if thorough { 20000 } else { 400 });
    if std::env::var("VERIF_QUIET_PANICS").is_ok() { std::panic::set_hook(Box::new(|_| {})); }
    let t0 = std::time::Instant::now();
    let mut lean = Lean::spawn();
    let mut master = Rng::new(seed);
    let seeds: Vec<u64> = match replay { Some(s) => vec![s], None => (0..n).map(|_| master.fork()).collect() };
    let mut all = vec![];
    let mut nontrivial = std::collections::HashSet::new();
    let mut samples = vec![];
    let mut hist = BTreeMap::new();
    let mut cases = 0;
    for cs in seeds {
        let res = std::panic::catch_unwind(std::panic::AssertUnwindSafe(|| run_case(cs, &mut lean, &mut hist, &mut samples, thorough)));
        cases += 1;
        match res {
            Ok((f, nt, h)) => { if nt { nontrivial.insert(h); } for x in f { all.push((cs, x)); } }
            Err(_) => all.push((cs, Failure { kind: "harness", detail: "panic in the kv engine".into() })),
        }
        if all.len() > 5 { break; }
    }
    let mut res = J::obj();
    res.set("engine", J::s("kv"));
    res.set("seed", J::i(seed as i64));
    res.set("cases", J::i(cases));
    res.set("distinct_nontrivial", J::i(nontrivial.len() as i64));
    res.set("distribution", J::Obj(hist.iter().map(|(k, v)| (k.clone(), J::i(*v as i64))).collect()));
    res.set("model_requests", J::i(lean.requests as i64));
    res.set("samples", J::Arr(samples));
    res.set("wall_s", J::Num(t0.elapsed().as_secs_f64()));
    res.set("failures", J::Arr(all.iter().map(|(cs, f)| { let mut o = J::obj(); o.set("case_seed", J::s(cs.to_string())); o.set("kind", J::s(f.kind)); o.set("detail", J::s(f.detail.clone())); o }).collect()));
    println!("RESULT {}", res.render());
    std::process::exit(if all.is_empty() { 0 } else { 1 });
}
