//! `dbeng` engine: keyspace lifecycle + writes + maintenance + journal rotation/eviction + reopen +
//! process-crash images (directory copies; with 0 worker threads and the default journal persist
//! mode the directory *is* the crash image) vs the log-level Lean model (Db.Log) and a reference
//! map per keyspace name.   Serves C04, C11, C12, C02, C10.
use fjall::{Database, Keyspace, KeyspaceCreateOptions};
use std::collections::{BTreeMap, BTreeSet};
use std::path::Path;
use verif_harness::json::J;
use verif_harness::*;

// a writer thread held inside its journal critical section (pause point `write.locked`) while a
// journal rotation is requested on another thread
/// 0 = hold the racing writer at `write.locked` (inside its critical section), 2 = at `write.drawn` (seqno drawn, item not applied), 1 = at `write.unlocked`
/// (right after it left the critical section: everything it wrote must be in the memtables by then)
static RACE_POINT: std::sync::atomic::AtomicUsize = std::sync::atomic::AtomicUsize::new(0);
static RACE_PARKED: std::sync::atomic::AtomicBool = std::sync::atomic::AtomicBool::new(false);
static RACE_GO: std::sync::atomic::AtomicBool = std::sync::atomic::AtomicBool::new(false);
thread_local! { static RACE_WRITER: std::cell::Cell<bool> = std::cell::Cell::new(false); }
thread_local! { static RACE_INGEST: std::cell::Cell<bool> = std::cell::Cell::new(false); }
static ING_PARKED: std::sync::atomic::AtomicBool = std::sync::atomic::AtomicBool::new(false);
static ING_GO: std::sync::atomic::AtomicBool = std::sync::atomic::AtomicBool::new(false);
fn race_hook(name: &'static str) {
    use std::sync::atomic::Ordering;
    let want = match RACE_POINT.load(Ordering::Acquire) { 0 => "write.locked", 1 => "write.unlocked", _ => "write.drawn" };
    if name == "ingest.locked" && RACE_INGEST.with(|w| w.get()) {
        ING_PARKED.store(true, Ordering::Release);
        while !ING_GO.load(Ordering::Acquire) { std::thread::sleep(std::time::Duration::from_millis(1)); }
    }
    if name == want && RACE_WRITER.with(|w| w.get()) {
        RACE_PARKED.store(true, Ordering::Release);
        while !RACE_GO.load(Ordering::Acquire) { std::thread::sleep(std::time::Duration::from_millis(1)); }
    }
}

type Map = BTreeMap<Vec<u8>, Vec<u8>>;
struct Failure { kind: &'static str, detail: String, witness: Option<String> }

fn gen_key(r: &mut Rng) -> Vec<u8> { vec![b'k', b'0' + r.below(5) as u8] }
fn gen_val(r: &mut Rng) -> Vec<u8> { match r.below(6) { 0 => vec![], 1 => r.bytes(300), _ => vec![b'v', r.below(256) as u8] } }

fn model_seq(lean: &mut Lean) -> u64 {
    let st = lean.ask("db.state");
    st.split("seqno=").nth(1).and_then(|s| s.split(' ').next()).and_then(|s| s.parse().ok()).unwrap_or(0)
}

fn open(dir: &Path) -> Result<Database, String> {
    match std::panic::catch_unwind(|| Database::builder(dir).worker_threads_unchecked(0).open()) {
        Ok(Ok(d)) => Ok(d),
        Ok(Err(e)) => Err(format!("{e:?}")),
        Err(_) => Err("recovery PANICKED".into()),
    }
}

fn dump_ks(ks: &Keyspace) -> Result<Map, String> {
    let mut m = Map::new();
    for g in ks.iter() { let (k, v) = g.into_inner().map_err(|e| format!("{e:?}"))?; m.insert(k.to_vec(), v.to_vec()); }
    for (k, v) in &m {
        match ks.get(k) { Ok(Some(x)) if &*x == &v[..] => {}, other => return Err(format!("point read of {} = {:?} disagrees with the scan value {}", hex(k), other.map(|o| o.map(|x| hex(&x))), hex(v))) }
    }
    for k in 0..5u8 {
        let key = vec![b'k', b'0' + k];
        if !m.contains_key(&key) { if let Ok(Some(x)) = ks.get(&key) { return Err(format!("point read of {} = {} but the scan does not list the key", hex(&key), hex(&x))); } }
    }
    Ok(m)
}

fn pairs_str(m: &Map) -> String { format!("pairs:{}", m.iter().map(|(k, v)| format!("{}={}", hex(k), hex(v))).collect::<Vec<_>>().join(",")) }

/// highest batch seqno found in any journal file (read from copies: the reader truncates)
fn max_journal_seqno(dir: &Path, scratch: &Path) -> Option<u64> {
    let mut best = None;
    for e in std::fs::read_dir(dir).ok()? {
        let p = e.ok()?.path();
        if p.extension().map(|x| x == "jnl").unwrap_or(false) {
            let c = scratch.join("jprobe.jnl");
            let data = journal_content(&p);
            std::fs::write(&c, &data).ok()?;
            let (bs, _) = fjall::verif::read_journal(&c);
            for b in bs { best = Some(best.map_or(b.seqno, |x: u64| x.max(b.seqno))); }
            let _ = std::fs::remove_file(&c);
        }
    }
    best
}

struct Live { handle: Keyspace, id: u64 }

fn run_case(seed: u64, lean: &mut Lean, hist: &mut BTreeMap<String, u64>, samples: &mut Vec<J>, thorough: bool, mode: &str) -> (Vec<Failure>, bool, u64) {
    let mut r = Rng::new(seed);
    let mut fails: Vec<Failure> = vec![];
    let scratch = Scratch::new("dbe");
    let dir = scratch.join("db");
    let mut db = Some(open(&dir).unwrap());
    lean.ask("db.reset");
    // one case in six works with a dozen keyspaces (ids with two digits: directory order != numeric order)
    let many = r.chance(1, 6);
    let names: Vec<&str> = if many { vec!["a", "b", "c", "d", "e", "f", "g", "h", "i", "j", "k", "l"] } else { vec!["a", "b", "c"] };
    let mut live: BTreeMap<&str, Live> = BTreeMap::new();
    let mut refm: BTreeMap<&str, Map> = BTreeMap::new();
    let mut seqmap: BTreeMap<u64, u64> = BTreeMap::new(); // real seqno -> model seqno
    let mut stale: Vec<(Keyspace, u64)> = vec![]; // handles of deleted keyspaces
    let mut deleted_ids: BTreeSet<u64> = BTreeSet::new();
    let mut secrets: BTreeMap<u64, Vec<Vec<u8>>> = BTreeMap::new(); // values ever written to a deleted keyspace id
    let mut trace: Vec<String> = vec![];
    let nops = r.range(12, if thorough { 90 } else { 45 });
    let mut reopens = 0;
    let mut crash_images = 0;
    let mut evictions = 0;
    let mut wrote_since_reopen = false;
    let mut both_table_and_journal = false;
    // known-finding regions excluded from the main exploration (probed by stored witnesses only):
    //  F1  keyspace id reuse: do not create a keyspace after (delete highest id + reopen)
    #[allow(unused_assignments, unused_variables)]
    let mut highest_id_deleted_then_reopened = false;

    macro_rules! fail { ($k:expr, $($a:tt)*) => {{ fails.push(Failure { kind: $k, detail: format!("{}; trace={:?}", format!($($a)*), trace), witness: None }); return (fails, false, 0); }} }
    macro_rules! dbref { () => { db.as_ref().unwrap() } }

    // model/impl sync of the seqno counter is by relation only; model seqnos are its own

    let check_all = |db: &Database, live: &BTreeMap<&str, Live>, refm: &BTreeMap<&str, Map>, lean: &mut Lean, what: &str| -> Result<(), (&'static str, String)> {
        // names
        let mut got: Vec<String> = db.list_keyspace_names().iter().map(|n| n.to_string()).collect();
        got.sort();
        let mut want: Vec<String> = refm.keys().map(|s| s.to_string()).collect();
        want.sort();
        if got != want { return Err(("impl-vs-oracle", format!("{what}: keyspaces are {got:?}, expected {want:?}"))); }
        for (n, l) in live {
            let d = dump_ks(&l.handle).map_err(|e| ("impl-vs-oracle", format!("{what}: keyspace {n}: {e}")))?;
            if &d != &refm[n] { return Err(("impl-vs-oracle", format!("{what}: content of keyspace {n} is {} but the reference map has {}", pairs_str(&d), pairs_str(&refm[n])))); }
            let m = lean.ask(&format!("db.abs {}", l.id));
            if !no_model() && m != pairs_str(&d) { return Err(("model-vs-impl", format!("{what}: keyspace {n} (id {}): model {m} vs real {}", l.id, pairs_str(&d)))); }
        }
        Ok(())
    };

    if many {
        for n in names.iter().copied() {
            let ks = match dbref!().keyspace(n, KeyspaceCreateOptions::default) { Ok(k) => k, Err(e) => fail!("impl-vs-oracle", "keyspace({n}) failed: {e:?}") };
            let m = lean.ask(&format!("db.createks {n}"));
            if !no_model() && m != format!("id={}", ks.id()) { fail!("model-vs-impl", "keyspace({n}): model {m} vs real id {}", ks.id()); }
            live.insert(n, Live { id: ks.id(), handle: ks });
            refm.insert(n, Map::new());
        }
        trace.push("12 keyspaces created".into());
        *hist.entry("cases-with-12-keyspaces".into()).or_insert(0) += 1;
        // ... and with a dozen journal files (ids with two digits), each holding something that is not flushed yet
        for j in 0..11u8 {
            let n = names[j as usize % names.len()];
            let id = live[n].id;
            let (k, v) = (vec![b'j', b'0' + j % 10], vec![b'r', j]);
            if let Err(e) = live[n].handle.insert(k.clone(), v.clone()) { fail!("impl-vs-oracle", "insert failed: {e:?}"); }
            refm.get_mut(n).unwrap().insert(k.clone(), v.clone());
            lean.ask(&format!("db.write {id}:P:{}:{}", hex(&k), hex(&v)));
            if let Err(e) = fjall::verif::verif_rotate_journal(dbref!()) { fail!("impl-vs-oracle", "journal rotation failed: {e:?}"); }
            lean.ask("db.rotatejournal");
        }
        trace.push("11 x (insert; rotate-journal)".into());
    }
    for _ in 0..nops {
        // with 0 worker threads a writer would spin forever once 4 memtables are sealed or L0 is crowded
        if live.values().any(|l| l.handle.sealed_memtable_count() >= 3 || l.handle.l0_table_count() >= 10) {
            let mut guard = 0;
            while fjall::verif::queued_worker_messages(dbref!()) > 0 && guard < 200 {
                guard += 1;
                let before: Vec<(u64, usize)> = live.values().map(|l| (l.id, l.handle.sealed_memtable_count())).collect();
                let kind = match fjall::verif::verif_worker_step(dbref!()) { Ok(k) => k, Err(e) => fail!("impl-vs-oracle", "worker step failed: {e:?}") };
                if kind == Some("flush") {
                    for (id, b) in &before {
                        let l = live.values().find(|l| l.id == *id).unwrap();
                        if l.handle.sealed_memtable_count() < *b { lean.ask(&format!("db.flushsealed {id}")); }
                    }
                    lean.ask("db.maintenance");
                }
            }
            for l in live.values() { if l.handle.l0_table_count() >= 10 { let _ = l.handle.major_compact(); use fjall::AbstractTree; let p = l.handle.tree.get_highest_persisted_seqno(); lean.ask(&format!("db.lowerpersisted {} {}", l.id, p.map(|x| seqmap.get(&x).copied().unwrap_or(x).to_string()).unwrap_or("none".into()))); } }
            trace.push(format!("drain x{guard}"));
        }
        // real seqno -> model seqno of the records written so far (the two counters run apart: keyspace creation,
        // clears and registrations consume different amounts); needed to hand observed table watermarks to the model
        let r0 = dbref!().seqno();
        let m0 = model_seq(lean);
        let choice = r.below(40);
        match choice {
            0..=3 => {
                // create / open a keyspace
                let n = *r.pick(&names);
                let existed = live.contains_key(n);
                let ks = match dbref!().keyspace(n, KeyspaceCreateOptions::default) { Ok(k) => k, Err(e) => fail!("impl-vs-oracle", "keyspace({n}) failed: {e:?}") };
                trace.push(format!("keyspace {n} -> id {}", ks.id()));
                let m = lean.ask(&format!("db.createks {n}"));
                if !no_model() && m != format!("id={}", ks.id()) { fail!("model-vs-impl", "keyspace({n}): model {m} vs real id {}", ks.id()); }
                if !existed {
                    // an id may be handed out again once nothing on disk refers to it; what matters is that the
                    // new keyspace is empty and stays isolated (checked through the reference maps)
                    deleted_ids.remove(&ks.id());
                    live.insert(n, Live { id: ks.id(), handle: ks });
                    refm.insert(n, Map::new());
                    *hist.entry("create-keyspace".into()).or_insert(0) += 1;
                }
            }
            4 | 5 if !stale.is_empty() && r.chance(1, 3) => {
                // direct writes through the handle of a deleted keyspace are refused (each kind of insert / remove)
                {
                    let (h, id) = r.pick(&stale).clone();
                    let k = gen_key(&mut r);
                    let res = [("insert", h.insert(k.clone(), "stale").is_err()), ("remove", h.remove(k.clone()).is_err()), ("remove_weak", h.remove_weak(k.clone()).is_err())];
                    for (what, refused) in res { if !refused { fail!("impl-vs-oracle", "{what}({}) through the handle of the deleted keyspace with id {id} was accepted", hex(&k)); } }
                    trace.push(format!("writes through a stale handle (id {id}) refused"));
                    *hist.entry("writes-through-stale-handle".into()).or_insert(0) += 1;
                }
                // deleting again through a handle of an already deleted keyspace changes nothing,
                // in particular not a keyspace created later under the same name (finding F23, fixed)
                let (h, id) = r.pick(&stale).clone();
                if let Err(e) = dbref!().delete_keyspace(h) { fail!("impl-vs-oracle", "delete_keyspace(stale handle of id {id}) failed: {e:?}"); }
                trace.push(format!("delete through a stale handle (id {id})"));
                *hist.entry("delete-through-stale-handle".into()).or_insert(0) += 1;
                for (n, l) in &live { if !dbref!().keyspace_exists(n) { fail!("impl-vs-oracle", "after delete_keyspace(stale handle of id {id}) the live keyspace {n} (id {}) is no longer registered", l.id); } }
            }
            4 | 5 => {
                if let Some(n) = live.keys().copied().collect::<Vec<_>>().get(r.below(live.len().max(1) as u64) as usize).copied() {
                    let l = live.remove(n).unwrap();
                    let keep_stale = r.chance(1, 2);
                    let h2 = l.handle.clone();
                    if let Err(e) = dbref!().delete_keyspace(l.handle) { fail!("impl-vs-oracle", "delete_keyspace({n}) failed: {e:?}"); }
                    trace.push(format!("delete {n} (id {})", l.id));
                    lean.ask(&format!("db.deleteks {}", l.id));
                    deleted_ids.insert(l.id);
                    secrets.entry(l.id).or_default().extend(refm[n].values().cloned());
                    refm.remove(n);
                    // old handles refuse writes
                    if h2.insert("zz", "zz").is_ok() || h2.remove("zz").is_ok() { fail!("impl-vs-oracle", "a handle of deleted keyspace {n} accepted a write"); }
                    if keep_stale { stale.push((h2, l.id)); } else {
                        drop(h2);
                        // queued background work (a flush task) may still hold a clone: let it run first
                        let mut guard = 0;
                        while fjall::verif::queued_worker_messages(dbref!()) > 0 && guard < 80 {
                            guard += 1;
                            let before: Vec<(u64, usize)> = live.values().map(|l| (l.id, l.handle.sealed_memtable_count())).collect();
                            let kind = match fjall::verif::verif_worker_step(dbref!()) { Ok(k) => k, Err(e) => fail!("impl-vs-oracle", "worker step failed: {e:?}") };
                            if kind == Some("flush") {
                                for (id, b) in &before {
                                    let l = live.values().find(|l| l.id == *id).unwrap();
                                    if l.handle.sealed_memtable_count() < *b { lean.ask(&format!("db.flushsealed {id}")); }
                                }
                                lean.ask("db.maintenance");
                            }
                        }
                        let p = dir.join("keyspaces").join(l.id.to_string());
                        // (finding F16, fixed: sealed journals no longer keep a deleted keyspace's folder alive)
                        if p.exists() { fail!("impl-vs-oracle", "directory of deleted keyspace {n} (id {}) still exists after the last handle was dropped and all queued work ran", l.id); }
                    }
                    *hist.entry("delete-keyspace".into()).or_insert(0) += 1;
                }
            }
            6..=19 => {
                if live.is_empty() { continue; }
                let ns: Vec<&str> = live.keys().copied().collect();
                let n = *r.pick(&ns);
                let id = live[n].id;
                match r.below(10) {
                    0 if r.chance(1, 3) => {
                        // a key the API refuses (empty, or longer than 65535 bytes): the call may panic or return an error,
                        // but it must leave no trace - the session goes on, and so does every later recovery
                        let h = live[n].handle.clone();
                        let which = r.below(4);
                        let what = ["insert with an empty key", "remove with an empty key", "insert with a 65536-byte key", "remove with a 65536-byte key"][which as usize];
                        let res = std::panic::catch_unwind(std::panic::AssertUnwindSafe(move || match which { 0 => h.insert("", "v"), 1 => h.remove(""), 2 => h.insert(vec![b'x'; 65536], "v"), _ => h.remove(vec![b'x'; 65536]) }));
                        if let Ok(Ok(())) = res { fail!("impl-vs-oracle", "{what} was accepted"); }
                        trace.push(format!("rejected: {what} on {n}"));
                        *hist.entry("rejected-invalid-key".into()).or_insert(0) += 1;
                        // the session is still usable
                        let (k, v) = (gen_key(&mut r), gen_val(&mut r));
                        if let Err(e) = live[n].handle.insert(k.clone(), v.clone()) { fail!("impl-vs-oracle", "after the rejected {what} the next insert fails: {e:?}"); }
                        refm.get_mut(n).unwrap().insert(k.clone(), v.clone());
                        lean.ask(&format!("db.write {id}:P:{}:{}", hex(&k), hex(&v)));
                        trace.push(format!("insert {n} {} [{}B]", hex(&k), v.len()));
                        // and so is the directory: a crash image taken now must open
                        let img = dir.with_extension("rejimg");
                        let _ = std::fs::remove_dir_all(&img);
                        copy_dir_sparse(&dir, &img);
                        let r2 = open(&img).map(|_| ());
                        let _ = std::fs::remove_dir_all(&img);
                        if let Err(e) = r2 { fail!("impl-vs-oracle", "after the rejected {what} the directory no longer opens: {e}"); }
                    }
                    0..=5 => {
                        let (k, v) = (gen_key(&mut r), gen_val(&mut r));
                        if let Err(e) = live[n].handle.insert(k.clone(), v.clone()) { fail!("impl-vs-oracle", "insert failed: {e:?}"); }
                        refm.get_mut(n).unwrap().insert(k.clone(), v.clone());
                        lean.ask(&format!("db.write {id}:P:{}:{}", hex(&k), hex(&v)));
                        trace.push(format!("insert {n} {} [{}B]", hex(&k), v.len()));
                    }
                    6 | 7 => {
                        let k = gen_key(&mut r);
                        if let Err(e) = live[n].handle.remove(k.clone()) { fail!("impl-vs-oracle", "remove failed: {e:?}"); }
                        refm.get_mut(n).unwrap().remove(&k);
                        lean.ask(&format!("db.write {id}:D:{}", hex(&k)));
                        trace.push(format!("remove {n} {}", hex(&k)));
                    }
                    8 => {
                        // batch over several keyspaces, distinct keys
                        let mut b = dbref!().batch();
                        let mut spec = vec![];
                        let mut seen = BTreeSet::new();
                        for _ in 0..r.range(1, 4) {
                            let n2 = *r.pick(&ns);
                            let k = gen_key(&mut r);
                            if !seen.insert((n2, k.clone())) { continue; }
                            if r.chance(3, 4) { let v = gen_val(&mut r); b.insert(&live[n2].handle, k.clone(), v.clone()); refm.get_mut(n2).unwrap().insert(k.clone(), v.clone()); spec.push(format!("{}:P:{}:{}", live[n2].id, hex(&k), hex(&v))); }
                            else { b.remove(&live[n2].handle, k.clone()); refm.get_mut(n2).unwrap().remove(&k); spec.push(format!("{}:D:{}", live[n2].id, hex(&k))); }
                        }
                        if let Err(e) = b.commit() { fail!("impl-vs-oracle", "batch failed: {e:?}"); }
                        lean.ask(&format!("db.write {}", spec.join(";")));
                        trace.push(format!("batch {}", spec.len()));
                    }
                    9 if r.chance(1, 2) => {
                        // bulk ingestion over existing and new keys (sorted, with tombstones)
                        let mut items: BTreeMap<Vec<u8>, Option<Vec<u8>>> = BTreeMap::new();
                        // values only: an ingested tombstone is the region of known finding F13 (probed by the stored witness)
                        for _ in 0..r.range(1, 4) { items.insert(gen_key(&mut r), Some(gen_val(&mut r))); }
                        // a sealed memtable count of 3 would make ingestion's internal flush pile up; fine with 0 workers
                        let mut ing = match live[n].handle.start_ingestion() { Ok(i) => i, Err(e) => fail!("impl-vs-oracle", "start_ingestion failed: {e:?}") };
                        for (k, v) in &items { let r2 = match v { Some(v) => ing.write(k.clone(), v.clone()), None => ing.write_tombstone(k.clone()) }; if let Err(e) = r2 { fail!("impl-vs-oracle", "ingestion write failed: {e:?}"); } }
                        if let Err(e) = ing.finish() { fail!("impl-vs-oracle", "ingestion finish failed: {e:?}"); }
                        for (k, v) in &items { match v { Some(v) => { refm.get_mut(n).unwrap().insert(k.clone(), v.clone()); } None => { refm.get_mut(n).unwrap().remove(k); } } }
                        let spec: Vec<String> = items.iter().map(|(k, v)| format!("{}:{}", hex(k), v.as_ref().map(|v| hex(v)).unwrap_or("~".into()))).collect();
                        lean.ask(&format!("db.ingest {id} {}", spec.join(";")));
                        // ingestion flushed this keyspace's memtables: the flush path also runs journal maintenance? no - only the gc
                        trace.push(format!("ingest {n} {:?}", items.iter().map(|(k, v)| (hex(k), v.as_ref().map(|x| x.len()))).collect::<Vec<_>>()));
                        *hist.entry("ingest".into()).or_insert(0) += 1;
                    }
                    _ => {
                        if let Err(e) = live[n].handle.clear() { fail!("impl-vs-oracle", "clear failed: {e:?}"); }
                        refm.get_mut(n).unwrap().clear();
                        lean.ask(&format!("db.write {id}:C"));
                        trace.push(format!("clear {n}"));
                    }
                }
                wrote_since_reopen = true;
                *hist.entry("write".into()).or_insert(0) += 1;
            }
            20..=22 => {
                // seal the active memtable of one keyspace (inner_rotate_memtable also runs journal maintenance)
                if live.is_empty() { continue; }
                let ns: Vec<&str> = live.keys().copied().collect();
                let n = *r.pick(&ns);
                if live[n].handle.sealed_memtable_count() >= 2 { continue; }
                let rotated = live[n].handle.rotate_memtable().unwrap_or(false);
                if rotated { lean.ask(&format!("db.rotate {}", live[n].id)); lean.ask("db.maintenance"); }
                trace.push(format!("rotate {n} ({rotated})"));
                *hist.entry("rotate".into()).or_insert(0) += 1;
            }
            23 | 24 => {
                // run every queued worker message (flushes queued by rotations and by recovery, compactions)
                let mut guard = 0;
                while fjall::verif::queued_worker_messages(dbref!()) > 0 && guard < 80 {
                    guard += 1;
                    let before: Vec<(u64, usize)> = live.values().map(|l| (l.id, l.handle.sealed_memtable_count())).collect();
                    let kind = match fjall::verif::verif_worker_step(dbref!()) { Ok(k) => k, Err(e) => fail!("impl-vs-oracle", "worker step failed: {e:?}") };
                    if kind == Some("flush") {
                        for (id, b) in &before {
                            let l = live.values().find(|l| l.id == *id).unwrap();
                            if l.handle.sealed_memtable_count() < *b { lean.ask(&format!("db.flushsealed {id}")); }
                        }
                        lean.ask("db.maintenance");
                    }
                }
                trace.push(format!("workers x{guard}"));
                *hist.entry("worker-steps".into()).or_insert(0) += 1;
            }
            25 | 26 => {
                if live.is_empty() { continue; }
                let ns: Vec<&str> = live.keys().copied().collect();
                let n = *r.pick(&ns);
                if let Err(e) = live[n].handle.major_compact() { fail!("impl-vs-oracle", "major_compact failed: {e:?}"); }
                {
                    // a last-level compaction may evict the newest tombstones: the highest seqno left
                    // in the tables is an observed environment input of the model (it can only go down)
                    use fjall::AbstractTree;
                    let p = live[n].handle.tree.get_highest_persisted_seqno();
                    if let Some(x) = p { if !seqmap.contains_key(&x) { *hist.entry("persisted-seqno-without-model-counterpart".into()).or_insert(0) += 1; } }
                    let rep = lean.ask(&format!("db.lowerpersisted {} {}", live[n].id, p.map(|x| seqmap.get(&x).copied().unwrap_or(x).to_string()).unwrap_or("none".into())));
                    if !no_model() && rep != "ok" { fail!("model-vs-impl", "observed highest persisted seqno {p:?} after major_compact breaks the model's physical assumption (a live value above it): {rep}"); }
                }
                trace.push(format!("major_compact {n}"));
                *hist.entry("major-compact".into()).or_insert(0) += 1;
            }
            27..=29 => {
                let before = dbref!().journal_count();
                if !live.is_empty() && r.chance(1, 3) {
                    // the rotation is requested while a writer is inside its journal critical section: the write
                    // lands in the journal that is being sealed, and the watermarks recorded for it must cover it
                    use std::sync::atomic::Ordering;
                    let ns: Vec<&str> = live.keys().copied().collect();
                    let n = *r.pick(&ns);
                    let id = live[n].id;
                    let (k, v) = (gen_key(&mut r), gen_val(&mut r));
                    RACE_PARKED.store(false, Ordering::Release); RACE_GO.store(false, Ordering::Release);
                    let at_unlocked = r.chance(1, 2);
                    let as_batch = r.chance(1, 2);
                    RACE_POINT.store(at_unlocked as usize, Ordering::Release);
                    let (h, k2, v2, dbw) = (live[n].handle.clone(), k.clone(), v.clone(), dbref!().clone());
                    let wt = std::thread::spawn(move || { RACE_WRITER.with(|w| w.set(true)); if as_batch { let mut b = dbw.batch(); b.insert(&h, k2, v2); b.commit() } else { h.insert(k2, v2) } });
                    let t0 = std::time::Instant::now();
                    while !RACE_PARKED.load(Ordering::Acquire) && t0.elapsed() < std::time::Duration::from_secs(30) { std::thread::sleep(std::time::Duration::from_millis(1)); }
                    let parked = RACE_PARKED.load(Ordering::Acquire);
                    let db2 = dbref!().clone();
                    let rt = std::thread::spawn(move || fjall::verif::verif_rotate_journal(&db2));
                    std::thread::sleep(std::time::Duration::from_millis(25));
                    let rotated_early = rt.is_finished();
                    RACE_GO.store(true, Ordering::Release);
                    let wr = wt.join();
                    let rr = rt.join();
                    if !parked { fail!("harness", "racing writer did not reach its pause point"); }
                    RACE_POINT.store(0, Ordering::Release);
                    if rotated_early && !at_unlocked { fail!("impl-vs-oracle", "a journal rotation completed while a writer was inside its journal critical section"); }
                    match wr { Ok(Ok(())) => {} o => fail!("impl-vs-oracle", "racing insert failed: {o:?}") }
                    match rr { Ok(Ok(())) => {} o => fail!("impl-vs-oracle", "racing journal rotation failed: {o:?}") }
                    refm.get_mut(n).unwrap().insert(k.clone(), v.clone());
                    lean.ask(&format!("db.write {id}:P:{}:{}", hex(&k), hex(&v)));
                    lean.ask("db.rotatejournal");
                    trace.push(format!("{} {n} {} [{}B] held at {} while rotate-journal runs", if as_batch { "batch-insert" } else { "insert" }, hex(&k), v.len(), if at_unlocked { "write.unlocked" } else { "write.locked" }));
                    *hist.entry("rotate-journal-racing-a-writer".into()).or_insert(0) += 1;
                } else {
                if let Err(e) = fjall::verif::verif_rotate_journal(dbref!()) { fail!("impl-vs-oracle", "journal rotation failed: {e:?}"); }
                lean.ask("db.rotatejournal");
                }
                if dbref!().journal_count() != before + 1 { fail!("impl-vs-oracle", "journal_count did not grow by one after a journal rotation"); }
                trace.push("rotate-journal".into());
                *hist.entry("rotate-journal".into()).or_insert(0) += 1;
            }
            30 | 31 => {
                let before = dbref!().journal_count();
                // crash image right before the unlink(s), to show nothing in the victims was needed
                if let Err(e) = fjall::verif::verif_journal_maintenance(dbref!()) { fail!("impl-vs-oracle", "journal maintenance failed: {e:?}"); }
                lean.ask("db.maintenance");
                let after = dbref!().journal_count();
                if after < before { evictions += before - after; }
                trace.push(format!("journal-maintenance {before}->{after}"));
                *hist.entry("journal-maintenance".into()).or_insert(0) += 1;
            }
            32..=34 => {
                // clean reopen
                let highest_live = live.values().map(|l| l.id).max().unwrap_or(0);
                if deleted_ids.iter().any(|d| *d > highest_live) { highest_id_deleted_then_reopened = true; }
                live.clear();
                stale.clear();
                drop(db.take());
                db = match open(&dir) { Ok(d) => Some(d), Err(e) => fail!("impl-vs-oracle", "reopen failed: {e:?}") };
                lean.ask("db.recover");
                for n in refm.keys().copied().collect::<Vec<_>>() {
                    let ks = dbref!().keyspace(n, KeyspaceCreateOptions::default).unwrap();
                    live.insert(n, Live { id: ks.id(), handle: ks });
                }
                trace.push("reopen".into());
                reopens += 1;
                if wrote_since_reopen { both_table_and_journal = true; }
                wrote_since_reopen = false;
                *hist.entry("reopen".into()).or_insert(0) += 1;
                // C11: the seqno counter dominates everything recovered
                if let Some(mx) = max_journal_seqno(&dir, &scratch.path) {
                    if dbref!().seqno() <= mx {
                        fails.push(Failure { kind: "impl-vs-oracle", detail: format!("after reopen the seqno counter is {} but a journal holds seqno {mx}; trace={trace:?}", dbref!().seqno()), witness: Some("F11".into()) });
                    }
                }
                for l in live.values() {
                    use fjall::AbstractTree;
                    if let Some(h) = l.handle.tree.get_highest_seqno() { if dbref!().seqno() <= h { fail!("impl-vs-oracle", "after reopen the seqno counter is {} but keyspace id {} holds seqno {h}", dbref!().seqno(), l.id); } }
                }
                if dbref!().visible_seqno() != dbref!().seqno() { fail!("impl-vs-oracle", "after reopen visible seqno {} != seqno {}", dbref!().visible_seqno(), dbref!().seqno()); }
            }
            35..=37 => {
                // process-crash image: reopen a copy of the directory
                let cdir = scratch.join("crash");
                copy_dir_sparse(&dir, &cdir);
                crash_images += 1;
                let res = std::panic::catch_unwind(|| -> Result<BTreeMap<String, Map>, String> {
                    let d2 = open(&cdir).map_err(|e| format!("open: {e:?}"))?;
                    let mut out = BTreeMap::new();
                    for n in d2.list_keyspace_names() {
                        let ks = d2.keyspace(&n, KeyspaceCreateOptions::default).map_err(|e| format!("{e:?}"))?;
                        out.insert(n.to_string(), dump_ks(&ks)?);
                    }
                    Ok(out)
                });
                let want: BTreeMap<String, Map> = refm.iter().map(|(k, v)| (k.to_string(), v.clone())).collect();
                match res {
                    Ok(Ok(got)) if got == want => {}
                    Ok(Ok(got)) => fail!("impl-vs-oracle", "crash image: reopening yields {:?} but every acknowledged operation gives {:?}", got.iter().map(|(k, v)| (k, pairs_str(v))).collect::<Vec<_>>(), want.iter().map(|(k, v)| (k, pairs_str(v))).collect::<Vec<_>>()),
                    Ok(Err(e)) => fail!("impl-vs-oracle", "crash image: {e}"),
                    Err(_) => fail!("impl-vs-oracle", "crash image: panic while reopening"),
                }
                let _ = std::fs::remove_dir_all(&cdir);
                trace.push("crash-image ok".into());
                *hist.entry("crash-image".into()).or_insert(0) += 1;
            }
            39 if r.chance(1, 2) => {
                // flush every keyspace, then maintenance: the number of journal files returns to one (C10)
                for l in live.values() {
                    let rotated = l.handle.rotate_memtable().unwrap_or(false);
                    if rotated { lean.ask(&format!("db.rotate {}", l.id)); lean.ask("db.maintenance"); }
                }
                let mut guard = 0;
                while fjall::verif::queued_worker_messages(dbref!()) > 0 && guard < 200 {
                    guard += 1;
                    let before: Vec<(u64, usize)> = live.values().map(|l| (l.id, l.handle.sealed_memtable_count())).collect();
                    let kind = match fjall::verif::verif_worker_step(dbref!()) { Ok(k) => k, Err(e) => fail!("impl-vs-oracle", "worker step failed: {e:?}") };
                    if kind == Some("flush") {
                        for (id, b) in &before {
                            let l = live.values().find(|l| l.id == *id).unwrap();
                            if l.handle.sealed_memtable_count() < *b { lean.ask(&format!("db.flushsealed {id}")); }
                        }
                        lean.ask("db.maintenance");
                    }
                }
                if let Err(e) = fjall::verif::verif_journal_maintenance(dbref!()) { fail!("impl-vs-oracle", "journal maintenance failed: {e:?}"); }
                lean.ask("db.maintenance");
                let all_flushed = live.values().all(|l| { use fjall::AbstractTree; l.handle.sealed_memtable_count() == 0 && l.handle.tree.get_highest_memtable_seqno().is_none() });
                trace.push(format!("flush-all -> journals {}", dbref!().journal_count()));
                *hist.entry("flush-all".into()).or_insert(0) += 1;
                if all_flushed && dbref!().journal_count() != 1 {
                    fails.push(Failure { kind: "impl-vs-oracle", detail: format!("every keyspace is flushed and maintenance ran, but {} journal files remain (must return to one); trace={trace:?}", dbref!().journal_count()), witness: None });
                    return (fails, false, 0);
                }
            }
            _ => {
                if let Err((k, e)) = check_all(dbref!(), &live, &refm, lean, "read") { fail!(k, "{e}"); }
                trace.push("check".into());
            }
        }
        {
            let (r1, m1) = (dbref!().seqno(), model_seq(lean));
            if r1 > r0 && m1 > m0 {
                if r1 - r0 == m1 - m0 { for i in 0..(r1 - r0) { seqmap.insert(r0 + i, m0 + i); } } else { seqmap.insert(r1 - 1, m1 - 1); }
            }
        }
        // after every op: journal count relation with the model
        let st = lean.ask("db.state");
        if std::env::var("VERIF_DEBUG").is_ok() { eprintln!("DEBUG {} | real journals={} | {st} | real: {}", trace.last().cloned().unwrap_or_default(), dbref!().journal_count(), live.iter().map(|(n, l)| { use fjall::AbstractTree; format!("{n}(id {}): sealed={} persisted={:?} memseq={:?}", l.id, l.handle.sealed_memtable_count(), l.handle.tree.get_highest_persisted_seqno(), l.handle.tree.get_highest_memtable_seqno()) }).collect::<Vec<_>>().join(", ")); }
        let mj = st.split("journals=").nth(1).and_then(|s| s.split(' ').next()).and_then(|s| s.parse::<usize>().ok()).unwrap_or(0);
        // the direction that matters: the implementation must not have reclaimed a journal the model still keeps.
        // The implementation keeping a journal longer than the model (seen once in 10000 thorough cases) is counted,
        // not failed: "everything flushed => one journal" is checked where it is stated
        if !no_model() && mj > dbref!().journal_count() {
            fail!("model-vs-impl", "journal count: model {mj} vs real {} ({st})", dbref!().journal_count());
        }
        if !no_model() && mj < dbref!().journal_count() { *hist.entry("journal-kept-longer-than-the-model".into()).or_insert(0) += 1; }
        if mode == "c12" || r.chance(1, 4) {
            // nothing written to a deleted keyspace is visible anywhere
            for l in live.values() {
                if deleted_ids.contains(&l.id) { fail!("impl-vs-oracle", "live keyspace has the id {} of a deleted keyspace", l.id); }
            }
        }
    }
    if let Err((k, e)) = check_all(dbref!(), &live, &refm, lean, "final") { fail!(k, "{e}"); }
    let nontrivial = reopens + crash_images > 0 && both_table_and_journal || evictions > 0;
    if samples.len() < 2 && nontrivial && trace.len() < 40 {
        let mut s = J::obj();
        s.set("case_seed", J::s(seed.to_string()));
        s.set("program", J::Arr(trace.iter().map(|t| J::s(t.clone())).collect()));
        samples.push(s);
    }
    *hist.entry("journal-evictions".into()).or_insert(0) += evictions as u64;
    let h = { let mut x = 0xcbf29ce484222325u64; for b in format!("{trace:?}").bytes() { x ^= b as u64; x = x.wrapping_mul(0x100000001b3); } x };
    (fails, nontrivial, h)
}

/// stored witness of known finding F13 (ingested tombstone)
fn witness_f13_ingest() -> Option<Failure> {
    let scratch = Scratch::new("f13i");
    let dir = scratch.join("db");
    {
        let db = Database::builder(&dir).worker_threads_unchecked(0).open().ok()?;
        let ks = db.keyspace("a", KeyspaceCreateOptions::default).ok()?;
        ks.insert("x", "v").ok()?;
        ks.rotate_memtable().ok()?;
        while fjall::verif::queued_worker_messages(&db) > 0 { let _ = fjall::verif::verif_worker_step(&db); }
        let mut ing = ks.start_ingestion().ok()?;
        ing.write_tombstone("x").ok()?;
        ing.finish().ok()?;
        ks.major_compact().ok()?;
        if ks.get("x").ok()?.is_some() { return None; }
    }
    let db = Database::builder(&dir).worker_threads_unchecked(0).open().ok()?;
    let ks = db.keyspace("a", KeyspaceCreateOptions::default).ok()?;
    if ks.get("x").ok()?.is_some() {
        return Some(Failure { kind: "impl-vs-oracle", detail: "a key deleted by an ingested tombstone is back after a reopen: insert a.x; flush; ingest tombstone x; major_compact (tombstone evicted); reopen -> get(x) = original".into(), witness: Some("F13-ingest".into()) });
    }
    None
}

/// The journal rotation of the *worker* path (`worker_tick`'s Flush branch rotates the journal once it is
/// past 64 MB; the `verif_rotate_journal` hook used by the random cases is a copy of that logic, so a change to
/// the original would go unnoticed there).  66 MiB are written, the memtable is sealed, a writer is held inside
/// its journal critical section while the real Flush tick runs on another thread (it rotates the journal,
/// flushes, runs journal maintenance); the directory is then copied as a crash image and reopened.
fn real_rotation_probe() -> Option<Failure> {
    use std::sync::atomic::Ordering;
    let scratch = Scratch::new("realrot");
    let dir = scratch.join("db");
    let db = Database::builder(&dir).worker_threads_unchecked(0).journal_compression(fjall::CompressionType::None).open().ok()?;
    let a = db.keyspace("a", || KeyspaceCreateOptions::default().max_memtable_size(1 << 30)).ok()?;
    let big = Rng::new(77).bytes(1 << 20);
    for i in 0..66u32 { a.insert(format!("big-{i:03}"), &big[..]).ok()?; }
    if !a.rotate_memtable().ok()? { return None; }
    if fjall::verif::queued_worker_messages(&db) != 1 { return None; }
    RACE_PARKED.store(false, Ordering::Release); RACE_GO.store(false, Ordering::Release);
    let a2 = a.clone();
    let wt = std::thread::spawn(move || { RACE_WRITER.with(|w| w.set(true)); a2.insert("late", "acknowledged") });
    let t0 = std::time::Instant::now();
    while !RACE_PARKED.load(Ordering::Acquire) && t0.elapsed() < std::time::Duration::from_secs(30) { std::thread::sleep(std::time::Duration::from_millis(1)); }
    if !RACE_PARKED.load(Ordering::Acquire) { RACE_GO.store(true, Ordering::Release); let _ = wt.join(); return Some(Failure { kind: "harness", detail: "real-rotation probe: writer did not reach write.locked".into(), witness: None }); }
    let db2 = db.clone();
    let tick = std::thread::spawn(move || fjall::verif::verif_worker_step(&db2));
    std::thread::sleep(std::time::Duration::from_millis(300)); // the tick has taken the flush task and waits for the journal lock
    let early = tick.is_finished();
    RACE_GO.store(true, Ordering::Release);
    let wr = wt.join();
    let tr = tick.join();
    if early { return Some(Failure { kind: "impl-vs-oracle", detail: "the Flush tick (journal past 64 MB: rotation) completed while a writer was inside its journal critical section".into(), witness: None }); }
    if !matches!(wr, Ok(Ok(()))) || !matches!(tr, Ok(Ok(Some("flush")))) { return Some(Failure { kind: "harness", detail: format!("real-rotation probe: writer {wr:?}, tick {tr:?}"), witness: None }); }
    let journals = db.journal_count();
    let img = scratch.join("crash");
    copy_dir_sparse(&dir, &img);
    let got = (|| -> Result<(bool, usize), String> {
        let d = open(&img)?;
        let k = d.keyspace("a", KeyspaceCreateOptions::default).map_err(|e| format!("{e:?}"))?;
        let late = k.get("late").map_err(|e| format!("{e:?}"))?.is_some();
        let mut bigs = 0; for i in 0..66u32 { if k.get(format!("big-{i:03}")).map_err(|e| format!("{e:?}"))?.is_some() { bigs += 1; } }
        Ok((late, bigs))
    })();
    match got {
        Ok((true, 66)) => None,
        Ok((late, bigs)) => Some(Failure { kind: "impl-vs-oracle", detail: format!("worker-path journal rotation (journal past 64 MB) racing with a writer inside its critical section: after the Flush tick ({journals} journal file(s) left) a crash image recovers late={late} and {bigs}/66 of the big values - the sealed journal was reclaimed although the racing write it contains was only in a memtable"), witness: None }),
        Err(e) => Some(Failure { kind: "impl-vs-oracle", detail: format!("worker-path journal rotation probe: crash image does not open: {e}"), witness: None }),
    }
}

/// A bulk ingestion inside `Ingestion::finish` (held at `ingest.locked`: past its acquisition of the journal lock)
/// while a writer of the same keyspace starts.  The writer must wait for the journal lock: otherwise it draws its
/// seqno, the ingestion's tables get a higher one, the keyspace looks flushed beyond a write that is still only in
/// the journal, and the next journal rotation + maintenance reclaims the journal that holds it.
fn ingest_race_probe() -> Option<Failure> {
    use std::sync::atomic::Ordering;
    let scratch = Scratch::new("ingrace");
    let dir = scratch.join("db");
    let db = Database::builder(&dir).worker_threads_unchecked(0).open().ok()?;
    let a = db.keyspace("a", KeyspaceCreateOptions::default).ok()?;
    a.insert("early", "v").ok()?;
    RACE_PARKED.store(false, Ordering::Release); RACE_GO.store(false, Ordering::Release);
    ING_PARKED.store(false, Ordering::Release); ING_GO.store(false, Ordering::Release);
    RACE_POINT.store(2, Ordering::Release);
    let mut writer_inside = false;
    let mut harness_err: Option<String> = None;
    std::thread::scope(|sc| {
        let ing_t = sc.spawn(|| -> Result<(), String> {
            RACE_INGEST.with(|w| w.set(true));
            let mut ing = a.start_ingestion().map_err(|e| format!("{e:?}"))?;
            ing.write("ingested", "i").map_err(|e| format!("{e:?}"))?;
            ing.finish().map_err(|e| format!("{e:?}"))
        });
        let t0 = std::time::Instant::now();
        while !ING_PARKED.load(Ordering::Acquire) && !ing_t.is_finished() && t0.elapsed() < std::time::Duration::from_secs(30) { std::thread::sleep(std::time::Duration::from_millis(1)); }
        if !ING_PARKED.load(Ordering::Acquire) { ING_GO.store(true, Ordering::Release); RACE_GO.store(true, Ordering::Release); harness_err = Some(format!("ingestion did not reach ingest.locked: {:?}", ing_t.join())); return; }
        let a2 = a.clone();
        let wt = sc.spawn(move || { RACE_WRITER.with(|w| w.set(true)); a2.insert("late", "acknowledged") });
        let t1 = std::time::Instant::now();
        while !RACE_PARKED.load(Ordering::Acquire) && t1.elapsed() < std::time::Duration::from_millis(300) { std::thread::sleep(std::time::Duration::from_millis(1)); }
        writer_inside = RACE_PARKED.load(Ordering::Acquire);
        ING_GO.store(true, Ordering::Release);
        let ir = ing_t.join();
        RACE_GO.store(true, Ordering::Release);
        let wr = wt.join();
        if !matches!(ir, Ok(Ok(()))) || !matches!(wr, Ok(Ok(()))) { harness_err = Some(format!("ingestion {ir:?}, writer {wr:?}")); }
    });
    RACE_POINT.store(0, Ordering::Release);
    if let Some(e) = harness_err { return Some(Failure { kind: "harness", detail: format!("ingestion-race probe: {e}"), witness: None }); }
    // seal the journal, reclaim what is flushed, crash
    if fjall::verif::verif_rotate_journal(&db).is_err() { return None; }
    if fjall::verif::verif_journal_maintenance(&db).is_err() { return None; }
    let journals = db.journal_count();
    let img = scratch.join("crash");
    copy_dir_sparse(&dir, &img);
    let got = (|| -> Result<(bool, bool, bool), String> {
        let d = open(&img)?;
        let k = d.keyspace("a", KeyspaceCreateOptions::default).map_err(|e| format!("{e:?}"))?;
        let g = |key: &str| k.get(key).map(|v| v.is_some()).map_err(|e| format!("{e:?}"));
        Ok((g("early")?, g("ingested")?, g("late")?))
    })();
    match got {
        Ok((true, true, true)) if !writer_inside => None,
        Ok((e, i, l)) => Some(Failure { kind: "impl-vs-oracle", detail: format!("a writer starting while a bulk ingestion of its keyspace is inside finish(): the writer drew its seqno before the ingestion was done = {writer_inside}; after journal rotation + maintenance ({journals} journal file(s) left) a crash image recovers early={e} ingested={i} late={l} (all three were acknowledged)"), witness: None }),
        Err(e) => Some(Failure { kind: "impl-vs-oracle", detail: format!("ingestion-race probe: crash image does not open: {e}"), witness: None }),
    }
}

fn main() {
    fjall::verif::pause::set(Some(std::sync::Arc::new(race_hook)));
    let args: Vec<String> = std::env::args().collect();
    let mut replay = None;
    let mut mode = "c04".to_string();
    let mut i = 1;
    while i < args.len() {
        if args[i] == "--replay-seed" { replay = args[i + 1].parse().ok(); i += 1; }
        if args[i] == "--mode" { mode = args[i + 1].clone(); i += 1; }
        i += 1;
    }
    let thorough = tier_is_thorough();
    let seed = env_u64("VERIF_SEED", 1);
    let n = env_u64("VERIF_CASES", if thorough { 10000 } else { 300 });
    if std::env::var("VERIF_QUIET_PANICS").is_ok() { std::panic::set_hook(Box::new(|_| {})); }
    let t0 = std::time::Instant::now();
    let mut lean = Lean::spawn();
    let mut master = Rng::new(seed);
    let seeds: Vec<u64> = match replay { Some(s) => vec![s], None => (0..n).map(|_| master.fork()).collect() };
    let mut all = vec![];
    let mut nontrivial = std::collections::HashSet::new();
    let mut samples = vec![];
    let mut hist = BTreeMap::new();
    let mut cases = 0;
    if replay.is_none() && mode == "c04" { if let Some(f) = witness_f13_ingest() { all.push((0, f)); } }
    if replay.is_none() && (mode == "c10" || mode == "c02") { if let Some(f) = ingest_race_probe() { all.push((0, f)); } *hist.entry("ingestion-racing-a-writer-probe".to_string()).or_insert(0) += 1; }
    if replay.is_none() && (mode == "c10" || mode == "c02") { if let Some(f) = real_rotation_probe() { all.push((0, f)); } *hist.entry("worker-path-journal-rotation-probe".to_string()).or_insert(0) += 1; }
    for cs in seeds {
        let res = std::panic::catch_unwind(std::panic::AssertUnwindSafe(|| run_case(cs, &mut lean, &mut hist, &mut samples, thorough, &mode)));
        cases += 1;
        match res {
            Ok((f, nt, h)) => { if nt { nontrivial.insert(h); } for x in f { all.push((cs, x)); } }
            Err(_) => all.push((cs, Failure { kind: "harness", detail: "panic in the dbeng engine".into(), witness: None })),
        }
        if all.iter().filter(|(_, f)| f.witness.is_none()).count() > 5 { break; }
    }
    let mut res = J::obj();
    res.set("engine", J::s("dbeng"));
    res.set("mode", J::s(mode));
    res.set("seed", J::i(seed as i64));
    res.set("cases", J::i(cases));
    res.set("distinct_nontrivial", J::i(nontrivial.len() as i64));
    res.set("distribution", J::Obj(hist.iter().map(|(k, v)| (k.clone(), J::i(*v as i64))).collect()));
    res.set("model_requests", J::i(lean.requests as i64));
    res.set("samples", J::Arr(samples));
    res.set("wall_s", J::Num(t0.elapsed().as_secs_f64()));
    res.set("failures", J::Arr(all.iter().map(|(cs, f)| { let mut o = J::obj(); o.set("case_seed", J::s(cs.to_string())); o.set("kind", J::s(f.kind)); o.set("detail", J::s(f.detail.clone())); if let Some(w) = &f.witness { o.set("witness_id", J::s(w.clone())); } o }).collect()));
    println!("RESULT {}", res.render());
    std::process::exit(if all.is_empty() { 0 } else { 1 });
}
