//! `tx` engine: transactions on the real crate vs the Lean Tx.Base / Tx.Ssi models.
//!  --mode c08: one transaction at a time on both transactional databases (read-your-writes,
//!              RMW results, commit = final write per key, rollback/drop = nothing)
//!  --mode c07: histories of up to 4 concurrently open optimistic transactions; outcomes and
//!              observations vs model; implementation-only oracle = serial replay in commit order
use fjall::{KeyspaceCreateOptions, OptimisticTxDatabase, OptimisticTxKeyspace, Readable, SingleWriterTxDatabase, SingleWriterTxKeyspace};
use std::collections::BTreeMap;
use std::ops::Bound;
use verif_harness::json::J;
use verif_harness::*;

type Map = BTreeMap<Vec<u8>, Vec<u8>>;

#[derive(Clone, Debug)]
enum F { None, Set(Vec<u8>), App(Vec<u8>), Toggle, Keep }
impl F {
    fn apply(&self, o: Option<&[u8]>) -> Option<Vec<u8>> {
        match self {
            F::None => None,
            F::Set(v) => Some(v.clone()),
            F::App(v) => { let mut x = o.map(|x| x.to_vec()).unwrap_or_default(); x.extend_from_slice(v); Some(x) }
            F::Toggle => if o.is_some() { None } else { Some(vec![1]) },
            F::Keep => o.map(|x| x.to_vec()),
        }
    }
    fn spec(&self) -> String {
        match self { F::None => "F:none".into(), F::Set(v) => format!("F:set:{}", hex(v)), F::App(v) => format!("F:app:{}", hex(v)), F::Toggle => "F:toggle".into(), F::Keep => "F:keep".into() }
    }
}

#[derive(Clone, Debug)]
enum B { U, I(Vec<u8>), E(Vec<u8>) }
impl B {
    fn spec(&self) -> String { match self { B::U => "U".into(), B::I(k) => format!("I{}", hex(k)), B::E(k) => format!("E{}", hex(k)) } }
    fn to(&self) -> Bound<Vec<u8>> { match self { B::U => Bound::Unbounded, B::I(k) => Bound::Included(k.clone()), B::E(k) => Bound::Excluded(k.clone()) } }
}

#[derive(Clone, Debug)]
enum Op {
    Get(usize, Vec<u8>), Contains(usize, Vec<u8>), SizeOf(usize, Vec<u8>), Range(usize, B, B), Prefix(usize, Vec<u8>),
    Iter(usize), First(usize), Last(usize), Len(usize), IsEmpty(usize),
    Insert(usize, Vec<u8>, Vec<u8>), Remove(usize, Vec<u8>), FetchUpdate(usize, Vec<u8>, F), UpdateFetch(usize, Vec<u8>, F), Take(usize, Vec<u8>),
}

impl Op {
    fn is_write(&self) -> bool { matches!(self, Op::Insert(..) | Op::Remove(..) | Op::FetchUpdate(..) | Op::UpdateFetch(..) | Op::Take(..)) }
    fn name(&self) -> &'static str {
        match self { Op::Get(..) => "get", Op::Contains(..) => "contains", Op::SizeOf(..) => "sizeof", Op::Range(..) => "range", Op::Prefix(..) => "prefix", Op::Iter(..) => "iter", Op::First(..) => "first", Op::Last(..) => "last", Op::Len(..) => "len", Op::IsEmpty(..) => "isempty", Op::Insert(..) => "insert", Op::Remove(..) => "remove", Op::FetchUpdate(..) => "fetchupdate", Op::UpdateFetch(..) => "updatefetch", Op::Take(..) => "take" }
    }
    fn spec(&self, ids: &[u64]) -> String {
        match self {
            Op::Get(k, key) => format!("get {} {}", ids[*k], hex(key)),
            Op::Contains(k, key) => format!("contains {} {}", ids[*k], hex(key)),
            Op::SizeOf(k, key) => format!("sizeof {} {}", ids[*k], hex(key)),
            Op::Range(k, lo, hi) => format!("range {} {} {}", ids[*k], lo.spec(), hi.spec()),
            Op::Prefix(k, p) => format!("prefix {} {}", ids[*k], hex(p)),
            Op::Iter(k) => format!("iter {}", ids[*k]),
            Op::First(k) => format!("first {}", ids[*k]),
            Op::Last(k) => format!("last {}", ids[*k]),
            Op::Len(k) => format!("len {}", ids[*k]),
            Op::IsEmpty(k) => format!("isempty {}", ids[*k]),
            Op::Insert(k, key, v) => format!("insert {} {} {}", ids[*k], hex(key), hex(v)),
            Op::Remove(k, key) => format!("remove {} {}", ids[*k], hex(key)),
            Op::FetchUpdate(k, key, f) => format!("fetchupdate {} {} {}", ids[*k], hex(key), f.spec()),
            Op::UpdateFetch(k, key, f) => format!("updatefetch {} {} {}", ids[*k], hex(key), f.spec()),
            Op::Take(k, key) => format!("take {} {}", ids[*k], hex(key)),
        }
    }
}

fn gen_key(r: &mut Rng) -> Vec<u8> {
    match r.below(12) {
        0 => vec![b'a', 0xff],
        1 => vec![0xff, 0xff],
        2 => vec![b'a'],
        _ => vec![b'a' + r.below(3) as u8, b'0' + r.below(3) as u8],
    }
}
fn gen_val(r: &mut Rng) -> Vec<u8> {
    match r.below(6) { 0 => vec![], 1 => r.bytes(40), _ => vec![b'v', r.below(256) as u8] }
}
fn gen_bound(r: &mut Rng) -> B {
    match r.below(5) { 0 => B::U, 1 | 2 => B::I(gen_key(r)), _ => B::E(gen_key(r)) }
}
fn gen_f(r: &mut Rng) -> F {
    match r.below(5) { 0 => F::None, 1 => F::Set(gen_val(r)), 2 => F::App(vec![b'+']), 3 => F::Toggle, _ => F::Keep }
}
fn gen_op(r: &mut Rng, nks: usize, write_bias: u64) -> Op {
    let k = r.range(0, nks - 1);
    if r.below(10) < write_bias {
        match r.below(8) {
            0 | 1 | 2 => Op::Insert(k, gen_key(r), gen_val(r)),
            3 | 4 => Op::Remove(k, gen_key(r)),
            5 => Op::FetchUpdate(k, gen_key(r), gen_f(r)),
            6 => Op::UpdateFetch(k, gen_key(r), gen_f(r)),
            _ => Op::Take(k, gen_key(r)),
        }
    } else {
        match r.below(14) {
            0 | 1 | 2 => Op::Get(k, gen_key(r)),
            3 => Op::Contains(k, gen_key(r)),
            4 | 5 => Op::SizeOf(k, gen_key(r)),
            6 | 7 => Op::Range(k, gen_bound(r), gen_bound(r)),
            8 => Op::Prefix(k, match r.below(4) { 0 => vec![], 1 => vec![0xff], 2 => vec![b'a', 0xff], _ => vec![b'a' + r.below(3) as u8] }),
            9 => Op::Iter(k),
            10 => Op::First(k),
            11 => Op::Last(k),
            12 => Op::Len(k),
            _ => Op::IsEmpty(k),
        }
    }
}

fn pairs(it: fjall::Iter) -> Result<String, String> {
    let mut v = vec![];
    for g in it {
        let (k, val) = g.into_inner().map_err(|e| format!("{e:?}"))?;
        v.push(format!("{}={}", hex(&k), hex(&val)));
    }
    Ok(format!("pairs:{}", v.join(",")))
}
fn pair(g: Option<fjall::Guard>) -> Result<String, String> {
    match g {
        None => Ok("pair:none".into()),
        Some(g) => { let (k, v) = g.into_inner().map_err(|e| format!("{e:?}"))?; Ok(format!("pair:{}={}", hex(&k), hex(&v))) }
    }
}
fn val(v: Option<fjall::UserValue>) -> String { match v { None => "val:none".into(), Some(v) => format!("val:{}", hex(&v)) } }

fn do_read<T: Readable>(tx: &T, ks: &fjall::Keyspace, op: &Op) -> Result<String, String> {
    let e = |e: fjall::Error| format!("{e:?}");
    Ok(match op {
        Op::Get(_, k) => val(tx.get(ks, k).map_err(e)?),
        Op::Contains(_, k) => format!("bool:{}", tx.contains_key(ks, k).map_err(e)? as u8),
        Op::SizeOf(_, k) => match tx.size_of(ks, k).map_err(e)? { None => "size:none".into(), Some(n) => format!("size:{n}") },
        Op::Range(_, lo, hi) => pairs(tx.range::<Vec<u8>, _>(ks, (lo.to(), hi.to())))?,
        Op::Prefix(_, p) => pairs(tx.prefix(ks, p))?,
        Op::Iter(_) => pairs(tx.iter(ks))?,
        Op::First(_) => pair(tx.first_key_value(ks))?,
        Op::Last(_) => pair(tx.last_key_value(ks))?,
        Op::Len(_) => format!("count:{}", tx.len(ks).map_err(e)?),
        Op::IsEmpty(_) => format!("bool:{}", tx.is_empty(ks).map_err(e)? as u8),
        _ => unreachable!(),
    })
}

fn do_opt(tx: &mut fjall::OptimisticWriteTx, kss: &[OptimisticTxKeyspace], op: &Op) -> Result<String, String> {
    let e = |e: fjall::Error| format!("{e:?}");
    Ok(match op {
        Op::Insert(k, key, v) => { tx.insert(&kss[*k], key.clone(), v.clone()); "unit".into() }
        Op::Remove(k, key) => { tx.remove(&kss[*k], key.clone()); "unit".into() }
        Op::FetchUpdate(k, key, f) => val(tx.fetch_update(&kss[*k], key.clone(), |o| f.apply(o.map(|x| &**x)).map(Into::into)).map_err(e)?),
        Op::UpdateFetch(k, key, f) => val(tx.update_fetch(&kss[*k], key.clone(), |o| f.apply(o.map(|x| &**x)).map(Into::into)).map_err(e)?),
        Op::Take(k, key) => val(tx.take(&kss[*k], key.clone()).map_err(e)?),
        Op::Get(k, ..) | Op::Contains(k, ..) | Op::SizeOf(k, ..) | Op::Range(k, ..) | Op::Prefix(k, ..) | Op::Iter(k) | Op::First(k) | Op::Last(k) | Op::Len(k) | Op::IsEmpty(k) => do_read(tx, kss[*k].inner(), op)?,
    })
}

fn do_sw(tx: &mut fjall::SingleWriterWriteTx, kss: &[SingleWriterTxKeyspace], op: &Op) -> Result<String, String> {
    let e = |e: fjall::Error| format!("{e:?}");
    Ok(match op {
        Op::Insert(k, key, v) => { tx.insert(&kss[*k], key.clone(), v.clone()); "unit".into() }
        Op::Remove(k, key) => { tx.remove(&kss[*k], key.clone()); "unit".into() }
        Op::FetchUpdate(k, key, f) => val(tx.fetch_update(&kss[*k], key.clone(), |o| f.apply(o.map(|x| &**x)).map(Into::into)).map_err(e)?),
        Op::UpdateFetch(k, key, f) => val(tx.update_fetch(&kss[*k], key.clone(), |o| f.apply(o.map(|x| &**x)).map(Into::into)).map_err(e)?),
        Op::Take(k, key) => val(tx.take(&kss[*k], key.clone()).map_err(e)?),
        Op::Get(k, ..) | Op::Contains(k, ..) | Op::SizeOf(k, ..) | Op::Range(k, ..) | Op::Prefix(k, ..) | Op::Iter(k) | Op::First(k) | Op::Last(k) | Op::Len(k) | Op::IsEmpty(k) => do_read(tx, kss[*k].inner(), op)?,
    })
}

/// reference semantics on plain maps (implementation-only oracle)
fn in_range(k: &[u8], lo: &B, hi: &B) -> bool {
    (match lo { B::U => true, B::I(b) => k >= &b[..], B::E(b) => k > &b[..] }) && (match hi { B::U => true, B::I(b) => k <= &b[..], B::E(b) => k < &b[..] })
}
fn ref_pairs<'a>(it: impl Iterator<Item = (&'a Vec<u8>, &'a Vec<u8>)>) -> String {
    format!("pairs:{}", it.map(|(k, v)| format!("{}={}", hex(k), hex(v))).collect::<Vec<_>>().join(","))
}
fn ref_op(m: &mut [Map], op: &Op) -> String {
    let v = |o: Option<&Vec<u8>>| match o { None => "val:none".to_string(), Some(v) => format!("val:{}", hex(v)) };
    match op {
        Op::Get(k, key) => v(m[*k].get(key)),
        Op::Contains(k, key) => format!("bool:{}", m[*k].contains_key(key) as u8),
        Op::SizeOf(k, key) => match m[*k].get(key) { None => "size:none".into(), Some(x) => format!("size:{}", x.len()) },
        Op::Range(k, lo, hi) => ref_pairs(m[*k].iter().filter(|(key, _)| in_range(key, lo, hi))),
        Op::Prefix(k, p) => ref_pairs(m[*k].iter().filter(|(key, _)| key.starts_with(p))),
        Op::Iter(k) => ref_pairs(m[*k].iter()),
        Op::First(k) => match m[*k].iter().next() { None => "pair:none".into(), Some((a, b)) => format!("pair:{}={}", hex(a), hex(b)) },
        Op::Last(k) => match m[*k].iter().next_back() { None => "pair:none".into(), Some((a, b)) => format!("pair:{}={}", hex(a), hex(b)) },
        Op::Len(k) => format!("count:{}", m[*k].len()),
        Op::IsEmpty(k) => format!("bool:{}", m[*k].is_empty() as u8),
        Op::Insert(k, key, val) => { m[*k].insert(key.clone(), val.clone()); "unit".into() }
        Op::Remove(k, key) => { m[*k].remove(key); "unit".into() }
        Op::FetchUpdate(k, key, f) => {
            let prev = m[*k].get(key).cloned();
            match f.apply(prev.as_deref()) { Some(n) => { m[*k].insert(key.clone(), n); } None => { m[*k].remove(key); } }
            v(prev.as_ref())
        }
        Op::UpdateFetch(k, key, f) => {
            let prev = m[*k].get(key).cloned();
            let n = f.apply(prev.as_deref());
            match &n { Some(n) => { m[*k].insert(key.clone(), n.clone()); } None => { m[*k].remove(key); } }
            v(n.as_ref())
        }
        Op::Take(k, key) => { let prev = m[*k].remove(key); v(prev.as_ref()) }
    }
}

fn dump(ks: &fjall::Keyspace) -> Map {
    ks.iter().map(|g| { let (k, v) = g.into_inner().unwrap(); (k.to_vec(), v.to_vec()) }).collect()
}

struct Failure { kind: &'static str, detail: String }
struct Ctx<'a> { lean: &'a mut Lean, hist: &'a mut BTreeMap<String, u64>, samples: &'a mut Vec<J> }

fn seed_data(r: &mut Rng, nks: usize) -> Vec<(usize, Vec<u8>, Vec<u8>)> {
    (0..r.range(0, 6)).map(|_| (r.range(0, nks - 1), gen_key(r), gen_val(r))).collect()
}

fn fnv(s: &str) -> u64 { let mut x = 0xcbf29ce484222325u64; for b in s.bytes() { x ^= b as u64; x = x.wrapping_mul(0x100000001b3); } x }

/// C08: one transaction on a database flavour
fn c08_case(seed: u64, cx: &mut Ctx) -> (Vec<Failure>, bool, u64) {
    let mut r = Rng::new(seed);
    let mut fails = vec![];
    let optimistic = r.chance(1, 2);
    let nks = r.range(1, 2);
    let scratch = Scratch::new("tx8");
    let seedrows = seed_data(&mut r, nks);
    let nops = r.range(3, 25);
    let prog: Vec<Op> = (0..nops).map(|_| gen_op(&mut r, nks, 5)).collect();
    let ending = r.below(3); // 0 commit, 1 rollback, 2 drop
    *cx.hist.entry(format!("db={}", if optimistic { "optimistic" } else { "single-writer" })).or_insert(0) += 1;
    *cx.hist.entry(format!("ending={}", ["commit", "rollback", "drop"][ending as usize])).or_insert(0) += 1;
    for op in &prog { *cx.hist.entry(format!("op={}", op.name())).or_insert(0) += 1; }

    let mut refm: Vec<Map> = vec![Map::new(); nks];
    for (k, key, v) in &seedrows { refm[*k].insert(key.clone(), v.clone()); }
    let before = refm.clone();
    let mut outs_real: Vec<String> = vec![];
    let ids: Vec<u64>;
    let final_dump: Vec<Map>;
    let mut leaked = false;
    let mut lazy_iters = 0u64;
    let (seqno, visible);
    macro_rules! body {
        ($db:expr, $kss:expr, $txe:expr, $doer:ident, $commit:expr) => {{
            for (k, key, v) in &seedrows { $kss[*k].insert(key.clone(), v.clone()).unwrap(); }
            seqno = $db.inner().seqno();
            visible = $db.inner().visible_seqno();
            let mut tx = $txe;
            // an iterator made inside the transaction and consumed only after further writes of the same
            // transaction is frozen at its creation (C05): compared with a scan consumed at once at that point
            let hold_at = if r.chance(1, 3) && !prog.is_empty() { Some(r.range(0, prog.len() - 1)) } else { None };
            let mut held: Option<(usize, fjall::Iter, String)> = None;
            for (opi, op) in prog.iter().enumerate() {
                if hold_at == Some(opi) {
                    let k = r.range(0, nks - 1);
                    let now = pairs(tx.iter($kss[k].inner())).unwrap_or_else(|e| format!("err:{e}"));
                    held = Some((k, tx.iter($kss[k].inner()), now));
                }
                match $doer(&mut tx, &$kss, op) {
                    Ok(o) => outs_real.push(o),
                    Err(e) => { fails.push(Failure { kind: "impl-vs-oracle", detail: format!("{op:?} failed: {e}") }); break; }
                }
                // nothing is visible outside before commit
                if op.is_write() && r.chance(1, 3) {
                    for k in 0..nks { if dump($kss[k].inner()) != before[k] { leaked = true; } }
                }
            }
            if let Some((k, it, want)) = held.take() {
                let got = pairs(it).unwrap_or_else(|e| format!("err:{e}"));
                lazy_iters += 1;
                if got != want { fails.push(Failure { kind: "impl-vs-oracle", detail: format!("an iterator over keyspace {k} created inside the transaction before op #{} and consumed after the later operations yields {got}; consumed at once at its creation it yields {want}: it is not frozen; program={:?}", hold_at.unwrap(), prog) }); }
            }
            match ending {
                0 => { $commit(tx); }
                1 => { tx.rollback(); }
                _ => { drop(tx); }
            }
            final_dump = (0..nks).map(|k| dump($kss[k].inner())).collect();
        }};
    }
    if optimistic {
        let db = OptimisticTxDatabase::builder(scratch.join("db")).worker_threads_unchecked(0).open().unwrap();
        let kss: Vec<OptimisticTxKeyspace> = (0..nks).map(|i| db.keyspace(&format!("ks{i}"), KeyspaceCreateOptions::default).unwrap()).collect();
        ids = kss.iter().map(|k| k.inner().id()).collect();
        body!(db, kss, db.write_tx().unwrap(), do_opt, |tx: fjall::OptimisticWriteTx| { tx.commit().unwrap().unwrap(); });
    } else {
        let db = SingleWriterTxDatabase::builder(scratch.join("db")).worker_threads_unchecked(0).open().unwrap();
        let kss: Vec<SingleWriterTxKeyspace> = (0..nks).map(|i| db.keyspace(&format!("ks{i}"), KeyspaceCreateOptions::default).unwrap()).collect();
        ids = kss.iter().map(|k| k.inner().id()).collect();
        body!(db, kss, db.write_tx(), do_sw, |tx: fjall::SingleWriterWriteTx| { tx.commit().unwrap(); });
    }
    if !fails.is_empty() { return (fails, false, 0); }
    if leaked { fails.push(Failure { kind: "impl-vs-oracle", detail: format!("seed {seed}: a write inside an open transaction is visible outside before commit") }); }
    *cx.hist.entry("iterator-held-across-later-writes".into()).or_insert(0) += lazy_iters;
    // oracle: overlay semantics
    let mut overlay = refm.clone();
    let outs_ref: Vec<String> = prog.iter().map(|op| ref_op(&mut overlay, op)).collect();
    for (i, (a, b)) in outs_real.iter().zip(outs_ref.iter()).enumerate() {
        if a != b {
            fails.push(Failure { kind: "impl-vs-oracle", detail: format!("op #{i} {:?}: transaction returned {a}, a map with the transaction's writes applied returns {b}; program={:?}", prog[i], prog) });
            break;
        }
    }
    let want_final = if ending == 0 { overlay.clone() } else { before.clone() };
    if final_dump != want_final {
        fails.push(Failure { kind: "impl-vs-oracle", detail: format!("after {} the content is not {}; program={:?}", ["commit", "rollback", "drop"][ending as usize], if ending == 0 { "snapshot + final write per key" } else { "unchanged" }, prog) });
    }
    // model
    cx.lean.ask("tx.reset");
    cx.lean.ask(&format!("tx.bump {seqno} {visible}"));
    // seed rows enter the model as one committed transaction each (their seqnos are below `visible`)
    cx.lean.ask("tx.reset");
    {
        // replay the seeding through the model so that its log holds the same content
        let mut s = 0u64;
        for (k, key, v) in &seedrows {
            cx.lean.ask(&format!("tx.begin 900{s}"));
            cx.lean.ask(&format!("tx.op 900{s} insert {} {} {}", ids[*k], hex(key), hex(v)));
            cx.lean.ask(&format!("tx.commit 900{s}"));
            s += 1;
        }
    }
    cx.lean.ask("tx.begin 1");
    for (i, op) in prog.iter().enumerate() {
        let m = cx.lean.ask(&format!("tx.op 1 {}", op.spec(&ids)));
        if !no_model() && m != outs_real[i] {
            fails.push(Failure { kind: "model-vs-impl", detail: format!("op #{i} {:?}: model {m} vs real {}; program={:?}", op, outs_real[i], prog) });
            break;
        }
    }
    if ending == 0 { cx.lean.ask("tx.commit 1"); } else { cx.lean.ask("tx.rollback 1"); }
    for k in 0..nks {
        let m = cx.lean.ask(&format!("tx.top {}", ids[k]));
        let real = ref_pairs(final_dump[k].iter());
        if !no_model() && m != real {
            fails.push(Failure { kind: "model-vs-impl", detail: format!("final content of keyspace {k}: model {m} vs real {real}; program={:?}", prog) });
        }
    }
    let nontrivial = {
        // a key written >= 2x or removed and then scanned inside the transaction
        let mut written: BTreeMap<(usize, Vec<u8>), u32> = BTreeMap::new();
        let mut nt = false;
        for op in &prog {
            match op {
                Op::Insert(k, key, _) | Op::Remove(k, key) | Op::Take(k, key) | Op::FetchUpdate(k, key, _) | Op::UpdateFetch(k, key, _) => { let c = written.entry((*k, key.clone())).or_insert(0); *c += 1; if *c >= 2 { nt = true; } }
                Op::Iter(k) | Op::Range(k, ..) | Op::Prefix(k, ..) | Op::Len(k) | Op::First(k) | Op::Last(k) => { if written.keys().any(|(kk, _)| kk == k) { nt = true; } }
                _ => {}
            }
        }
        nt
    };
    if cx.samples.len() < 2 && nontrivial && prog.len() < 10 {
        let mut s = J::obj();
        s.set("case_seed", J::s(seed.to_string()));
        s.set("db", J::s(if optimistic { "optimistic" } else { "single-writer" }));
        s.set("program", J::Arr(prog.iter().map(|o| J::s(o.spec(&ids))).collect()));
        s.set("outputs", J::Arr(outs_real.iter().map(|o| J::s(o.clone())).collect()));
        cx.samples.push(s);
    }
    (fails, nontrivial, fnv(&format!("{prog:?}")))
}

/// C07: histories of concurrently open optimistic transactions
fn c07_case(seed: u64, cx: &mut Ctx) -> (Vec<Failure>, bool, u64) {
    let mut r = Rng::new(seed);
    let mut fails = vec![];
    let nks = r.range(1, 2);
    let scratch = Scratch::new("tx7");
    let db = OptimisticTxDatabase::builder(scratch.join("db")).worker_threads_unchecked(0).open().unwrap();
    let kss: Vec<OptimisticTxKeyspace> = (0..nks).map(|i| db.keyspace(&format!("ks{i}"), KeyspaceCreateOptions::default).unwrap()).collect();
    let ids: Vec<u64> = kss.iter().map(|k| k.inner().id()).collect();
    cx.lean.ask("tx.reset");
    cx.lean.ask(&format!("tx.bump {} {}", db.inner().seqno(), db.inner().visible_seqno()));
    let mut committed: Vec<Map> = vec![Map::new(); nks];

    struct Open { id: u64, tx: fjall::OptimisticWriteTx, ops: Vec<Op>, outs: Vec<String>, snapshot: Vec<Map>, overlay: Vec<Map>, wrote: bool }
    let mut open: Vec<Open> = vec![];
    let mut next_id = 1u64;
    let nev = r.range(6, 45);
    let mut trace: Vec<String> = vec![];
    let mut overlap_conflict = false;
    let mut n_conflicts = 0;
    let mut n_commits = 0;
    macro_rules! ev { ($($a:tt)*) => { trace.push(format!($($a)*)) } }
    for _ in 0..nev {
        let choice = if open.is_empty() { [0, 0, 0, 18, 19][r.below(5) as usize] } else { r.below(20) };
        if choice < 3 && open.len() < 4 {
            let id = next_id; next_id += 1;
            let tx = db.write_tx().unwrap();
            let m = cx.lean.ask(&format!("tx.begin {id}"));
            let real = format!("instant={}", db.inner().visible_seqno());
            ev!("begin {id}");
            if !no_model() && m != real { fails.push(Failure { kind: "model-vs-impl", detail: format!("begin: model {m} vs real {real}; trace={trace:?}") }); break; }
            open.push(Open { id, tx, ops: vec![], outs: vec![], snapshot: committed.clone(), overlay: committed.clone(), wrote: false });
            *cx.hist.entry("begin".into()).or_insert(0) += 1;
        } else if choice < 13 && !open.is_empty() {
            let i = r.below(open.len() as u64) as usize;
            let op = gen_op(&mut r, nks, 3);
            let res = std::panic::catch_unwind(std::panic::AssertUnwindSafe(|| do_opt(&mut open[i].tx, &kss, &op)));
            let real = match res { Ok(Ok(o)) => o, Ok(Err(e)) => format!("error:{e}"), Err(_) => "panic".into() };
            ev!("op {} {}", open[i].id, op.spec(&ids));
            let m = cx.lean.ask(&format!("tx.op {} {}", open[i].id, op.spec(&ids)));
            *cx.hist.entry(format!("op={}", op.name())).or_insert(0) += 1;
            if !no_model() && m != real { fails.push(Failure { kind: "model-vs-impl", detail: format!("tx {} {:?}: model {m} vs real {real}; trace={trace:?}", open[i].id, op) }); break; }
            // does the operation leave a write set?  (an RMW whose result equals the current value is skipped)
            {
                let o = &mut open[i];
                let w = match &op {
                    Op::Insert(..) | Op::Remove(..) => true,
                    Op::FetchUpdate(k, key, f) | Op::UpdateFetch(k, key, f) => {
                        let prev = o.overlay[*k].get(key).cloned();
                        let new = f.apply(prev.as_deref());
                        (new.is_some() && new != prev) || (new.is_none() && prev.is_some())
                    }
                    Op::Take(k, key) => o.overlay[*k].contains_key(key),
                    _ => false,
                };
                if w { o.wrote = true; }
                let _ = ref_op(&mut o.overlay, &op);
            }
            open[i].ops.push(op);
            open[i].outs.push(real);
        } else if choice < 17 && !open.is_empty() {
            let i = r.below(open.len() as u64) as usize;
            let o = open.swap_remove(i);
            // real footprint of the memtables decides "read-only": a write that was skipped (unchanged RMW) leaves no write set
            let res = std::panic::catch_unwind(std::panic::AssertUnwindSafe(|| o.tx.commit()));
            let real = match res { Ok(Ok(Ok(()))) => "ok", Ok(Ok(Err(_))) => "conflict", Ok(Err(_)) => "error", Err(_) => "panic" };
            ev!("commit {} -> {real}", o.id);
            let m = cx.lean.ask(&format!("tx.commit {}", o.id));
            *cx.hist.entry(format!("commit={real}")).or_insert(0) += 1;
            if !no_model() && m != real { fails.push(Failure { kind: "model-vs-impl", detail: format!("commit of tx {}: model {m} vs real {real}; trace={trace:?}", o.id) }); break; }
            if real == "panic" || real == "error" {
                fails.push(Failure { kind: "impl-vs-oracle", detail: format!("commit of tx {} {real}s; trace={trace:?}", o.id) });
                break;
            }
            if real == "ok" {
                n_commits += 1;
                // serial replay: a writer is serialized at its commit point, a read-only transaction at its snapshot
                let mut state = if o.wrote { committed.clone() } else { o.snapshot.clone() };
                let replay: Vec<String> = o.ops.iter().map(|op| ref_op(&mut state, op)).collect();
                if replay != o.outs {
                    let at = replay.iter().zip(o.outs.iter()).position(|(a, b)| a != b).unwrap_or(0);
                    fails.push(Failure { kind: "impl-vs-oracle", detail: format!("not serializable: tx {} committed, but executed serially at its commit point op #{at} {:?} returns {} where the transaction observed {}; trace={trace:?}", o.id, o.ops[at], replay[at], o.outs[at]) });
                    break;
                }
                if o.wrote {
                    if o.snapshot != committed { overlap_conflict = true; }
                    committed = state;
                }
            } else {
                n_conflicts += 1;
                overlap_conflict = true;
            }
            // the committed content must be exactly the serial result
            for k in 0..nks {
                if dump(kss[k].inner()) != committed[k] {
                    fails.push(Failure { kind: "impl-vs-oracle", detail: format!("after commit of tx {} ({real}) the content of keyspace {k} differs from the serial execution of the committed transactions; trace={trace:?}", o.id) });
                }
            }
            if !fails.is_empty() { break; }
        } else if choice < 18 && !open.is_empty() {
            let i = r.below(open.len() as u64) as usize;
            let o = open.swap_remove(i);
            ev!("rollback {}", o.id);
            if r.chance(1, 2) { o.tx.rollback(); } else { drop(o.tx); }
            cx.lean.ask(&format!("tx.rollback {}", o.id));
            *cx.hist.entry("rollback".into()).or_insert(0) += 1;
        } else if choice < 19 {
            // single-operation helper on the keyspace = a committed mini transaction
            let k = r.range(0, nks - 1);
            let key = gen_key(&mut r);
            let id = next_id; next_id += 1;
            if r.chance(2, 3) {
                let v = gen_val(&mut r);
                kss[k].insert(key.clone(), v.clone()).unwrap();
                committed[k].insert(key.clone(), v.clone());
                ev!("plain insert ks{k} {} {}", hex(&key), hex(&v));
                cx.lean.ask(&format!("tx.begin {id}"));
                cx.lean.ask(&format!("tx.op {id} insert {} {} {}", ids[k], hex(&key), hex(&v)));
            } else {
                kss[k].remove(key.clone()).unwrap();
                committed[k].remove(&key);
                ev!("plain remove ks{k} {}", hex(&key));
                cx.lean.ask(&format!("tx.begin {id}"));
                cx.lean.ask(&format!("tx.op {id} remove {} {}", ids[k], hex(&key)));
            }
            let m = cx.lean.ask(&format!("tx.commit {id}"));
            if !no_model() && m != "ok" { fails.push(Failure { kind: "model-vs-impl", detail: format!("blind single-operation commit: model says {m}; trace={trace:?}") }); break; }
            *cx.hist.entry("plain-write".into()).or_insert(0) += 1;
        } else {
            fjall::verif::tracker_gc(db.inner());
            cx.lean.ask("tx.gc");
            ev!("gc");
            *cx.hist.entry("gc".into()).or_insert(0) += 1;
        }
        // internal observables, compared as the model states them
        let st = cx.lean.ask("tx.state");
        let tr = &db.inner().supervisor.snapshot_tracker;
        let real_st = format!("seqno={} visible={} open={} wm={}", db.inner().seqno(), db.inner().visible_seqno(), tr.open_snapshots(), tr.get_seqno_safe_to_gc());
        if !no_model() && !st.starts_with(&real_st) {
            fails.push(Failure { kind: "model-vs-impl", detail: format!("counters: model [{st}] vs real [{real_st}]; trace={trace:?}") });
            break;
        }
    }
    drop(open);
    let nontrivial = overlap_conflict && n_commits >= 2;
    if cx.samples.len() < 2 && nontrivial && n_conflicts > 0 && trace.len() < 30 {
        let mut s = J::obj();
        s.set("case_seed", J::s(seed.to_string()));
        s.set("history", J::Arr(trace.iter().map(|t| J::s(t.clone())).collect()));
        cx.samples.push(s);
    }
    (fails, nontrivial, fnv(&format!("{trace:?}")))
}

/// C08 "no update is lost" for the single-writer database: a writer that has to wait for the
/// single-writer lock must get a snapshot taken *after* the previous transaction committed.
/// T1 holds a write transaction; T2 calls write_tx() on another thread (blocks); T1 increments and
/// commits; T2 increments and commits; the counter must be 2.  (If T2 is slow to start it simply
/// does not block; that cannot produce a false alarm.)
/// C07, thread schedules: the validation of a commit and the application of its writes are one step
/// (`Oracle::with_commit` holds the commit mutex across both).  A write skew on two threads: T1 is held at the
/// `write.begin` pause point inside its commit (validated, not yet applied); T2's commit must wait for it, and is
/// then refused.  If T2 gets through, both commit on the same stale observation.
fn commit_overlap_probe(lean: &mut Lean) -> Option<Failure> {
    use std::sync::atomic::{AtomicBool, Ordering};
    use std::sync::Arc;
    static PARKED: AtomicBool = AtomicBool::new(false);
    static GO: AtomicBool = AtomicBool::new(false);
    let scratch = Scratch::new("otx");
    let db = OptimisticTxDatabase::builder(scratch.join("db")).worker_threads_unchecked(0).open().ok()?;
    let ks = db.keyspace("acc", KeyspaceCreateOptions::default).ok()?;
    ks.insert("x", "50").ok()?;
    ks.insert("y", "50").ok()?;
    PARKED.store(false, Ordering::Release); GO.store(false, Ordering::Release);
    fjall::verif::pause::set(Some(Arc::new(|name: &'static str| {
        if name == "write.begin" && std::thread::current().name() == Some("otx-t1") { PARKED.store(true, Ordering::Release); while !GO.load(Ordering::Acquire) { std::thread::sleep(std::time::Duration::from_millis(1)); } }
    })));
    let num = |v: Option<fjall::UserValue>| -> i64 { v.map(|x| String::from_utf8_lossy(&x).parse().unwrap_or(0)).unwrap_or(0) };
    // both transactions observe x + y = 100 and withdraw 100 from a different account
    let mut t1 = db.write_tx().ok()?;
    let mut t2 = db.write_tx().ok()?;
    let s1 = num(t1.get(&ks, "x").ok()?) + num(t1.get(&ks, "y").ok()?);
    let s2 = num(t2.get(&ks, "x").ok()?) + num(t2.get(&ks, "y").ok()?);
    if s1 >= 100 { t1.insert(&ks, "x", "-50"); }
    if s2 >= 100 { t2.insert(&ks, "y", "-50"); }
    let h1 = std::thread::Builder::new().name("otx-t1".into()).spawn(move || t1.commit().map(|r| r.is_ok())).ok()?;
    let t0 = std::time::Instant::now();
    while !PARKED.load(Ordering::Acquire) && t0.elapsed() < std::time::Duration::from_secs(30) { std::thread::sleep(std::time::Duration::from_millis(1)); }
    let done2 = Arc::new(AtomicBool::new(false));
    let d2 = done2.clone();
    let h2 = std::thread::spawn(move || { let r = t2.commit().map(|r| r.is_ok()); d2.store(true, Ordering::Release); r });
    std::thread::sleep(std::time::Duration::from_millis(150));
    let overlapped = done2.load(Ordering::Acquire);
    GO.store(true, Ordering::Release);
    let r1 = h1.join().ok()?.ok()?;
    let r2 = h2.join().ok()?.ok()?;
    fjall::verif::pause::set(None);
    let (x, y) = (num(ks.get("x").ok()?), num(ks.get("y").ok()?));
    let total = x + y;
    // the same schedule on the thread model of the commit mutex (Tx/CommitMutex.lean, write-skew instance):
    // T1 locks and validates, T2 tries twice, T1 applies, T2 locks and validates
    let model = if no_model() { String::new() } else { lean.ask("cm.skew 1 50 50 0,0,1,1,0,1,1,1") };
    let v = |b: bool| if b { "ok" } else { "conflict" };
    let real = format!("db={x},{y} verdicts=t1:{},t2:{} mutex=none blocked={} phases=idle,idle", v(r1), v(r2), if overlapped { "" } else { "2,3" });
    if overlapped || (r1 && r2) || total < 0 {
        return Some(Failure { kind: "impl-vs-oracle", detail: format!("optimistic transactions, write skew on two threads: T1 held between its validation and the application of its writes; T2's commit completed meanwhile = {overlapped}; outcomes T1 committed = {r1}, T2 committed = {r2}; x + y = {total} (both read x + y = 100 and withdrew 100: at most one may commit)") });
    }
    if !no_model() && model != real {
        return Some(Failure { kind: "model-vs-impl", detail: format!("commit-mutex thread model vs two real threads (write skew, T1 held after validation): model {model} vs real {real}") });
    }
    None
}

fn single_writer_probe() -> Option<Failure> {
    let scratch = Scratch::new("sw");
    let db = SingleWriterTxDatabase::builder(scratch.join("db")).worker_threads_unchecked(0).open().ok()?;
    let ks = db.keyspace("c", KeyspaceCreateOptions::default).ok()?;
    ks.insert("n", "0").ok()?;
    let rounds = 5;
    for round in 0..rounds {
        let before: u64 = String::from_utf8_lossy(&ks.get("n").ok()??).parse().ok()?;
        let mut t1 = db.write_tx();
        let (db2, ks2) = (db.clone(), ks.clone());
        let h = std::thread::spawn(move || -> Option<()> {
            let mut t2 = db2.write_tx();
            let v: u64 = String::from_utf8_lossy(&t2.get(&ks2, "n").ok()??).parse().ok()?;
            t2.insert(&ks2, "n", (v + 1).to_string());
            t2.commit().ok()?;
            Some(())
        });
        std::thread::sleep(std::time::Duration::from_millis(30));
        let v: u64 = String::from_utf8_lossy(&t1.get(&ks, "n").ok()??).parse().ok()?;
        t1.insert(&ks, "n", (v + 1).to_string());
        t1.commit().ok()?;
        h.join().ok()??;
        let after: u64 = String::from_utf8_lossy(&ks.get("n").ok()??).parse().ok()?;
        if after != before + 2 {
            return Some(Failure { kind: "impl-vs-oracle", detail: format!("single-writer database, round {round}: two serialized read-modify-write transactions (the second one waited for the single-writer lock while the first was open) moved the counter from {before} to {after}: an update was lost") });
        }
    }
    None
}

fn main() {
    let args: Vec<String> = std::env::args().collect();
    let mut replay = None;
    let mut mode = "c08".to_string();
    let mut i = 1;
    while i < args.len() {
        if args[i] == "--replay-seed" { replay = args[i + 1].parse().ok(); i += 1; }
        if args[i] == "--mode" { mode = args[i + 1].clone(); i += 1; }
        i += 1;
    }
    let thorough = tier_is_thorough();
    let seed = env_u64("VERIF_SEED", 1);
    let n = env_u64("VERIF_CASES", if thorough { 20000 } else { 800 });
    if std::env::var("VERIF_QUIET_PANICS").is_ok() { std::panic::set_hook(Box::new(|_| {})); }
    let t0 = std::time::Instant::now();
    let mut lean = Lean::spawn();
    let mut master = Rng::new(seed);
    let seeds: Vec<u64> = match replay { Some(s) => vec![s], None => (0..n).map(|_| master.fork()).collect() };
    let mut all = vec![];
    let mut nontrivial = std::collections::HashSet::new();
    let mut samples = vec![];
    let mut hist = BTreeMap::new();
    let mut cases = 0;
    if mode == "c08" && replay.is_none() { if let Some(f) = single_writer_probe() { all.push((0, f)); } *hist.entry("single-writer-probe".to_string()).or_insert(0) += 1; }
    if mode == "c07" && replay.is_none() { if let Some(f) = commit_overlap_probe(&mut lean) { all.push((0, f)); } *hist.entry("commit-overlap-probe".to_string()).or_insert(0) += 1; }
    for cs in seeds {
        let res = std::panic::catch_unwind(std::panic::AssertUnwindSafe(|| {
            let mut cx = Ctx { lean: &mut lean, hist: &mut hist, samples: &mut samples };
            if mode == "c07" { c07_case(cs, &mut cx) } else { c08_case(cs, &mut cx) }
        }));
        cases += 1;
        match res {
            Ok((f, nt, h)) => { if nt { nontrivial.insert(h); } for x in f { all.push((cs, x)); } }
            Err(_) => all.push((cs, Failure { kind: "harness", detail: "panic in the tx engine".into() })),
        }
        if all.len() > 5 { break; }
    }
    let mut res = J::obj();
    res.set("engine", J::s("tx"));
    res.set("mode", J::s(mode));
    res.set("seed", J::i(seed as i64));
    res.set("cases", J::i(cases));
    res.set("distinct_nontrivial", J::i(nontrivial.len() as i64));
    res.set("distribution", J::Obj(hist.iter().map(|(k, v)| (k.clone(), J::i(*v as i64))).collect()));
    res.set("model_requests", J::i(lean.requests as i64));
    res.set("samples", J::Arr(samples));
    res.set("wall_s", J::Num(t0.elapsed().as_secs_f64()));
    res.set("failures", J::Arr(all.iter().map(|(cs, f)| { let mut o = J::obj(); o.set("case_seed", J::s(cs.to_string())); o.set("kind", J::s(f.kind)); o.set("detail", J::s(f.detail.clone())); o }).collect()));
    println!("RESULT {}", res.render());
    std::process::exit(if all.is_empty() { 0 } else { 1 });
}
