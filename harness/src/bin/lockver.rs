//! `lockver` engine (C17): version marker contents and open/clone/drop orders on the real crate
//! vs the Lean `Version` model; oracle: a refused open leaves the directory tree untouched.
use fjall::{Database, KeyspaceCreateOptions};
use std::path::Path;
use verif_harness::json::J;
use verif_harness::*;

struct Failure { kind: &'static str, detail: String }

/// (relative path, length, content hash) of every file + every directory name; `lock` file content ignored
fn tree_hash(dir: &Path) -> Vec<(String, u64, u64)> {
    fn walk(base: &Path, d: &Path, out: &mut Vec<(String, u64, u64)>) {
        let mut entries: Vec<_> = std::fs::read_dir(d).map(|r| r.filter_map(|e| e.ok()).collect()).unwrap_or_default();
        entries.sort_by_key(|e: &std::fs::DirEntry| e.file_name());
        for e in entries {
            let p = e.path();
            let rel = p.strip_prefix(base).unwrap().to_string_lossy().to_string();
            if p.is_dir() {
                out.push((rel + "/", 0, 0));
                walk(base, &p, out);
            } else {
                let md = std::fs::metadata(&p).unwrap();
                // sparse 64 MiB journals: hash only the non-zero prefix, but keep the length
                // journals are 64 MiB sparse files: the first MiB holds everything these cases write
                let data = {
                    use std::io::Read;
                    let mut f = std::fs::File::open(&p).unwrap();
                    let mut buf = vec![0u8; (md.len() as usize).min(1 << 20)];
                    let n = f.read(&mut buf).unwrap_or(0);
                    buf.truncate(n);
                    buf
                };
                let mut end = data.len();
                while end > 0 && data[end - 1] == 0 { end -= 1; }
                let h = xxhash_rust::xxh3::xxh3_64(&data[..end]);
                out.push((rel, md.len(), h));
            }
        }
    }
    let mut out = vec![];
    walk(dir, dir, &mut out);
    out
}

fn class(r: &Result<Database, fjall::Error>) -> String {
    match r {
        Ok(_) => "ok".into(),
        Err(fjall::Error::Locked) => "locked".into(),
        Err(fjall::Error::InvalidVersion(None)) => "invalid-version:none".into(),
        Err(fjall::Error::InvalidVersion(Some(v))) => format!("invalid-version:{v}"),
        Err(fjall::Error::Io(e)) if e.kind() == std::io::ErrorKind::AlreadyExists => "already-exists".into(),
        Err(e) => format!("other:{e:?}"),
    }
}

fn make_db(dir: &Path, r: &mut Rng) {
    let db = Database::builder(dir).worker_threads_unchecked(0).open().unwrap();
    let ks = db.keyspace("a", KeyspaceCreateOptions::default).unwrap();
    for i in 0..r.range(0, 5) {
        ks.insert(format!("k{i}"), "v").unwrap();
    }
}

fn marker_case(seed: u64, lean: &mut Lean, hist: &mut std::collections::BTreeMap<String, u64>, samples: &mut Vec<J>) -> (Vec<Failure>, bool, u64) {
    let mut r = Rng::new(seed);
    let mut fails = vec![];
    let scratch = Scratch::new("ver");
    let dir = scratch.join("db");
    make_db(&dir, &mut r);
    let good = vec![b'F', b'J', b'L', 3u8];
    let bytes: Vec<u8> = match r.below(8) {
        0 => { let mut b = good.clone(); let i = r.below(4) as usize; b[i] = r.below(256) as u8; b }
        1 => good[..r.below(4) as usize].to_vec(),
        2 => { let mut b = good.clone(); let n = r.range(1, 9); b.extend(r.bytes(n)); b }
        3 => { let n = r.range(0, 8); r.bytes(n) }
        4 => vec![b'F', b'J', b'L', r.below(6) as u8],
        5 => vec![b'F', b'J', b'L', r.below(256) as u8, 3],
        6 => { let mut b = vec![0u8]; b.extend(&good); b }
        _ => { let mut b = good.clone(); let i = r.below(4) as usize; b[i] ^= 1 << r.below(8); b }
    };
    // one case in five: the marker is *absent* — on a plain database (0.jnl present) or on one whose
    // first journal was already reclaimed (finding F12, fixed); must be refused untouched
    let absent = r.chance(1, 5);
    let mut j0_present = true;
    if absent {
        if r.chance(1, 2) {
            let db = Database::builder(&dir).worker_threads_unchecked(0).open().unwrap();
            let ks = db.keyspace("a", KeyspaceCreateOptions::default).unwrap();
            ks.insert("late", "v").unwrap();
            fjall::verif::verif_rotate_journal(&db).unwrap();
            let _ = ks.rotate_memtable();
            while fjall::verif::queued_worker_messages(&db) > 0 { let _ = fjall::verif::verif_worker_step(&db); }
            fjall::verif::verif_journal_maintenance(&db).unwrap();
            j0_present = dir.join("0.jnl").exists();
        }
        std::fs::remove_file(dir.join("version")).unwrap();
        let before = tree_hash(&dir);
        let res = std::panic::catch_unwind(|| Database::builder(&dir).worker_threads_unchecked(0).open());
        let real = match &res { Ok(r) => class(r), Err(_) => "panic".into() };
        drop(res);
        let after = tree_hash(&dir);
        let model = lean.ask(&format!("lock absent {} 1 o", j0_present as u8));
        *hist.entry(format!("marker-absent:0.jnl-{}", if j0_present { "present" } else { "reclaimed" })).or_insert(0) += 1;
        if !no_model() && model != real { fails.push(Failure { kind: "model-vs-impl", detail: format!("marker absent (0.jnl present: {j0_present}): model says {model}, open says {real}") }); }
        if real == "ok" || real == "panic" { fails.push(Failure { kind: "impl-vs-oracle", detail: format!("marker absent on an existing database (0.jnl present: {j0_present}): open returned {real}") }); }
        if before != after { fails.push(Failure { kind: "impl-vs-oracle", detail: format!("marker absent on an existing database (0.jnl present: {j0_present}): open returned {real} and the directory changed") }); }
        return (fails, true, seed ^ 0x5a);
    }
    std::fs::write(dir.join("version"), &bytes).unwrap();
    let before = tree_hash(&dir);
    let res = std::panic::catch_unwind(|| Database::builder(&dir).worker_threads_unchecked(0).open());
    let real = match &res { Ok(r) => class(r), Err(_) => "panic".into() };
    drop(res);
    let after = tree_hash(&dir);
    let model = lean.ask(&format!("ver {}", hex(&bytes)));
    *hist.entry(format!("marker:{}", if real == "ok" { "accepted" } else { "refused" })).or_insert(0) += 1;
    if !no_model() && model != real {
        fails.push(Failure { kind: "model-vs-impl", detail: format!("marker {}: model says {model}, open says {real}", hex(&bytes)) });
    }
    // oracle: accepted iff it starts with F J L 3; a refusal changes nothing
    let should_accept = bytes.len() >= 4 && bytes[..4] == good[..];
    if should_accept != (real == "ok") {
        fails.push(Failure { kind: "impl-vs-oracle", detail: format!("marker {}: open returned {real}", hex(&bytes)) });
    }
    if real != "ok" && before != after {
        fails.push(Failure { kind: "impl-vs-oracle", detail: format!("marker {}: open was refused ({real}) but the directory changed", hex(&bytes)) });
    }
    if samples.len() < 2 {
        let mut s = J::obj();
        s.set("case_seed", J::s(seed.to_string()));
        s.set("marker_hex", J::s(hex(&bytes)));
        s.set("open", J::s(real.clone()));
        samples.push(s);
    }
    (fails, bytes != good, seed)
}

enum Handle { Db(Database), Ks(fjall::Keyspace), Tx(fjall::SingleWriterTxDatabase) }

fn lock_case(seed: u64, lean: &mut Lean, hist: &mut std::collections::BTreeMap<String, u64>, samples: &mut Vec<J>) -> (Vec<Failure>, bool, u64) {
    let mut r = Rng::new(seed);
    let mut fails = vec![];
    let scratch = Scratch::new("lck");
    let dir = scratch.join("db");
    make_db(&dir, &mut r);
    let mut handles: Vec<Handle> = vec![];
    let mut ops: Vec<&str> = vec![];
    let mut real_out: Vec<String> = vec![];
    let nops = r.range(3, 10);
    let mut locked_attempts = 0;
    let mut new_ks = 0u32;
    let mut second_open_while_live = false;
    for _ in 0..nops {
        match r.below(7) {
            0 | 1 => {
                if !handles.is_empty() {
                    if locked_attempts >= 2 { continue; } // each refused attempt sleeps 200 ms in try_acquire
                    locked_attempts += 1;
                    second_open_while_live = true;
                }
                ops.push("o");
                let before = tree_hash(&dir);
                let use_tx = r.chance(1, 3);
                let res: Result<Database, fjall::Error> = if use_tx {
                    match fjall::SingleWriterTxDatabase::builder(&dir).worker_threads_unchecked(0).open() {
                        Ok(t) => { let d = t.inner().clone(); handles.push(Handle::Tx(t)); Ok(d) }
                        Err(e) => Err(e),
                    }
                } else {
                    Database::builder(&dir).worker_threads_unchecked(0).open()
                };
                let c = class(&res);
                *hist.entry(format!("open:{c}")).or_insert(0) += 1;
                if let Ok(d) = res {
                    // a live instance accumulates files a later recovery would clean up (version files of the meta
                    // tree, tables compacted away): create a few keyspaces so that a refused open has something to spoil
                    if r.chance(1, 2) {
                        for _ in 0..r.range(1, 3) { new_ks += 1; let k = d.keyspace(&format!("n{new_ks}"), KeyspaceCreateOptions::default).unwrap(); let _ = k.insert("k", "v"); }
                        *hist.entry("keyspaces-created-in-a-live-instance".into()).or_insert(0) += 1;
                    }
                    if !use_tx { handles.push(Handle::Db(d)); }
                } else if before != tree_hash(&dir) {
                    fails.push(Failure { kind: "impl-vs-oracle", detail: format!("ops {:?}: open refused with {c} but the directory changed", ops) });
                }
                real_out.push(c);
            }
            2 | 3 => {
                if handles.is_empty() { continue; }
                let idx = r.below(handles.len() as u64) as usize;
                let newh = match &handles[idx] {
                    Handle::Db(d) => if r.chance(1, 2) { Handle::Db(d.clone()) } else { Handle::Ks(d.keyspace("a", KeyspaceCreateOptions::default).unwrap()) },
                    Handle::Ks(k) => Handle::Ks(k.clone()),
                    Handle::Tx(t) => if r.chance(1, 2) { Handle::Tx(t.clone()) } else { Handle::Ks(t.keyspace("a", KeyspaceCreateOptions::default).unwrap().inner().clone()) },
                };
                handles.push(newh);
                ops.push("c");
                *hist.entry("clone".into()).or_insert(0) += 1;
            }
            6 => {
                // leave background work pending (no worker threads run it): a sealed journal whose
                // watermarks hold keyspace handles, and / or a queued flush task
                let Some(h) = handles.first() else { continue; };
                let db: Database = match h { Handle::Db(d) => d.clone(), Handle::Tx(t) => t.inner().clone(), Handle::Ks(_) => continue };
                let ks = db.keyspace("a", KeyspaceCreateOptions::default).unwrap();
                // nobody flushes here (no worker threads): with four sealed memtables a writer would halt for good
                if ks.sealed_memtable_count() >= 3 { continue; }
                ks.insert(format!("w{}", r.below(100)), "v").unwrap();
                if r.chance(2, 3) { fjall::verif::verif_rotate_journal(&db).unwrap(); *hist.entry("pending:sealed-journal".into()).or_insert(0) += 1; }
                if r.chance(1, 2) { let _ = ks.rotate_memtable(); *hist.entry("pending:flush-task".into()).or_insert(0) += 1; }
            }
            _ => {
                if handles.is_empty() { continue; }
                let idx = r.below(handles.len() as u64) as usize;
                drop(handles.swap_remove(idx));
                ops.push("d");
                *hist.entry("drop".into()).or_insert(0) += 1;
            }
        }
    }
    // finally: drop everything, a fresh open must succeed
    let n = handles.len();
    handles.clear();
    for _ in 0..n { ops.push("d"); }
    ops.push("o");
    let res = Database::builder(&dir).worker_threads_unchecked(0).open();
    real_out.push(class(&res));
    drop(res);
    let model = lean.ask(&format!("lock 464a4c03 1 1 {}", ops.join(" ")));
    let model_classes: Vec<String> = model.split(' ').map(|s| s.trim_end_matches("+w").to_string()).collect();
    if !no_model() && model_classes != real_out {
        fails.push(Failure { kind: "model-vs-impl", detail: format!("ops {:?}: model open results {:?} vs real {:?}", ops, model_classes, real_out) });
    }
    // oracle: an open succeeds iff no handle of any kind is alive
    {
        let mut holders = 0i64;
        let mut k = 0;
        for op in &ops {
            match *op {
                "o" => {
                    let want = if holders == 0 { "ok" } else { "locked" };
                    if real_out[k] != want {
                        fails.push(Failure { kind: "impl-vs-oracle", detail: format!("ops {:?}: open attempt #{k} with {holders} live handles returned {}", ops, real_out[k]) });
                    }
                    if real_out[k] == "ok" { holders += 1; }
                    k += 1;
                }
                "c" => holders += 1,
                _ => holders -= 1,
            }
        }
    }
    if samples.len() < 4 && second_open_while_live {
        let mut s = J::obj();
        s.set("case_seed", J::s(seed.to_string()));
        s.set("ops", J::s(ops.join(" ")));
        s.set("open_results", J::s(real_out.join(" ")));
        samples.push(s);
    }
    let h = { let mut x = 0xcbf29ce484222325u64; for b in ops.join("").bytes() { x ^= b as u64; x = x.wrapping_mul(0x100000001b3); } x };
    (fails, second_open_while_live, h)
}

/// C17 "after the last handle is dropped, background threads have stopped": dropping the database
/// must terminate even if the last worker leaves while the (bounded) worker channel is full of the
/// `Close` messages the dropping thread keeps sending (finding F21)
fn drop_probe() -> Option<Failure> {
    use std::sync::atomic::{AtomicBool, Ordering};
    use std::sync::Arc;
    let scratch = Scratch::new("f21");
    let dir = scratch.join("db");
    let hold = Arc::new(AtomicBool::new(true));
    let h2 = hold.clone();
    fjall::verif::pause::set(Some(Arc::new(move |name: &'static str| {
        if name == "worker.closing" { while h2.load(Ordering::Acquire) { std::thread::sleep(std::time::Duration::from_millis(1)); } }
    })));
    let db = fjall::Database::builder(&dir).worker_threads(1).open().ok()?;
    let done = Arc::new(AtomicBool::new(false));
    let d2 = done.clone();
    let t = std::thread::spawn(move || { drop(db); d2.store(true, Ordering::Release); });
    std::thread::sleep(std::time::Duration::from_millis(600));
    hold.store(false, Ordering::Release);
    let t0 = std::time::Instant::now();
    while !done.load(Ordering::Acquire) && t0.elapsed() < std::time::Duration::from_secs(30) { std::thread::sleep(std::time::Duration::from_millis(5)); }
    fjall::verif::pause::set(None);
    if done.load(Ordering::Acquire) { let _ = t.join(); None } else {
        std::mem::forget(scratch);
        Some(Failure { kind: "impl-vs-oracle", detail: "drop(Database) did not return within 30 s after its last worker thread left (worker held for 600 ms after taking its Close message)".into() })
    }
}

/// C17 "after the last handle is dropped, background threads have stopped ... and opening succeeds", with
/// background work still *running* at drop time: a compaction whose filter (user code on a worker thread)
/// takes 2.5 s.  When the drop returns no `fjall:worker` thread may be left and the directory must open.
/// The lock must outlive the instance's last journal I/O: `Journal::drop` flushes and syncs the journal, and only
/// after that may a second open succeed.  The `log` facade is the pause point: fjall logs "Dropping journal" right
/// before that flush; at that instant (on the dropping thread) a second open of the directory must be refused.
mod droplog {
    use std::sync::atomic::{AtomicBool, Ordering};
    use std::sync::Mutex;
    pub static ARMED: AtomicBool = AtomicBool::new(false);
    pub static DIR: Mutex<Option<std::path::PathBuf>> = Mutex::new(None);
    /// result of the open attempted inside the window: Some(true) = it succeeded
    pub static OPENED: Mutex<Option<(bool, String)>> = Mutex::new(None);
    pub struct L;
    impl log::Log for L {
        fn enabled(&self, _: &log::Metadata) -> bool { ARMED.load(Ordering::Acquire) }
        fn log(&self, rec: &log::Record) {
            if !ARMED.load(Ordering::Acquire) { return; }
            if !format!("{}", rec.args()).starts_with("Dropping journal") { return; }
            ARMED.store(false, Ordering::Release); // one shot; also keeps the nested open from re-entering
            let dir = DIR.lock().unwrap().clone();
            if let Some(dir) = dir {
                let r = fjall::Database::builder(&dir).worker_threads_unchecked(0).open();
                let out = match &r { Ok(_) => (true, "Ok".to_string()), Err(e) => (false, format!("{e:?}")) };
                *OPENED.lock().unwrap() = Some(out);
                drop(r);
            }
        }
        fn flush(&self) {}
    }
    pub static LOGGER: L = L;
}

fn drop_window_probe() -> Option<Failure> {
    use std::sync::atomic::Ordering;
    let _ = log::set_logger(&droplog::LOGGER);
    let scratch = Scratch::new("dropwin");
    let dir = scratch.join("db");
    let db = Database::builder(&dir).worker_threads_unchecked(0).manual_journal_persist(true).open().ok()?;
    let ks = db.keyspace("a", KeyspaceCreateOptions::default).ok()?;
    ks.insert("k", "v").ok()?;
    *droplog::DIR.lock().unwrap() = Some(dir.clone());
    *droplog::OPENED.lock().unwrap() = None;
    log::set_max_level(log::LevelFilter::Trace);
    droplog::ARMED.store(true, Ordering::Release);
    drop(ks);
    drop(db);
    droplog::ARMED.store(false, Ordering::Release);
    log::set_max_level(log::LevelFilter::Off);
    let seen = droplog::OPENED.lock().unwrap().take();
    match seen {
        None => None, // the message was not logged (log statically disabled): nothing probed
        Some((false, _)) => {
            // refused, as it must be; and after the drop the buffered write is there
            let db = Database::builder(&dir).worker_threads_unchecked(0).open().ok()?;
            let ks = db.keyspace("a", KeyspaceCreateOptions::default).ok()?;
            if ks.get("k").ok()?.is_none() {
                return Some(Failure { kind: "impl-vs-oracle", detail: "a write buffered with manual_journal_persist is gone after dropping the last handle and reopening (Journal::drop must flush and sync)".into() });
            }
            None
        }
        Some((true, s)) => Some(Failure { kind: "impl-vs-oracle", detail: format!("a second open of the directory returned {s} while the first instance was still inside Journal::drop, before its journal was flushed and synced: the directory lock was released too early (two live instances; the second one recovers a journal without the first one's buffered, acknowledged writes)") }),
    }
}

fn busy_worker_drop_probe() -> Option<Failure> {
    use fjall::compaction::filter::{CompactionFilter, Context, Factory, ItemAccessor, Verdict};
    use std::sync::atomic::{AtomicBool, Ordering};
    use std::sync::Arc;
    static RUNNING: AtomicBool = AtomicBool::new(false);
    static FINISHED: AtomicBool = AtomicBool::new(false);
    struct Slow(bool);
    impl CompactionFilter for Slow {
        fn filter_item(&mut self, _item: ItemAccessor<'_>, _ctx: &Context) -> fjall::compaction::filter::CompactionFilterResult {
            if !self.0 { self.0 = true; RUNNING.store(true, Ordering::Release); std::thread::sleep(std::time::Duration::from_millis(2500)); FINISHED.store(true, Ordering::Release); }
            Ok(Verdict::Keep)
        }
    }
    struct SlowFactory;
    impl Factory for SlowFactory {
        fn name(&self) -> &str { "slow" }
        fn make_filter(&self, _ctx: &Context) -> Box<dyn CompactionFilter> { Box::new(Slow(false)) }
    }
    let scratch = Scratch::new("busydrop");
    let dir = scratch.join("db");
    let open = |d: &std::path::Path| fjall::Database::builder(d).worker_threads(1).with_compaction_filter_factories(Arc::new(|_| Some(Arc::new(SlowFactory) as Arc<dyn Factory>))).open();
    let db = open(&dir).ok()?;
    let ks = db.keyspace("a", fjall::KeyspaceCreateOptions::default).ok()?;
    for round in 0..6 { for i in 0..20 { ks.insert(format!("k{i:03}"), format!("v{round}")).ok()?; } ks.rotate_memtable_and_wait().ok()?; if RUNNING.load(Ordering::Acquire) { break; } }
    let t0 = std::time::Instant::now();
    while !RUNNING.load(Ordering::Acquire) && t0.elapsed() < std::time::Duration::from_secs(20) { std::thread::sleep(std::time::Duration::from_millis(5)); }
    if !RUNNING.load(Ordering::Acquire) { return None; } // no compaction got going: nothing to probe
    let t1 = std::time::Instant::now();
    drop(ks);
    drop(db);
    let took = t1.elapsed();
    let still_running = !FINISHED.load(Ordering::Acquire);
    let reopen = open(&dir);
    // a worker's OS thread may exist for an instant after it reported its exit (it is past all fjall code then):
    // give the kernel up to 2 s (a loaded machine) before counting
    let count_workers = || std::fs::read_dir("/proc/self/task").map(|d| d.filter_map(|e| e.ok()).filter(|e| std::fs::read_to_string(e.path().join("comm")).map(|c| c.trim().starts_with("fjall:worker")).unwrap_or(false)).count()).unwrap_or(0);
    let expect_after_reopen = if reopen.is_ok() { 1 } else { 0 };
    let t2 = std::time::Instant::now();
    while count_workers() > expect_after_reopen && t2.elapsed() < std::time::Duration::from_millis(2000) { std::thread::sleep(std::time::Duration::from_millis(10)); }
    let workers_left = count_workers().saturating_sub(expect_after_reopen);
    let reopen_ok = reopen.is_ok();
    let reopen_s = match &reopen { Ok(_) => "Ok".to_string(), Err(e) => format!("{e:?}") };
    drop(reopen);
    if still_running || workers_left > 0 || !reopen_ok {
        // let the sleeping worker finish before the scratch directory goes away
        while !FINISHED.load(Ordering::Acquire) { std::thread::sleep(std::time::Duration::from_millis(20)); }
        return Some(Failure { kind: "impl-vs-oracle", detail: format!("drop with a compaction still running: dropping the last handles returned after {took:?} while background work was still running = {still_running}, fjall:worker threads left = {workers_left}, immediate reopen = {reopen_s}") });
    }
    None
}

fn main() {
    let args: Vec<String> = std::env::args().collect();
    let mut replay = None;
    let mut i = 1;
    while i < args.len() {
        if args[i] == "--replay-seed" { replay = args[i + 1].parse().ok(); i += 1; }
        i += 1;
    }
    let thorough = tier_is_thorough();
    let seed = env_u64("VERIF_SEED", 1);
    let n = env_u64("VERIF_CASES", if thorough { 4000 } else { 160 });
    if std::env::var("VERIF_QUIET_PANICS").is_ok() { std::panic::set_hook(Box::new(|_| {})); }
    let t0 = std::time::Instant::now();
    let mut lean = Lean::spawn();
    let mut master = Rng::new(seed);
    let seeds: Vec<u64> = match replay { Some(s) => vec![s], None => (0..n).map(|_| master.fork()).collect() };
    let mut all = vec![];
    let mut nontrivial = std::collections::HashSet::new();
    let mut samples = vec![];
    let mut hist = std::collections::BTreeMap::new();
    let mut cases = 0;
    if replay.is_none() { if let Some(f) = drop_probe() { all.push((0, f)); } *hist.entry("drop-probe".to_string()).or_insert(0) += 1; }
    if replay.is_none() { if let Some(f) = drop_window_probe() { all.push((0, f)); } *hist.entry("drop-window-probe".to_string()).or_insert(0) += 1; }
    if replay.is_none() { if let Some(f) = busy_worker_drop_probe() { all.push((0, f)); } *hist.entry("busy-worker-drop-probe".to_string()).or_insert(0) += 1; }
    for cs in seeds {
        // even seeds: marker contents; odd seeds: lock orders (a replayed seed keeps its parity)
        let res = std::panic::catch_unwind(std::panic::AssertUnwindSafe(|| {
            if cs % 2 == 0 { marker_case(cs, &mut lean, &mut hist, &mut samples) } else { lock_case(cs, &mut lean, &mut hist, &mut samples) }
        }));
        cases += 1;
        match res {
            Ok((f, nt, h)) => { if nt { nontrivial.insert(h); } for x in f { all.push((cs, x)); } }
            Err(_) => all.push((cs, Failure { kind: "impl-vs-oracle", detail: "panic in open/clone/drop sequence".into() })),
        }
        if all.len() > 5 { break; }
    }
    let mut res = J::obj();
    res.set("engine", J::s("lockver"));
    res.set("seed", J::i(seed as i64));
    res.set("cases", J::i(cases));
    res.set("distinct_nontrivial", J::i(nontrivial.len() as i64));
    res.set("distribution", J::Obj(hist.iter().map(|(k, v)| (k.clone(), J::i(*v as i64))).collect()));
    res.set("model_requests", J::i(lean.requests as i64));
    res.set("samples", J::Arr(samples));
    res.set("wall_s", J::Num(t0.elapsed().as_secs_f64()));
    res.set("failures", J::Arr(all.iter().map(|(cs, f)| { let mut o = J::obj(); o.set("case_seed", J::s(cs.to_string())); o.set("kind", J::s(f.kind)); o.set("detail", J::s(f.detail.clone())); o }).collect()));
    println!("RESULT {}", res.render());
    std::process::exit(if all.is_empty() { 0 } else { 1 });
}
