//! runs a generated journal workload on the real crate; one line `R <i> <result>` per operation
//! on stdout. Launched by the `fault` engine under the LD_PRELOAD shim.
use fjall::{CompressionType, Database, Keyspace, KeyspaceCreateOptions, OptimisticTxDatabase, OptimisticTxKeyspace, PersistMode, SingleWriterTxDatabase, SingleWriterTxKeyspace};
use verif_harness::wl::{self, Mode, WOp};

fn pm(m: &Mode) -> PersistMode { match m { Mode::Buffer => PersistMode::Buffer, Mode::SyncData => PersistMode::SyncData, Mode::SyncAll => PersistMode::SyncAll } }

fn cls(r: fjall::Result<()>) -> String {
    match r {
        Ok(()) => "ok".into(),
        Err(fjall::Error::Poisoned) => "poisoned".into(),
        Err(fjall::Error::Io(_)) => "io".into(),
        Err(fjall::Error::Storage(_)) => "io".into(),
        Err(e) => format!("other:{e:?}"),
    }
}

/// C13, journal failure in the background: 66 MiB of journal, synced; the shim is armed (the next journal system
/// call fails once); a memtable rotation makes the worker's Flush tick seal the journal, whose fsync fails.
/// From then on no write may be acknowledged.  Exits without dropping the database.
fn bigrot(dir: &std::path::Path) -> ! {
    let db = Database::builder(dir).worker_threads(1).journal_compression(CompressionType::None).open().unwrap();
    let a = db.keyspace("a", || KeyspaceCreateOptions::default().max_memtable_size(1 << 30)).unwrap();
    let b = db.keyspace("b", KeyspaceCreateOptions::default).unwrap();
    let big = verif_harness::Rng::new(77).bytes(1 << 20);
    for i in 0..66u32 { a.insert(format!("big-{i:03}"), &big[..]).unwrap(); }
    b.insert("k", "v").unwrap();
    db.persist(PersistMode::SyncAll).unwrap();
    if let Ok(arm) = std::env::var("VERIF_SHIM_ARM_FILE") { std::fs::write(arm, b"x").unwrap(); }
    let rotated = a.rotate_memtable().unwrap_or(false);
    println!("ROTATED {rotated}");
    // the worker takes the Flush message: journal rotation (fails), or rotation + flush + maintenance
    let t0 = std::time::Instant::now();
    while t0.elapsed() < std::time::Duration::from_secs(20) && (fjall::verif::queued_worker_messages(&db) > 0 || a.sealed_memtable_count() > 0) && db.journal_count() < 2 { std::thread::sleep(std::time::Duration::from_millis(20)); }
    std::thread::sleep(std::time::Duration::from_millis(500));
    println!("JOURNALS {}", db.journal_count());
    println!("P insert {}", cls(b.insert("after", "x")));
    println!("P remove {}", cls(b.remove("k")));
    println!("P batch {}", cls({ let mut w = db.batch(); w.insert(&b, "b1", "x"); w.commit() }));
    println!("P persist {}", cls(db.persist(PersistMode::SyncAll)));
    use std::io::Write;
    let _ = std::io::stdout().flush();
    // dropping the last handles must return (the worker is gone, one way or the other)
    let done = std::sync::Arc::new(std::sync::atomic::AtomicBool::new(false));
    let d2 = done.clone();
    std::thread::spawn(move || { drop(a); drop(b); drop(db); d2.store(true, std::sync::atomic::Ordering::Release); });
    let t1 = std::time::Instant::now();
    while !done.load(std::sync::atomic::Ordering::Acquire) && t1.elapsed() < std::time::Duration::from_secs(10) { std::thread::sleep(std::time::Duration::from_millis(20)); }
    println!("D {}", if done.load(std::sync::atomic::Ordering::Acquire) { "returned" } else { "hung" });
    let _ = std::io::stdout().flush();
    std::process::exit(0)
}

fn main() {
    let a: Vec<String> = std::env::args().collect();
    let dir = std::path::PathBuf::from(&a[1]);
    if a.get(3).map(|x| x == "bigrot").unwrap_or(false) { bigrot(&dir); }
    let seed: u64 = a[2].parse().unwrap();
    let rotations = a.get(3).map(|x| x == "rot").unwrap_or(false);
    let w = wl::gen_with(seed, rotations);
    let comp = if w.lz4 { CompressionType::Lz4 } else { CompressionType::None };
    let opts = || KeyspaceCreateOptions::default().manual_journal_persist(w.manual);
    // the transactional flavours wrap a plain Database; plain operations go through inner()
    let mut sw: Option<(SingleWriterTxDatabase, Vec<SingleWriterTxKeyspace>)> = None;
    let mut opt: Option<(OptimisticTxDatabase, Vec<OptimisticTxKeyspace>)> = None;
    let (db, kss): (Database, Vec<Keyspace>) = match w.flavour {
        1 => {
            let t = SingleWriterTxDatabase::builder(&dir).worker_threads_unchecked(0).manual_journal_persist(w.manual).journal_compression(comp).open().unwrap();
            let tk: Vec<_> = (0..w.nks).map(|i| t.keyspace(&format!("ks{i}"), opts).unwrap()).collect();
            let r = (t.inner().clone(), tk.iter().map(|k| k.inner().clone()).collect());
            sw = Some((t, tk));
            r
        }
        2 => {
            let t = OptimisticTxDatabase::builder(&dir).worker_threads_unchecked(0).manual_journal_persist(w.manual).journal_compression(comp).open().unwrap();
            let tk: Vec<_> = (0..w.nks).map(|i| t.keyspace(&format!("ks{i}"), opts).unwrap()).collect();
            let r = (t.inner().clone(), tk.iter().map(|k| k.inner().clone()).collect());
            opt = Some((t, tk));
            r
        }
        _ => {
            let db = Database::builder(&dir).worker_threads_unchecked(0).manual_journal_persist(w.manual).journal_compression(comp).open().unwrap();
            let kss = (0..w.nks).map(|i| db.keyspace(&format!("ks{i}"), opts).unwrap()).collect();
            (db, kss)
        }
    };
    println!("IDS {}", kss.iter().map(|k| k.id().to_string()).collect::<Vec<_>>().join(","));
    println!("SEQ {}", db.seqno());
    // optional second writer (C13, multi-thread clause): it has passed everything that comes before
    // the journal lock in `insert` and is held at the `write.begin` pause point; it is released right
    // after the first operation of the main thread failed (or at the end) and must then be refused
    let two = std::env::var("VERIF_TWO_WRITERS").is_ok();
    let go = std::sync::Arc::new(std::sync::atomic::AtomicBool::new(false));
    let parked = std::sync::Arc::new(std::sync::atomic::AtomicBool::new(false));
    let second = if two {
        thread_local! { static SECOND: std::cell::Cell<bool> = std::cell::Cell::new(false); }
        let g2 = go.clone();
        let p2 = parked.clone();
        fjall::verif::pause::set(Some(std::sync::Arc::new(move |name: &'static str| {
            if (name == "write.begin" || name == "persist.begin") && SECOND.with(|s| s.get()) { p2.store(true, std::sync::atomic::Ordering::Release); while !g2.load(std::sync::atomic::Ordering::Acquire) { std::thread::sleep(std::time::Duration::from_millis(1)); } }
        })));
        let k = kss[0].clone();
        let as_persist = std::env::var("VERIF_TWO_WRITERS").map(|v| v == "persist").unwrap_or(false);
        let db2 = db.clone();
        Some(std::thread::spawn(move || { SECOND.with(|s| s.set(true)); if as_persist { cls(db2.persist(PersistMode::SyncAll)) } else { cls(k.insert("second-writer", "x")) } }))
    } else { None };
    if two { std::thread::sleep(std::time::Duration::from_millis(30)); }
    if let Ok(p) = std::env::var("VERIF_SHIM_ARM_FILE") { std::fs::write(p, b"1").unwrap(); }
    let mut second = second;
    for (i, op) in w.ops.iter().enumerate() {
        let seq = db.seqno();
        let r = match op {
            WOp::Insert(k, key, v) => cls(kss[*k].insert(key.clone(), v.clone())),
            WOp::Remove(k, key) => cls(kss[*k].remove(key.clone())),
            WOp::Clear(k) => cls(kss[*k].clear()),
            WOp::Batch(dur, items) => {
                let mut b = db.batch().durability(dur.as_ref().map(pm));
                // NOTE: Database::batch() installs Buffer durability unless manual persist is on;
                // an explicit choice (incl. None) overrides it
                for (k, key, v) in items { match v { Some(v) => b.insert(&kss[*k], key.clone(), v.clone()), None => b.remove(&kss[*k], key.clone()) } }
                cls(b.commit())
            }
            WOp::Persist(m) => cls(db.persist(pm(m))),
            WOp::RotateJournal => cls(fjall::verif::verif_rotate_journal(&db)),
            WOp::Tx(dur, k, items) => {
                if let Some((t, tk)) = &sw {
                    let mut tx = t.write_tx();
                    if let Some(m) = dur { tx = tx.durability(Some(pm(m))); }
                    for (key, v) in items { match v { Some(v) => tx.insert(&tk[*k], key.clone(), v.clone()), None => tx.remove(&tk[*k], key.clone()) } }
                    cls(tx.commit())
                } else if let Some((t, tk)) = &opt {
                    match t.write_tx() {
                        Ok(mut tx) => {
                            if let Some(m) = dur { tx = tx.durability(Some(pm(m))); }
                            for (key, v) in items { match v { Some(v) => tx.insert(&tk[*k], key.clone(), v.clone()), None => tx.remove(&tk[*k], key.clone()) } }
                            match tx.commit() { Ok(Ok(())) => "ok".into(), Ok(Err(_)) => "other:conflict".into(), Err(e) => cls(Err(e)) }
                        }
                        Err(e) => cls(Err(e)),
                    }
                } else { "other:no-tx-database".into() }
            }
        };
        println!("R {i} {r} {seq}");
        if r != "ok" { if let Some(h) = second.take() { go.store(true, std::sync::atomic::Ordering::Release); let held = parked.load(std::sync::atomic::Ordering::Acquire); println!("B {} {}", if held { i.to_string() } else { "notheld".into() }, h.join().unwrap_or_else(|_| "panic".into())); } }
    }
    if let Some(h) = second.take() { go.store(true, std::sync::atomic::Ordering::Release); println!("B end {}", h.join().unwrap_or_else(|_| "panic".into())); }
    drop(kss);
    drop(sw);
    drop(opt);
    drop(db);
    println!("R drop ok 0");
}
