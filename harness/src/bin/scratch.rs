use fjall::{Database, KeyspaceCreateOptions};
fn main() {
    let dir = std::path::PathBuf::from("/dev/shm/verif-scratch-f4");
    let _ = std::fs::remove_dir_all(&dir);
    let db = Database::builder(&dir).open().unwrap();
    let ks = db.keyspace("a", KeyspaceCreateOptions::default).unwrap();
    ks.insert("a1", "x").unwrap();
    ks.insert("a2", "x").unwrap();
    let it_iter = ks.iter();
    let it_range = ks.range("a".."b");
    let it_prefix = ks.prefix("a");
    ks.insert("a3", "x").unwrap();
    println!("F4: created with 2 keys, then a3 inserted: iter sees {}, range sees {}, prefix sees {}", it_iter.count(), it_range.count(), it_prefix.count());
    let _ = std::fs::remove_dir_all(&dir);
}
