//! `journal` engine: ties the Lean journal model (codec, writer layout, reader incl. truncation)
//! to the real crate.  Serves C03 (torn tails) and C15 (bit-exact round trip; alteration sweep).
//!
//! per case: random program on the real crate -> bytes of journals/0.jnl
//!   (1) model `wenc` of every batch, concatenated, must equal the file bit for bit
//!   (2) model `read` == real JournalBatchReader (hook) == expected batches
//!   (3) C03: cut offsets x paddings: real reader (hook; + real reopen, sampled) vs model vs oracle
//!   (4) C15: single-byte alterations: real reader / reopen vs model; oracle "error or prefix"

use fjall::{CompressionType, KeyspaceCreateOptions, SingleWriterTxDatabase};
use std::collections::BTreeMap;
use std::path::Path;
use verif_harness::json::J;
use verif_harness::*;

#[derive(Clone, Debug, PartialEq, Eq)]
enum PEntry {
    Item { ks: u64, kind: u8, key: Vec<u8>, val: Vec<u8> },
    Clear { ks: u64 },
}

#[derive(Clone, Debug, PartialEq, Eq)]
struct EBatch {
    seqno: u64,
    entries: Vec<PEntry>,
}

#[derive(Clone, Debug)]
enum W {
    Put(Vec<u8>, Vec<u8>),
    Del(Vec<u8>),
    DelWeak(Vec<u8>),
}

#[derive(Clone, Debug)]
enum Op {
    Single(usize, W),
    Clear(usize),
    Batch(Vec<(usize, W)>),
    Tx(Vec<(usize, W)>),
}

#[derive(Clone, Debug)]
struct Case {
    seed: u64,
    lz4: bool,
    nks: usize,
    ops: Vec<Op>,
}

fn gen_key(r: &mut Rng) -> Vec<u8> {
    match r.below(40) {
        0 => vec![r.below(256) as u8],
        1 => r.bytes(255),
        2 => r.bytes(65535),
        3 => vec![0u8; r.range(1, 4)],
        _ => format!("k{}", r.below(8)).into_bytes(),
    }
}

fn gen_val(r: &mut Rng, big: usize) -> Vec<u8> {
    match r.below(16) {
        0 => vec![],
        1 => vec![0u8; r.range(1, 40)],
        2 => r.bytes(4095),
        3 => r.bytes(4096),
        4 => vec![b'a'; 4096],
        5 => vec![b'z'; 4097],
        6 => {
            let mut v = Vec::new();
            while v.len() < 5000 {
                v.extend_from_slice(b"compressible-");
            }
            v
        }
        7 => r.bytes(5000),
        8 => {
            let n = r.range(4096, big);
            if r.chance(1, 2) { r.bytes(n) } else { vec![r.below(256) as u8; n] }
        }
        9 => vec![3, b'F', b'J', b'L', 3, 1, 2, 3, 4, 0, 0],
        _ => {
            let n = r.range(1, 24);
            r.bytes(n)
        }
    }
}

fn gen_w(r: &mut Rng, big: usize) -> W {
    match r.below(10) {
        0 | 1 => W::Del(gen_key(r)),
        2 => W::DelWeak(gen_key(r)),
        _ => W::Put(gen_key(r), gen_val(r, big)),
    }
}

fn gen_case(seed: u64, thorough: bool) -> Case {
    let mut r = Rng::new(seed);
    let big = if thorough && r.chance(1, 10) { 1 << 20 } else { 20_000 };
    let nks = r.range(1, 3);
    let nops = r.range(2, if thorough { 14 } else { 8 });
    let mut ops = Vec::new();
    for _ in 0..nops {
        let op = match r.below(12) {
            0 => Op::Clear(r.range(0, nks - 1)),
            1 | 2 | 3 => {
                let n = r.range(1, 6);
                Op::Batch((0..n).map(|_| (r.range(0, nks - 1), gen_w(&mut r, big))).collect())
            }
            4 | 5 => {
                let n = r.range(1, 6);
                Op::Tx((0..n).map(|_| (r.range(0, nks - 1), gen_w(&mut r, big))).collect())
            }
            _ => Op::Single(r.range(0, nks - 1), gen_w(&mut r, big)),
        };
        ops.push(op);
    }
    Case { seed, lz4: r.chance(1, 2), nks, ops }
}

fn w_entry(ks: u64, w: &W) -> PEntry {
    match w {
        W::Put(k, v) => PEntry::Item { ks, kind: 0, key: k.clone(), val: v.clone() },
        W::Del(k) => PEntry::Item { ks, kind: 1, key: k.clone(), val: vec![] },
        W::DelWeak(k) => PEntry::Item { ks, kind: 2, key: k.clone(), val: vec![] },
    }
}

type State = BTreeMap<u64, BTreeMap<Vec<u8>, Vec<u8>>>;

fn apply(state: &mut State, b: &EBatch) {
    for e in &b.entries {
        match e {
            PEntry::Item { ks, kind, key, val } => {
                let m = state.entry(*ks).or_default();
                if *kind == 0 {
                    m.insert(key.clone(), val.clone());
                } else {
                    m.remove(key);
                }
            }
            PEntry::Clear { ks } => {
                state.entry(*ks).or_default().clear();
            }
        }
    }
}

struct ImplRun {
    batches: Vec<EBatch>,
    /// tx batches whose entry order was taken from the journal (index into batches)
    tx_batches: Vec<usize>,
    ks_ids: Vec<u64>,
    content: Vec<u8>,
    /// length of the journal (without its zero padding) after every batch: the batch boundaries as the
    /// implementation laid them out (used when the run goes without the model)
    ends_real: Vec<usize>,
    problems: Vec<String>,
}

fn open_db(dir: &Path, lz4: bool) -> fjall::Result<SingleWriterTxDatabase> {
    SingleWriterTxDatabase::builder(dir)
        .worker_threads_unchecked(0)
        .journal_compression(if lz4 { CompressionType::Lz4 } else { CompressionType::None })
        .open()
}

fn run_impl(case: &Case, dir: &Path) -> ImplRun {
    let mut problems = Vec::new();
    let mut batches: Vec<EBatch> = Vec::new();
    let mut tx_sets: Vec<(usize, Vec<PEntry>)> = Vec::new();
    let mut ends_real: Vec<usize> = Vec::new();
    let ks_ids;
    {
        let db = open_db(dir, case.lz4).expect("open");
        let kss: Vec<_> = (0..case.nks)
            .map(|i| db.keyspace(&format!("ks{i}"), KeyspaceCreateOptions::default).expect("keyspace"))
            .collect();
        ks_ids = kss.iter().map(|k| k.inner().id()).collect::<Vec<_>>();
        for op in &case.ops {
            let seqno = db.inner().seqno();
            match op {
                Op::Single(k, w) => {
                    let ks = kss[*k].inner();
                    let r = match w {
                        W::Put(key, v) => ks.insert(key.clone(), v.clone()),
                        W::Del(key) => ks.remove(key.clone()),
                        W::DelWeak(key) => ks.remove_weak(key.clone()),
                    };
                    if let Err(e) = r {
                        problems.push(format!("single op failed: {e:?}"));
                        continue;
                    }
                    batches.push(EBatch { seqno, entries: vec![w_entry(ks_ids[*k], w)] });
                    ends_real.push(journal_content(&dir.join("0.jnl")).len());
                }
                Op::Clear(k) => {
                    if let Err(e) = kss[*k].inner().clear() {
                        problems.push(format!("clear failed: {e:?}"));
                        continue;
                    }
                    batches.push(EBatch { seqno, entries: vec![PEntry::Clear { ks: ks_ids[*k] }] });
                    ends_real.push(journal_content(&dir.join("0.jnl")).len());
                }
                Op::Batch(ws) => {
                    let mut b = db.inner().batch();
                    for (k, w) in ws {
                        let ks = kss[*k].inner();
                        match w {
                            W::Put(key, v) => b.insert(ks, key.clone(), v.clone()),
                            W::Del(key) => b.remove(ks, key.clone()),
                            W::DelWeak(key) => b.remove_weak(ks, key.clone()),
                        }
                    }
                    if let Err(e) = b.commit() {
                        problems.push(format!("batch failed: {e:?}"));
                        continue;
                    }
                    batches.push(EBatch {
                        seqno,
                        entries: ws.iter().map(|(k, w)| w_entry(ks_ids[*k], w)).collect(),
                    });
                    ends_real.push(journal_content(&dir.join("0.jnl")).len());
                }
                Op::Tx(ws) => {
                    let mut tx = db.write_tx();
                    for (k, w) in ws {
                        match w {
                            W::Put(key, v) => tx.insert(&kss[*k], key.clone(), v.clone()),
                            W::Del(key) => tx.remove(&kss[*k], key.clone()),
                            W::DelWeak(key) => tx.remove_weak(&kss[*k], key.clone()),
                        }
                    }
                    if let Err(e) = tx.commit() {
                        problems.push(format!("tx failed: {e:?}"));
                        continue;
                    }
                    // expected: the final write per (keyspace, key), as one batch
                    let mut last: BTreeMap<(u64, Vec<u8>), PEntry> = BTreeMap::new();
                    for (k, w) in ws {
                        let e = w_entry(ks_ids[*k], w);
                        if let PEntry::Item { ks, key, .. } = &e {
                            last.insert((*ks, key.clone()), e.clone());
                        }
                    }
                    tx_sets.push((batches.len(), last.into_values().collect()));
                    batches.push(EBatch { seqno, entries: vec![] });
                    ends_real.push(journal_content(&dir.join("0.jnl")).len());
                }
            }
        }
    }
    let content = journal_content(&dir.join("0.jnl"));
    // entry order inside a transaction batch is an implementation detail (hash map order of the
    // keyspaces): take the order from the file, but insist on the expected multiset
    let tx_batches: Vec<usize> = tx_sets.iter().map(|x| x.0).collect();
    if !tx_sets.is_empty() {
        let tmp = dir.join("probe.jnl");
        std::fs::write(&tmp, &content).unwrap();
        let (real, err) = fjall::verif::read_journal(&tmp);
        let _ = std::fs::remove_file(&tmp);
        if err.is_some() || real.len() != batches.len() {
            problems.push(format!(
                "journal of a clean run does not read back: {} batches vs {} expected, err={:?}",
                real.len(),
                batches.len(),
                err
            ));
        } else {
            for (idx, want) in &tx_sets {
                let got: Vec<PEntry> = real[*idx]
                    .items
                    .iter()
                    .map(|i| PEntry::Item { ks: i.keyspace_id, kind: i.value_type, key: i.key.clone(), val: i.value.clone() })
                    .collect();
                let mut a = got.clone();
                let mut b = want.clone();
                let keyf = |e: &PEntry| format!("{e:?}");
                a.sort_by_key(keyf);
                b.sort_by_key(keyf);
                if a != b {
                    problems.push(format!("transaction batch {idx} is not the final write per key: got {} entries, want {}", a.len(), b.len()));
                }
                batches[*idx].entries = got;
            }
        }
    }
    ImplRun { batches, tx_batches, ks_ids, content, ends_real, problems }
}

fn batch_spec(b: &EBatch) -> String {
    let mut s = format!("{}", b.seqno);
    for e in &b.entries {
        match e {
            PEntry::Item { ks, kind, key, val } => {
                let k = ["V", "T", "W", "?", "X"][*kind as usize];
                s.push_str(&format!(";I,{ks},{k},N,{},{}", hex(key), hex(val)));
            }
            PEntry::Clear { ks } => s.push_str(&format!(";C,{ks}")),
        }
    }
    s
}

/// canonical text of a read result, same shape as the driver prints
fn show_real(bs: &[fjall::verif::VerifJournalBatch], final_len: u64, err: &Option<fjall::Error>) -> String {
    let mut parts = Vec::new();
    for b in bs {
        let items: Vec<String> = b
            .items
            .iter()
            .map(|i| format!("{}/{}/{}/{}", i.keyspace_id, ["V", "T", "W", "?", "X"][i.value_type as usize], hex(&i.key), hex(&i.value)))
            .collect();
        let clears: Vec<String> = b.cleared_keyspaces.iter().map(|c| c.to_string()).collect();
        parts.push(format!("{}:{}:{}", b.seqno, items.join(","), clears.join(",")));
    }
    let e = match err {
        None => "none".to_string(),
        Some(fjall::Error::JournalRecovery(fjall::JournalRecoveryError::InsufficientLength)) => "insufficient-length".into(),
        Some(fjall::Error::JournalRecovery(fjall::JournalRecoveryError::TooManyItems)) => "too-many-items".into(),
        Some(fjall::Error::JournalRecovery(fjall::JournalRecoveryError::ChecksumMismatch)) => "checksum-mismatch".into(),
        Some(other) => format!("other:{other:?}"),
    };
    format!("batches=[{}] final={} err={}", parts.join(" "), final_len, e)
}

fn show_expected(bs: &[EBatch], final_len: usize) -> String {
    let mut parts = Vec::new();
    for b in bs {
        let mut items = Vec::new();
        let mut clears = Vec::new();
        for e in &b.entries {
            match e {
                PEntry::Item { ks, kind, key, val } => {
                    items.push(format!("{}/{}/{}/{}", ks, ["V", "T", "W", "?", "X"][*kind as usize], hex(key), hex(val)))
                }
                PEntry::Clear { ks } => clears.push(ks.to_string()),
            }
        }
        parts.push(format!("{}:{}:{}", b.seqno, items.join(","), clears.join(",")));
    }
    format!("batches=[{}] final={} err=none", parts.join(" "), final_len)
}

fn real_read(dir: &Path, bytes: &[u8], pad: u64) -> String {
    let p = dir.join("cut.jnl");
    std::fs::write(&p, bytes).unwrap();
    if pad > 0 {
        let f = std::fs::OpenOptions::new().write(true).open(&p).unwrap();
        f.set_len(bytes.len() as u64 + pad).unwrap();
    }
    let res = std::panic::catch_unwind(|| fjall::verif::read_journal(&p));
    let out = match res {
        Ok((bs, err)) => {
            let len = std::fs::metadata(&p).map(|m| m.len()).unwrap_or(u64::MAX);
            show_real(&bs, len, &err)
        }
        Err(_) => "panic".to_string(),
    };
    let _ = std::fs::remove_file(&p);
    out
}

fn dump_db(dir: &Path, lz4: bool, nks: usize) -> Result<BTreeMap<String, BTreeMap<Vec<u8>, Vec<u8>>>, String> {
    let r = std::panic::catch_unwind(|| -> Result<_, String> {
        let db = open_db(dir, lz4).map_err(|e| format!("open-error:{e:?}"))?;
        let mut out = BTreeMap::new();
        for i in 0..nks {
            let name = format!("ks{i}");
            if !db.keyspace_exists(&name) {
                continue;
            }
            let ks = db.keyspace(&name, KeyspaceCreateOptions::default).map_err(|e| format!("{e:?}"))?;
            let mut m = BTreeMap::new();
            for g in ks.inner().iter() {
                let (k, v) = g.into_inner().map_err(|e| format!("{e:?}"))?;
                m.insert(k.to_vec(), v.to_vec());
            }
            // point reads must agree with the scan
            for (k, v) in &m {
                let got = ks.inner().get(k).map_err(|e| format!("{e:?}"))?;
                if got.as_deref() != Some(v.as_slice()) {
                    return Err(format!("point read of {} disagrees with scan", hex(k)));
                }
            }
            out.insert(name, m);
        }
        Ok(out)
    });
    match r {
        Ok(x) => x,
        Err(_) => Err("panic".into()),
    }
}

struct Stats {
    cases: u64,
    nontrivial: std::collections::HashSet<u64>,
    writer_bytes: u64,
    batches: u64,
    multi_item_batches: u64,
    lz4_items: u64,
    clears: u64,
    tombs: u64,
    cuts: u64,
    cuts_inside_record: u64,
    reopens: u64,
    alterations: u64,
    alter_outcome: BTreeMap<String, u64>,
    model_requests: u64,
    xxh3_checked: u64,
    samples: Vec<J>,
}

struct Failure {
    kind: &'static str, // "impl-vs-oracle" | "model-vs-impl" | "harness"
    detail: String,
}

/// stored witness of known finding F9 (C15): the batch seqno of a Start marker is outside the checksum
fn witness_f9() -> Option<String> {
    use fjall::{Database, KeyspaceCreateOptions};
    let scratch = Scratch::new("f9");
    let dir = scratch.join("db");
    let l1;
    {
        let db = Database::builder(&dir).worker_threads_unchecked(0).open().ok()?;
        let a = db.keyspace("a", KeyspaceCreateOptions::default).ok()?;
        a.insert("k", "v1").ok()?;
        l1 = journal_content(&dir.join("0.jnl")).len();
        a.insert("k", "v2").ok()?;
        a.insert("j", "x").ok()?;
    }
    // zero the 8 seqno bytes of the second batch's Start marker (tag, item count u32, seqno u64)
    let p = dir.join("0.jnl");
    let mut data = std::fs::read(&p).ok()?;
    for b in &mut data[l1 + 5..l1 + 13] { *b = 0; }
    std::fs::write(&p, &data).ok()?;
    let r = std::panic::catch_unwind(|| -> Option<(Option<Vec<u8>>, Option<Vec<u8>>)> {
        let db = Database::builder(&dir).worker_threads_unchecked(0).open().ok()?;
        let a = db.keyspace("a", KeyspaceCreateOptions::default).ok()?;
        Some((a.get("k").ok()?.map(|x| x.to_vec()), a.get("j").ok()?.map(|x| x.to_vec())))
    });
    match r {
        Ok(Some((k, j))) => {
            // prefix states: {}, {k=v1}, {k=v2}, {k=v2, j=x}
            let prefix = matches!((k.as_deref(), j.as_deref()), (None, None) | (Some(b"v1"), None) | (Some(b"v2"), None) | (Some(b"v2"), Some(b"x")));
            if prefix { None } else { Some(format!("the seqno bytes of the second batch's Start marker were zeroed; reopening succeeds with k={:?} j={:?}, which is not the state of any prefix of [k=v1, k=v2, j=x]", k.map(|x| String::from_utf8_lossy(&x).to_string()), j.map(|x| String::from_utf8_lossy(&x).to_string()))) }
        }
        _ => None, // open failed: allowed
    }
}

fn fnv(s: &str) -> u64 {
    let mut h = 0xcbf29ce484222325u64;
    for b in s.bytes() {
        h ^= b as u64;
        h = h.wrapping_mul(0x100000001b3);
    }
    h
}

fn register_lz4(lean: &mut Lean, run: &ImplRun, lz4: bool, fails: &mut Vec<Failure>, st: &mut Stats) {
    if !lz4 {
        return;
    }
    let mut seen = std::collections::HashSet::new();
    for b in &run.batches {
        for e in &b.entries {
            if let PEntry::Item { val, .. } = e {
                if val.len() >= 4096 && seen.insert(val.clone()) {
                    st.lz4_items += 1;
                    let c = lz4_flex::compress(val);
                    let r = lean.ask(&format!("lz4 {} {}", hex(val), hex(&c)));
                    if r != "ok" {
                        fails.push(Failure { kind: "model-vs-impl", detail: format!("Lean LZ4 decoder rejects lz4_flex output for a {}-byte value: {r}", val.len()) });
                    }
                }
            }
        }
    }
}

fn check_xxh3(lean: &mut Lean, r: &mut Rng, n: usize, fails: &mut Vec<Failure>, st: &mut Stats) {
    for i in 0..n {
        let len = if i < 300 { i } else { r.range(0, 3000) };
        let data = r.bytes(len);
        let want = xxhash_rust::xxh3::xxh3_64(&data).to_string();
        let got = lean.ask(&format!("xxh3 {}", hex(&data)));
        st.xxh3_checked += 1;
        if want != got {
            fails.push(Failure { kind: "harness", detail: format!("Lean XXH3 port differs from xxhash-rust at length {len}: {got} vs {want}") });
            return;
        }
    }
}

fn run_case(case: &Case, mode: &str, thorough: bool, lean: &mut Lean, st: &mut Stats) -> Vec<Failure> {
    let mut fails = Vec::new();
    let scratch = Scratch::new("jnl");
    let dbdir = scratch.join("db");
    let run = run_impl(case, &dbdir);
    for p in &run.problems {
        fails.push(Failure { kind: "impl-vs-oracle", detail: p.clone() });
    }
    if !fails.is_empty() {
        return fails;
    }
    st.cases += 1;
    st.batches += run.batches.len() as u64;
    for b in &run.batches {
        if b.entries.len() > 1 {
            st.multi_item_batches += 1;
        }
        for e in &b.entries {
            match e {
                PEntry::Clear { .. } => st.clears += 1,
                PEntry::Item { kind, .. } if *kind != 0 => st.tombs += 1,
                _ => {}
            }
        }
    }
    let nm = no_model();
    if !nm { register_lz4(lean, &run, case.lz4, &mut fails, st); }

    // (1) writer layout, bit for bit (without the model: the batch boundaries as the implementation laid them out)
    let mut model_bytes: Vec<u8> = Vec::new();
    let mut ends: Vec<usize> = Vec::new();
    let cp = if case.lz4 { "L" } else { "N" };
    if nm { ends = run.ends_real.clone(); model_bytes = run.content.clone(); }
    for b in run.batches.iter().filter(|_| !nm) {
        let r = lean.ask(&format!("wenc 4096 {cp} {}", batch_spec(b)));
        match unhex(&r) {
            Some(x) => model_bytes.extend_from_slice(&x),
            None => {
                fails.push(Failure { kind: "model-vs-impl", detail: format!("driver could not encode batch: {r}") });
                return fails;
            }
        }
        ends.push(model_bytes.len());
    }
    st.writer_bytes += run.content.len() as u64;
    if model_bytes != run.content {
        let at = model_bytes.iter().zip(run.content.iter()).position(|(a, b)| a != b).unwrap_or(model_bytes.len().min(run.content.len()));
        fails.push(Failure {
            kind: "model-vs-impl",
            detail: format!(
                "journal bytes differ from the model writer at offset {at} (model {} bytes, file {} bytes); model[..]={} file[..]={}",
                model_bytes.len(),
                run.content.len(),
                hex(&model_bytes[at.saturating_sub(4)..(at + 12).min(model_bytes.len())]),
                hex(&run.content[at.saturating_sub(4)..(at + 12).min(run.content.len())])
            ),
        });
        return fails;
    }
    let content = &run.content;

    // (2) read back: model reader == real reader == what was written
    let want = show_expected(&run.batches, content.len());
    let real = real_read(&scratch.path, content, 0);
    let ld = if nm { "ok".to_string() } else { lean.ask(&format!("load {}", hex(content))) };
    if ld != "ok" {
        fails.push(Failure { kind: "harness", detail: format!("driver load failed: {ld}") });
        return fails;
    }
    let model = lean.ask(&format!("readcut {} 0", content.len()));
    if real != want {
        fails.push(Failure { kind: "impl-vs-oracle", detail: format!("clean journal does not read back as written:\n real={}\n want={}", clip(&real), clip(&want)) });
    }
    if !nm && model != real {
        fails.push(Failure { kind: "model-vs-impl", detail: format!("model reader differs from the real reader on the clean journal:\n model={}\n real={}", clip(&model), clip(&real)) });
    }
    if !fails.is_empty() {
        return fails;
    }

    let mut r = Rng::new(case.seed ^ 0x5bd1e995);
    let nb = run.batches.len();
    let nontrivial = nb >= 2 && run.batches.iter().any(|b| b.entries.len() > 1);

    if mode == "c03" {
        // (3) cuts
        let mut offsets: Vec<usize> = Vec::new();
        let last_start = if nb >= 2 { ends[nb - 2] } else { 0 };
        let last_len = content.len() - last_start;
        // the model reader costs time proportional to the file length: spend a byte budget
        let budget: usize = if thorough { 40_000_000 } else { 3_000_000 };
        let max_cuts = (budget / content.len().max(1) / 2).max(24);
        if last_len <= max_cuts {
            offsets.extend(last_start..content.len());
        } else {
            // boundaries of the last batch, its header fields, then random interior offsets
            offsets.extend(last_start..(last_start + 40).min(content.len()));
            offsets.extend(content.len().saturating_sub(16).max(last_start)..content.len());
            while offsets.len() < max_cuts {
                offsets.push(r.range(last_start, content.len() - 1));
            }
        }
        // a few cuts in earlier batches as well
        for _ in 0..(max_cuts / 8).min(20) {
            offsets.push(r.range(0, content.len() - 1));
        }
        offsets.sort();
        offsets.dedup();
        let pads: [u64; 3] = [0, 1 + r.below(40), 64 * 1024 * 1024];
        for &n in &offsets {
            // oracle: complete batches strictly before the cut survive, nothing else
            let k = ends.iter().filter(|&&e| e <= n).count();
            let final_len = if k == 0 { 0 } else { ends[k - 1] };
            let want = show_expected(&run.batches[..k], final_len);
            let inside = n != final_len;
            for &pad in &pads {
                // the 64 MiB padded variant only where the cut is inside a record (sparse file)
                if pad > 1000 && !(inside && r.chance(1, 8)) {
                    continue;
                }
                st.cuts += 1;
                if inside {
                    st.cuts_inside_record += 1;
                }
                let real = real_read(&scratch.path, &content[..n], pad);
                // with zero padding behind a *complete* batch the reader cuts the padding off
                if real != want {
                    fails.push(Failure {
                        kind: "impl-vs-oracle",
                        detail: format!("cut at {n} (+{pad} zero bytes): real reader does not return exactly the complete batches before the cut:\n real={}\n want={}", clip(&real), clip(&want)),
                    });
                }
                let mpad = pad.min(100);
                let model = lean.ask(&format!("readcut {n} {mpad}"));
                if !nm && model != real {
                    fails.push(Failure {
                        kind: "model-vs-impl",
                        detail: format!("cut at {n} (+{pad}/{mpad} zero bytes): model reader differs from real reader:\n model={}\n real={}", clip(&model), clip(&real)),
                    });
                }
                if fails.len() > 3 {
                    return fails;
                }
            }
        }
        // real reopen on a few cuts, then append and reopen again (repair-then-append)
        let nre = if thorough { 12 } else { 4 };
        for _ in 0..nre {
            let n = if last_len > 1 { r.range(last_start + 1, content.len() - 1) } else { continue };
            let k = ends.iter().filter(|&&e| e <= n).count();
            let cdir = scratch.join("copy");
            copy_dir_sparse(&dbdir, &cdir);
            let jp = cdir.join("0.jnl");
            let pad = *r.pick(&[0u64, 17, 64 * 1024 * 1024]);
            std::fs::write(&jp, &content[..n]).unwrap();
            if pad > 0 {
                let f = std::fs::OpenOptions::new().write(true).open(&jp).unwrap();
                f.set_len(n as u64 + pad).unwrap();
            }
            st.reopens += 1;
            let mut state = State::new();
            for b in &run.batches[..k] {
                apply(&mut state, b);
            }
            let want_dump = |state: &State| -> BTreeMap<String, BTreeMap<Vec<u8>, Vec<u8>>> {
                (0..case.nks).map(|i| (format!("ks{i}"), state.get(&run.ks_ids[i]).cloned().unwrap_or_default())).collect()
            };
            match dump_db(&cdir, case.lz4, case.nks) {
                Ok(d) if d == want_dump(&state) => {}
                Ok(_) => fails.push(Failure { kind: "impl-vs-oracle", detail: format!("reopen after cut at {n} (+{pad}): content is not the state of the {k} complete batches") }),
                Err(e) => fails.push(Failure { kind: "impl-vs-oracle", detail: format!("reopen after cut at {n} (+{pad}) failed: {e}") }),
            }
            // append one more write, reopen again
            {
                if let Ok(db) = open_db(&cdir, case.lz4) {
                    let ks = db.keyspace("ks0", KeyspaceCreateOptions::default).unwrap();
                    let sq = db.inner().seqno();
                    let _ = ks.inner().insert("after-repair", "x");
                    apply(&mut state, &EBatch { seqno: sq, entries: vec![PEntry::Item { ks: run.ks_ids[0], kind: 0, key: b"after-repair".to_vec(), val: b"x".to_vec() }] });
                }
            }
            match dump_db(&cdir, case.lz4, case.nks) {
                Ok(d) if d == want_dump(&state) => {}
                Ok(_) => fails.push(Failure { kind: "impl-vs-oracle", detail: format!("append after repair (cut {n}, +{pad}) then reopen: content differs from complete batches + the new write") }),
                Err(e) => fails.push(Failure { kind: "impl-vs-oracle", detail: format!("append after repair (cut {n}) then reopen failed: {e}") }),
            }
            let _ = std::fs::remove_dir_all(&cdir);
        }
    }

    if mode == "c15" {
        // (a) a journal written under one compression setting is readable under the other
        {
            let cdir = scratch.join("other");
            copy_dir_sparse(&dbdir, &cdir);
            st.reopens += 1;
            let mut state = State::new();
            for b in &run.batches {
                apply(&mut state, b);
            }
            let want: BTreeMap<String, BTreeMap<Vec<u8>, Vec<u8>>> =
                (0..case.nks).map(|i| (format!("ks{i}"), state.get(&run.ks_ids[i]).cloned().unwrap_or_default())).collect();
            match dump_db(&cdir, !case.lz4, case.nks) {
                Ok(d) if d == want => {}
                Ok(_) => fails.push(Failure { kind: "impl-vs-oracle", detail: "reopen under the other journal compression setting: content differs from what was written".into() }),
                Err(e) => fails.push(Failure { kind: "impl-vs-oracle", detail: format!("reopen under the other journal compression setting failed: {e}") }),
            }
            let _ = std::fs::remove_dir_all(&cdir);
        }
        // (b) single-byte alterations
        let budget: usize = if thorough { 30_000_000 } else { 2_500_000 };
        let max_alts = (budget / content.len().max(1)).max(40);
        // positions of the 8 seqno bytes of every Start marker: region of known finding F9,
        // probed only by its stored witness
        let mut f9_region = std::collections::HashSet::new();
        let mut starts = vec![0usize];
        starts.extend(ends.iter().copied());
        for &s0 in &starts[..nb] {
            for k in 5..13 {
                f9_region.insert(s0 + k);
            }
        }
        let mut alts: Vec<(usize, u8)> = Vec::new();
        let all_vals = content.len() * 4 <= max_alts;
        let mut positions: Vec<usize> = if content.len() * 4 <= max_alts {
            (0..content.len()).collect()
        } else {
            let mut v: Vec<usize> = Vec::new();
            // structural bytes first: batch headers, item headers of the first item, trailers
            for &s0 in &starts[..nb] {
                v.extend(s0..(s0 + 13 + 23).min(content.len()));
            }
            for &e in &ends {
                v.extend(e.saturating_sub(13)..e);
            }
            v.sort();
            v.dedup();
            v.truncate(max_alts / 8);
            while v.len() < max_alts / 4 {
                v.push(r.range(0, content.len() - 1));
            }
            v
        };
        positions.retain(|p| !f9_region.contains(p));
        for &p in &positions {
            let b = content[p];
            let mut vals = vec![b.wrapping_add(1), b ^ 0x80, 0u8, 0xff];
            if thorough && all_vals && content.len() <= 512 {
                vals = (0..=255u8).collect();
            }
            vals.sort();
            vals.dedup();
            for v in vals {
                if v != b {
                    alts.push((p, v));
                }
            }
        }
        let orig: Vec<String> = run.batches.iter().map(|b| show_expected(std::slice::from_ref(b), 0)).collect();
        let strip = |s: &str| -> String {
            // "batches=[x] final=0 err=none" -> payload without the seqno prefix
            let inner = s.split("batches=[").nth(1).unwrap_or("").split("] final=").next().unwrap_or("");
            inner.splitn(2, ':').nth(1).unwrap_or("").to_string()
        };
        let orig_payloads: Vec<String> = orig.iter().map(|s| strip(s)).collect();
        let mut reopen_budget = if thorough { 60 } else { 12 };
        for (p, v) in alts {
            st.alterations += 1;
            let mut altered = content.clone();
            altered[p] = v;
            let real = real_read(&scratch.path, &altered, 0);
            let model = lean.ask(&format!("readalt {p} {v}"));
            if !nm && model != real {
                fails.push(Failure { kind: "model-vs-impl", detail: format!("byte {p} := {v:#04x}: model reader differs from real reader:\n model={}\n real={}", clip(&model), clip(&real)) });
            }
            // oracle: error, or the batches of a prefix with unaltered items
            let outcome;
            if real == "panic" {
                outcome = "panic";
                fails.push(Failure { kind: "impl-vs-oracle", detail: format!("byte {p} := {v:#04x}: the real reader panics") });
            } else if !real.ends_with("err=none") {
                outcome = "error";
            } else {
                let inner = real.split("batches=[").nth(1).unwrap_or("").split("] final=").next().unwrap_or("");
                let got: Vec<String> = if inner.is_empty() { vec![] } else { inner.split(' ').map(|b| b.splitn(2, ':').nth(1).unwrap_or("").to_string()).collect() };
                let is_prefix = got.len() <= orig_payloads.len() && got.iter().zip(orig_payloads.iter()).all(|(a, b)| a == b);
                if is_prefix {
                    outcome = if got.len() == orig_payloads.len() { "accepted-identical" } else { "prefix" };
                } else {
                    outcome = "ALTERED-DATA";
                    fails.push(Failure { kind: "impl-vs-oracle", detail: format!("byte {p} := {v:#04x} (was {:#04x}): the reader returns batches that are not a prefix of what was written: {}", content[p], clip(&real)) });
                }
            }
            *st.alter_outcome.entry(outcome.to_string()).or_insert(0) += 1;
            // sampled: the same through a real reopen
            if reopen_budget > 0 && r.chance(1, 40) {
                reopen_budget -= 1;
                st.reopens += 1;
                let cdir = scratch.join("alt");
                copy_dir_sparse(&dbdir, &cdir);
                std::fs::write(cdir.join("0.jnl"), &altered).unwrap();
                let got = dump_db(&cdir, case.lz4, case.nks);
                let mut ok = false;
                match &got {
                    Err(e) if e != "panic" => ok = true,
                    Err(_) => {}
                    Ok(d) => {
                        let mut state = State::new();
                        for k in 0..=run.batches.len() {
                            let want: BTreeMap<String, BTreeMap<Vec<u8>, Vec<u8>>> =
                                (0..case.nks).map(|i| (format!("ks{i}"), state.get(&run.ks_ids[i]).cloned().unwrap_or_default())).collect();
                            if *d == want {
                                ok = true;
                                break;
                            }
                            if k < run.batches.len() {
                                apply(&mut state, &run.batches[k]);
                            }
                        }
                    }
                }
                if !ok {
                    fails.push(Failure { kind: "impl-vs-oracle", detail: format!("byte {p} := {v:#04x}: reopening yields neither an error nor the state of a prefix of the commit history ({:?})", got.as_ref().err()) });
                }
                let _ = std::fs::remove_dir_all(&cdir);
            }
            if fails.len() > 3 {
                return fails;
            }
        }
    }

    if nontrivial {
        st.nontrivial.insert(fnv(&format!("{:?}", run.batches.iter().map(batch_spec).collect::<Vec<_>>())));
    }
    if st.samples.len() < 3 && nontrivial && content.len() < 600 {
        let mut s = J::obj();
        s.set("case_seed", J::s(case.seed.to_string()));
        s.set("journal_compression", J::s(if case.lz4 { "lz4" } else { "none" }));
        s.set("batches", J::Arr(run.batches.iter().map(|b| J::s(batch_spec(b))).collect()));
        s.set("journal_hex", J::s(hex(content)));
        s.set("tx_batches", J::Arr(run.tx_batches.iter().map(|i| J::i(*i as i64)).collect()));
        st.samples.push(s);
    }
    fails
}

fn clip(s: &str) -> String {
    if s.len() > 600 {
        format!("{}…[{} chars]", &s[..600], s.len())
    } else {
        s.to_string()
    }
}

fn main() {
    let args: Vec<String> = std::env::args().collect();
    let mut mode = "c03".to_string();
    let mut replay: Option<u64> = None;
    let mut out_path = None;
    let mut i = 1;
    while i < args.len() {
        match args[i].as_str() {
            "--mode" => {
                mode = args[i + 1].clone();
                i += 1;
            }
            "--replay-seed" => {
                replay = args[i + 1].parse().ok();
                i += 1;
            }
            "--out" => {
                out_path = Some(args[i + 1].clone());
                i += 1;
            }
            _ => {}
        }
        i += 1;
    }
    let thorough = tier_is_thorough();
    let seed = env_u64("VERIF_SEED", 1);
    let ncases = env_u64("VERIF_CASES", if thorough { 400 } else { 40 });
    let t0 = std::time::Instant::now();
    if std::env::var("VERIF_QUIET_PANICS").is_ok() { std::panic::set_hook(Box::new(|_| {})); }

    let mut lean = Lean::spawn();
    let mut st = Stats {
        cases: 0,
        nontrivial: Default::default(),
        writer_bytes: 0,
        batches: 0,
        multi_item_batches: 0,
        lz4_items: 0,
        clears: 0,
        tombs: 0,
        cuts: 0,
        cuts_inside_record: 0,
        reopens: 0,
        alterations: 0,
        alter_outcome: BTreeMap::new(),
        model_requests: 0,
        xxh3_checked: 0,
        samples: vec![],
    };
    let mut all_fails: Vec<(u64, Failure)> = Vec::new();
    let mut master = Rng::new(seed);

    {
        let mut f = Vec::new();
        if !no_model() { check_xxh3(&mut lean, &mut master.clone(), if thorough { 2000 } else { 400 }, &mut f, &mut st); }
        for x in f {
            all_fails.push((0, x));
        }
    }

    let seeds: Vec<u64> = match replay {
        Some(s) => vec![s],
        None => (0..ncases).map(|_| master.fork()).collect(),
    };
    for cs in seeds {
        let case = gen_case(cs, thorough);
        let fails = run_case(&case, &mode, thorough, &mut lean, &mut st);
        for f in fails {
            all_fails.push((cs, f));
        }
        if all_fails.len() > 5 {
            break;
        }
    }
    st.model_requests = lean.requests;
    let mut witness_hits: Vec<(&'static str, String)> = vec![];
    if mode == "c15" { if let Some(d) = witness_f9() { witness_hits.push(("F9", d)); } }

    let mut res = J::obj();
    res.set("engine", J::s("journal"));
    res.set("mode", J::s(mode.clone()));
    res.set("seed", J::i(seed as i64));
    res.set("cases", J::i(st.cases as i64));
    res.set("distinct_nontrivial", J::i(st.nontrivial.len() as i64));
    res.set("batches", J::i(st.batches as i64));
    res.set("multi_item_batches", J::i(st.multi_item_batches as i64));
    res.set("lz4_values_registered", J::i(st.lz4_items as i64));
    res.set("clears", J::i(st.clears as i64));
    res.set("tombstones", J::i(st.tombs as i64));
    res.set("journal_bytes_compared", J::i(st.writer_bytes as i64));
    res.set("cuts", J::i(st.cuts as i64));
    res.set("cuts_inside_record", J::i(st.cuts_inside_record as i64));
    res.set("real_reopens", J::i(st.reopens as i64));
    res.set("alterations", J::i(st.alterations as i64));
    res.set("alteration_outcomes", J::Obj(st.alter_outcome.iter().map(|(k, v)| (k.clone(), J::i(*v as i64))).collect()));
    res.set("model_requests", J::i(st.model_requests as i64));
    res.set("xxh3_inputs_validated", J::i(st.xxh3_checked as i64));
    res.set("samples", J::Arr(st.samples.clone()));
    res.set("wall_s", J::Num(t0.elapsed().as_secs_f64()));
    res.set(
        "failures",
        J::Arr(
            all_fails
                .iter()
                .map(|(cs, f)| {
                    let mut o = J::obj();
                    o.set("case_seed", J::s(cs.to_string()));
                    o.set("kind", J::s(f.kind));
                    o.set("detail", J::s(f.detail.clone()));
                    o
                })
                .chain(witness_hits.iter().map(|(w, d)| {
                    let mut o = J::obj();
                    o.set("case_seed", J::s("0".to_string()));
                    o.set("kind", J::s("impl-vs-oracle"));
                    o.set("detail", J::s(d.clone()));
                    o.set("witness_id", J::s(w.to_string()));
                    o
                }))
                .collect(),
        ),
    );
    let text = res.render();
    if let Some(p) = out_path {
        std::fs::write(p, &text).unwrap();
    }
    println!("RESULT {text}");
    std::process::exit(if all_fails.is_empty() { 0 } else { 1 });
}
