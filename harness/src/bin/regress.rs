use fjall::{KeyspaceCreateOptions, OptimisticTxDatabase, Readable};
fn fresh(tag: &str) -> (std::path::PathBuf, OptimisticTxDatabase) {
    let dir = std::path::PathBuf::from(format!("/dev/shm/verif-scratch-{tag}"));
    let _ = std::fs::remove_dir_all(&dir);
    let db = OptimisticTxDatabase::builder(&dir).open().unwrap();
    (dir, db)
}
fn main() {
    std::panic::set_hook(Box::new(|_| {}));
    // F7: write skew through size_of
    {
        let (dir, db) = fresh("f7");
        let ks = db.keyspace("a", KeyspaceCreateOptions::default).unwrap();
        ks.insert("a", "1").unwrap();
        ks.insert("b", "1").unwrap();
        let mut t1 = db.write_tx().unwrap();
        let mut t2 = db.write_tx().unwrap();
        let s1 = t1.size_of(&ks, "a").unwrap();
        let s2 = t2.size_of(&ks, "b").unwrap();
        // each transaction: "if the other key is still present, remove mine"
        if s1.is_some() { t1.remove(&ks, "b"); }
        if s2.is_some() { t2.remove(&ks, "a"); }
        let r1 = t1.commit().unwrap().is_ok();
        let r2 = t2.commit().unwrap().is_ok();
        println!("F7: both commit = {} (serializable would refuse one); a={:?} b={:?}", r1 && r2, ks.get("a").unwrap().is_some(), ks.get("b").unwrap().is_some());
        drop(ks); drop(db); let _ = std::fs::remove_dir_all(dir);
    }
    // F14: inverted range read then concurrent commit
    {
        let (dir, db) = fresh("f14");
        let ks = db.keyspace("a", KeyspaceCreateOptions::default).unwrap();
        let mut t1 = db.write_tx().unwrap();
        let n = t1.range(&ks, "z".."a").count();
        ks.insert("m", "1").unwrap();
        t1.insert(&ks, "q", "1");
        let r = std::panic::catch_unwind(std::panic::AssertUnwindSafe(|| t1.commit()));
        println!("F14: inverted range yielded {n} items; commit panicked = {}", r.is_err());
        drop(ks); drop(db); let _ = std::fs::remove_dir_all(dir);
    }
    // F5: double close of a transaction's instant
    {
        let (dir, db) = fresh("f5");
        let ks = db.keyspace("a", KeyspaceCreateOptions::default).unwrap();
        ks.insert("k", "old").unwrap();
        let mut t1 = db.write_tx().unwrap();
        let t2 = db.write_tx().unwrap();
        t1.insert(&ks, "x", "1");
        t1.commit().unwrap().unwrap();
        println!("F5: open snapshots counted by the tracker = {} (t2 is still alive)", db.inner().supervisor.snapshot_tracker.open_snapshots());
        for round in 0..3 {
            ks.insert("k", format!("new{round}")).unwrap();
            ks.inner().rotate_memtable_and_wait().unwrap();
        }
        let r = std::panic::catch_unwind(std::panic::AssertUnwindSafe(|| t2.get(&ks, "k").unwrap().map(|v| v.to_vec())));
        match r {
            Ok(v) => println!("F5: t2.get(k) = {:?}", v.map(|v| String::from_utf8_lossy(&v).to_string())),
            Err(_) => println!("F5: t2.get(k) PANICKED"),
        }
        drop(t2); drop(ks); drop(db); let _ = std::fs::remove_dir_all(dir);
    }
    // F13-ingest: an ingested tombstone evicted at the last level, journal still holds the put
    {
        let dir = std::path::PathBuf::from("/dev/shm/verif-scratch-f13i");
        let _ = std::fs::remove_dir_all(&dir);
        {
            let db = fjall::Database::builder(&dir).open().unwrap();
            let ks = db.keyspace("a", KeyspaceCreateOptions::default).unwrap();
            ks.insert("x", "v").unwrap();
            ks.rotate_memtable_and_wait().unwrap();
            let mut ing = ks.start_ingestion().unwrap();
            ing.write_tombstone("x").unwrap();
            ing.finish().unwrap();
            ks.major_compact().unwrap();
            println!("F13-ingest: before reopen x = {:?}", ks.get("x").unwrap().is_some());
        }
        let db = fjall::Database::builder(&dir).open().unwrap();
        let ks = db.keyspace("a", KeyspaceCreateOptions::default).unwrap();
        println!("F13-ingest: after reopen x = {:?} (deleted key is back = {})", ks.get("x").unwrap().is_some(), ks.get("x").unwrap().is_some());
        drop(ks); drop(db); let _ = std::fs::remove_dir_all(dir);
    }
    // F10: a sealed journal naming a keyspace that was cleared afterwards is not reclaimed although everything is flushed
    {
        let dir = std::path::PathBuf::from("/dev/shm/verif-scratch-f10");
        let _ = std::fs::remove_dir_all(&dir);
        let db = fjall::Database::builder(&dir).worker_threads_unchecked(0).open().unwrap();
        let a = db.keyspace("a", KeyspaceCreateOptions::default).unwrap();
        let b = db.keyspace("b", KeyspaceCreateOptions::default).unwrap();
        a.insert("x", "1").unwrap();
        b.insert("y", "1").unwrap();
        fjall::verif::verif_rotate_journal(&db).unwrap();
        a.clear().unwrap();
        for ks in [&a, &b] { let _ = ks.rotate_memtable().unwrap(); }
        while fjall::verif::queued_worker_messages(&db) > 0 { let _ = fjall::verif::verif_worker_step(&db); }
        fjall::verif::verif_journal_maintenance(&db).unwrap();
        println!("F10: all keyspaces flushed, journal files = {} (property: returns to one)", db.journal_count());
        drop(a); drop(b); drop(db); let _ = std::fs::remove_dir_all(dir);
    }
    // F21: Database drop sends `Close` with a blocking send in a loop; when the last worker takes its
    // `Close` while the bounded channel is full, and exits, the dropping thread blocks forever
    {
        use std::sync::atomic::{AtomicBool, Ordering};
        use std::sync::Arc;
        let dir = std::path::PathBuf::from("/dev/shm/verif-scratch-f21");
        let _ = std::fs::remove_dir_all(&dir);
        let hold = Arc::new(AtomicBool::new(true));
        let h2 = hold.clone();
        fjall::verif::pause::set(Some(Arc::new(move |name: &'static str| {
            if name == "worker.closing" { while h2.load(Ordering::Acquire) { std::thread::sleep(std::time::Duration::from_millis(1)); } }
        })));
        let db = fjall::Database::builder(&dir).worker_threads(1).open().unwrap();
        let done = Arc::new(AtomicBool::new(false));
        let d2 = done.clone();
        let t = std::thread::spawn(move || { drop(db); d2.store(true, Ordering::Release); });
        // the worker has taken its Close and is about to leave; the dropping thread keeps sending
        std::thread::sleep(std::time::Duration::from_millis(1500));
        hold.store(false, Ordering::Release); // the worker leaves now
        std::thread::sleep(std::time::Duration::from_millis(1500));
        let finished = done.load(Ordering::Acquire);
        println!("F21: drop(Database) returned within 1.5 s after the last worker left = {finished}");
        fjall::verif::pause::set(None);
        if finished { t.join().unwrap(); let _ = std::fs::remove_dir_all(dir); }
    }
    // F24: a worker that rotated a memtable sent the follow-up Flush with a blocking send on the bounded
    // worker channel; with the channel full (one rotation request per write above the memtable limit)
    // and one worker thread, the worker waits for room in the channel only it drains
    {
        use std::sync::{Arc, Condvar, Mutex};
        let dir = std::path::PathBuf::from("/dev/shm/verif-scratch-f24");
        let _ = std::fs::remove_dir_all(&dir);
        let gate = Arc::new((Mutex::new((false, false)), Condvar::new()));
        let g2 = gate.clone();
        fjall::verif::pause::set(Some(Arc::new(move |name: &'static str| {
            if name == "worker.rotate.begin" { let (m, cv) = &*g2; let mut g = m.lock().unwrap(); if !g.0 { g.0 = true; cv.notify_all(); while !g.1 { g = cv.wait(g).unwrap(); } } }
        })));
        let db = fjall::Database::builder(&dir).worker_threads(1).open().unwrap();
        let ks = db.keyspace("a", || KeyspaceCreateOptions::default().max_memtable_size(4 * 1024)).unwrap();
        let v = vec![7u8; 200];
        let mut i = 0u64;
        while !gate.0.lock().unwrap().0 { ks.insert(format!("{i:08}"), &v).unwrap(); i += 1; }
        while fjall::verif::queued_worker_messages(&db) < 1000 { ks.insert(format!("{i:08}"), &v).unwrap(); i += 1; }
        { let (m, cv) = &*gate; m.lock().unwrap().1 = true; cv.notify_all(); }
        let t0 = std::time::Instant::now();
        let mut ok = false;
        while t0.elapsed() < std::time::Duration::from_secs(10) { if fjall::verif::queued_worker_messages(&db) == 0 && ks.table_count() > 0 { ok = true; break; } std::thread::sleep(std::time::Duration::from_millis(20)); }
        println!("F24: after {i} writes filled the worker channel, the only worker drained it and flushed within 10 s = {ok}");
        fjall::verif::pause::set(None);
        if ok { drop(ks); drop(db); let _ = std::fs::remove_dir_all(dir); } else { std::mem::forget(ks); std::mem::forget(db); }
    }
    // F25: a key lsm-tree refuses (empty) was journaled before it was refused: session poisoned, and the record
    // left in the journal made every later recovery panic
    {
        let dir = std::path::PathBuf::from("/dev/shm/verif-scratch-f25");
        let _ = std::fs::remove_dir_all(&dir);
        let prev = std::panic::take_hook();
        std::panic::set_hook(Box::new(|_| {}));
        let (rejected, next_ok);
        {
            let db = fjall::Database::builder(&dir).worker_threads_unchecked(0).open().unwrap();
            let a = db.keyspace("a", KeyspaceCreateOptions::default).unwrap();
            a.insert("k", "v").unwrap();
            let a2 = a.clone();
            rejected = !matches!(std::panic::catch_unwind(std::panic::AssertUnwindSafe(move || a2.insert("", "v"))), Ok(Ok(())));
            next_ok = a.insert("k2", "v2").is_ok();
        }
        let d2 = dir.clone();
        let reopen_ok = matches!(std::panic::catch_unwind(move || fjall::Database::builder(&d2).worker_threads_unchecked(0).open().is_ok()), Ok(true));
        std::panic::set_hook(prev);
        println!("F25: insert with an empty key refused = {rejected}, session still usable = {next_ok}, database opens afterwards = {reopen_ok}");
        let _ = std::fs::remove_dir_all(dir);
    }
    // F26: a panic in user code inside a single-writer transaction poisoned the single-writer mutex:
    // every later write_tx() panicked
    {
        let dir = std::path::PathBuf::from("/dev/shm/verif-scratch-f26");
        let _ = std::fs::remove_dir_all(&dir);
        let prev = std::panic::take_hook();
        std::panic::set_hook(Box::new(|_| {}));
        let db = fjall::SingleWriterTxDatabase::builder(&dir).open().unwrap();
        let ks = db.keyspace("a", KeyspaceCreateOptions::default).unwrap();
        ks.insert("k", "v").unwrap();
        let _ = std::panic::catch_unwind(std::panic::AssertUnwindSafe(|| { let mut tx = db.write_tx(); tx.insert(&ks, "k", "changed"); let _ = tx.fetch_update(&ks, "k", |_| panic!("user code")); }));
        let unchanged = ks.get("k").unwrap().map(|v| v.to_vec()) == Some(b"v".to_vec());
        let next = matches!(std::panic::catch_unwind(std::panic::AssertUnwindSafe(|| { let mut tx = db.write_tx(); tx.insert(&ks, "k2", "v2"); tx.commit().is_ok() })), Ok(true));
        std::panic::set_hook(prev);
        println!("F26: transaction dropped by a panic left the data unchanged = {unchanged}, next write transaction works = {next}");
        drop(ks); drop(db); let _ = std::fs::remove_dir_all(dir);
    }
    // F12: version marker absent on an existing database whose first journal was already reclaimed
    {
        let dir = std::path::PathBuf::from("/dev/shm/verif-scratch-f12");
        let _ = std::fs::remove_dir_all(&dir);
        {
            let db = fjall::Database::builder(&dir).worker_threads_unchecked(0).open().unwrap();
            let a = db.keyspace("a", KeyspaceCreateOptions::default).unwrap();
            a.insert("k", "v").unwrap();
            fjall::verif::verif_rotate_journal(&db).unwrap();
            a.rotate_memtable().unwrap();
            while fjall::verif::queued_worker_messages(&db) > 0 { let _ = fjall::verif::verif_worker_step(&db); }
            fjall::verif::verif_journal_maintenance(&db).unwrap();
        }
        let listing = |d: &std::path::Path| { let mut v: Vec<String> = std::fs::read_dir(d).unwrap().map(|e| e.unwrap().file_name().to_string_lossy().to_string()).collect(); v.sort(); v };
        std::fs::remove_file(dir.join("version")).unwrap();
        let before = listing(&dir);
        let r = fjall::Database::builder(&dir).worker_threads_unchecked(0).open();
        let after = listing(&dir);
        println!("F12: marker absent: open -> {}; directory before {:?} after {:?}", match &r { Ok(_) => "Ok".to_string(), Err(e) => format!("Err({e:?})") }, before, after);
        drop(r); let _ = std::fs::remove_dir_all(dir);
    }
    // F16: a deleted keyspace's folder outlives its last handle while a sealed journal's watermarks hold a clone
    {
        let dir = std::path::PathBuf::from("/dev/shm/verif-scratch-f16");
        let _ = std::fs::remove_dir_all(&dir);
        let db = fjall::Database::builder(&dir).worker_threads_unchecked(0).open().unwrap();
        let a = db.keyspace("a", KeyspaceCreateOptions::default).unwrap();
        let b = db.keyspace("b", KeyspaceCreateOptions::default).unwrap();
        a.insert("k", "v").unwrap();
        b.insert("k", "v").unwrap();
        fjall::verif::verif_rotate_journal(&db).unwrap(); // the sealed journal's watermarks name a and b
        let path = dir.join("keyspaces").join(a.id().to_string());
        db.delete_keyspace(a).unwrap(); // moves the only user handle in
        while fjall::verif::queued_worker_messages(&db) > 0 { let _ = fjall::verif::verif_worker_step(&db); }
        println!("F16: folder of the deleted keyspace still exists after its last handle was dropped = {}", path.exists());
        drop(b); drop(db); let _ = std::fs::remove_dir_all(dir);
    }
    // S6: delete_keyspace through a stale handle of an already deleted keyspace whose name was re-created
    {
        let dir = std::path::PathBuf::from("/dev/shm/verif-scratch-s6");
        let _ = std::fs::remove_dir_all(&dir);
        {
            let db = fjall::Database::builder(&dir).worker_threads_unchecked(0).open().unwrap();
            let old = db.keyspace("a", KeyspaceCreateOptions::default).unwrap();
            let stale = old.clone();
            db.delete_keyspace(old).unwrap();
            let new = db.keyspace("a", KeyspaceCreateOptions::default).unwrap();
            new.insert("k", "v").unwrap();
            let r = db.delete_keyspace(stale);
            println!("S6: delete_keyspace(stale handle) -> {:?}; the re-created keyspace still answers get(k) = {:?}; keyspace_exists(a) = {}", r.is_ok(), new.get("k").unwrap().is_some(), db.keyspace_exists("a"));
        }
        let db = fjall::Database::builder(&dir).worker_threads_unchecked(0).open().unwrap();
        println!("S6: after reopen keyspace_exists(a) = {}", db.keyspace_exists("a"));
        if db.keyspace_exists("a") { let a = db.keyspace("a", KeyspaceCreateOptions::default).unwrap(); println!("S6: after reopen a.get(k) = {:?}", a.get("k").unwrap().is_some()); }
        drop(db); let _ = std::fs::remove_dir_all(dir);
    }
}
