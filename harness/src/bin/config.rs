//! `config` engine (C16): keyspace options vs the Lean `Config` model.
//!  (1) rows stored in the meta keyspace == model `encodeKvs` (bit-exact, incl. key encoding)
//!  (2) after reopen (passing *different* options) the effective options == the creation-time
//!      options (oracle) == model `fromKvs` of the stored rows
use fjall::config::*;
use fjall::{CompressionType, Database, KeyspaceCreateOptions, KvSeparationOptions};
use std::sync::Arc;
use verif_harness::json::J;
use verif_harness::*;

#[derive(Clone, Debug, PartialEq)]
enum Strat {
    Leveled(u8, u64, Vec<u32>),
    Fifo(u64, Option<u64>),
}

#[derive(Clone, Debug, PartialEq)]
struct Opts {
    dbc: Vec<bool>, // true = lz4
    ibc: Vec<bool>,
    dbhr: Vec<u32>,
    dbri: Vec<u8>,
    dbs: Vec<u32>,
    eprh: bool,
    fbpart: Vec<bool>,
    ibpart: Vec<bool>,
    fbpin: Vec<bool>,
    ibpin: Vec<bool>,
    fp: Vec<(u8, u32)>, // 0 none, 1 bits-per-key, 2 fpr
    mjp: bool,
    mms: u64,
    strat: Strat,
    blob: Option<(u32, bool, u64, u32, u32)>,
}

fn default_opts() -> Opts {
    Opts {
        dbc: vec![false, false, true],
        ibc: vec![false],
        dbhr: vec![0.0f32.to_bits()],
        dbri: vec![10, 16],
        dbs: vec![4096],
        eprh: false,
        fbpart: vec![false, false, false, true],
        ibpart: vec![false, false, false, true],
        fbpin: vec![true, false],
        ibpin: vec![true, true, false],
        fp: vec![(2, 0.0001f32.to_bits()), (1, 10.0f32.to_bits())],
        mjp: false,
        mms: 64 * 1024 * 1024,
        strat: Strat::Leveled(4, 64 * 1024 * 1024, vec![10.0f32.to_bits()]),
        blob: None,
    }
}

fn vlen(r: &mut Rng) -> usize {
    match r.below(20) {
        0 => 255,
        1 => 254,
        2 => r.range(8, 100),
        _ => r.range(1, 7),
    }
}

fn f32bits(r: &mut Rng) -> u32 {
    match r.below(12) {
        0 => f32::NAN.to_bits(),
        1 => f32::INFINITY.to_bits(),
        2 => (-0.0f32).to_bits(),
        3 => f32::MAX.to_bits(),
        4 => f32::MIN_POSITIVE.to_bits(),
        5 => r.next() as u32,
        _ => ((r.below(4000) as f32) / 100.0).to_bits(),
    }
}

fn gen_opts(r: &mut Rng) -> (Opts, usize, bool) {
    let mut o = default_opts();
    let mut changed = 0;
    let mut odd_len = false;
    macro_rules! maybe {
        ($body:block) => {
            if r.chance(1, 2) {
                $body;
                changed += 1;
            }
        };
    }
    maybe!({ let n = vlen(r); odd_len |= n != 3; o.dbc = (0..n).map(|_| r.chance(1, 2)).collect(); });
    maybe!({ let n = vlen(r); odd_len |= n != 1; o.ibc = (0..n).map(|_| r.chance(1, 2)).collect(); });
    maybe!({ let n = vlen(r); odd_len |= n != 1; o.dbhr = (0..n).map(|_| f32bits(r)).collect(); });
    maybe!({ let n = vlen(r); odd_len |= n != 2; o.dbri = (0..n).map(|_| r.range(1, 255) as u8).collect(); });
    maybe!({ let n = vlen(r); odd_len |= n != 1; o.dbs = (0..n).map(|_| match r.below(4) { 0 => u32::MAX, 1 => 1, _ => r.range(512, 1 << 20) as u32 }).collect(); });
    maybe!({ o.eprh = !o.eprh; });
    maybe!({ let n = vlen(r); odd_len |= n != 4; o.fbpart = (0..n).map(|_| r.chance(1, 2)).collect(); });
    maybe!({ let n = vlen(r); odd_len |= n != 4; o.ibpart = (0..n).map(|_| r.chance(1, 2)).collect(); });
    maybe!({ let n = vlen(r); odd_len |= n != 2; o.fbpin = (0..n).map(|_| r.chance(1, 2)).collect(); });
    maybe!({ let n = vlen(r); odd_len |= n != 3; o.ibpin = (0..n).map(|_| r.chance(1, 2)).collect(); });
    maybe!({ let n = vlen(r); odd_len |= n != 2; o.fp = (0..n).map(|_| match r.below(3) { 0 => (0, 0), 1 => (1, f32bits(r)), _ => (2, f32bits(r)) }).collect(); });
    maybe!({ o.mjp = !o.mjp; });
    maybe!({ o.mms = match r.below(4) { 0 => u64::MAX, 1 => 1, _ => r.next() >> r.below(40) }; });
    maybe!({
        o.strat = if r.chance(1, 2) {
            let n = match r.below(10) { 0 => 255, 1 => 0, _ => r.range(1, 6) };
            Strat::Leveled(r.below(256) as u8, r.next() >> r.below(50), (0..n).map(|_| f32bits(r)).collect())
        } else {
            Strat::Fifo(r.next() >> r.below(50), if r.chance(1, 2) { Some(r.next() >> r.below(60)) } else { None })
        };
    });
    maybe!({
        o.blob = Some((f32bits(r), r.chance(1, 2), r.next() >> r.below(50), r.next() as u32 >> r.below(20), f32bits(r)));
    });
    (o, changed, odd_len)
}

fn comp(b: bool) -> CompressionType {
    if b { CompressionType::Lz4 } else { CompressionType::None }
}

fn to_create(o: &Opts) -> KeyspaceCreateOptions {
    let mut c = KeyspaceCreateOptions::default()
        .data_block_compression_policy(CompressionPolicy::new(o.dbc.iter().map(|b| comp(*b)).collect::<Vec<_>>()))
        .index_block_compression_policy(CompressionPolicy::new(o.ibc.iter().map(|b| comp(*b)).collect::<Vec<_>>()))
        .data_block_hash_ratio_policy(HashRatioPolicy::new(o.dbhr.iter().map(|b| f32::from_bits(*b)).collect::<Vec<_>>()))
        .data_block_restart_interval_policy(RestartIntervalPolicy::new(o.dbri.clone()))
        .data_block_size_policy(BlockSizePolicy::new(o.dbs.clone()))
        .expect_point_read_hits(o.eprh)
        .filter_block_partitioning_policy(PinningPolicy::new(o.fbpart.clone()))
        .index_block_partitioning_policy(PinningPolicy::new(o.ibpart.clone()))
        .filter_block_pinning_policy(PinningPolicy::new(o.fbpin.clone()))
        .index_block_pinning_policy(PinningPolicy::new(o.ibpin.clone()))
        .filter_policy(FilterPolicy::new(
            o.fp.iter()
                .map(|(t, b)| match t {
                    0 => FilterPolicyEntry::None,
                    1 => FilterPolicyEntry::Bloom(BloomConstructionPolicy::BitsPerKey(f32::from_bits(*b))),
                    _ => FilterPolicyEntry::Bloom(BloomConstructionPolicy::FalsePositiveRate(f32::from_bits(*b))),
                })
                .collect::<Vec<_>>(),
        ))
        .manual_journal_persist(o.mjp)
        .max_memtable_size(o.mms);
    c = match &o.strat {
        Strat::Leveled(l0, ts, rs) => c.compaction_strategy(Arc::new(
            fjall::compaction::Leveled::default()
                .with_l0_threshold(*l0)
                .with_table_target_size(*ts)
                .with_level_ratio_policy(rs.iter().map(|b| f32::from_bits(*b)).collect()),
        )),
        Strat::Fifo(lim, ttl) => c.compaction_strategy(Arc::new(fjall::compaction::Fifo::new(*lim, *ttl))),
    };
    if let Some((ac, cp, fts, st, stl)) = &o.blob {
        c = c.with_kv_separation(Some(
            KvSeparationOptions::default()
                .age_cutoff(f32::from_bits(*ac))
                .compression(comp(*cp))
                .file_target_size(*fts)
                .separation_threshold(*st)
                .staleness_threshold(f32::from_bits(*stl)),
        ));
    }
    c
}

fn bl(v: &[bool]) -> String {
    v.iter().map(|b| if *b { "1" } else { "0" }).collect::<Vec<_>>().join(",")
}
fn nl<T: ToString>(v: &[T]) -> String {
    v.iter().map(|b| b.to_string()).collect::<Vec<_>>().join(",")
}
fn cl(v: &[bool]) -> String {
    v.iter().map(|b| if *b { "L" } else { "N" }).collect::<Vec<_>>().join(",")
}

fn spec(o: &Opts) -> String {
    let fp: Vec<String> = o.fp.iter().map(|(t, b)| match t { 0 => "n".to_string(), 1 => format!("b{b}"), _ => format!("f{b}") }).collect();
    let strat = match &o.strat {
        Strat::Leveled(l0, ts, rs) => format!("L:{l0}:{ts}:{}", rs.iter().map(|x| x.to_string()).collect::<Vec<_>>().join("/")),
        Strat::Fifo(lim, None) => format!("F:{lim}:-"),
        Strat::Fifo(lim, Some(t)) => format!("F:{lim}:{t}"),
    };
    let blob = match &o.blob {
        None => "-".to_string(),
        Some((ac, cp, fts, st, stl)) => format!("{ac}:{}:{fts}:{st}:{stl}", if *cp { "L" } else { "N" }),
    };
    [
        format!("dbc={}", cl(&o.dbc)), format!("ibc={}", cl(&o.ibc)), format!("dbhr={}", nl(&o.dbhr)),
        format!("dbri={}", nl(&o.dbri)), "ibri=1".to_string(), format!("dbs={}", nl(&o.dbs)),
        format!("eprh={}", o.eprh as u8), format!("fbpart={}", bl(&o.fbpart)), format!("ibpart={}", bl(&o.ibpart)),
        format!("fbpin={}", bl(&o.fbpin)), format!("ibpin={}", bl(&o.ibpin)), format!("fp={}", fp.join(",")),
        format!("mjp={}", o.mjp as u8), format!("mms={}", o.mms), format!("strat={strat}"), format!("blob={blob}"),
    ]
    .join("|")
}

/// effective options of an open keyspace, read through the public (doc-hidden) fields + hooks
fn effective(ks: &fjall::Keyspace) -> Result<String, String> {
    let c = &ks.config;
    let (mms, mjp, _lc) = fjall::verif::keyspace_scalar_options(ks);
    let isl = |x: &CompressionType| matches!(x, CompressionType::Lz4);
    let fp: Vec<String> = c.filter_policy.iter().map(|e| match e {
        FilterPolicyEntry::None => "n".to_string(),
        FilterPolicyEntry::Bloom(BloomConstructionPolicy::BitsPerKey(f)) => format!("b{}", f.to_bits()),
        FilterPolicyEntry::Bloom(BloomConstructionPolicy::FalsePositiveRate(f)) => format!("f{}", f.to_bits()),
    }).collect();
    // strategy parameters are only observable through get_config()
    let cfg = c.compaction_strategy.get_config();
    let get = |n: &str| cfg.iter().find(|(k, _)| &**k == n.as_bytes()).map(|(_, v)| v.to_vec());
    let le = |b: &[u8]| -> u64 { let mut x = [0u8; 8]; x[..b.len().min(8)].copy_from_slice(&b[..b.len().min(8)]); u64::from_le_bytes(x) };
    let strat = match c.compaction_strategy.get_name() {
        "LeveledCompaction" => {
            let l0 = get("leveled_l0_threshold").ok_or("no l0")?;
            let ts = get("leveled_target_size").ok_or("no ts")?;
            let rp = get("leveled_level_ratio_policy").ok_or("no rp")?;
            // NOTE: decoded by the harness's own reading of the count byte: if the in-memory vector is
            // longer than 255 the count byte is wrong, which is finding F17 (generator stays <= 255)
            let n = rp[0] as usize;
            let rs: Vec<String> = (0..n).map(|i| u32::from_le_bytes(rp[1 + 4 * i..5 + 4 * i].try_into().unwrap()).to_string()).collect();
            format!("L:{}:{}:{}", l0[0], le(&ts), rs.join("/"))
        }
        "FifoCompaction" => {
            let lim = get("fifo_limit").ok_or("no lim")?;
            let has = get("fifo_ttl").ok_or("no ttl")?;
            let t = get("fifo_ttl_seconds").ok_or("no ttls")?;
            if has == [1] { format!("F:{}:{}", le(&lim), le(&t)) } else { format!("F:{}:-", le(&lim)) }
        }
        other => return Err(format!("strategy {other}")),
    };
    let blob = match &c.kv_separation_opts {
        None => "-".to_string(),
        Some(b) => format!("{}:{}:{}:{}:{}", b.age_cutoff.to_bits(), if isl(&b.compression) { "L" } else { "N" }, b.file_target_size, b.separation_threshold, b.staleness_threshold.to_bits()),
    };
    if ks.is_kv_separated() != c.kv_separation_opts.is_some() {
        return Err("is_kv_separated disagrees with the options".into());
    }
    Ok([
        format!("dbc={}", cl(&c.data_block_compression_policy.iter().map(isl).collect::<Vec<_>>())),
        format!("ibc={}", cl(&c.index_block_compression_policy.iter().map(isl).collect::<Vec<_>>())),
        format!("dbhr={}", nl(&c.data_block_hash_ratio_policy.iter().map(|f| f.to_bits()).collect::<Vec<_>>())),
        format!("dbri={}", nl(&c.data_block_restart_interval_policy.iter().collect::<Vec<_>>())),
        format!("ibri={}", nl(&c.index_block_restart_interval_policy.iter().collect::<Vec<_>>())),
        format!("dbs={}", nl(&c.data_block_size_policy.iter().collect::<Vec<_>>())),
        format!("eprh={}", c.expect_point_read_hits as u8),
        format!("fbpart={}", bl(&c.filter_block_partitioning_policy.iter().copied().collect::<Vec<_>>())),
        format!("ibpart={}", bl(&c.index_block_partitioning_policy.iter().copied().collect::<Vec<_>>())),
        format!("fbpin={}", bl(&c.filter_block_pinning_policy.iter().copied().collect::<Vec<_>>())),
        format!("ibpin={}", bl(&c.index_block_pinning_policy.iter().copied().collect::<Vec<_>>())),
        format!("fp={}", fp.join(",")),
        format!("mjp={}", mjp as u8), format!("mms={mms}"), format!("strat={strat}"), format!("blob={blob}"),
    ].join("|"))
}

struct Failure { kind: &'static str, detail: String }

/// stored witness of known finding F17 (C16): a level-ratio vector longer than 255 entries
fn witness_f17() -> Option<String> {
    let scratch = Scratch::new("f17");
    let dir = scratch.join("db");
    let ratios = |ks: &fjall::Keyspace| -> Option<Vec<u8>> { ks.config.compaction_strategy.get_config().iter().find(|(k, _)| &**k == b"leveled_level_ratio_policy").map(|(_, v)| v.to_vec()) };
    let before;
    {
        let db = Database::builder(&dir).worker_threads_unchecked(0).open().ok()?;
        let ks = db.keyspace("w", || KeyspaceCreateOptions::default().compaction_strategy(Arc::new(fjall::compaction::Leveled::default().with_level_ratio_policy(vec![2.0; 300])))).ok()?;
        before = ratios(&ks)?;
    }
    let db = Database::builder(&dir).worker_threads_unchecked(0).open().ok()?;
    let ks = db.keyspace("w", KeyspaceCreateOptions::default).ok()?;
    let after = ratios(&ks)?;
    if before != after { Some(format!("a keyspace created with 300 level ratios has {} after reopen (stored form: {} bytes at creation, {} after reopen)", (after.len().saturating_sub(1)) / 4, before.len(), after.len())) } else { None }
}

fn run_case(seed: u64, lean: &mut Lean, samples: &mut Vec<J>, hist: &mut std::collections::BTreeMap<String, u64>) -> (Vec<Failure>, bool, u64) {
    let mut fails = vec![];
    let mut r = Rng::new(seed);
    let (o, changed, odd) = gen_opts(&mut r);
    let (o2, _, _) = gen_opts(&mut r);
    let sp = spec(&o);
    let scratch = Scratch::new("cfg");
    let dir = scratch.join("db");
    let nreopen = r.range(1, 3);
    *hist.entry(format!("strategy={}", match o.strat { Strat::Leveled(..) => "leveled", Strat::Fifo(..) => "fifo" })).or_insert(0) += 1;
    *hist.entry(format!("blob={}", o.blob.is_some())).or_insert(0) += 1;
    *hist.entry(format!("maxlen={}", [o.dbc.len(), o.dbhr.len(), o.fp.len(), o.dbs.len()].iter().max().unwrap() / 64 * 64)).or_insert(0) += 1;
    let res = std::panic::catch_unwind(std::panic::AssertUnwindSafe(|| -> Result<(), Failure> {
        let id;
        {
            let db = Database::builder(&dir).worker_threads_unchecked(0).open().map_err(|e| Failure { kind: "impl-vs-oracle", detail: format!("open: {e:?}") })?;
            // a first keyspace so that the id under test is not always 1
            if r.chance(1, 2) { let _ = db.keyspace("other", KeyspaceCreateOptions::default); }
            let ks = db.keyspace("t", || to_create(&o)).map_err(|e| Failure { kind: "impl-vs-oracle", detail: format!("create: {e:?}") })?;
            id = ks.id();
            let eff = effective(&ks).map_err(|e| Failure { kind: "harness", detail: e })?;
            if eff != sp {
                return Err(Failure { kind: "impl-vs-oracle", detail: format!("options right after creation differ from what was set:\n eff={eff}\n set={sp}") });
            }
            // stored rows vs model
            let rows = fjall::verif::meta_rows(db.inner_db()).map_err(|e| Failure { kind: "harness", detail: format!("{e:?}") })?;
            let mut pfx = vec![b'c'];
            pfx.extend_from_slice(&id.to_be_bytes());
            let mine: Vec<String> = rows.iter().filter(|(k, _)| k.starts_with(&pfx)).map(|(k, v)| format!("{}={}", hex(k), hex(v))).collect();
            let real_rows = mine.join(";");
            let model_rows = lean.ask(&format!("cfgenc {id} {sp}"));
            if model_rows != real_rows {
                return Err(Failure { kind: "model-vs-impl", detail: format!("stored option rows differ from model encodeKvs:\n model={}\n real={}", clip(&model_rows), clip(&real_rows)) });
            }
            let dec = lean.ask(&format!("cfgdec {id} {real_rows}"));
            if dec != sp {
                return Err(Failure { kind: "model-vs-impl", detail: format!("model fromKvs of the stored rows differs from the options set:\n model={}\n set={sp}", clip(&dec)) });
            }
        }
        for _ in 0..nreopen {
            let db = Database::builder(&dir).worker_threads_unchecked(0).open().map_err(|e| Failure { kind: "impl-vs-oracle", detail: format!("reopen: {e:?}") })?;
            let ks = db.keyspace("t", || to_create(&o2)).map_err(|e| Failure { kind: "impl-vs-oracle", detail: format!("reopen keyspace: {e:?}") })?;
            let eff = effective(&ks).map_err(|e| Failure { kind: "harness", detail: e })?;
            if eff != sp {
                return Err(Failure { kind: "impl-vs-oracle", detail: format!("options in force after reopen (other options passed) differ from the creation-time options:\n eff={}\n set={}", clip(&eff), clip(&sp)) });
            }
            if ks.id() != id {
                return Err(Failure { kind: "impl-vs-oracle", detail: "keyspace id changed across reopen".into() });
            }
        }
        Ok(())
    }));
    match res {
        Ok(Ok(())) => {}
        Ok(Err(f)) => fails.push(f),
        Err(_) => fails.push(Failure { kind: "impl-vs-oracle", detail: format!("panic while creating/reopening a keyspace with options {sp}") }),
    }
    if samples.len() < 2 && changed >= 3 {
        let mut s = J::obj();
        s.set("case_seed", J::s(seed.to_string()));
        s.set("options", J::s(clip(&sp)));
        s.set("reopen_options", J::s(clip(&spec(&o2))));
        samples.push(s);
    }
    let h = { let mut x = 0xcbf29ce484222325u64; for b in sp.bytes() { x ^= b as u64; x = x.wrapping_mul(0x100000001b3); } x };
    (fails, changed >= 3 && odd, h)
}

trait InnerDb { fn inner_db(&self) -> &Database; }
impl InnerDb for Database { fn inner_db(&self) -> &Database { self } }

fn clip(s: &str) -> String {
    if s.len() > 900 { format!("{}…[{} chars]", &s[..900], s.len()) } else { s.to_string() }
}

fn main() {
    let args: Vec<String> = std::env::args().collect();
    let mut replay = None;
    let mut i = 1;
    while i < args.len() {
        if args[i] == "--replay-seed" { replay = args[i + 1].parse().ok(); i += 1; }
        i += 1;
    }
    let thorough = tier_is_thorough();
    let seed = env_u64("VERIF_SEED", 1);
    let n = env_u64("VERIF_CASES", if thorough { 3000 } else { 120 });
    if std::env::var("VERIF_QUIET_PANICS").is_ok() { std::panic::set_hook(Box::new(|_| {})); }
    let t0 = std::time::Instant::now();
    let mut lean = Lean::spawn();
    let mut master = Rng::new(seed);
    let seeds: Vec<u64> = match replay { Some(s) => vec![s], None => (0..n).map(|_| master.fork()).collect() };
    let mut all = vec![];
    let mut nontrivial = std::collections::HashSet::new();
    let mut samples = vec![];
    let mut hist = std::collections::BTreeMap::new();
    let mut cases = 0;
    for cs in seeds {
        let (f, nt, h) = run_case(cs, &mut lean, &mut samples, &mut hist);
        cases += 1;
        if nt { nontrivial.insert(h); }
        for x in f { all.push((cs, x)); }
        if all.len() > 5 { break; }
    }
    let mut res = J::obj();
    res.set("engine", J::s("config"));
    res.set("seed", J::i(seed as i64));
    res.set("cases", J::i(cases));
    res.set("distinct_nontrivial", J::i(nontrivial.len() as i64));
    res.set("distribution", J::Obj(hist.iter().map(|(k, v)| (k.clone(), J::i(*v as i64))).collect()));
    res.set("model_requests", J::i(lean.requests as i64));
    res.set("samples", J::Arr(samples));
    res.set("wall_s", J::Num(t0.elapsed().as_secs_f64()));
    let w17 = if replay.is_none() { witness_f17() } else { None };
    res.set("failures", J::Arr(all.iter().map(|(cs, f)| { let mut o = J::obj(); o.set("case_seed", J::s(cs.to_string())); o.set("kind", J::s(f.kind)); o.set("detail", J::s(f.detail.clone())); o }).chain(w17.iter().map(|d| { let mut o = J::obj(); o.set("case_seed", J::s("0".to_string())); o.set("kind", J::s("impl-vs-oracle")); o.set("detail", J::s(d.clone())); o.set("witness_id", J::s("F17".to_string())); o })).collect()));
    println!("RESULT {}", res.render());
    std::process::exit(if all.is_empty() { 0 } else { 1 });
}
