//! `tracker` engine (C05 part 1): the real SnapshotTracker, driven through snapshots, writes,
//! gc and pullup of a real database, vs the Lean `Tracker` model; plus the implementation-only
//! oracle "the GC watermark stays below every live snapshot instant".
use fjall::{Database, KeyspaceCreateOptions, Readable};
use std::collections::BTreeMap;
use verif_harness::json::J;
use verif_harness::*;

struct Failure { kind: &'static str, detail: String }

type Content = BTreeMap<Vec<u8>, Vec<u8>>;
/// a live view: a snapshot (or a clone of one) with the content it must keep showing, or an
/// iterator created from a snapshot with the items it still has to yield
enum View { Snap(fjall::Snapshot, Content), It(Box<dyn Iterator<Item = fjall::Guard>>, Vec<(Vec<u8>, Vec<u8>)>) }

fn run_case(seed: u64, lean: &mut Lean, samples: &mut Vec<J>, hist: &mut std::collections::BTreeMap<String, u64>) -> (Vec<Failure>, bool, u64) {
    let mut fails = vec![];
    let mut r = Rng::new(seed);
    let scratch = Scratch::new("trk");
    // a single-writer transactional database: its write transactions hold a snapshot like every other view
    let txdb = fjall::SingleWriterTxDatabase::builder(scratch.join("db")).worker_threads_unchecked(0).open().unwrap();
    let db: Database = txdb.inner().clone();
    let mut tks: Option<fjall::SingleWriterTxKeyspace> = None;
    let tr = db.supervisor.snapshot_tracker.clone();
    let mut ops: Vec<String> = vec![];
    let mut live: Vec<(u64, View)> = vec![];
    let mut ks: Option<fjall::Keyspace> = None;
    let mut content: Content = Content::new();
    let mut shared_instant = false;
    let mut gc_while_live = false;
    let nops = r.range(4, 40);
    // half of the cases start with a snapshot of the fresh database (instant 0)
    let fresh_snapshot = r.chance(1, 2);
    for step in 0..nops {
        let choice = if step == 0 && fresh_snapshot { 0 } else { r.below(18) };
        match choice {
            0 | 1 => {
                let inst = db.visible_seqno();
                if live.iter().any(|(i, _)| *i == inst) { shared_instant = true; }
                live.push((inst, View::Snap(db.snapshot(), content.clone())));
                ops.push("o".into());
                *hist.entry("open".into()).or_insert(0) += 1;
            }
            2 | 3 => {
                if !live.is_empty() {
                    let idx = r.below(live.len() as u64) as usize;
                    let (inst, s) = live.swap_remove(idx);
                    drop(s);
                    ops.push(format!("x{inst}"));
                    *hist.entry("close".into()).or_insert(0) += 1;
                }
            }
            4 | 5 | 6 => {
                // a write publishes its seqno; keyspace creation also moves the counters
                if ks.is_none() {
                    let before = db.visible_seqno();
                    let t = txdb.keyspace("a", KeyspaceCreateOptions::default).unwrap();
                    ks = Some(t.inner().clone());
                    tks = Some(t);
                    let after = db.visible_seqno();
                    if after > before { ops.push(format!("s{after}")); }
                    *hist.entry("create-keyspace".into()).or_insert(0) += 1;
                } else {
                    let s = db.seqno();
                    let key = format!("k{}", r.below(5)).into_bytes();
                    if r.chance(1, 5) { ks.as_ref().unwrap().remove(key.clone()).unwrap(); content.remove(&key); }
                    else { let v = format!("v{step}").into_bytes(); ks.as_ref().unwrap().insert(key.clone(), v.clone()).unwrap(); content.insert(key, v); }
                    ops.push(format!("p{s}"));
                    *hist.entry("publish".into()).or_insert(0) += 1;
                }
            }
            7 | 8 => {
                fjall::verif::tracker_gc(&db);
                if !live.is_empty() { gc_while_live = true; }
                ops.push("g".into());
                *hist.entry("gc".into()).or_insert(0) += 1;
            }
            9 => {
                fjall::verif::tracker_pullup(&db);
                ops.push("u".into());
                *hist.entry("pullup".into()).or_insert(0) += 1;
            }
            10 | 11 => {
                // clone a live snapshot, or create an iterator from it (both register one more holder of its instant)
                let snaps: Vec<usize> = live.iter().enumerate().filter(|(_, (_, v))| matches!(v, View::Snap(..))).map(|(i, _)| i).collect();
                if let (Some(&i), Some(k)) = (snaps.first().map(|_| r.pick(&snaps)), ks.as_ref()) {
                    let inst = live[i].0;
                    let nv = match &live[i].1 {
                        View::Snap(sn, c) => if r.chance(1, 2) { View::Snap(sn.clone(), c.clone()) } else { View::It(Box::new(sn.iter(k)), c.iter().map(|(a, b)| (a.clone(), b.clone())).collect()) },
                        _ => unreachable!(),
                    };
                    *hist.entry(if matches!(nv, View::It(..)) { "iterator".to_string() } else { "clone".to_string() }).or_insert(0) += 1;
                    live.push((inst, nv));
                    ops.push(format!("c{inst}"));
                    shared_instant = true;
                }
            }
            12 | 13 => {
                // seal + flush the memtable (rotation runs pullup + gc; the flush and the compactions it queues register versions)
                if let Some(k) = ks.as_ref() {
                    if k.rotate_memtable().unwrap_or(false) { ops.push("u".into()); ops.push("g".into()); if !live.is_empty() { gc_while_live = true; } }
                    let before = db.visible_seqno();
                    let mut guard = 0;
                    while fjall::verif::queued_worker_messages(&db) > 0 && guard < 50 { guard += 1; let _ = fjall::verif::verif_worker_step(&db); }
                    let after = db.visible_seqno();
                    if after > before { ops.push(format!("s{after}")); }
                    *hist.entry("flush".into()).or_insert(0) += 1;
                }
            }
            16 | 17 => {
                // a write transaction: opens a snapshot at the current instant (often shared with a live view), writes,
                // commits (one batch: publishes its seqno) and releases its snapshot
                if let Some(t) = tks.as_ref() {
                    let inst = db.visible_seqno();
                    if live.iter().any(|(i, _)| *i == inst) { shared_instant = true; }
                    let mut tx = txdb.write_tx();
                    ops.push("o".into());
                    let s = db.seqno();
                    let key = format!("k{}", r.below(5)).into_bytes();
                    let v = format!("t{step}").into_bytes();
                    tx.insert(t, key.clone(), v.clone());
                    tx.commit().unwrap();
                    content.insert(key, v);
                    ops.push(format!("p{s}"));
                    ops.push(format!("x{inst}"));
                    *hist.entry("write-transaction".into()).or_insert(0) += 1;
                }
            }
            _ => {
                if let Some(k) = ks.as_ref() {
                    let before = db.visible_seqno();
                    let _ = k.major_compact();
                    let after = db.visible_seqno();
                    if after > before { ops.push(format!("s{after}")); }
                    *hist.entry("major-compact".into()).or_insert(0) += 1;
                }
            }
        }
        // every live view keeps showing what it showed when it was created (and never panics)
        if let Some(k) = ks.as_ref() {
            for (inst, v) in live.iter_mut() {
                let res = std::panic::catch_unwind(std::panic::AssertUnwindSafe(|| -> Result<(), String> {
                    match v {
                        View::Snap(sn, c) => {
                            let key = format!("k{}", r.below(5)).into_bytes();
                            let got = sn.get(k, &key).map_err(|e| format!("{e:?}"))?.map(|x| x.to_vec());
                            if got != c.get(&key).cloned() { return Err(format!("get({}) = {:?}, at creation {:?}", String::from_utf8_lossy(&key), got.map(|x| String::from_utf8_lossy(&x).to_string()), c.get(&key).map(|x| String::from_utf8_lossy(x).to_string()))); }
                            if r.chance(1, 4) {
                                let scan: Vec<(Vec<u8>, Vec<u8>)> = sn.iter(k).map(|g| { let (a, b) = g.into_inner().unwrap(); (a.to_vec(), b.to_vec()) }).collect();
                                let want: Vec<(Vec<u8>, Vec<u8>)> = c.iter().map(|(a, b)| (a.clone(), b.clone())).collect();
                                if scan != want { return Err(format!("scan yields {} items, at creation {}", scan.len(), want.len())); }
                            }
                        }
                        View::It(it, rest) => {
                            if r.chance(1, 2) {
                                let got = it.next().map(|g| { let (a, b) = g.into_inner().unwrap(); (a.to_vec(), b.to_vec()) });
                                let want = if rest.is_empty() { None } else { Some(rest.remove(0)) };
                                if got != want { return Err(format!("iterator yields {:?}, frozen content has {:?} next", got.map(|x| String::from_utf8_lossy(&x.0).to_string()), want.map(|x| String::from_utf8_lossy(&x.0).to_string()))); }
                            }
                        }
                    }
                    Ok(())
                }));
                match res {
                    Ok(Ok(())) => {}
                    Ok(Err(e)) => { fails.push(Failure { kind: "impl-vs-oracle", detail: format!("after ops {:?}: a live view with instant {inst} changed: {e}", ops) }); return (fails, false, 0); }
                    Err(_) => { fails.push(Failure { kind: "impl-vs-oracle", detail: format!("after ops {:?}: using a live view with instant {inst} panicked", ops) }); return (fails, false, 0); }
                }
            }
        }
        // implementation-only oracle after every step
        let wm = tr.get_seqno_safe_to_gc();
        for (inst, _) in &live {
            // version-history GC keeps the newest version below the watermark: a live view at
            // instant I > 0 needs watermark <= I (the tracker aims for <= I - 1, which is what the
            // model comparison below checks); an instant-0 view sees nothing
            if *inst > 0 && wm > *inst {
                fails.push(Failure { kind: "impl-vs-oracle", detail: format!("after ops {:?}: GC watermark {wm} is above live snapshot instant {inst}", ops) });
                return (fails, false, 0);
            }
        }
        if tr.open_snapshots() != live.len() {
            fails.push(Failure { kind: "impl-vs-oracle", detail: format!("after ops {:?}: tracker counts {} open snapshots, {} are alive", ops, tr.open_snapshots(), live.len()) });
            return (fails, false, 0);
        }
        let real = format!("open={} wm={} visible={}", tr.open_snapshots(), wm, db.visible_seqno());
        let model = lean.ask(&format!("tr {}", ops.join(" ")));
        if !no_model() && model != real {
            fails.push(Failure { kind: "model-vs-impl", detail: format!("after ops {:?}: model {model} vs real {real}", ops) });
            return (fails, false, 0);
        }
    }
    if samples.len() < 2 && shared_instant && gc_while_live {
        let mut s = J::obj();
        s.set("case_seed", J::s(seed.to_string()));
        s.set("ops", J::s(ops.join(" ")));
        samples.push(s);
    }
    let h = { let mut x = 0xcbf29ce484222325u64; for b in ops.join(" ").bytes() { x ^= b as u64; x = x.wrapping_mul(0x100000001b3); } x };
    (fails, shared_instant || gc_while_live, h)
}

fn main() {
    let args: Vec<String> = std::env::args().collect();
    let mut replay = None;
    let mut i = 1;
    while i < args.len() {
        if args[i] == "--replay-seed" { replay = args[i + 1].parse().ok(); i += 1; }
        i += 1;
    }
    let thorough = tier_is_thorough();
    let seed = env_u64("VERIF_SEED", 1);
    let n = env_u64("VERIF_CASES", if thorough { 20000 } else { 400 });
    if std::env::var("VERIF_QUIET_PANICS").is_ok() { std::panic::set_hook(Box::new(|_| {})); }
    let t0 = std::time::Instant::now();
    let mut lean = Lean::spawn();
    let mut master = Rng::new(seed);
    let seeds: Vec<u64> = match replay { Some(s) => vec![s], None => (0..n).map(|_| master.fork()).collect() };
    let mut all = vec![];
    let mut nontrivial = std::collections::HashSet::new();
    let mut samples = vec![];
    let mut hist = std::collections::BTreeMap::new();
    let mut cases = 0;
    for cs in seeds {
        let res = std::panic::catch_unwind(std::panic::AssertUnwindSafe(|| run_case(cs, &mut lean, &mut samples, &mut hist)));
        cases += 1;
        match res {
            Ok((f, nt, h)) => {
                if nt { nontrivial.insert(h); }
                for x in f { all.push((cs, x)); }
            }
            Err(_) => all.push((cs, Failure { kind: "impl-vs-oracle", detail: "panic while driving the snapshot tracker".into() })),
        }
        if all.len() > 5 { break; }
    }
    let mut res = J::obj();
    res.set("engine", J::s("tracker"));
    res.set("seed", J::i(seed as i64));
    res.set("cases", J::i(cases));
    res.set("distinct_nontrivial", J::i(nontrivial.len() as i64));
    res.set("distribution", J::Obj(hist.iter().map(|(k, v)| (k.clone(), J::i(*v as i64))).collect()));
    res.set("model_requests", J::i(lean.requests as i64));
    res.set("samples", J::Arr(samples));
    res.set("wall_s", J::Num(t0.elapsed().as_secs_f64()));
    res.set("failures", J::Arr(all.iter().map(|(cs, f)| { let mut o = J::obj(); o.set("case_seed", J::s(cs.to_string())); o.set("kind", J::s(f.kind)); o.set("detail", J::s(f.detail.clone())); o }).collect()));
    println!("RESULT {}", res.render());
    std::process::exit(if all.is_empty() { 0 } else { 1 });
}
