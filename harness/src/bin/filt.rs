//! `filt` engine (C18): compaction filter factories assigned by keyspace name; filtered and
//! unfiltered keyspaces under random maintenance and reopen.
use fjall::compaction::filter::{CompactionFilter, Context, Factory, ItemAccessor, Verdict};
use fjall::{Database, Keyspace, KeyspaceCreateOptions};
use std::collections::BTreeMap;
use std::sync::Arc;
use verif_harness::json::J;
use verif_harness::*;

struct KeyFilter;
impl CompactionFilter for KeyFilter {
    fn filter_item(&mut self, item: ItemAccessor<'_>, _ctx: &Context) -> fjall::compaction::filter::CompactionFilterResult {
        let k = item.key();
        if k.starts_with(b"r") { Ok(Verdict::Remove) } else if k.starts_with(b"x") { Ok(Verdict::ReplaceValue(b"REPL".to_vec().into())) } else { Ok(Verdict::Keep) }
    }
}
struct KeyFactory;
impl Factory for KeyFactory {
    fn name(&self) -> &str { "key-filter" }
    fn make_filter(&self, _ctx: &Context) -> Box<dyn CompactionFilter> { Box::new(KeyFilter) }
}

fn assigned(variant: u64, name: &str) -> bool {
    match variant { 0 => name == "f1", 1 => name.starts_with('f'), _ => false }
}

fn open(dir: &std::path::Path, variant: u64) -> fjall::Result<Database> {
    Database::builder(dir)
        .worker_threads_unchecked(0)
        .with_compaction_filter_factories(Arc::new(move |name| if assigned(variant, name) { Some(Arc::new(KeyFactory) as Arc<dyn Factory>) } else { None }))
        .open()
}

fn filtered(key: &[u8], v: &Option<Vec<u8>>) -> Option<Vec<u8>> {
    match v { None => None, Some(x) => if key.starts_with(b"r") { None } else if key.starts_with(b"x") { Some(b"REPL".to_vec()) } else { Some(x.clone()) } }
}

struct Failure { kind: &'static str, detail: String, witness: Option<String> }
#[derive(Default, Clone)]
struct KeyState { orig: Option<Vec<u8>>, filtered_seen: bool }

fn run_case(seed: u64, lean: &mut Lean, hist: &mut BTreeMap<String, u64>, samples: &mut Vec<J>, thorough: bool) -> (Vec<Failure>, bool, u64) {
    let mut r = Rng::new(seed);
    let mut fails = vec![];
    let variant = r.below(3);
    let names = ["f1", "f2", "p1"];
    let keys: Vec<Vec<u8>> = ["r0", "r1", "x0", "x1", "k0", "k1"].iter().map(|s| s.as_bytes().to_vec()).collect();
    let scratch = Scratch::new("flt");
    let dir = scratch.join("db");
    let mut db = Some(open(&dir, variant).unwrap());
    let mut kss: BTreeMap<&str, Keyspace> = BTreeMap::new();
    let mut st: BTreeMap<&str, BTreeMap<Vec<u8>, KeyState>> = BTreeMap::new();
    let mut trace: Vec<String> = vec![];
    let mut diverged: BTreeMap<&str, bool> = BTreeMap::new();
    let mut ids: BTreeMap<&str, u64> = BTreeMap::new();
    lean.ask("kv.reset");
    *hist.entry(format!("assigner-variant={variant}")).or_insert(0) += 1;
    let mut saw_filtered = false;
    let mut reopened_after_filter = false;
    macro_rules! fail { ($k:expr, $($a:tt)*) => {{ fails.push(Failure { kind: $k, detail: format!("{} [assigner variant {variant}]; trace={:?}", format!($($a)*), trace), witness: None }); return (fails, false, 0); }} }
    macro_rules! dbref { () => { db.as_ref().unwrap() } }
    for n in names {
        let ks = dbref!().keyspace(n, KeyspaceCreateOptions::default).unwrap();
        if fjall::verif::keyspace_has_compaction_filter(&ks) != assigned(variant, n) { fail!("impl-vs-oracle", "keyspace {n}: filter installed = {} but the assigner says {}", !assigned(variant, n), assigned(variant, n)); }
        { use fjall::AbstractTree; if ks.tree.tree_config().compaction_filter_factory.is_some() != assigned(variant, n) { fail!("impl-vs-oracle", "keyspace {n}: the tree's configuration has a filter factory = {} but the assigner says {}", !assigned(variant, n), assigned(variant, n)); } }
        ids.insert(n, ks.id());
        kss.insert(n, ks);
        st.insert(n, BTreeMap::new());
        diverged.insert(n, false);
    }
    let nops = r.range(10, if thorough { 80 } else { 40 });
    for _ in 0..nops {
        // keep writers from stalling with 0 worker threads
        if kss.values().any(|k| k.sealed_memtable_count() >= 3) {
            while fjall::verif::queued_worker_messages(dbref!()) > 0 { let _ = fjall::verif::verif_worker_step(dbref!()); }
            for n in names { diverged.insert(n, true); }
        }
        let n = *r.pick(&names);
        let ks = kss[n].clone();
        let has = assigned(variant, n);
        let mut ev = r.below(18);
        // a compound scenario: pending flushes, a journal rotation, a few single worker steps, then (ev 13) a reopen
        if ev == 17 {
            for nn in names { if r.chance(2, 3) && kss[nn].sealed_memtable_count() < 2 && kss[nn].rotate_memtable().unwrap_or(false) { lean.ask(&format!("kv.op rotate {}", ids[nn])); trace.push(format!("rotate {nn}")); } }
            if let Err(e) = fjall::verif::verif_rotate_journal(dbref!()) { fail!("impl-vs-oracle", "journal rotation failed: {e:?}"); }
            trace.push("rotate-journal".into());
            for _ in 0..r.range(1, 2) {
                if fjall::verif::queued_worker_messages(dbref!()) == 0 { break; }
                let kind = fjall::verif::verif_worker_step(dbref!()).unwrap();
                trace.push(format!("worker-step {kind:?}"));
            }
            if r.chance(1, 2) { fjall::verif::verif_journal_maintenance(dbref!()).unwrap(); trace.push("journal-maintenance".into()); }
            for nn in names { diverged.insert(nn, true); }
            *hist.entry("pending-flush+journal-rotation+worker-step+reopen".into()).or_insert(0) += 1;
            ev = 13;
        }
        match ev {
            0..=5 => {
                let k = r.pick(&keys).clone();
                let v = if r.chance(1, 8) { b"REPL".to_vec() } else { vec![b'v', r.below(200) as u8] };
                ks.insert(k.clone(), v.clone()).unwrap();
                st.get_mut(n).unwrap().insert(k.clone(), KeyState { orig: Some(v.clone()), filtered_seen: false });
                lean.ask(&format!("kv.op insert {} {} {}", ids[n], hex(&k), hex(&v)));
                trace.push(format!("insert {n} {} {}", String::from_utf8_lossy(&k), hex(&v)));
            }
            6 => {
                let k = r.pick(&keys).clone();
                ks.remove(k.clone()).unwrap();
                st.get_mut(n).unwrap().insert(k.clone(), KeyState { orig: None, filtered_seen: false });
                lean.ask(&format!("kv.op remove {} {}", ids[n], hex(&k)));
                trace.push(format!("remove {n} {}", String::from_utf8_lossy(&k)));
            }
            7 | 8 => {
                if ks.sealed_memtable_count() < 2 && ks.rotate_memtable().unwrap_or(false) { lean.ask(&format!("kv.op rotate {}", ids[n])); trace.push(format!("rotate {n}")); }
            }
            9 | 10 => {
                let mut guard = 0;
                while fjall::verif::queued_worker_messages(dbref!()) > 0 && guard < 60 {
                    guard += 1;
                    let before: Vec<(&str, usize, usize)> = names.iter().map(|n| (*n, kss[n].sealed_memtable_count(), kss[n].table_count())).collect();
                    let kind = fjall::verif::verif_worker_step(dbref!()).unwrap();
                    for (nn, s, t) in before {
                        if kind == Some("flush") && kss[nn].sealed_memtable_count() < s { lean.ask(&format!("kv.op flush {} 0", ids[nn])); }
                        if kind == Some("compact") && kss[nn].table_count() != t { diverged.insert(nn, true); }
                    }
                }
                trace.push(format!("workers x{guard}"));
            }
            11 | 12 => {
                // flush everything of this keyspace, then compact it completely
                if ks.rotate_memtable().unwrap_or(false) { lean.ask(&format!("kv.op rotate {}", ids[n])); }
                let mut guard = 0;
                while fjall::verif::queued_worker_messages(dbref!()) > 0 && guard < 60 {
                    guard += 1;
                    let before: Vec<(&str, usize, usize)> = names.iter().map(|n| (*n, kss[n].sealed_memtable_count(), kss[n].table_count())).collect();
                    let kind = fjall::verif::verif_worker_step(dbref!()).unwrap();
                    for (nn, s, t) in before {
                        if kind == Some("flush") && kss[nn].sealed_memtable_count() < s { lean.ask(&format!("kv.op flush {} 0", ids[nn])); }
                        if kind == Some("compact") && kss[nn].table_count() != t { diverged.insert(nn, true); }
                    }
                }
                ks.major_compact().unwrap();
                if has { lean.ask(&format!("kv.op compactfall {} 0", ids[n])); } else { lean.ask(&format!("kv.op compactall {} 0", ids[n])); }
                trace.push(format!("major_compact {n}"));
                *hist.entry("major-compact".into()).or_insert(0) += 1;
                // everything of this keyspace went through the filter
                for (k, s) in st.get_mut(n).unwrap().iter_mut() {
                    let got = ks.get(k).unwrap().map(|v| v.to_vec());
                    let want = if has { filtered(k, &s.orig) } else { s.orig.clone() };
                    if got != want { fail!("impl-vs-oracle", "after flushing everything and major_compact of {n}: key {} reads {:?}, expected the {} form {:?}", String::from_utf8_lossy(k), got.as_ref().map(|x| hex(x)), if has { "filtered" } else { "original" }, want.as_ref().map(|x| hex(x))); }
                    if has && want != s.orig { s.filtered_seen = true; saw_filtered = true; }
                }
            }
            15 => {
                // a batch over several keyspaces (filtered and not): one journal record, applied to each keyspace
                let mut b = dbref!().batch();
                let mut spec = vec![];
                let mut seen = std::collections::BTreeSet::new();
                for _ in 0..r.range(2, 3) {
                    let n2 = *r.pick(&names);
                    let k = r.pick(&keys).clone();
                    if !seen.insert((n2, k.clone())) { continue; }
                    let v = vec![b'b', r.below(200) as u8];
                    b.insert(&kss[n2], k.clone(), v.clone());
                    st.get_mut(n2).unwrap().insert(k.clone(), KeyState { orig: Some(v.clone()), filtered_seen: false });
                    spec.push(format!("{}:{}:{}", ids[n2], hex(&k), hex(&v)));
                }
                b.commit().unwrap();
                lean.ask(&format!("kv.op batch {}", spec.join(";")));
                trace.push(format!("batch {}", spec.join(";")));
                *hist.entry("batch".into()).or_insert(0) += 1;
            }
            14 => {
                // journal rotation: later reopens replay a sealed journal that may straddle a flush
                if let Err(e) = fjall::verif::verif_rotate_journal(dbref!()) { fail!("impl-vs-oracle", "journal rotation failed: {e:?}"); }
                trace.push("rotate-journal".into());
                *hist.entry("rotate-journal".into()).or_insert(0) += 1;
            }
            13 => {
                drop(ks);
                kss.clear();
                drop(db.take());
                db = Some(match open(&dir, variant) { Ok(d) => d, Err(e) => fail!("impl-vs-oracle", "reopen failed: {e:?}") });
                for nn in names {
                    let k2 = dbref!().keyspace(nn, KeyspaceCreateOptions::default).unwrap();
                    if fjall::verif::keyspace_has_compaction_filter(&k2) != assigned(variant, nn) { fail!("impl-vs-oracle", "after reopen keyspace {nn}: filter installed = {} but the assigner says {}", !assigned(variant, nn), assigned(variant, nn)); }
                    { use fjall::AbstractTree; if k2.tree.tree_config().compaction_filter_factory.is_some() != assigned(variant, nn) { fail!("impl-vs-oracle", "after reopen keyspace {nn}: the tree's configuration has a filter factory = {} but the assigner says {}", !assigned(variant, nn), assigned(variant, nn)); } }
                    kss.insert(nn, k2);
                    diverged.insert(nn, true); // the Mvcc model run has no reopen
                    // region of known finding F13-remove (probed only by the stored witness below):
                    // a key the filter *removed* can reappear after a reopen while the journal still
                    // holds its record, because the evicted tombstone lowers the tables' highest seqno
                    if assigned(variant, nn) { for (k, s) in st.get_mut(nn).unwrap().iter_mut() { if k.starts_with(b"r") { s.filtered_seen = false; } } }
                }
                trace.push("reopen".into());
                if saw_filtered { reopened_after_filter = true; }
                *hist.entry("reopen".into()).or_insert(0) += 1;
            }
            16 => {
                // one worker message only (a flush of one keyspace leaves the others' sealed memtables pending),
                // sometimes followed by journal maintenance
                if fjall::verif::queued_worker_messages(dbref!()) > 0 {
                    let before: Vec<(&str, usize, usize)> = names.iter().map(|n| (*n, kss[n].sealed_memtable_count(), kss[n].table_count())).collect();
                    let kind = fjall::verif::verif_worker_step(dbref!()).unwrap();
                    for (nn, s, t) in before {
                        if kind == Some("flush") && kss[nn].sealed_memtable_count() < s { lean.ask(&format!("kv.op flush {} 0", ids[nn])); }
                        if kind == Some("compact") && kss[nn].table_count() != t { diverged.insert(nn, true); }
                    }
                    trace.push(format!("worker-step {kind:?}"));
                    *hist.entry("single-worker-step".into()).or_insert(0) += 1;
                }
                if r.chance(1, 2) { fjall::verif::verif_journal_maintenance(dbref!()).unwrap(); trace.push("journal-maintenance".into()); }
            }
            _ => {}
        }
        // observations of every key of every keyspace, point read and scan
        for nn in names {
            let ksn = &kss[nn];
            let hasn = assigned(variant, nn);
            let scan: BTreeMap<Vec<u8>, Vec<u8>> = ksn.iter().map(|g| { let (k, v) = g.into_inner().unwrap(); (k.to_vec(), v.to_vec()) }).collect();
            for k in &keys {
                let got = ksn.get(k).unwrap().map(|v| v.to_vec());
                if got != scan.get(k).cloned() {
                    fails.push(Failure { kind: "impl-vs-oracle", detail: format!("keyspace {nn}: point read of {} = {:?} but the scan shows {:?} [assigner variant {variant}]; trace={trace:?}", String::from_utf8_lossy(k), got.as_ref().map(|x| hex(x)), scan.get(k).map(|x| hex(x))), witness: None });
                    return (fails, false, 0);
                }
                let s = st.get_mut(nn).unwrap().entry(k.clone()).or_default();
                let filt = if hasn { filtered(k, &s.orig) } else { s.orig.clone() };
                let ok = if s.filtered_seen { got == filt } else { got == s.orig || got == filt };
                if !ok {
                    fails.push(Failure { kind: "impl-vs-oracle", detail: format!("keyspace {nn} ({}): key {} reads {:?}; written {:?}, filtered form {:?}, filtered form already observed: {} [assigner variant {variant}]; trace={trace:?}", if hasn { "filtered" } else { "no filter" }, String::from_utf8_lossy(k), got.as_ref().map(|x| hex(x)), s.orig.as_ref().map(|x| hex(x)), filt.as_ref().map(|x| hex(x)), s.filtered_seen), witness: None });
                    return (fails, false, 0);
                }
                if got == filt && filt != s.orig { s.filtered_seen = true; saw_filtered = true; }
                if !diverged[nn] && !no_model() {
                    let m = lean.ask(&format!("kv.op get {} {}", ids[nn], hex(k)));
                    let real = match &got { None => "val:none".to_string(), Some(v) => format!("val:{}", hex(v)) };
                    if m != real {
                        fails.push(Failure { kind: "model-vs-impl", detail: format!("keyspace {nn}: key {}: model {m} vs real {real} [assigner variant {variant}]; trace={trace:?}", String::from_utf8_lossy(k)), witness: None });
                        return (fails, false, 0);
                    }
                }
            }
        }
    }
    let nontrivial = saw_filtered;
    let _ = reopened_after_filter;
    if samples.len() < 2 && nontrivial && trace.len() < 30 {
        let mut s = J::obj();
        s.set("case_seed", J::s(seed.to_string()));
        s.set("assigner_variant", J::i(variant as i64));
        s.set("program", J::Arr(trace.iter().map(|t| J::s(t.clone())).collect()));
        samples.push(s);
    }
    let h = { let mut x = 0xcbf29ce484222325u64; for b in format!("{variant}{trace:?}").bytes() { x ^= b as u64; x = x.wrapping_mul(0x100000001b3); } x };
    (fails, nontrivial, h)
}

/// The filter acts in a keyspace whatever its other options are: keyspaces created with non-default options
/// (FIFO strategy with a limit that never evicts, key-value separation, a small memtable) get the filter assigned by
/// name, one memtable is flushed and the keyspace compacted completely; the same after a reopen.
fn options_probe() -> Option<Failure> {
    use fjall::AbstractTree;
    let scratch = Scratch::new("fltopt");
    let dir = scratch.join("db");
    let mk: Vec<(&str, Box<dyn Fn() -> KeyspaceCreateOptions>)> = vec![
        ("f-fifo", Box::new(|| KeyspaceCreateOptions::default().compaction_strategy(Arc::new(fjall::compaction::Fifo::new(u64::MAX / 4, None))))),
        ("f-blob", Box::new(|| KeyspaceCreateOptions::default().with_kv_separation(Some(fjall::KvSeparationOptions::default().separation_threshold(1))))),
        ("f-small", Box::new(|| KeyspaceCreateOptions::default().max_memtable_size(1 << 16))),
        ("p-fifo", Box::new(|| KeyspaceCreateOptions::default().compaction_strategy(Arc::new(fjall::compaction::Fifo::new(u64::MAX / 4, None))))),
    ];
    for round in 0..2 {
        let db = open(&dir, 1).ok()?; // variant 1: names starting with 'f' are filtered
        for (name, opts) in &mk {
            let ks = db.keyspace(name, || opts()).ok()?;
            let has = name.starts_with('f');
            if ks.tree.tree_config().compaction_filter_factory.is_some() != has {
                return Some(Failure { kind: "impl-vs-oracle", detail: format!("keyspace {name} (round {round}: {}): the tree's configuration has a filter factory = {} but the assigner says {has}", if round == 0 { "created" } else { "recovered" }, !has), witness: None });
            }
            let tag = format!("v{round}");
            for k in ["k0", "r0", "x0"] { ks.insert(k, &tag).ok()?; }
            if !ks.rotate_memtable().ok()? { return None; }
            let mut guard = 0;
            while fjall::verif::queued_worker_messages(&db) > 0 && guard < 40 { guard += 1; if fjall::verif::verif_worker_step(&db).is_err() { return None; } }
            if ks.major_compact().is_err() { return None; }
            let got: Vec<Option<Vec<u8>>> = ["k0", "r0", "x0"].iter().map(|k| ks.get(k).ok().flatten().map(|v| v.to_vec())).collect();
            let want: Vec<Option<Vec<u8>>> = if has { vec![Some(tag.clone().into_bytes()), None, Some(b"REPL".to_vec())] } else { vec![Some(tag.clone().into_bytes()); 3] };
            if got != want {
                return Some(Failure { kind: "impl-vs-oracle", detail: format!("keyspace {name} (round {round}, {}): after flushing everything and major_compact k0 / r0 / x0 read {:?}, expected {:?}", if has { "filter assigned" } else { "no filter" }, got.iter().map(|x| x.as_ref().map(|v| String::from_utf8_lossy(v).to_string())).collect::<Vec<_>>(), want.iter().map(|x| x.as_ref().map(|v| String::from_utf8_lossy(v).to_string())).collect::<Vec<_>>()), witness: None });
            }
        }
    }
    OPTIONS_PROBE_COMPLETED.store(true, std::sync::atomic::Ordering::Release);
    None
}
static OPTIONS_PROBE_COMPLETED: std::sync::atomic::AtomicBool = std::sync::atomic::AtomicBool::new(false);

/// stored witness of known finding F13-remove
fn witness_f13_remove() -> Option<Failure> {
    let scratch = Scratch::new("f13");
    let dir = scratch.join("db");
    {
        let db = open(&dir, 0).unwrap();
        let ks = db.keyspace("f1", KeyspaceCreateOptions::default).unwrap();
        ks.insert("r1", "v").unwrap();
        ks.rotate_memtable().unwrap();
        while fjall::verif::queued_worker_messages(&db) > 0 { let _ = fjall::verif::verif_worker_step(&db); }
        ks.major_compact().unwrap();
        if ks.get("r1").unwrap().is_some() { return Some(Failure { kind: "impl-vs-oracle", detail: "witness F13-remove: the filter did not remove r1".into(), witness: None }); }
    }
    let db = open(&dir, 0).unwrap();
    let ks = db.keyspace("f1", KeyspaceCreateOptions::default).unwrap();
    if ks.get("r1").unwrap().is_some() {
        return Some(Failure { kind: "impl-vs-oracle", detail: "a key removed by the compaction filter (tombstone evicted at the last level) is back after a reopen: insert f1.r1; flush; major_compact (r1 gone); reopen -> get(r1) = original".into(), witness: Some("F13-remove".into()) });
    }
    None
}

fn main() {
    let args: Vec<String> = std::env::args().collect();
    let mut replay = None;
    let mut i = 1;
    while i < args.len() {
        if args[i] == "--replay-seed" { replay = args[i + 1].parse().ok(); i += 1; }
        i += 1;
    }
    let thorough = tier_is_thorough();
    let seed = env_u64("VERIF_SEED", 1);
    let n = env_u64("VERIF_CASES", if thorough { 10000 } else { 300 });
    if std::env::var("VERIF_QUIET_PANICS").is_ok() { std::panic::set_hook(Box::new(|_| {})); }
    let t0 = std::time::Instant::now();
    let mut lean = Lean::spawn();
    let mut master = Rng::new(seed);
    let seeds: Vec<u64> = match replay { Some(s) => vec![s], None => (0..n).map(|_| master.fork()).collect() };
    let mut all = vec![];
    let mut nontrivial = std::collections::HashSet::new();
    let mut samples = vec![];
    let mut hist = BTreeMap::new();
    let mut cases = 0;
    if let Some(f) = witness_f13_remove() { all.push((0, f)); }
    if let Some(f) = options_probe() { all.push((0, f)); }
    *hist.entry(if OPTIONS_PROBE_COMPLETED.load(std::sync::atomic::Ordering::Acquire) { "options-probe-completed".to_string() } else { "options-probe-stopped-early".to_string() }).or_insert(0) += 1;
    for cs in seeds {
        let res = std::panic::catch_unwind(std::panic::AssertUnwindSafe(|| run_case(cs, &mut lean, &mut hist, &mut samples, thorough)));
        cases += 1;
        match res {
            Ok((f, nt, h)) => { if nt { nontrivial.insert(h); } for x in f { all.push((cs, x)); } }
            Err(_) => all.push((cs, Failure { kind: "harness", detail: "panic in the filt engine".into(), witness: None })),
        }
        if all.iter().filter(|(_, f)| f.witness.is_none()).count() > 5 { break; }
    }
    let mut res = J::obj();
    res.set("engine", J::s("filt"));
    res.set("seed", J::i(seed as i64));
    res.set("cases", J::i(cases));
    res.set("distinct_nontrivial", J::i(nontrivial.len() as i64));
    res.set("distribution", J::Obj(hist.iter().map(|(k, v)| (k.clone(), J::i(*v as i64))).collect()));
    res.set("model_requests", J::i(lean.requests as i64));
    res.set("samples", J::Arr(samples));
    res.set("wall_s", J::Num(t0.elapsed().as_secs_f64()));
    res.set("failures", J::Arr(all.iter().map(|(cs, f)| { let mut o = J::obj(); o.set("case_seed", J::s(cs.to_string())); o.set("kind", J::s(f.kind)); o.set("detail", J::s(f.detail.clone())); if let Some(w) = &f.witness { o.set("witness_id", J::s(w.clone())); } o }).collect()));
    println!("RESULT {}", res.render());
    std::process::exit(if all.is_empty() { 0 } else { 1 });
}
