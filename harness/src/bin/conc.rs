//! `conc` engine (C06, C14): real threads driven through the pause points of the write path and of
//! `SnapshotTracker::open`, so that the thread schedule is an input; the same schedule is run on the
//! Lean `Conc` model and both are compared after every step.  An implementation-only oracle checks
//! atomic visibility of every snapshot read and the final content.
use fjall::{Database, Keyspace, KeyspaceCreateOptions, Readable, Snapshot};
use std::cell::Cell;
use std::collections::BTreeMap;
use std::sync::{Arc, Condvar, Mutex, OnceLock};
use std::time::{Duration, Instant};
use verif_harness::json::J;
use verif_harness::*;

#[derive(Clone, Debug)]
enum Cmd { Write(Vec<(usize, Vec<u8>, Option<Vec<u8>>)>), Snap, Read(usize, Vec<u8>), ReadTop(usize, Vec<u8>), Rotate(usize), Ingest(usize, Vec<(Vec<u8>, Option<Vec<u8>>)>), Close }

#[derive(Default)]
struct Agent { at: Option<&'static str>, gen: u64, done: bool, out: Vec<String>, panicked: bool }
struct Ctl { m: Mutex<Vec<Agent>>, cv: Condvar }
static CTL: OnceLock<Ctl> = OnceLock::new();
thread_local! { static AGENT: Cell<Option<usize>> = Cell::new(None); static IN_SNAP: Cell<bool> = Cell::new(false); }
fn ctl() -> &'static Ctl { CTL.get_or_init(|| Ctl { m: Mutex::new(vec![]), cv: Condvar::new() }) }

fn park(id: usize, name: &'static str) {
    let c = ctl();
    let mut g = c.m.lock().unwrap();
    g[id].at = Some(name);
    let my = g[id].gen;
    c.cv.notify_all();
    while g[id].gen == my { g = c.cv.wait(g).unwrap(); }
    g[id].at = None;
}
/// gate for the (non-agent) worker thread of `worker_channel_probe`: (armed, parked, go)
static WGATE: OnceLock<(Mutex<(bool, bool, bool)>, Condvar)> = OnceLock::new();
fn wgate() -> &'static (Mutex<(bool, bool, bool)>, Condvar) { WGATE.get_or_init(|| (Mutex::new((false, false, false)), Condvar::new())) }

fn hook(name: &'static str) {
    if name == "worker.rotate.begin" {
        let (m, cv) = wgate();
        let mut g = m.lock().unwrap();
        if g.0 && !g.1 { g.1 = true; cv.notify_all(); while !g.2 { g = cv.wait(g).unwrap(); } }
        return;
    }
    if let Some(id) = AGENT.with(|a| a.get()) {
        match name {
            "write.begin" | "rotate.begin" | "ingest.begin" | "write.stall" => {}
            "snapshot.loaded" if !IN_SNAP.with(|s| s.get()) => {}
            _ => park(id, name),
        }
    }
}
fn release(id: usize) { let c = ctl(); let mut g = c.m.lock().unwrap(); g[id].gen += 1; g[id].at = None; c.cv.notify_all(); }
/// waits until the agent is parked (returns the point) or finished (returns "done"); None = timeout
fn wait_parked(id: usize, timeout: Duration) -> Option<&'static str> {
    let c = ctl();
    let deadline = Instant::now() + timeout;
    let mut g = c.m.lock().unwrap();
    loop {
        if let Some(p) = g[id].at { return Some(p); }
        if g[id].done { return Some("done"); }
        let now = Instant::now();
        if now >= deadline { return None; }
        let (g2, _) = c.cv.wait_timeout(g, deadline - now).unwrap();
        g = g2;
    }
}

fn show(v: &Option<Vec<u8>>) -> String { match v { Some(v) => hex(v), None => "none".into() } }

fn agent_body(id: usize, prog: Vec<Cmd>, db: Database, kss: Vec<Keyspace>) {
    AGENT.with(|a| a.set(Some(id)));
    let mut snap: Option<Snapshot> = None;
    for cmd in prog {
        park(id, "cmd.begin");
        let out = match &cmd {
            Cmd::Write(items) => {
                let r = if items.len() == 1 {
                    let (k, key, v) = &items[0];
                    match v { Some(v) => kss[*k].insert(key.clone(), v.clone()), None => kss[*k].remove(key.clone()) }
                } else {
                    let mut b = db.batch();
                    for (k, key, v) in items { match v { Some(v) => b.insert(&kss[*k], key.clone(), v.clone()), None => b.remove(&kss[*k], key.clone()) } }
                    b.commit()
                };
                match r { Ok(()) => "ok".to_string(), Err(e) => format!("err:{e:?}") }
            }
            Cmd::Snap => { snap = None; /* the old snapshot goes first: no overlap that a concurrent GC could observe */ IN_SNAP.with(|s| s.set(true)); let s = db.snapshot(); IN_SNAP.with(|s| s.set(false)); let i = s.seqno(); snap = Some(s); format!("view={i}") }
            Cmd::Read(k, key) => match &snap { Some(s) => match s.get(&kss[*k], key) { Ok(v) => show(&v.map(|x| x.to_vec())), Err(e) => format!("err:{e:?}") }, None => "noview".into() },
            Cmd::ReadTop(k, key) => match kss[*k].get(key) { Ok(v) => show(&v.map(|x| x.to_vec())), Err(e) => format!("err:{e:?}") },
            Cmd::Rotate(k) => match kss[*k].rotate_memtable() { Ok(b) => format!("rotated={b}"), Err(e) => format!("err:{e:?}") },
            Cmd::Ingest(k, items) => {
                let r = (|| -> fjall::Result<()> {
                    let mut ing = kss[*k].start_ingestion()?;
                    for (key, v) in items { match v { Some(v) => ing.write(key.clone(), v.clone())?, None => ing.write_tombstone(key.clone())? } }
                    ing.finish()
                })();
                match r { Ok(()) => "ok".to_string(), Err(e) => format!("err:{e:?}") }
            }
            Cmd::Close => { snap = None; "closed".into() }
        };
        ctl().m.lock().unwrap()[id].out.push(out);
    }
    drop(snap);
    let c = ctl();
    let mut g = c.m.lock().unwrap();
    g[id].done = true;
    c.cv.notify_all();
}

struct Failure { kind: &'static str, detail: String, witness: Option<String> }

fn enc_cmd(c: &Cmd) -> String {
    match c {
        Cmd::Write(items) => format!("W{}", items.iter().map(|(k, key, v)| format!("{}:{}:{}", k + 1, hex(key), v.as_ref().map(|v| hex(v)).unwrap_or("~".into()))).collect::<Vec<_>>().join(";")),
        Cmd::Snap => "S".into(),
        Cmd::Read(k, key) => format!("R{}:{}", k + 1, hex(key)),
        Cmd::ReadTop(k, key) => format!("T{}:{}", k + 1, hex(key)),
        Cmd::Rotate(_) => "O".into(),
        Cmd::Ingest(k, items) => format!("I{}", items.iter().map(|(key, v)| format!("{}:{}:{}", k + 1, hex(key), v.as_ref().map(|v| hex(v)).unwrap_or("~".into()))).collect::<Vec<_>>().join(";")),
        Cmd::Close => "X".into(),
    }
}
fn field<'a>(rep: &'a str, name: &str) -> &'a str {
    for w in rep.split(' ') { if let Some(v) = w.strip_prefix(&format!("{name}=")) { return v; } }
    ""
}

fn gen_progs(r: &mut Rng, thorough: bool) -> Vec<Vec<Cmd>> {
    if r.chance(1, 4) {
        // hot-key programs: single-item inserts and removes of one key against snapshot readers of that key,
        // so that every snapshot opened inside a writer's window reads something the writer is changing
        let (hk, hkey) = (r.below(2) as usize, b"k1".to_vec());
        let mut progs = vec![];
        let mut ctr = 100u8;
        for _ in 0..r.range(1, 2) {
            let mut p = vec![];
            for i in 0..r.range(2, if thorough { 5 } else { 4 }) { ctr += 1; p.push(Cmd::Write(vec![(hk, hkey.clone(), if i % 2 == 0 || r.chance(1, 4) { Some(vec![ctr]) } else { None })])); }
            progs.push(p);
        }
        for _ in 0..r.range(1, 2) {
            let mut p = vec![];
            for _ in 0..r.range(1, 3) {
                p.push(Cmd::Snap);
                for _ in 0..r.range(2, 3) { p.push(Cmd::Read(hk, hkey.clone())); }
                p.push(Cmd::Close);
            }
            progs.push(p);
        }
        return progs;
    }
    let keys: Vec<Vec<u8>> = vec![b"k0".to_vec(), b"k1".to_vec(), b"k2".to_vec()];
    let nw = r.range(1, 3);
    let nr = r.range(1, 2);
    let mut progs = vec![];
    let mut ctr = 0u8;
    for _ in 0..nw {
        let n = r.range(1, if thorough { 4 } else { 3 });
        let mut p = vec![];
        for _ in 0..n {
            match r.below(10) {
                0..=5 => {
                    let m = if r.chance(1, 3) { 1 } else { r.range(2, 3) };
                    let mut items = vec![];
                    for _ in 0..m { ctr += 1; items.push((r.below(2) as usize, r.pick(&keys).clone(), if r.chance(if m == 1 { 3 } else { 5 }, if m == 1 { 5 } else { 6 }) { Some(vec![ctr]) } else { None })); }
                    // a batch names each key of a keyspace at most once (same-seqno duplicates are outside the model's scope)
                    let mut seen = std::collections::HashSet::new();
                    items.retain(|(k, key, _)| seen.insert((*k, key.clone())));
                    p.push(Cmd::Write(items));
                }
                6..=7 => p.push(Cmd::ReadTop(r.below(2) as usize, r.pick(&keys).clone())),
                8 if r.chance(1, 2) => {
                    // bulk ingestion: keys in ascending order, each once
                    let mut items: std::collections::BTreeMap<Vec<u8>, Option<Vec<u8>>> = Default::default();
                    for _ in 0..r.range(1, 2) { ctr += 1; items.insert(r.pick(&keys).clone(), Some(vec![ctr])); }
                    p.push(Cmd::Ingest(r.below(2) as usize, items.into_iter().collect()));
                }
                _ => p.push(Cmd::Rotate(r.below(2) as usize)),
            }
        }
        progs.push(p);
    }
    for _ in 0..nr {
        let mut p = vec![];
        for _ in 0..r.range(1, 2) {
            p.push(Cmd::Snap);
            for _ in 0..r.range(2, 4) { p.push(Cmd::Read(r.below(2) as usize, r.pick(&keys).clone())); }
            if r.chance(1, 2) { p.push(Cmd::Close); }
        }
        if r.chance(1, 2) { p.push(Cmd::ReadTop(r.below(2) as usize, r.pick(&keys).clone())); }
        // a snapshot is dropped explicitly before the thread ends (the model has no implicit drop)
        if !matches!(p.last(), Some(Cmd::Close)) && p.iter().any(|c| matches!(c, Cmd::Snap)) { let at = p.iter().rposition(|c| matches!(c, Cmd::Read(..) | Cmd::Snap)).unwrap() + 1; p.insert(at, Cmd::Close); }
        progs.push(p);
    }
    progs
}

fn run_case(seed: u64, lean: &mut Lean, hist: &mut BTreeMap<String, u64>, samples: &mut Vec<J>, thorough: bool, nofloor: bool) -> (Vec<Failure>, bool, u64) {
    let mut r = Rng::new(seed);
    let mut fails: Vec<Failure> = vec![];
    let progs = gen_progs(&mut r, thorough);
    let n = progs.len();
    let mirror = n; // model-only thread that mirrors version registrations
    let scratch = Scratch::new("cnc");
    let dir = scratch.join("db");
    let db = Database::builder(&dir).worker_threads_unchecked(0).open().unwrap();
    let a = db.keyspace("a", KeyspaceCreateOptions::default).unwrap();
    let b = db.keyspace("b", KeyspaceCreateOptions::default).unwrap();
    let z = db.keyspace("z", KeyspaceCreateOptions::default).unwrap();
    z.insert("old", "1").unwrap();
    z.rotate_memtable().unwrap();
    while fjall::verif::queued_worker_messages(&db) > 0 { let _ = fjall::verif::verif_worker_step(&db); }
    let kss = vec![a.clone(), b.clone()];
    let mut trace: Vec<String> = vec![];
    macro_rules! fail { ($k:expr, $($a:tt)*) => {{ fails.push(Failure { kind: $k, detail: format!("{}; progs={:?}; trace={:?}", format!($($a)*), progs, trace), witness: None }); }} }

    // model
    let mut progs_enc: Vec<String> = progs.iter().map(|p| if p.is_empty() { "-".into() } else { p.iter().map(enc_cmd).collect::<Vec<_>>().join(",") }).collect();
    progs_enc.push(vec!["G"; 64].join(","));
    progs_enc.push(vec!["C"; 64].join(","));
    let gcmirror = n + 1; // model-only thread that mirrors tracker GC runs started by the controller
    let rep = lean.ask(&format!("conc.init {} {} {} {} {}", db.seqno(), db.visible_seqno(), fjall::verif::tracker_watermark(&db), if nofloor { "nofloor" } else { "floor" }, progs_enc.join("|")));
    let nm = no_model();
    if !nm && rep != "ok" { fail!("harness", "conc.init: {rep}"); return (fails, false, 0); }

    // agents
    { let mut g = ctl().m.lock().unwrap(); g.clear(); for _ in 0..n { g.push(Agent::default()); } }
    let mut handles = vec![];
    for (id, p) in progs.iter().enumerate() {
        let (p, db2, k2) = (p.clone(), db.clone(), kss.clone());
        handles.push(std::thread::spawn(move || {
            let r = std::panic::catch_unwind(std::panic::AssertUnwindSafe(|| agent_body(id, p, db2, k2)));
            if r.is_err() { let c = ctl(); let mut g = c.m.lock().unwrap(); g[id].panicked = true; g[id].done = true; c.cv.notify_all(); }
        }));
    }
    let long = Duration::from_secs(60);
    let mut at: Vec<&'static str> = vec![];
    for id in 0..n { at.push(wait_parked(id, long).unwrap_or("timeout")); }
    let mut pc = vec![0usize; n];            // index of the current command
    let mut items_left = vec![0usize; n];    // items of the write in flight not yet applied
    let mut holder: Option<usize> = None;    // who holds the journal lock (as the controller believes)
    let mut pending: Option<usize> = None;   // an agent released into a held lock
    let mut loaders = 0usize;                // agents parked inside `open`
    // implementation-only oracle bookkeeping
    let mut writes: Vec<(u64, Vec<(usize, Vec<u8>, Option<Vec<u8>>)>)> = vec![]; // (real seqno, items), drawn so far
    let mut views: Vec<Option<u64>> = vec![None; n];
    let mut reads: Vec<(u64, usize, Vec<u8>, String)> = vec![];
    let mut inside_window = false; // something else happened while a writer was between draw and publish
    let mut partial_read = false;
    let mut steps = 0;
    let mut aborted = false;
    let mut pending_gc: Option<(std::thread::JoinHandle<()>, Arc<std::sync::atomic::AtomicBool>)> = None;

    macro_rules! compare { ($what:expr, $rep:expr) => {{
        let (c, v) = (db.seqno(), db.visible_seqno());
        let f = fjall::verif::tracker_write_floor(&db).map(|x| x.to_string()).unwrap_or("none".into());
        let (mc, mv, mf) = (field(&$rep, "c"), field(&$rep, "v"), field(&$rep, "f"));
        let w = fjall::verif::tracker_watermark(&db);
        let mw = field(&$rep, "wm");
        if !nm && (mc != c.to_string() || mv != v.to_string() || (!nofloor && (mf != f || mw != w.to_string()))) {
            fail!("model-vs-impl", "after {}: real (counter={c}, visible={v}, floor={f}, watermark={w}) model (counter={mc}, visible={mv}, floor={mf}, watermark={mw})", $what);
            aborted = true;
        }
        // implementation-only oracle: the GC watermark never passes a live snapshot
        for (vt, vi) in views.iter().enumerate() { if let Some(i) = vi { if w > *i {
            fail!("impl-vs-oracle", "the GC watermark is {w} but thread {vt} holds a live snapshot with instant {i}");
            aborted = true;
        } } }
    }} }

    let mut burst: Option<(usize, u32)> = None; // a reader picked inside a writer's window keeps running for a few steps
    'outer: while !aborted {
        // candidates: agents that are not done
        let live: Vec<usize> = (0..n).filter(|&i| at[i] != "done" && Some(i) != pending).collect();
        if live.is_empty() { break; }
        steps += 1;
        if steps > 400 { fail!("harness", "schedule did not terminate"); break; }
        // a version registration (compaction of the side keyspace) by the controller
        if r.chance(1, 6) {
            let c0 = db.seqno();
            if let Err(e) = z.major_compact() { fail!("impl-vs-oracle", "major_compact failed: {e:?}"); break; }
            let k = db.seqno() - c0;
            let mut rep = String::new();
            for _ in 0..k { lean.ask(&format!("conc.step {mirror}")); rep = lean.ask(&format!("conc.step {mirror}")); }
            trace.push(format!("register x{k}"));
            *hist.entry("registration".into()).or_insert(0) += 1;
            if holder.map(|h| at[h] == "write.drawn" || at[h] == "write.item").unwrap_or(false) { inside_window = true; *hist.entry("registration-inside-apply-window".into()).or_insert(0) += 1; }
            if k > 0 { compare!("a version registration", rep); }
            continue;
        }
        // a tracker GC run by the controller (or, while an `open` is in progress, a probe that it has to wait)
        if pending_gc.is_none() && r.chance(1, 10) {
            if loaders == 0 {
                fjall::verif::tracker_gc(&db);
                let rep = lean.ask(&format!("conc.step {gcmirror}"));
                trace.push("gc".into());
                *hist.entry("gc".into()).or_insert(0) += 1;
                compare!("a tracker GC", rep);
            } else {
                let fin = Arc::new(std::sync::atomic::AtomicBool::new(false));
                let (f2, db2) = (fin.clone(), db.clone());
                let h = std::thread::spawn(move || { fjall::verif::tracker_gc(&db2); f2.store(true, std::sync::atomic::Ordering::Release); });
                std::thread::sleep(Duration::from_millis(if thorough { 40 } else { 15 }));
                let rep = lean.ask(&format!("conc.step {gcmirror}"));
                if !nm && !rep.starts_with("blocked") { fail!("model-vs-impl", "model lets the tracker GC run while an open() is in progress: {rep}"); break; }
                if fin.load(std::sync::atomic::Ordering::Acquire) {
                    fail!("impl-vs-oracle", "SnapshotTracker::gc completed while an open() was between reading the counter and registering its instant (the GC lock does not cover it)");
                    let _ = h.join();
                    break;
                }
                pending_gc = Some((h, fin));
                trace.push("gc: has to wait for the open in progress".into());
                *hist.entry("gc-block-probe".into()).or_insert(0) += 1;
            }
            continue;
        }
        // while a writer is between drawing its seqno and leaving its critical section, readers are what is
        // interesting: half of the time the next step goes to a thread that is about to open a snapshot or read
        let hot = holder.map(|h| matches!(at[h], "write.drawn" | "write.item" | "write.published")).unwrap_or(false);
        let readers: Vec<usize> = live.iter().copied().filter(|&i| Some(i) != holder && matches!((at[i], progs[i].get(pc[i])), ("cmd.begin", Some(Cmd::Snap)) | ("cmd.begin", Some(Cmd::Read(..))) | ("cmd.begin", Some(Cmd::ReadTop(..))) | ("snapshot.loaded", _))).collect();
        let t = if let Some((bt, left)) = burst.filter(|(bt, _)| live.contains(bt) && hot) { burst = if left > 1 { Some((bt, left - 1)) } else { None }; bt }
            else if hot && !readers.is_empty() && r.chance(1, 2) { *hist.entry("reader-scheduled-inside-apply-window".into()).or_insert(0) += 1; let x = *r.pick(&readers); burst = Some((x, 3)); x }
            else { burst = None; *r.pick(&live) };
        let cmd = progs[t].get(pc[t]).cloned();
        let point = at[t];
        // while a GC waits for the GC lock, anything that needs that lock would queue up behind it
        if pending_gc.is_some() && point != "snapshot.loaded" && (matches!((point, &cmd), ("cmd.begin", Some(Cmd::Snap)) | ("cmd.begin", Some(Cmd::Close)) | ("rotate.locked", _) | ("ingest.locked", _))) { continue; }
        // does this step need the journal lock?
        let acquire = point == "cmd.begin" && matches!(cmd, Some(Cmd::Write(_)) | Some(Cmd::Rotate(_)) | Some(Cmd::Ingest(..)));
        if acquire && holder.is_some() {
            // block probe: the agent must not get past the lock
            if pending.is_none() && r.chance(1, 2) {
                let rep = lean.ask(&format!("conc.step {t}"));
                if !nm && !rep.starts_with("blocked") { fail!("model-vs-impl", "model lets thread {t} take the journal lock while thread {holder:?} holds it: {rep}"); break; }
                release(t);
                std::thread::sleep(Duration::from_millis(if thorough { 40 } else { 15 }));
                let g = ctl().m.lock().unwrap();
                if g[t].at.is_some() || g[t].done {
                    let p = g[t].at; drop(g);
                    fail!("impl-vs-oracle", "thread {t} got past the journal lock (now at {p:?}) while thread {holder:?} is inside its critical section");
                    break;
                }
                drop(g);
                pending = Some(t);
                trace.push(format!("t{t}: blocked on the journal lock"));
                *hist.entry("block-probe".into()).or_insert(0) += 1;
            }
            continue;
        }
        // the second half of a rotation runs the tracker GC, which needs the GC lock that a parked `open` holds
        if (point == "rotate.locked" || point == "ingest.locked") && loaders > 0 { continue; }
        if point == "ingest.locked" {
            // the whole rest of `finish` runs without a pause point: flush of the memtable (may register a
            // version), seqno draw + registration of the ingested tables, tracker GC, unlock
            let c0 = db.seqno();
            release(t);
            let Some(now) = wait_parked(t, long) else { fail!("impl-vs-oracle", "thread {t} did not finish its ingestion within 60 s"); aborted = true; break; };
            let k = db.seqno() - c0;
            if k == 0 { fail!("impl-vs-oracle", "an ingestion drew no seqno between taking the journal lock and returning: its tables were registered outside the journal critical section, so a write that had already drawn its seqno can be overtaken (memtable entry older than the ingested table entry: get != scan)"); break; }
            for _ in 0..(k - 1) { lean.ask(&format!("conc.step {mirror}")); lean.ask(&format!("conc.step {mirror}")); }
            let mut rep = String::new();
            for _ in 0..3 { rep = lean.ask(&format!("conc.step {t}")); if !nm && !rep.starts_with("ok") { fail!("model-vs-impl", "model refuses a step of the ingestion of thread {t}: {rep}"); aborted = true; } }
            if let Some(Cmd::Ingest(kk, items)) = &cmd { writes.push((db.seqno() - 1, items.iter().map(|(key, v)| (*kk, key.clone(), v.clone())).collect())); }
            trace.push(format!("t{t}: ingest.locked -> {now} ({k} seqnos)"));
            *hist.entry("ingest".into()).or_insert(0) += 1;
            holder = None; pc[t] += 1; at[t] = now;
            if aborted { break; }
            compare!(format!("the ingestion of thread {t}"), rep);
            if holder.is_none() { if let Some(p) = pending.take() {
                let Some(px) = wait_parked(p, long) else { fail!("impl-vs-oracle", "thread {p} did not get the journal lock after it was released"); break 'outer; };
                let rep2 = lean.ask(&format!("conc.step {p}"));
                if !nm && !rep2.starts_with("ok") { fail!("model-vs-impl", "model refuses the lock to thread {p}: {rep2}"); break; }
                if let Cmd::Write(items) = &progs[p][pc[p]] { items_left[p] = items.len(); }
                at[p] = px; holder = Some(p);
                trace.push(format!("t{p}: got the lock -> {px}"));
            } }
            continue;
        }
        if holder.map(|h| h != t && (at[h] == "write.drawn" || at[h] == "write.item")).unwrap_or(false) { inside_window = true; }
        // model step
        let mut rep = lean.ask(&format!("conc.step {t}"));
        if !nm && !rep.starts_with("ok") { fail!("model-vs-impl", "model refuses the step of thread {t} at {point} ({cmd:?}): {rep}"); break; }
        // real step
        release(t);
        let Some(mut now) = wait_parked(t, long) else { fail!("impl-vs-oracle", "thread {t} did not reach its next pause point from {point} ({cmd:?}) within 60 s (deadlock?)"); aborted = true; break; };
        trace.push(format!("t{t}: {point} -> {now}"));
        // expectations (what the model's step corresponds to) and bookkeeping (from what was observed)
        let mut expect: &str = "";
        match (point, &cmd) {
            ("cmd.begin", Some(Cmd::Write(items))) => { expect = "write.locked"; items_left[t] = items.len(); }
            ("cmd.begin", Some(Cmd::Rotate(_))) => { expect = "rotate.locked"; }
            ("cmd.begin", Some(Cmd::Ingest(..))) => { expect = "ingest.locked"; }
            ("cmd.begin", Some(Cmd::Close)) => { views[t] = None; }
            ("cmd.begin", Some(Cmd::Snap)) => { expect = "snapshot.loaded"; if holder.map(|h| at[h] == "write.drawn" || at[h] == "write.item").unwrap_or(false) { *hist.entry("open-inside-apply-window".into()).or_insert(0) += 1; } if holder.map(|h| at[h] == "write.published").unwrap_or(false) { *hist.entry("open-between-publish-and-unlock".into()).or_insert(0) += 1; } }
            ("cmd.begin", Some(Cmd::Read(k, key))) => {
                let out = ctl().m.lock().unwrap()[t].out.last().cloned().unwrap_or_default();
                if views[t].is_some() {
                    if !nm && field(&rep, "obs") != out { fail!("model-vs-impl", "thread {t} read {:?} through its view: real {out}, model {}", (k, hex(key)), field(&rep, "obs")); aborted = true; }
                    reads.push((views[t].unwrap(), *k, key.clone(), out));
                    if let Some(h) = holder { if at[h] == "write.item" && items_left[h] > 0 { partial_read = true; } }
                }
                *hist.entry("view-read".into()).or_insert(0) += 1;
            }
            ("cmd.begin", Some(Cmd::ReadTop(k, key))) => {
                let out = ctl().m.lock().unwrap()[t].out.last().cloned().unwrap_or_default();
                if !nm && field(&rep, "top") != out { fail!("model-vs-impl", "thread {t} get {:?}: real {out}, model {}", (k, hex(key)), field(&rep, "top")); aborted = true; }
                *hist.entry("top-read".into()).or_insert(0) += 1;
            }
            ("write.locked", _) => { expect = "write.floored"; }
            ("write.floored", _) => { expect = "write.drawn"; }
            ("write.drawn", _) | ("write.item", _) => { if items_left[t] > 0 { expect = "write.item"; } else { expect = "write.published"; } }
            ("write.published", _) => { expect = "write.unlocked"; }
            ("rotate.locked", _) => {
                *hist.entry("rotate".into()).or_insert(0) += 1;
                // the model runs the tracker GC after every rotation; the real code only if a memtable was sealed
                let out = ctl().m.lock().unwrap()[t].out.last().cloned().unwrap_or_default();
                if out != "rotated=true" { fjall::verif::tracker_gc(&db); }
                rep = lean.ask(&format!("conc.step {t}"));
                if !nm && !rep.starts_with("ok") { fail!("model-vs-impl", "model refuses the GC after the rotation of thread {t}: {rep}"); aborted = true; }
            }
            ("snapshot.loaded", _) => {
                let out = ctl().m.lock().unwrap()[t].out.last().cloned().unwrap_or_default();
                let real_view = out.strip_prefix("view=").unwrap_or("?").to_string();
                if !nm && field(&rep, "view") != real_view { fail!("model-vs-impl", "thread {t} opened a snapshot: real instant {real_view}, model {}", field(&rep, "view")); aborted = true; }
                views[t] = real_view.parse().ok();
                *hist.entry("snapshot".into()).or_insert(0) += 1;
            }
            _ => {}
        }
        // bookkeeping follows the real code
        if point == "snapshot.loaded" { loaders -= 1; }
        if point == "rotate.locked" && holder == Some(t) { holder = None; }
        match now {
            "write.locked" | "rotate.locked" | "ingest.locked" => { holder = Some(t); }
            "write.drawn" => { if let Some(Cmd::Write(items)) = &cmd { writes.push((db.seqno() - 1, items.clone())); } }
            "write.item" => { if items_left[t] > 0 { items_left[t] -= 1; } }
            "write.unlocked" => { if holder == Some(t) { holder = None; } }
            "snapshot.loaded" => { loaders += 1; }
            _ => {}
        }
        if now == "cmd.begin" || now == "done" { if point != "write.unlocked" { pc[t] += 1; } }
        if !nm && !expect.is_empty() && now != expect {
            fail!("model-vs-impl", "thread {t}: from {point} the real code reached {now}, the model's step corresponds to {expect}"); aborted = true; break;
        }
        if now == "write.unlocked" {
            // the rest of the call (memtable size check, back-pressure) is not modelled: run on to the next command
            release(t);
            let Some(nx) = wait_parked(t, long) else { fail!("impl-vs-oracle", "thread {t} did not return from its write within 60 s"); aborted = true; break; };
            now = nx; pc[t] += 1;
            if holder == Some(t) { holder = None; }
            *hist.entry("write".into()).or_insert(0) += 1;
        }
        at[t] = now;
        if aborted { break; }
        // a GC that had to wait for an open() in progress runs as soon as the last one is through
        if loaders == 0 {
            if let Some((h, fin)) = pending_gc.take() {
                let t0 = Instant::now();
                while !fin.load(std::sync::atomic::Ordering::Acquire) && t0.elapsed() < long { std::thread::sleep(Duration::from_millis(1)); }
                if !fin.load(std::sync::atomic::Ordering::Acquire) { fail!("impl-vs-oracle", "a tracker GC that waited for an open() never got the GC lock"); break; }
                let _ = h.join();
                rep = lean.ask(&format!("conc.step {gcmirror}"));
                if !nm && !rep.starts_with("ok") { fail!("model-vs-impl", "model refuses the GC after the open finished: {rep}"); break; }
                trace.push("gc: ran after the open".into());
            }
        }
        compare!(format!("thread {t} {point} -> {now}"), rep);
        // a pending agent gets the lock as soon as it is free
        if holder.is_none() {
            if let Some(p) = pending.take() {
                let Some(px) = wait_parked(p, long) else { fail!("impl-vs-oracle", "thread {p} did not get the journal lock after it was released"); break 'outer; };
                let rep2 = lean.ask(&format!("conc.step {p}"));
                if !nm && !rep2.starts_with("ok") { fail!("model-vs-impl", "model refuses the lock to thread {p}: {rep2}"); break; }
                match &progs[p][pc[p]] { Cmd::Write(items) => { items_left[p] = items.len(); if !nm && px != "write.locked" { fail!("model-vs-impl", "thread {p} woke up at {px}"); break; } }, Cmd::Ingest(..) => { if !nm && px != "ingest.locked" { fail!("model-vs-impl", "thread {p} woke up at {px}"); break; } }, _ => { if !nm && px != "rotate.locked" { fail!("model-vs-impl", "thread {p} woke up at {px}"); break; } } }
                at[p] = px; holder = Some(p);
                trace.push(format!("t{p}: got the lock -> {px}"));
            }
        }
    }
    // let everything finish (also after a failure) so that the threads can be joined
    for _ in 0..2000 {
        let mut all_done = true;
        for id in 0..n {
            let g = ctl().m.lock().unwrap();
            let (d, p) = (g[id].done, g[id].at.is_some());
            drop(g);
            if !d { all_done = false; if p { release(id); } }
        }
        if all_done { break; }
        std::thread::sleep(Duration::from_millis(1));
    }
    if let Some((h, _)) = pending_gc.take() { let _ = h.join(); }
    let mut joined = true;
    for h in handles { if h.join().is_err() { joined = false; } }
    if !joined || ctl().m.lock().unwrap().iter().any(|a| a.panicked) { fail!("impl-vs-oracle", "an agent thread panicked"); }

    if fails.is_empty() {
        // implementation-only oracle 1: atomic visibility of every read through a snapshot
        for (view, k, key, out) in &reads {
            let mut best: Option<(u64, Option<Vec<u8>>)> = None;
            for (s, items) in &writes { if s < view { for (ik, ikey, iv) in items { if ik == k && ikey == key { if best.as_ref().map(|b| b.0 <= *s).unwrap_or(true) { best = Some((*s, iv.clone())); } } } } }
            let want = show(&best.and_then(|b| b.1));
            if &want != out { fail!("impl-vs-oracle", "snapshot with instant {view} read {:?} = {out}, but the writes with seqno below {view}, each applied entirely, give {want}", (k, hex(key))); break; }
        }
        // oracle 2: final content = acknowledged writes in seqno order; model agrees; model self-checks
        let mut fin: BTreeMap<(usize, Vec<u8>), Option<Vec<u8>>> = BTreeMap::new();
        let mut ws = writes.clone(); ws.sort_by_key(|w| w.0);
        for (_, items) in &ws { for (k, key, v) in items { fin.insert((*k, key.clone()), v.clone()); } }
        for k in 0..2 { for key in [b"k0".to_vec(), b"k1".to_vec(), b"k2".to_vec()] {
            let real = show(&kss[k].get(&key).unwrap().map(|x| x.to_vec()));
            let want = show(&fin.get(&(k, key.clone())).cloned().flatten());
            if real != want { fail!("impl-vs-oracle", "final content of {:?}: {real}, acknowledged writes in seqno order give {want}", (k, hex(&key))); }
            let m = lean.ask(&format!("conc.top {} {}", k + 1, hex(&key)));
            if !nm && m != format!("top={real}") { fail!("model-vs-impl", "final content of {:?}: real {real}, model {m}", (k, hex(&key))); }
        } }
        let chk = lean.ask("conc.check");
        if !nm && !nofloor && (!chk.contains("atomic=true") || !chk.contains("linearizable=true") || !chk.contains("wellbracketed=true")) { fail!("model-vs-impl", "model self-check failed: {chk}"); }
    }
    let nontrivial = inside_window && !reads.is_empty();
    if partial_read { *hist.entry("view-read-while-batch-partially-applied".into()).or_insert(0) += 1; }
    if samples.len() < 3 && nontrivial { let mut o = J::obj(); o.set("case_seed", J::s(seed.to_string())); o.set("trace", J::Arr(trace.iter().take(60).map(|t| J::s(t.clone())).collect())); samples.push(o); }
    let mut h = 0xcbf29ce484222325u64;
    for t in &trace { for b in t.bytes() { h ^= b as u64; h = h.wrapping_mul(0x100000001b3); } }
    drop(a); drop(b); drop(z); drop(kss); drop(db);
    (fails, nontrivial, h)
}

/// C14 "the write stall mechanisms always let writers proceed eventually": a writer that has to wait
/// because 4 sealed memtables are queued must wait *outside* the journal critical section, since
/// the flush worker takes the journal lock before it flushes
fn stall_probe() -> Option<Failure> {
    use std::sync::atomic::{AtomicBool, Ordering};
    let scratch = Scratch::new("stall");
    let db = Database::builder(scratch.join("db")).worker_threads_unchecked(0).open().ok()?;
    let ks = db.keyspace("a", KeyspaceCreateOptions::default).ok()?;
    for i in 0..4 { ks.insert(format!("k{i}"), "v").ok()?; if !ks.rotate_memtable().ok()? { return None; } }
    let done_w = Arc::new(AtomicBool::new(false));
    let done_f = Arc::new(AtomicBool::new(false));
    let (k2, d2) = (ks.clone(), done_w.clone());
    let w = std::thread::spawn(move || { let _ = k2.insert("stalled", "v"); d2.store(true, Ordering::Release); });
    std::thread::sleep(Duration::from_millis(300)); // the writer has written and is now waiting for a flush
    let (db2, d3) = (db.clone(), done_f.clone());
    let f = std::thread::spawn(move || { while fjall::verif::queued_worker_messages(&db2) > 0 { let _ = fjall::verif::verif_worker_step(&db2); } d3.store(true, Ordering::Release); });
    let t0 = Instant::now();
    while !(done_w.load(Ordering::Acquire) && done_f.load(Ordering::Acquire)) && t0.elapsed() < Duration::from_secs(60) { std::thread::sleep(Duration::from_millis(10)); }
    if done_w.load(Ordering::Acquire) && done_f.load(Ordering::Acquire) { let _ = w.join(); let _ = f.join(); return None; }
    std::mem::forget(scratch);
    Some(Failure { kind: "impl-vs-oracle", detail: format!("write stall: with 4 sealed memtables queued, a writer (returned: {}) and the flush worker (finished: {}) did not both make progress within 60 s - the stalled writer keeps the flush from running", done_w.load(Ordering::Acquire), done_f.load(Ordering::Acquire)), witness: None })
}

/// C14 "writers proceed eventually" needs the background workers to make progress: a worker must never
/// wait for room in the bounded message channel that only workers drain.  One worker thread; it is held
/// right after it took the first rotation request; the writer keeps writing (one rotation request per
/// write above the memtable limit) until the channel is full; the worker then rotates and has to hand
/// the flush on.  Oracle: the queue drains and the flush happens.
fn worker_channel_probe() -> Option<Failure> {
    let scratch = Scratch::new("wchan");
    { let (m, _) = wgate(); *m.lock().unwrap() = (true, false, false); }
    let db = Database::builder(scratch.join("db")).worker_threads(1).open().ok()?;
    let ks = db.keyspace("a", || KeyspaceCreateOptions::default().max_memtable_size(4 * 1024)).ok()?;
    let v = vec![7u8; 200];
    let mut i = 0u64;
    let open_gate = || { let (m, cv) = wgate(); let mut g = m.lock().unwrap(); g.2 = true; g.0 = false; cv.notify_all(); };
    while !wgate().0.lock().unwrap().1 { if ks.insert(format!("{i:08}"), &v).is_err() || i > 50_000 { open_gate(); return None; } i += 1; }
    while fjall::verif::queued_worker_messages(&db) < 1000 { if ks.insert(format!("{i:08}"), &v).is_err() || i > 50_000 { open_gate(); return None; } i += 1; }
    open_gate();
    let t0 = Instant::now();
    while t0.elapsed() < Duration::from_secs(60) {
        if fjall::verif::queued_worker_messages(&db) == 0 && ks.table_count() > 0 { return None; }
        std::thread::sleep(Duration::from_millis(20));
    }
    let left = fjall::verif::queued_worker_messages(&db);
    std::mem::forget(ks); std::mem::forget(db); std::mem::forget(scratch); // dropping would hang as well
    Some(Failure { kind: "impl-vs-oracle", detail: format!("worker pool deadlock: 1 worker thread, {i} writes of 200 bytes with a 4 KiB memtable limit filled the worker channel (1000 rotation requests) while the worker was busy; the worker then rotated the memtable and made no progress for 60 s ({left} messages still queued, no table flushed): it waits for room in the channel it is itself supposed to drain - flushes and compactions never run again, writers halt for good at 4 sealed memtables, Database::drop hangs"), witness: None })
}

/// C14 "writers proceed eventually", the L0 halt: a writer is parked while its keyspace has 30 or more L0 runs
/// (`check_write_halt`) and must go on once compaction has brought the number down.  31 flushes with an L0
/// threshold of 200 (no compaction kicks in), a writer that is halted, `major_compact`, and the writer has to return.
/// C14, lock order of the two rotations: a memtable rotation's housekeeping (walk over all keyspaces under the
/// keyspaces table's read lock, then journal maintenance under the journal manager's write lock) against a journal
/// rotation (journal lock -> journal manager -> keyspaces table).  The rotating thread is parked inside its walk
/// by holding the version-history lock of an idle keyspace; then the journal rotation starts; then the gate opens.
/// Both must finish and a plain insert must return.
fn rotation_lock_order_probe() -> Option<Failure> {
    use std::sync::atomic::{AtomicBool, Ordering};
    use fjall::AbstractTree;
    let scratch = Scratch::new("lockord");
    let db = Database::builder(scratch.join("db")).worker_threads_unchecked(0).open().ok()?;
    let a = db.keyspace("a", KeyspaceCreateOptions::default).ok()?;
    let b = db.keyspace("b", KeyspaceCreateOptions::default).ok()?;
    a.insert("k0", "v0").ok()?;
    b.insert("k0", "v0").ok()?;
    let gate = b.tree.get_version_history_lock();
    let flags: Vec<Arc<AtomicBool>> = (0..3).map(|_| Arc::new(AtomicBool::new(false))).collect();
    let (a1, f0) = (a.clone(), flags[0].clone());
    let r = std::thread::spawn(move || { let _ = a1.rotate_memtable(); f0.store(true, Ordering::Release); });
    let t0 = Instant::now();
    while a.sealed_memtable_count() == 0 && t0.elapsed() < Duration::from_secs(20) { std::thread::sleep(Duration::from_millis(5)); }
    std::thread::sleep(Duration::from_millis(300));
    if flags[0].load(Ordering::Acquire) { drop(gate); let _ = r.join(); return None; } // the walk does not stop at the gate: nothing to probe
    let (db1, f1) = (db.clone(), flags[1].clone());
    let j = std::thread::spawn(move || { let _ = fjall::verif::verif_rotate_journal(&db1); f1.store(true, Ordering::Release); });
    std::thread::sleep(Duration::from_millis(500));
    drop(gate);
    let (a2, f2) = (a.clone(), flags[2].clone());
    let w = std::thread::spawn(move || { let _ = a2.insert("k1", "v1"); f2.store(true, Ordering::Release); });
    let t1 = Instant::now();
    while flags.iter().any(|f| !f.load(Ordering::Acquire)) && t1.elapsed() < Duration::from_secs(30) { std::thread::sleep(Duration::from_millis(10)); }
    let st: Vec<bool> = flags.iter().map(|f| f.load(Ordering::Acquire)).collect();
    if st.iter().all(|x| *x) { let _ = r.join(); let _ = j.join(); let _ = w.join(); return None; }
    std::mem::forget(r); std::mem::forget(j); std::mem::forget(w); std::mem::forget(a); std::mem::forget(b); std::mem::forget(db); std::mem::forget(scratch);
    Some(Failure { kind: "impl-vs-oracle", detail: format!("a memtable rotation (parked in its walk over the keyspaces, then released) overlapping a journal rotation: after 30 s memtable rotation returned = {}, journal rotation returned = {}, a plain insert returned = {} - they wait for each other and the journal lock is never released", st[0], st[1], st[2]), witness: None })
}

fn l0_halt_probe(lean: &mut Lean) -> Option<Failure> {
    use std::sync::atomic::{AtomicBool, Ordering};
    let scratch = Scratch::new("l0halt");
    let db = Database::builder(scratch.join("db")).worker_threads_unchecked(0).open().ok()?;
    let ks = db.keyspace("a", || KeyspaceCreateOptions::default().compaction_strategy(Arc::new(fjall::compaction::Leveled::default().with_l0_threshold(200)))).ok()?;
    for i in 0..31 {
        // the same keys every time: overlapping runs cannot be moved down without a merge
        ks.insert("a", format!("v{i}")).ok()?;
        ks.insert("z", format!("v{i}")).ok()?;
        if !ks.rotate_memtable().ok()? { return None; }
        // run the flush, drop the compaction requests
        while fjall::verif::queued_worker_messages(&db) > 0 { if fjall::verif::verif_worker_step(&db).is_err() { return None; } }
        if { use fjall::AbstractTree; ks.tree.l0_run_count() } >= 30 { break; }
    }
    if { use fjall::AbstractTree; ks.tree.l0_run_count() } < 30 { return None; } // compaction merged the runs after all: nothing to probe
    let done = Arc::new(AtomicBool::new(false));
    let (k2, d2) = (ks.clone(), done.clone());
    let w = std::thread::spawn(move || { let _ = k2.insert("halted", "v"); d2.store(true, Ordering::Release); });
    std::thread::sleep(Duration::from_millis(300));
    let halted = !done.load(Ordering::Acquire);
    if ks.major_compact().is_err() { return None; }
    let runs_after = { use fjall::AbstractTree; ks.tree.l0_run_count() };
    let t0 = Instant::now();
    while !done.load(Ordering::Acquire) && t0.elapsed() < Duration::from_secs(30) { std::thread::sleep(Duration::from_millis(10)); }
    // the same schedule on the model of the halt loop (Conc/L0Halt.lean): enter the loop, one iteration, the compaction, one iteration
    if !no_model() {
        let runs_before = 30;
        let m1 = lean.ask(&format!("l0.run 1 {runs_before} w,w"));
        let m2 = lean.ask(&format!("l0.run 1 {runs_before} w,w,c{runs_after},w"));
        let real1 = format!("w={} l0={runs_before}", if halted { "halted" } else { "done" });
        let real2 = format!("w={} l0={runs_after}", if done.load(Ordering::Acquire) { "done" } else { "halted" });
        if done.load(Ordering::Acquire) && (m1 != real1 || m2 != real2) {
            let _ = w.join();
            return Some(Failure { kind: "model-vs-impl", detail: format!("L0 halt loop: model {m1} / {m2} vs real {real1} / {real2}"), witness: None });
        }
    }
    if done.load(Ordering::Acquire) { let _ = w.join(); return if halted { None } else { Some(Failure { kind: "harness", detail: "l0 halt probe: the writer was not halted with 30 L0 runs".into(), witness: None }) }; }
    std::mem::forget(w); std::mem::forget(ks); std::mem::forget(db); std::mem::forget(scratch);
    Some(Failure { kind: "impl-vs-oracle", detail: format!("write halt on 30+ L0 runs: the writer was halted = {halted}; after major_compact the keyspace has {runs_after} L0 run(s), but the writer did not return from insert() within 30 s - it never proceeds"), witness: None })
}

/// Sequence numbers are drawn inside the journal critical section, on every single-write path: a writer A is held
/// at `write.locked` (it has the journal lock, no seqno yet); a second write B to the same key (insert / remove /
/// remove_weak / a one-item batch) starts and queues at the lock; A is released.  B took the lock after A, so B's
/// effect is the final one - for point reads, scans and snapshots alike.
fn seqno_inside_lock_probe() -> Option<Failure> {
    use std::sync::atomic::{AtomicBool, Ordering};
    static PARKED: AtomicBool = AtomicBool::new(false);
    static GO: AtomicBool = AtomicBool::new(false);
    let mut out = None;
    for kind in ["insert", "remove", "remove_weak", "batch-remove"] {
        let scratch = Scratch::new("sil");
        let db = Database::builder(scratch.join("db")).worker_threads_unchecked(0).open().ok()?;
        let a = db.keyspace("a", KeyspaceCreateOptions::default).ok()?;
        a.insert("k", "v0").ok()?;
        PARKED.store(false, Ordering::Release); GO.store(false, Ordering::Release);
        fjall::verif::pause::set(Some(Arc::new(|name: &'static str| {
            if name == "write.locked" && std::thread::current().name() == Some("sil-holder") { PARKED.store(true, Ordering::Release); while !GO.load(Ordering::Acquire) { std::thread::sleep(Duration::from_millis(1)); } }
        })));
        let a1 = a.clone();
        let ha = std::thread::Builder::new().name("sil-holder".into()).spawn(move || a1.insert("k", "A")).ok()?;
        let t0 = Instant::now();
        while !PARKED.load(Ordering::Acquire) && t0.elapsed() < Duration::from_secs(30) { std::thread::sleep(Duration::from_millis(1)); }
        let (a2, db2) = (a.clone(), db.clone());
        let hb = std::thread::Builder::new().name("sil-follower".into()).spawn(move || match kind {
            "insert" => a2.insert("k", "B"),
            "remove" => a2.remove("k"),
            "remove_weak" => a2.remove_weak("k"),
            _ => { let mut b = db2.batch(); b.remove(&a2, "k"); b.commit() }
        }).ok()?;
        std::thread::sleep(Duration::from_millis(150));
        let follower_early = hb.is_finished();
        GO.store(true, Ordering::Release);
        let ra = ha.join(); let rb = hb.join();
        fjall::verif::pause::set(Some(Arc::new(hook)));
        if !matches!(ra, Ok(Ok(()))) || !matches!(rb, Ok(Ok(()))) { continue; }
        let want: Option<Vec<u8>> = if kind == "insert" { Some(b"B".to_vec()) } else { None };
        let got = a.get("k").ok()?.map(|v| v.to_vec());
        let scan = a.iter().filter_map(|g| g.into_inner().ok()).find(|(k, _)| &**k == b"k").map(|(_, v)| v.to_vec());
        let snap = db.snapshot().get(&a, "k").ok()?.map(|v| v.to_vec());
        if follower_early || got != want || scan != want || snap != want {
            out = Some(Failure { kind: "impl-vs-oracle", detail: format!("insert(k, A) held at write.locked (journal lock taken, seqno not drawn), then {kind}(k) queued behind it: the second write completed while the first held the lock = {follower_early}; afterwards get(k) = {:?}, scan = {:?}, snapshot = {:?}, but the write that took the lock last decides: expected {:?} (the second write's seqno is not above the first one's: it was drawn outside the journal critical section)", got.as_ref().map(|v| String::from_utf8_lossy(v).to_string()), scan.as_ref().map(|v| String::from_utf8_lossy(v).to_string()), snap.as_ref().map(|v| String::from_utf8_lossy(v).to_string()), want.as_ref().map(|v| String::from_utf8_lossy(v).to_string())), witness: None });
            break;
        }
    }
    out
}

/// Known finding F27 (C14): point reads read the latest state, scans read at the snapshot instant, which the
/// write floor keeps below a write that is between its memtable apply and its publish.  In that window one
/// thread can `get` a value and then not find it in a scan it opens afterwards: the two reads cannot be
/// ordered with the write.  Deterministic schedule through the `write.item` pause point.
fn witness_f27() -> Option<Failure> {
    use std::sync::atomic::{AtomicBool, Ordering};
    static PARKED: AtomicBool = AtomicBool::new(false);
    static GO: AtomicBool = AtomicBool::new(false);
    let scratch = Scratch::new("f27");
    let db = Database::builder(scratch.join("db")).open().ok()?;
    let a = db.keyspace("a", KeyspaceCreateOptions::default).ok()?;
    a.insert("k0", "v0").ok()?;
    PARKED.store(false, Ordering::Release); GO.store(false, Ordering::Release);
    fjall::verif::pause::set(Some(Arc::new(|name: &'static str| {
        if name == "write.item" && std::thread::current().name() == Some("f27-writer") { PARKED.store(true, Ordering::Release); while !GO.load(Ordering::Acquire) { std::thread::sleep(Duration::from_millis(1)); } }
    })));
    let a2 = a.clone();
    let h = std::thread::Builder::new().name("f27-writer".into()).spawn(move || a2.insert("k1", "v1")).ok()?;
    let t0 = Instant::now();
    while !PARKED.load(Ordering::Acquire) && t0.elapsed() < Duration::from_secs(30) { std::thread::sleep(Duration::from_millis(1)); }
    let got = a.get("k1").ok()?.is_some();
    let scanned = a.iter().filter_map(|g| g.into_inner().ok()).any(|(k, _)| &*k == b"k1");
    GO.store(true, Ordering::Release);
    let _ = h.join();
    fjall::verif::pause::set(Some(Arc::new(hook)));
    if got && !scanned {
        Some(Failure { kind: "impl-vs-oracle", detail: "while insert(k1) is between its memtable apply and its publish, get(k1) returns the value and a scan opened afterwards by the same thread does not contain k1: the get, the scan and the write cannot be put in one order".into(), witness: Some("F27".into()) })
    } else { None }
}

fn main() {
    let args: Vec<String> = std::env::args().collect();
    let mut replay = None;
    let mut nofloor = false;
    let mode_c14 = args.windows(2).any(|w| w[0] == "--mode" && w[1] == "c14");
    let mut i = 1;
    while i < args.len() {
        if args[i] == "--replay-seed" { replay = args[i + 1].parse().ok(); i += 1; }
        if args[i] == "--model-nofloor" { nofloor = true; }
        i += 1;
    }
    let thorough = tier_is_thorough();
    let seed = env_u64("VERIF_SEED", 1);
    let n = env_u64("VERIF_CASES", if thorough { 4000 } else { 200 });
    if std::env::var("VERIF_QUIET_PANICS").is_ok() { std::panic::set_hook(Box::new(|_| {})); }
    fjall::verif::pause::set(Some(Arc::new(hook)));
    let t0 = Instant::now();
    let mut lean = Lean::spawn();
    let mut master = Rng::new(seed);
    let seeds: Vec<u64> = match replay { Some(s) => vec![s], None => (0..n).map(|_| master.fork()).collect() };
    let mut all = vec![];
    let mut nontrivial = std::collections::HashSet::new();
    let mut samples = vec![];
    let mut hist = BTreeMap::new();
    let mut cases = 0;
    if replay.is_none() { if let Some(f) = stall_probe() { all.push((0, f)); } *hist.entry("stall-probe".to_string()).or_insert(0) += 1; }
    if replay.is_none() { if let Some(f) = worker_channel_probe() { all.push((0, f)); } *hist.entry("worker-channel-probe".to_string()).or_insert(0) += 1; }
    if replay.is_none() { if let Some(f) = seqno_inside_lock_probe() { all.push((0, f)); } *hist.entry("seqno-inside-lock-probe".to_string()).or_insert(0) += 1; }
    if replay.is_none() && mode_c14 { if let Some(f) = witness_f27() { all.push((0, f)); } *hist.entry("witness-f27".to_string()).or_insert(0) += 1; }
    if replay.is_none() && mode_c14 { if let Some(f) = rotation_lock_order_probe() { all.push((0, f)); } *hist.entry("rotation-lock-order-probe".to_string()).or_insert(0) += 1; }
    if replay.is_none() && mode_c14 { if let Some(f) = l0_halt_probe(&mut lean) { all.push((0, f)); } *hist.entry("l0-halt-probe".to_string()).or_insert(0) += 1; }
    for cs in seeds {
        let res = std::panic::catch_unwind(std::panic::AssertUnwindSafe(|| run_case(cs, &mut lean, &mut hist, &mut samples, thorough, nofloor)));
        cases += 1;
        match res {
            Ok((f, nt, h)) => { if nt { nontrivial.insert(h); } for x in f { all.push((cs, x)); } }
            Err(_) => all.push((cs, Failure { kind: "harness", detail: "panic in the conc engine".into(), witness: None })),
        }
        if all.iter().filter(|(_, f)| f.witness.is_none()).count() > 3 { break; }
    }
    let mut res = J::obj();
    res.set("engine", J::s("conc"));
    res.set("seed", J::i(seed as i64));
    res.set("cases", J::i(cases));
    res.set("distinct_nontrivial", J::i(nontrivial.len() as i64));
    res.set("distribution", J::Obj(hist.iter().map(|(k, v)| (k.clone(), J::i(*v as i64))).collect()));
    res.set("model_requests", J::i(lean.requests as i64));
    res.set("samples", J::Arr(samples));
    res.set("wall_s", J::Num(t0.elapsed().as_secs_f64()));
    res.set("failures", J::Arr(all.iter().map(|(cs, f)| { let mut o = J::obj(); o.set("case_seed", J::s(cs.to_string())); o.set("kind", J::s(f.kind)); o.set("detail", J::s(f.detail.clone())); if let Some(w) = &f.witness { o.set("witness_id", J::s(w.clone())); } o }).collect()));
    println!("RESULT {}", res.render());
    std::process::exit(if all.is_empty() { 0 } else { 1 });
}
