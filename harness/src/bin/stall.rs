//! `stall` engine (C14, liveness clause): writers, the write halt (4 sealed memtables) and the background
//! work (rotation requests, flushes, compactions through the bounded worker channel and the journal lock)
//! stepped one at a time: writer threads park at `write.locked` / `write.unlocked` / `write.stall`, worker
//! threads run the crate's own `worker_tick` (through `verif_worker_step`) and park at the `worker.*` pause
//! points.  The same schedule runs on the Lean `Stall` model; after every step the effect (effective or
//! waiting), the phase and the counters (sealed memtables, queued flush tasks, queued worker messages) are
//! compared.  Implementation-only oracle: the case runs to completion - whenever some writer has not
//! finished, some thread can be moved (no deadlock), and the writers finish within the step budget.
use fjall::{AbstractTree, Database, Keyspace, KeyspaceCreateOptions};
use std::cell::Cell;
use std::collections::BTreeMap;
use std::sync::atomic::{AtomicBool, Ordering};
use std::sync::{Arc, Condvar, Mutex, OnceLock};
use std::time::{Duration, Instant};
use verif_harness::json::J;
use verif_harness::*;

const LIMIT: u64 = 2_000; // memtable size limit of the keyspace

#[derive(Default)]
struct Agent { at: Option<&'static str>, gen: u64, done: bool, panicked: bool }
struct Ctl { m: Mutex<Vec<Agent>>, cv: Condvar }
static CTL: OnceLock<Ctl> = OnceLock::new();
static STOP: AtomicBool = AtomicBool::new(false);
static HELPER_BUSY: AtomicBool = AtomicBool::new(false);
/// threads of this case are stuck for good (a real deadlock): no further case can be run in this process
static FATAL: AtomicBool = AtomicBool::new(false);
thread_local! { static AGENT: Cell<Option<usize>> = Cell::new(None); }
fn ctl() -> &'static Ctl { CTL.get_or_init(|| Ctl { m: Mutex::new(vec![]), cv: Condvar::new() }) }

fn park(id: usize, name: &'static str) {
    let c = ctl();
    let mut g = c.m.lock().unwrap();
    g[id].at = Some(name);
    let my = g[id].gen;
    c.cv.notify_all();
    while g[id].gen == my { g = c.cv.wait(g).unwrap(); }
    g[id].at = None;
}
fn hook(name: &'static str) {
    if let Some(id) = AGENT.with(|a| a.get()) {
        match name {
            "write.locked" | "write.unlocked" | "write.stall" | "worker.rotate.begin" | "worker.rotate.locked" | "worker.flush.begin"
            | "worker.flush.locked" | "worker.flush.unlocked" | "worker.compact.begin" => park(id, name),
            _ => {}
        }
    }
}
fn release(id: usize) { let c = ctl(); let mut g = c.m.lock().unwrap(); g[id].gen += 1; g[id].at = None; c.cv.notify_all(); }
fn wait_parked(id: usize, timeout: Duration) -> Option<&'static str> {
    let c = ctl();
    let deadline = Instant::now() + timeout;
    let mut g = c.m.lock().unwrap();
    loop {
        if let Some(p) = g[id].at { return Some(p); }
        if g[id].done { return Some("done"); }
        let now = Instant::now();
        if now >= deadline { return None; }
        let (g2, _) = c.cv.wait_timeout(g, deadline - now).unwrap();
        g = g2;
    }
}
fn finish(id: usize, panicked: bool) { let c = ctl(); let mut g = c.m.lock().unwrap(); g[id].done = true; g[id].panicked = panicked; c.cv.notify_all(); }

fn writer_body(id: usize, vals: Vec<Vec<u8>>, ks: Keyspace, db: Database) {
    AGENT.with(|a| a.set(Some(id)));
    for (n, v) in vals.into_iter().enumerate() {
        park(id, "cmd.begin");
        // every third write goes through a batch (the commit path of batches and transactions)
        if n % 3 == 2 { let mut b = db.batch(); b.insert(&ks, format!("w{id}-{n:03}"), v); b.commit().unwrap(); }
        else { ks.insert(format!("w{id}-{n:03}"), v).unwrap(); }
    }
}
/// a thread that keeps asking for the (existing) keyspace: `Database::keyspace` takes the keyspace map's
/// write lock for a moment, and must never have to wait for a halted writer
fn opener_body(id: usize, db: Database) {
    AGENT.with(|a| a.set(Some(id)));
    loop {
        park(id, "op.idle");
        if STOP.load(Ordering::Acquire) { break; }
        let _ = db.keyspace("a", KeyspaceCreateOptions::default).unwrap();
    }
}
fn worker_body(id: usize, db: Database) {
    AGENT.with(|a| a.set(Some(id)));
    loop {
        park(id, "wk.idle");
        if STOP.load(Ordering::Acquire) { break; }
        fjall::verif::verif_worker_step(&db).unwrap();
    }
}

struct Failure { kind: &'static str, detail: String }

fn field<'a>(rep: &'a str, name: &str) -> &'a str {
    let pat = format!("{name}=");
    rep.split(' ').find_map(|w| w.strip_prefix(pat.as_str())).unwrap_or("?")
}

fn run_case(seed: u64, lean: &mut Lean, hist: &mut BTreeMap<String, u64>, samples: &mut Vec<J>, thorough: bool) -> (Vec<Failure>, bool, u64) {
    let mut r = Rng::new(seed);
    let mut fails: Vec<Failure> = vec![];
    let nm = no_model();
    let nw = r.range(1, 3);
    // "starve" cases: four workers, and flushes are held back until a writer is halted by 4 sealed memtables
    let starve = r.chance(1, 3);
    let nk = if starve { 4 } else { r.range(1, 2) };
    let progs: Vec<Vec<Vec<u8>>> = (0..nw).map(|_| (0..r.range(if starve { 6 } else { 2 }, if thorough || starve { 8 } else { 6 })).map(|_| vec![b'x'; match r.below(4) { 0 => 40, 1 => 500, 2 => 900, _ => 1500 }]).collect()).collect();
    // half of the cases run with a worker channel of 2-6 messages, so that "channel full" is reached:
    // rotation requests and compaction requests get dropped, a worker that rotated has to flush right away
    let cap: usize = if r.chance(1, 2) { r.range(2, 6) } else { 1000 };
    let scratch = Scratch::new("stall");
    fjall::verif::set_worker_channel_capacity(cap);
    let db = Database::builder(scratch.join("db")).worker_threads_unchecked(0).journal_compression(fjall::CompressionType::None).open().unwrap();
    fjall::verif::set_worker_channel_capacity(0);
    if cap < 1000 { *hist.entry("cases-with-a-small-channel".into()).or_insert(0) += 1; }
    let ks = db.keyspace("a", || KeyspaceCreateOptions::default().max_memtable_size(LIMIT)).unwrap();
    let n = nw + nk + 1; // writers, workers, one opener
    STOP.store(false, Ordering::Release);
    { let mut g = ctl().m.lock().unwrap(); g.clear(); for _ in 0..n { g.push(Agent::default()); } }
    let mut handles = vec![];
    for (i, p) in progs.iter().cloned().enumerate() {
        let ks = ks.clone();
        let dbw = db.clone();
        handles.push(std::thread::spawn(move || { let res = std::panic::catch_unwind(std::panic::AssertUnwindSafe(|| writer_body(i, p, ks, dbw))); finish(i, res.is_err()); }));
    }
    { let db = db.clone(); let oid = nw + nk; handles.push(std::thread::spawn(move || { let res = std::panic::catch_unwind(std::panic::AssertUnwindSafe(|| opener_body(oid, db))); finish(oid, res.is_err()); })); }
    for j in 0..nk {
        let db = db.clone();
        handles.push(std::thread::spawn(move || { let res = std::panic::catch_unwind(std::panic::AssertUnwindSafe(|| worker_body(nw + j, db))); finish(nw + j, res.is_err()); }));
    }
    let t = Duration::from_secs(60);
    let short = Duration::from_millis(if thorough { 50 } else { 25 });
    let writes: Vec<String> = progs.iter().map(|p| p.len().to_string()).collect();
    let _ = lean.ask(&format!("st.init {cap} 4 1 0 1 {} {nk}", writes.join(",")));
    let mut at: Vec<&'static str> = vec![""; n];
    for i in 0..n { match wait_parked(i, t) { Some(p) => at[i] = p, None => { fails.push(Failure { kind: "harness", detail: format!("agent {i} did not start") }); } } }
    let mut holder: Option<usize> = None;     // who holds the journal lock, from the real events
    let mut pending: Vec<bool> = vec![false; n]; // released towards the lock while it was held
    let mut trace: Vec<String> = vec![];
    let mut steps = 0u32;
    let mut halted_steps = 0u64; let mut probes = 0u64; let mut rotations = 0u64; let mut flushes = 0u64; let mut stale = 0u64;
    let mut h = 0xcbf29ce484222325u64;
    for p in &progs { for v in p { h ^= v.len() as u64; h = h.wrapping_mul(0x100000001b3); } h = h.wrapping_mul(31); }
    macro_rules! fail { ($k:expr, $($a:tt)*) => {{ fails.push(Failure { kind: $k, detail: format!("{}; trace: {}", format!($($a)*), trace.join(" | ")) }); }} }
    macro_rules! compare { ($rep:expr, $what:expr) => {{
        let (s, tk, q) = (ks.sealed_memtable_count(), db.outstanding_flushes(), fjall::verif::queued_worker_messages(&db));
        if !nm && (field(&$rep, "sealed") != s.to_string() || field(&$rep, "tasks") != tk.to_string() || field(&$rep, "queued") != q.to_string()) {
            fail!("model-vs-impl", "after {}: real (sealed={s}, tasks={tk}, queued={q}) model ({})", $what, $rep);
        }
    }} }
    let writers_done = |at: &Vec<&'static str>| (0..nw).all(|i| at[i] == "done");

    'outer: while fails.is_empty() {
        if writers_done(&at) && fjall::verif::queued_worker_messages(&db) == 0 && (nw..nw + nk).all(|j| at[j] == "wk.idle") { break; }
        steps += 1;
        if steps > 900 { fail!("impl-vs-oracle", "the writers did not finish within 900 scheduled steps (sealed memtables = {}, queued messages = {})", ks.sealed_memtable_count(), fjall::verif::queued_worker_messages(&db)); break; }
        // which agents can be moved, judged from the real state
        let queued = fjall::verif::queued_worker_messages(&db);
        let movable: Vec<usize> = (0..nw + nk).filter(|&i| !pending[i] && match at[i] {
            "done" => false,
            "cmd.begin" | "worker.rotate.begin" | "worker.flush.begin" => true, // needs the lock: a block probe if it is held
            "wk.idle" => queued > 0,
            _ => true,
        }).collect();
        let free: Vec<usize> = movable.iter().copied().filter(|&i| !(matches!(at[i], "cmd.begin" | "worker.rotate.begin" | "worker.flush.begin") && holder.is_some())).collect();
        // starve mode: workers that hold a flush task are not scheduled while anything else can move
        let held_back = |i: usize| starve && halted_steps == 0 && matches!(at[i], "worker.flush.begin" | "worker.flush.locked" | "worker.flush.unlocked");
        let movable: Vec<usize> = if free.iter().any(|&i| !held_back(i)) { movable.into_iter().filter(|&i| !held_back(i) || at[i] == "worker.flush.locked").collect() } else { movable };
        if free.is_empty() {
            // only lock waiters (and nobody to release the lock), or nothing at all
            fail!("impl-vs-oracle", "deadlock: no thread can make a step - writers at {:?}, workers at {:?}, journal lock held by agent {holder:?}, sealed memtables = {}, queued worker messages = {queued}", &at[..nw], &at[nw..], ks.sealed_memtable_count());
            break;
        }
        if r.chance(1, 12) {
            // the opener's turn
            let id = nw + nk;
            release(id);
            let p = wait_parked(id, t);
            trace.push("opener: Database::keyspace(existing)".into());
            *hist.entry("opener-calls".into()).or_insert(0) += 1;
            if p != Some("op.idle") { fail!("impl-vs-oracle", "Database::keyspace() for an existing keyspace did not return within {t:?} (writers at {:?}, sealed memtables = {})", &at[..nw], ks.sealed_memtable_count()); break; }
            continue;
        }
        let id = *r.pick(&movable);
        let is_writer = id < nw;
        let who = if is_writer { format!("w {id}") } else { format!("k {}", id - nw) };
        let needs_lock = matches!(at[id], "cmd.begin" | "worker.rotate.begin" | "worker.flush.begin");
        if needs_lock && holder.is_some() {
            if !r.chance(1, 3) { continue; }
            // block probe: it must wait
            release(id);
            probes += 1;
            let p = wait_parked(id, short);
            let rep = if is_writer { lean.ask(&format!("st.step {who} 0")) } else { lean.ask(&format!("st.step {who} flush")) };
            trace.push(format!("{who}: waits for the journal lock"));
            if let Some(p) = p { fail!("impl-vs-oracle", "{who} got past the journal lock (now at {p}) while agent {:?} holds it", holder.unwrap()); break; }
            if !nm && !rep.starts_with("noop") { fail!("model-vs-impl", "{who} waits for the journal lock, the model says `{rep}`"); break; }
            pending[id] = true;
            continue;
        }
        match at[id] {
            "cmd.begin" => {
                release(id);
                let p = wait_parked(id, t);
                let rep = lean.ask(&format!("st.step {who} 0"));
                trace.push(format!("{who}: lock"));
                if p != Some("write.locked") { fail!("impl-vs-oracle", "{who} did not get the free journal lock within {t:?} (at {p:?})"); break; }
                at[id] = "write.locked"; holder = Some(id);
                if !nm && !(rep.starts_with("ok") && field(&rep, "phase") == "locked") { fail!("model-vs-impl", "{who} took the lock, model: `{rep}`"); break; }
            }
            "write.locked" => {
                release(id);
                let p = wait_parked(id, t);
                if p == Some("write.stall") { fail!("impl-vs-oracle", "{who} reached the write halt check while still holding the journal lock (the flush worker needs that lock)"); at[id] = "write.stall"; continue; }
                if p != Some("write.unlocked") { fail!("harness", "{who} after its write at {p:?}"); break; }
                holder = None;
                let big = ks.tree.active_memtable().size() > LIMIT;
                // maintenance: rotation request, then the halt check
                release(id);
                let p2 = wait_parked(id, t);
                let rep = lean.ask(&format!("st.step {who} {}", big as u8));
                trace.push(format!("{who}: write{} unlock", if big { " (memtable over its limit: rotation request)" } else { "" }));
                if !nm && !(rep.starts_with("ok") && field(&rep, "phase") == "stalling") { fail!("model-vs-impl", "{who} wrote and unlocked, model: `{rep}`"); break; }
                compare!(rep, format!("{who} write"));
                match p2 {
                    Some("write.stall") => {
                        at[id] = "write.stall";
                        let rep2 = lean.ask(&format!("st.step {who} 0"));
                        trace.push(format!("{who}: halted"));
                        *hist.entry("writer-halted".into()).or_insert(0) += 1;
                        if !nm && !rep2.starts_with("noop") { fail!("model-vs-impl", "{who} is halted (4 sealed memtables), the model lets it go on: `{rep2}`"); break; }
                    }
                    Some(x) if x == "cmd.begin" || x == "done" => {
                        at[id] = x;
                        let rep2 = lean.ask(&format!("st.step {who} 0"));
                        trace.push(format!("{who}: passed the halt check"));
                        if !nm && !(rep2.starts_with("ok") && field(&rep2, "phase") == "idle") { fail!("model-vs-impl", "{who} passed the halt check, model: `{rep2}`"); break; }
                    }
                    other => { fail!("impl-vs-oracle", "{who} did not come out of maintenance within {t:?} (at {other:?})"); break; }
                }
            }
            "write.stall" => {
                halted_steps += 1;
                release(id);
                let p = wait_parked(id, t);
                let rep = lean.ask(&format!("st.step {who} 0"));
                match p {
                    Some("write.stall") => { trace.push(format!("{who}: still halted")); if !nm && !rep.starts_with("noop") { fail!("model-vs-impl", "{who} is still halted, model: `{rep}`"); break; } }
                    Some(x) if x == "cmd.begin" || x == "done" => { at[id] = x; trace.push(format!("{who}: released from the halt")); if !nm && !(rep.starts_with("ok") && field(&rep, "phase") == "idle") { fail!("model-vs-impl", "{who} left the halt, model: `{rep}`"); break; } }
                    Some("write.unlocked") => { holder = None; release(id); let p3 = wait_parked(id, t); at[id] = p3.unwrap_or("?"); trace.push(format!("{who}: left the halt and unlocked")); }
                    other => { fail!("impl-vs-oracle", "{who} stuck in the halt loop (at {other:?})"); break; }
                }
            }
            "wk.idle" => {
                release(id);
                let p = wait_parked(id, t);
                let (pick, phase) = match p { Some("worker.rotate.begin") => ("rot", "rotWait"), Some("worker.flush.begin") => ("flush", "flushWait"), Some("worker.compact.begin") => ("compact", "compacting"), Some("wk.idle") => ("flush", "idle"), other => { fail!("harness", "{who} after receiving a message at {other:?}"); break 'outer; } };
                at[id] = p.unwrap();
                let rep = lean.ask(&format!("st.step {who} {pick}"));
                trace.push(format!("{who}: receives {pick}{}", if phase == "idle" { " (no task queued)" } else { "" }));
                *hist.entry(format!("message-{pick}")).or_insert(0) += 1;
                if !nm && !(rep.starts_with("ok") && field(&rep, "phase") == phase) { fail!("model-vs-impl", "{who} received a {pick} message (now at {}), model: `{rep}`", at[id]); break; }
                compare!(rep, format!("{who} receive"));
            }
            "worker.rotate.begin" | "worker.flush.begin" => {
                let want = if at[id] == "worker.rotate.begin" { "worker.rotate.locked" } else { "worker.flush.locked" };
                release(id);
                let p = wait_parked(id, t);
                let rep = lean.ask(&format!("st.step {who} flush"));
                trace.push(format!("{who}: lock"));
                if p != Some(want) { fail!("impl-vs-oracle", "{who} did not get the free journal lock within {t:?} (at {p:?})"); break; }
                at[id] = want; holder = Some(id);
                if !nm && !rep.starts_with("ok") { fail!("model-vs-impl", "{who} took the lock, model: `{rep}`"); break; }
            }
            "worker.rotate.locked" => {
                let before = ks.sealed_memtable_count();
                release(id);
                let p = wait_parked(id, t);
                holder = None;
                let rep = lean.ask(&format!("st.step {who} flush"));
                let rotated = ks.sealed_memtable_count() > before;
                if rotated { rotations += 1; } else { stale += 1; }
                trace.push(format!("{who}: {}", if rotated { "rotates the memtable" } else { "stale rotation request" }));
                if p == Some("worker.flush.begin") { *hist.entry("flush-right-away-channel-full".into()).or_insert(0) += 1; }
                let phase = match p { Some("wk.idle") => "idle", Some("worker.flush.begin") => "flushWait", other => { fail!("impl-vs-oracle", "{who} did not finish its rotation within {t:?} (at {other:?}) - it waits for room in the worker channel"); break; } };
                at[id] = p.unwrap();
                if !nm && !(rep.starts_with("ok") && field(&rep, "phase") == phase) { fail!("model-vs-impl", "{who} handled a rotation request (rotated: {rotated}, now at {}), model: `{rep}`", at[id]); break; }
                compare!(rep, format!("{who} rotation"));
            }
            "worker.flush.locked" => {
                release(id);
                let p = wait_parked(id, t);
                holder = None;
                let rep = lean.ask(&format!("st.step {who} flush"));
                trace.push(format!("{who}: unlock"));
                if p != Some("worker.flush.unlocked") { fail!("harness", "{who} after the journal check at {p:?}"); break; }
                at[id] = "worker.flush.unlocked";
                if !nm && !(rep.starts_with("ok") && field(&rep, "phase") == "flushing") { fail!("model-vs-impl", "{who} released the lock before flushing, model: `{rep}`"); break; }
            }
            "worker.flush.unlocked" | "worker.compact.begin" => {
                let what = if at[id] == "worker.compact.begin" { "compaction" } else { flushes += 1; "flush" };
                release(id);
                let p = wait_parked(id, t);
                let rep = lean.ask(&format!("st.step {who} flush"));
                trace.push(format!("{who}: {what}"));
                if p != Some("wk.idle") { fail!("impl-vs-oracle", "{who} did not finish its {what} within {t:?} (at {p:?})"); break; }
                at[id] = "wk.idle";
                if !nm && !(rep.starts_with("ok") && field(&rep, "phase") == "idle") { fail!("model-vs-impl", "{who} finished a {what}, model: `{rep}`"); break; }
                compare!(rep, format!("{who} {what}"));
            }
            other => { fail!("harness", "{who} at unexpected point {other}"); break; }
        }
        // the lock was released: a pending thread gets it
        if holder.is_none() && pending.iter().any(|p| *p) {
            let deadline = Instant::now() + t;
            let mut got = None;
            while Instant::now() < deadline && got.is_none() { for i in 0..n { if pending[i] { if let Some(p) = wait_parked(i, Duration::from_millis(5)) { got = Some((i, p)); break; } } } }
            match got {
                Some((i, p)) if matches!(p, "write.locked" | "worker.rotate.locked" | "worker.flush.locked") => {
                    pending[i] = false; at[i] = p; holder = Some(i);
                    let w2 = if i < nw { format!("w {i}") } else { format!("k {}", i - nw) };
                    let rep = if i < nw { lean.ask(&format!("st.step {w2} 0")) } else { lean.ask(&format!("st.step {w2} flush")) };
                    trace.push(format!("{w2}: got the lock after waiting"));
                    if !nm && !rep.starts_with("ok") { fail!("model-vs-impl", "{w2} got the lock after waiting, model: `{rep}`"); }
                }
                other => { fail!("impl-vs-oracle", "the journal lock is free but no waiting thread got it within {t:?} ({other:?})"); }
            }
        }
    }
    if fails.is_empty() {
        let d = lean.ask("st.done");
        if !nm && d != "1" { fail!("model-vs-impl", "all writers returned, model says done={d}"); }
        *hist.entry("cases-with-a-halted-writer".into()).or_insert(0) += (halted_steps > 0) as u64;
    }
    // wind down: let everything run free
    STOP.store(true, Ordering::Release);
    fjall::verif::pause::set(None);
    let deadline = Instant::now() + Duration::from_secs(30);
    loop {
        let all_done = { let g = ctl().m.lock().unwrap(); g.iter().all(|a| a.done) };
        if all_done || Instant::now() > deadline { break; }
        for i in 0..n { if wait_parked(i, Duration::from_millis(2)).map(|p| p != "done").unwrap_or(false) { release(i); } }
        // without workers stepping, a halted writer would spin: flush by hand (on a thread of its own: if a halted
        // writer holds the journal lock the flush never returns)
        if fjall::verif::queued_worker_messages(&db) > 0 && !HELPER_BUSY.load(Ordering::Acquire) {
            HELPER_BUSY.store(true, Ordering::Release);
            let db2 = db.clone();
            std::thread::spawn(move || { while fjall::verif::queued_worker_messages(&db2) > 0 { if fjall::verif::verif_worker_step(&db2).is_err() { break; } } HELPER_BUSY.store(false, Ordering::Release); });
        }
    }
    fjall::verif::pause::set(Some(Arc::new(hook)));
    let finished = { let g = ctl().m.lock().unwrap(); g.iter().all(|a| a.done) };
    if finished { for hnd in handles { let _ = hnd.join(); } } else {
        std::mem::forget(handles); std::mem::forget(scratch); std::mem::forget(ks); std::mem::forget(db);
        FATAL.store(true, Ordering::Release);
        if fails.is_empty() { fails.push(Failure { kind: "impl-vs-oracle", detail: format!("after the schedule ended the threads did not finish within 30 s although every queued flush was run: writers at {:?}; trace: {}", &at[..nw], trace.join(" | ")) }); }
        return (fails, false, h);
    }
    if ctl().m.lock().unwrap().iter().any(|a| a.panicked) { fails.push(Failure { kind: "impl-vs-oracle", detail: format!("an agent thread panicked; trace: {}", trace.join(" | ")) }); }
    *hist.entry("steps".into()).or_insert(0) += steps as u64;
    *hist.entry("lock-block-probes".into()).or_insert(0) += probes;
    *hist.entry("rotations".into()).or_insert(0) += rotations;
    *hist.entry("stale-rotation-requests".into()).or_insert(0) += stale;
    *hist.entry("flushes".into()).or_insert(0) += flushes;
    *hist.entry("halted-steps".into()).or_insert(0) += halted_steps;
    if samples.len() < 2 { let mut o = J::obj(); o.set("writers", J::i(nw as i64)); o.set("workers", J::i(nk as i64)); o.set("trace", J::s(trace.join(" | "))); samples.push(o); }
    (fails, rotations >= 2 && flushes >= 1, h ^ seed.rotate_left(17) & 0xffff)
}

fn main() {
    let args: Vec<String> = std::env::args().collect();
    let mut replay = None;
    let mut i = 1;
    while i < args.len() { if args[i] == "--replay-seed" { replay = args[i + 1].parse().ok(); i += 1; } i += 1; }
    let thorough = tier_is_thorough();
    let seed = env_u64("VERIF_SEED", 1);
    let n = env_u64("VERIF_CASES", if thorough { 2000 } else { 120 });
    if std::env::var("VERIF_QUIET_PANICS").is_ok() { std::panic::set_hook(Box::new(|_| {})); }
    fjall::verif::pause::set(Some(Arc::new(hook)));
    let t0 = Instant::now();
    let mut lean = Lean::spawn();
    let mut master = Rng::new(seed);
    let seeds: Vec<u64> = match replay { Some(s) => vec![s], None => (0..n).map(|_| master.fork()).collect() };
    let mut all = vec![];
    let mut nontrivial = std::collections::HashSet::new();
    let mut samples = vec![];
    let mut hist = BTreeMap::new();
    let mut cases = 0;
    for cs in seeds {
        let res = std::panic::catch_unwind(std::panic::AssertUnwindSafe(|| run_case(cs, &mut lean, &mut hist, &mut samples, thorough)));
        cases += 1;
        match res {
            Ok((f, nt, h)) => { if nt { nontrivial.insert(h); } for x in f { all.push((cs, x)); } }
            Err(_) => all.push((cs, Failure { kind: "harness", detail: "panic in the stall engine".into() })),
        }
        if all.len() > 3 || FATAL.load(Ordering::Acquire) { break; }
    }
    let mut res = J::obj();
    res.set("engine", J::s("stall"));
    res.set("seed", J::i(seed as i64));
    res.set("cases", J::i(cases));
    res.set("distinct_nontrivial", J::i(nontrivial.len() as i64));
    res.set("distribution", J::Obj(hist.iter().map(|(k, v)| (k.clone(), J::i(*v as i64))).collect()));
    res.set("model_requests", J::i(lean.requests as i64));
    res.set("samples", J::Arr(samples));
    res.set("wall_s", J::Num(t0.elapsed().as_secs_f64()));
    res.set("failures", J::Arr(all.iter().map(|(cs, f)| { let mut o = J::obj(); o.set("case_seed", J::s(cs.to_string())); o.set("kind", J::s(f.kind)); o.set("detail", J::s(f.detail.clone())); o }).collect()));
    println!("RESULT {}", res.render());
    std::process::exit(if all.is_empty() { 0 } else { 1 });
}
