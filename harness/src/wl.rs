//! journal workloads shared by `crash_child` (runs them on the real crate) and the `fault` engine
//! (which recomputes them to drive the model and the oracle)
use crate::Rng;

#[derive(Clone, Debug, PartialEq)]
pub enum Mode { Buffer, SyncData, SyncAll }

#[derive(Clone, Debug)]
pub enum WOp {
    Insert(usize, Vec<u8>, Vec<u8>),
    Remove(usize, Vec<u8>),
    Clear(usize),
    Batch(Option<Mode>, Vec<(usize, Vec<u8>, Option<Vec<u8>>)>),
    Persist(Mode),
    /// journal rotation (`Writer::rotate` through the verif hook): seals the active journal
    RotateJournal,
    /// a write transaction (single-writer or optimistic database, see `Workload::flavour`) on one
    /// keyspace, items in key order, committed with an explicit durability level or the default
    Tx(Option<Mode>, usize, Vec<(Vec<u8>, Option<Vec<u8>>)>),
}

#[derive(Clone, Debug)]
pub struct Workload { pub manual: bool, pub lz4: bool, pub nks: usize, pub ops: Vec<WOp>,
    /// 0 = plain `Database`, 1 = `SingleWriterTxDatabase`, 2 = `OptimisticTxDatabase` (plain operations go through `inner()`)
    pub flavour: u8 }

impl Workload {
    /// the workload as the journal sees it: a transaction commit is one batch with the effective
    /// durability (explicit level, else `Buffer` unless manual journal persist is on)
    pub fn modelled(&self) -> Workload {
        let ops = self.ops.iter().map(|o| match o {
            WOp::Tx(dur, k, items) => WOp::Batch(dur.clone().or(if self.manual { None } else { Some(Mode::Buffer) }), items.iter().map(|(key, v)| (*k, key.clone(), v.clone())).collect()),
            o => o.clone(),
        }).collect();
        Workload { manual: self.manual, lz4: self.lz4, nks: self.nks, ops, flavour: self.flavour }
    }
}

fn key(r: &mut Rng) -> Vec<u8> { vec![b'k', b'0' + r.below(6) as u8] }
fn val(r: &mut Rng) -> Vec<u8> {
    match r.below(10) {
        0 => vec![],
        1 | 2 => r.bytes(3000),                 // three of these overflow the 8 KiB BufWriter
        3 => r.bytes(9000),                     // >= capacity: written around the buffer
        4 => vec![b'c'; 5000],                  // compressible, above the 4096 threshold
        _ => vec![b'v', r.below(256) as u8],
    }
}
fn mode(r: &mut Rng) -> Mode { match r.below(3) { 0 => Mode::Buffer, 1 => Mode::SyncData, _ => Mode::SyncAll } }

pub fn gen(seed: u64) -> Workload { gen_with(seed, false) }

/// `rotations`: workloads for the power-loss check (C09) also rotate the journal
pub fn gen_with(seed: u64, rotations: bool) -> Workload {
    let mut r = Rng::new(seed);
    let nks = r.range(1, 2);
    let n = r.range(3, 14);
    let manual = r.chance(1, 3);
    let lz4 = r.chance(1, 2);
    let flavour = if rotations { r.below(3) as u8 } else { 0 };
    let mut ops = vec![];
    for _ in 0..n {
        let k = r.range(0, nks - 1);
        ops.push(match r.below(12) {
            0..=4 => WOp::Insert(k, key(&mut r), val(&mut r)),
            5 => WOp::Remove(k, key(&mut r)),
            6 => WOp::Clear(k),
            7 | 8 if flavour != 0 && r.chance(1, 2) => {
                let mut m = std::collections::BTreeMap::new();
                for _ in 0..r.range(1, 4) { m.insert(key(&mut r), if r.chance(4, 5) { Some(val(&mut r)) } else { None }); }
                let dur = match r.below(4) { 0 => None, _ => Some(mode(&mut r)) };
                WOp::Tx(dur, k, m.into_iter().collect())
            }
            7 | 8 => {
                let cnt = r.range(1, 4);
                let mut seen = std::collections::HashSet::new();
                let mut items = vec![];
                for _ in 0..cnt {
                    let ks = r.range(0, nks - 1);
                    let kk = key(&mut r);
                    if seen.insert((ks, kk.clone())) { items.push((ks, kk, if r.chance(4, 5) { Some(val(&mut r)) } else { None })); }
                }
                let dur = match r.below(4) { 0 => None, _ => Some(mode(&mut r)) };
                WOp::Batch(dur, items)
            }
            9 if rotations && r.chance(1, 2) => WOp::RotateJournal,
            _ => WOp::Persist(mode(&mut r)),
        });
    }
    Workload { manual, lz4, nks, ops, flavour }
}
