import Driver.Util
import FjallModel.Tx.CommitMutex
namespace Driver
open Fjall.CommitMutex

def showPhase : Phase → String
  | .idle => "idle" | .locked => "locked" | .validated => "validated"

/-- run the two-thread write-skew instance step by step; a step that changes nothing while the thread
    still has a request is reported as blocked -/
def cmRun (cfg : Cfg) (s : State (Int × Int) Bool) (sched : List Nat) : State (Int × Int) Bool × List Nat :=
  (sched.foldl (fun (acc : State (Int × Int) Bool × List Nat × Nat) i =>
    let (s, blocked, pos) := acc
    let s' := stepT cfg skew s i
    let noop := s'.mutex == s.mutex && s'.done.length == s.done.length &&
      (s'.threads i).phase == (s.threads i).phase && !(s.threads i).todo.isEmpty
    (s', if noop then blocked ++ [pos] else blocked, pos + 1)) (s, [], 0)) |> fun r => (r.1, r.2.1)

def cmCmd (ws : List String) : Option String :=
  match ws with
  | ["cm.skew", hold, x, y, sched] =>
    match x.toInt?, y.toInt?, (sched.splitOn ",").mapM String.toNat? with
    | some x, some y, some sc =>
      let (s, blocked) := cmRun { holdAcross := hold = "1" } (init (x, y) [[true], [false]]) sc
      some s!"db={s.db.1},{s.db.2} verdicts={",".intercalate (s.done.map fun d => (if d.1 then "t1" else "t2") ++ ":" ++ (if d.2 then "ok" else "conflict"))} mutex={match s.mutex with | none => "none" | some i => toString i} blocked={",".intercalate (blocked.map toString)} phases={showPhase (s.threads 0).phase},{showPhase (s.threads 1).phase}"
    | _, _, _ => some "bad-op"
  | _ => none

end Driver
