import Driver.Journal
namespace Driver
open Fjall Fjall.Journal

structure WrSession where
  db : JDb := {}
  cfg : WriterCfg := ⟨.lz4, 4096⟩

def batchPieces (t : CompTable) (cfg : WriterCfg) (b : WBatch) : List Bytes :=
  let b' := writerBatch cfg b
  let c := mkCodec t
  let body := encodeBody params c b'.entries
  [encodeEntry params c (.start b'.entries.length b'.seqno)] ++
    b'.entries.map (encodeEntry params c) ++ [encodeEntry params c (.fin (Fjall.Xxh3.hashBytes body))]

def modeOf : String → Option (Option PersistMode)
  | "none" => some none
  | "buffer" => some (some .buffer)
  | "syncdata" => some (some .syncData)
  | "syncall" => some (some .syncAll)
  | _ => none

def showSys : Sys → String
  | .write r w => s!"write:{r}:{w}"
  | .writeFail r => s!"write-fail:{r}"
  | .fsync ok => s!"fsync:{if ok then 1 else 0}"
  | .fdatasync ok => s!"fdatasync:{if ok then 1 else 0}"
  | .ftruncate n => s!"ftruncate:{n}"
  | .create => "create"
  | .dirsync => "dirsync"

def showJRes : JRes → String
  | .ok => "ok" | .io => "io" | .poisoned => "poisoned"

def wrReply (before : JDb) (after : JDb) (r : JRes) : String :=
  let delta := after.w.trace.drop before.w.trace.length
  s!"{showJRes r} trace=[{",".intercalate (delta.map showSys)}] os={after.w.os.length} buf={after.w.buf.length} synced={after.w.synced}"

def wrCmd (s : WrSession) (t : CompTable) (ws : List String) : Option (WrSession × String) :=
  match ws with
  | "wr.reset" :: manual :: rest =>
    let fa := rest.findSome? fun w => if w.startsWith "fail=" then (w.drop 5).toString.toNat? else none
    let sk := rest.findSome? fun w => if w.startsWith "short=" then (w.drop 6).toString.toNat? else none
    let cp := rest.findSome? fun w => if w.startsWith "comp=" then compOf (w.drop 5).toString else none
    some ({ db := { manual := manual = "1", w := { failAt := fa, shortK := sk, failOnce := rest.contains "once" } },
            cfg := ⟨cp.getD .lz4, 4096⟩ }, "ok")
  | ["wr.op", "single", b] =>
    match parseBatch b with
    | some b =>
      if missing t (writerBatch s.cfg b) then some (s, "missing-lz4") else
      let (d, r) := jstep s.db (.single (batchPieces t s.cfg b))
      some ({ s with db := d }, wrReply s.db d r)
    | none => some (s, "bad-op")
  | ["wr.op", "clear", b] =>
    match parseBatch b with
    | some b =>
      let (d, r) := jstep s.db (.clear (batchPieces t s.cfg b))
      some ({ s with db := d }, wrReply s.db d r)
    | none => some (s, "bad-op")
  | ["wr.op", "batch", dur, b] =>
    match modeOf dur, parseBatch b with
    | some dur, some b =>
      if missing t (writerBatch s.cfg b) then some (s, "missing-lz4") else
      let pieces := if b.entries.isEmpty then [] else batchPieces t s.cfg b
      let (d, r) := jstep s.db (.batch pieces dur)
      some ({ s with db := d }, wrReply s.db d r)
    | _, _ => some (s, "bad-op")
  | ["wr.op", "persist", m] =>
    match modeOf m with
    | some (some m) =>
      let (d, r) := jstep s.db (.persist m)
      some ({ s with db := d }, wrReply s.db d r)
    | _ => some (s, "bad-op")
  | ["wr.op", "rotate"] =>
    let (d, r) := jstep s.db .rotate
    some ({ s with db := d }, wrReply s.db d r)
  | ["wr.file"] => some (s, toHex s.db.w.os)
  | ["wr.files"] => some (s, "|".intercalate ((s.db.sealed.map fun p => toHex p.1) ++ [toHex s.db.w.os]))
  | _ => none

end Driver
