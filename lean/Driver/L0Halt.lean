import Driver.Util
import FjallModel.Conc.L0Halt
namespace Driver
open Fjall.L0Halt

def l0Ev (w : String) : Option Ev :=
  if w = "w" then some .writer
  else if w = "f" then some .flush
  else if w.startsWith "c" then (w.drop 1).toString.toNat?.map Ev.compact
  else none

def l0Cmd (ws : List String) : Option String :=
  match ws with
  | ["l0.run", poll, l0, evs] =>
    match l0.toNat?, (evs.splitOn ",").mapM l0Ev with
    | some n, some es =>
      let s := run { pollCurrent := poll = "1" } { l0 := n } es
      some s!"w={match s.w with | .idle => "idle" | .halted _ => "halted" | .done => "done"} l0={s.l0}"
    | _, _ => some "bad-op"
  | _ => none

end Driver
