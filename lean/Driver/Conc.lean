import Driver.Util
import FjallModel.Conc.Model
import FjallModel.Lemmas.ConcLin
namespace Driver
open Fjall Fjall.Spec Fjall.Conc

def parseCItem (s : String) : Option Item :=
  match s.splitOn ":" with
  | [ks, k, "~"] => do pure ⟨← ks.toNat?, ← ofHex k, none⟩
  | [ks, k, v] => do pure ⟨← ks.toNat?, ← ofHex k, some (← ofHex v)⟩
  | _ => none

def parseCCmd (s : String) : Option Cmd :=
  match s.toList with
  | 'W' :: r => ((String.ofList r).splitOn ";").mapM parseCItem |>.map Cmd.write
  | ['S'] => some .snap
  | 'R' :: r => match (String.ofList r).splitOn ":" with
    | [ks, k] => do pure (.read (← ks.toNat?) (← ofHex k))
    | _ => none
  | 'T' :: r => match (String.ofList r).splitOn ":" with
    | [ks, k] => do pure (.readTop (← ks.toNat?) (← ofHex k))
    | _ => none
  | ['G'] => some .register
  | ['O'] => some .rotate
  | ['C'] => some .gc
  | ['X'] => some .close
  | 'I' :: r => ((String.ofList r).splitOn ";").mapM parseCItem |>.map Cmd.ingest
  | _ => none

def parseProg (s : String) : Option (List Cmd) :=
  if s = "-" then some [] else (s.splitOn ",").mapM parseCCmd

def showOV : Option Val → String
  | none => "none"
  | some v => toHex v

def lastObs (s : State) : String :=
  match s.obs.getLast? with
  | some o => showOV o.res
  | none => "-"

def lastTop (s : State) : String :=
  match s.log.reverse.find? (fun e => match e with | .readTop .. => true | _ => false) with
  | some (.readTop _ _ _ r) => showOV r
  | _ => "-"

def showState (s : State) (t : Tid) : String :=
  let lk := match s.lock with | some (h, _) => toString h | none => "none"
  let fl := match s.floor with | some f => toString f | none => "none"
  let (vw, ph, left) := match s.threads[t]? with
    | some th => ((match th.view with | some i => toString i | none => "none"),
        (match th.phase with | .idle => "idle" | .sLoaded _ => "loaded" | .gDrawn _ => "gdrawn" | .needGc => "needgc"), th.prog.length)
    | none => ("none", "none", 0)
  s!"c={s.counter} v={s.visible} f={fl} l={lk} wm={s.wm} view={vw} phase={ph} left={left} obs={lastObs s} top={lastTop s} nobs={s.obs.length}"

structure ConcSession where
  st : State := {}
  cfg : Cfg := {}

def concCmd (c : ConcSession) (ws : List String) : Option (ConcSession × String) :=
  match ws with
  | ["conc.init", counter, visible, wm, floorMode, progs] =>
    match counter.toNat?, visible.toNat?, wm.toNat?, (progs.splitOn "|").mapM parseProg with
    | some cn, some v, some w, some ps =>
      some ({ st := { init ps with counter := cn, visible := v, wm := w }, cfg := { useFloor := floorMode != "nofloor" } }, "ok")
    | _, _, _, _ => some (c, "bad-op")
  | ["conc.step", t] =>
    match t.toNat? with
    | some t =>
      match stepT c.cfg c.st t with
      | some s' => some ({ c with st := s' }, "ok " ++ showState s' t)
      | none => some (c, "blocked " ++ showState c.st t)
    | none => some (c, "bad-op")
  | ["conc.enabled"] =>
    let en := (List.range c.st.threads.length).filter fun t => (stepT c.cfg c.st t).isSome
    some (c, "enabled " ++ " ".intercalate (en.map toString))
  | ["conc.top", ks, key] =>
    match ks.toNat?, ofHex key with
    | some ks, some key => some (c, "top=" ++ showOV (lookup c.st.store ks key none))
    | _, _ => some (c, "bad-op")
  | ["conc.check"] =>
    let a := decide (AtomicVisible c.st)
    let l := (linRun c.st.log).2
    let w := (wbRun c.st.log).2
    some (c, s!"atomic={a} linearizable={l} wellbracketed={w} store={c.st.store.length} batches={c.st.batches.length}")
  | _ => none

end Driver
