import Driver.Util
import Driver.Tx
import FjallModel.Mvcc.Kv
import FjallModel.Mvcc.Filter
namespace Driver
open Fjall Fjall.Spec Fjall.Mvcc

def valOf (s : String) : Option (Option Val) :=
  if s = "~" then some none else (ofHex s).map some

def parseItem3 (s : String) : Option (KsId × Key × Option Val) :=
  match s.splitOn ":" with
  | [ks, k, v] => do pure (← ks.toNat?, ← ofHex k, ← valOf v)
  | _ => none

def parseItem2 (s : String) : Option (Key × Option Val) :=
  match s.splitOn ":" with
  | [k, v] => do pure (← ofHex k, ← valOf v)
  | _ => none

def parseKvOp (s : Kv) (ws : List String) : Option KvOp :=
  match ws with
  | ["insert", ks, k, v] => do pure (.insert (← ks.toNat?) (← ofHex k) (← ofHex v))
  | ["remove", ks, k] => do pure (.remove (← ks.toNat?) (← ofHex k))
  | ["batch", items] => do pure (.batch (← (items.splitOn ";").mapM parseItem3))
  | ["batch"] => some (.batch [])
  | ["clear", ks] => do pure (.clear (← ks.toNat?))
  | ["ingest", ks, items] => do pure (.ingest (← ks.toNat?) (← (items.splitOn ";").mapM parseItem2))
  | ["ingest", ks] => do pure (.ingest (← ks.toNat?) [])
  | ["rotate", ks] => do pure (.rotate (← ks.toNat?))
  | ["flush", ks, w] => do pure (.flush (← ks.toNat?) (← w.toNat?))
  | ["compact", ks, i, n, w] => do pure (.compact (← ks.toNat?) (← i.toNat?) (← n.toNat?) (← w.toNat?))
  | ["compactall", ks, w] => do
    let ks ← ks.toNat?
    pure (.compact ks 0 (s.trees ks).tables.length (← w.toNat?))
  | ["get", ks, k] => do pure (.get (← ks.toNat?) (← ofHex k))
  | ["contains", ks, k] => do pure (.contains (← ks.toNat?) (← ofHex k))
  | ["sizeof", ks, k] => do pure (.sizeOf (← ks.toNat?) (← ofHex k))
  | ["scan", ks, lo, hi] => do pure (.scan (← ks.toNat?) (← boundOf lo) (← boundOf hi))
  | ["prefix", ks, p] => do
    let p ← ofHex p
    let (lo, hi) := prefixRange p
    pure (.scan (← ks.toNat?) lo hi)
  | ["len", ks] => do pure (.len (← ks.toNat?))
  | ["isempty", ks] => do pure (.isEmpty (← ks.toNat?))
  | ["first", ks] => do pure (.first (← ks.toNat?))
  | ["last", ks] => do pure (.last (← ks.toNat?))
  | _ => none

def showKvOut : KvOut → String
  | .unit => "unit"
  | .val none => "val:none"
  | .val (some v) => s!"val:{toHex v}"
  | .bool b => s!"bool:{if b then 1 else 0}"
  | .size none => "size:none"
  | .size (some n) => s!"size:{n}"
  | .pairs l => s!"pairs:{showPairs l}"
  | .pair none => "pair:none"
  | .pair (some (k, v)) => s!"pair:{toHex k}={toHex v}"
  | .count n => s!"count:{n}"

/-- the filter the `filt` engine installs: keys starting with `r` are removed, keys starting with
    `x` get the value "REPL", everything else is kept -/
def engineFilter : Filter := fun k =>
  match k with
  | 0x72 :: _ => .remove
  | 0x78 :: _ => .replace [0x52, 0x45, 0x50, 0x4c]
  | _ => .keep

def kvCmd (s : Kv) (ws : List String) : Option (Kv × String) :=
  match ws with
  | ["kv.op", "compactfall", ks, w] =>
    match ks.toNat?, w.toNat? with
    | some ks, some w =>
      let t := s.trees ks
      if t.tables.isEmpty then some (s, "unit") else
      some ({ trees := s.upd ks (·.compactF engineFilter 0 t.tables.length w), seqno := s.seqno + 1 }, "unit")
    | _, _ => some (s, "bad-op")
  | ["kv.reset"] => some ({}, "ok")
  | "kv.op" :: rest =>
    match parseKvOp s rest with
    | some op => let (s', out) := kvStep s op; some (s', showKvOut out)
    | none => some (s, "bad-op")
  | ["kv.shape", ks] =>
    match ks.toNat? with
    | some ks =>
      let t := s.trees ks
      some (s, s!"active={t.active.length} sealed={t.sealed.length} tables={t.tables.length}")
    | none => some (s, "bad-op")
  | _ => none

end Driver
