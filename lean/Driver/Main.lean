import Driver.Journal
import Driver.Config
import Driver.Tx
import Driver.Kv
import Driver.Db
import Driver.Writer
import Driver.Conc
import Driver.Sw
import Driver.Stall
import Driver.CommitMutex
import Driver.L0Halt
open Driver

structure DState where
  comp : CompTable := []
  loaded : Fjall.Bytes := []
  tx : TxSession := {}
  kv : Fjall.Mvcc.Kv := {}
  db : Fjall.Db.DbL := {}
  wr : WrSession := {}
  conc : ConcSession := {}
  sw : SwSession := {}
  stall : StallSession := {}

def step (s : DState) (line : String) : DState × String :=
  let ws := words line
  match journalCmd s.comp s.loaded ws with
  | some (t, l, out) => ({ s with comp := t, loaded := l }, out)
  | none =>
    match configCmd ws with
    | some out => (s, out)
    | none =>
      match txCmd s.tx ws with
      | some (t, out) => ({ s with tx := t }, out)
      | none =>
        match kvCmd s.kv ws with
        | some (k, out) => ({ s with kv := k }, out)
        | none =>
          match dbCmd s.db ws with
          | some (d, out) => ({ s with db := d }, out)
          | none =>
            match wrCmd s.wr s.comp ws with
            | some (w, out) => ({ s with wr := w }, out)
            | none =>
              match concCmd s.conc ws with
              | some (c, out) => ({ s with conc := c }, out)
              | none =>
                match swCmd s.sw ws with
                | some (w, out) => ({ s with sw := w }, out)
                | none =>
                  match stallCmd s.stall ws with
                  | some (x, out) => ({ s with stall := x }, out)
                  | none =>
                    match cmCmd ws with
                    | some out => (s, out)
                    | none =>
                      match l0Cmd ws with
                      | some out => (s, out)
                      | none => (s, "bad-op")

partial def loop (h : IO.FS.Stream) (out : IO.FS.Stream) (s : DState) : IO Unit := do
  let line ← h.getLine
  if line.isEmpty then return ()
  let (s', o) := step s line
  out.putStrLn o
  out.flush
  loop h out s'

def main : IO Unit := do
  loop (← IO.getStdin) (← IO.getStdout) {}
