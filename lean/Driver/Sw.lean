import Driver.Tx
import FjallModel.Tx.Sw
namespace Driver
open Fjall Fjall.Spec Fjall.Tx Fjall.Sw

structure SwSession where
  cfg : Cfg := {}
  st : State := {}

/-- split a word list at ";" -/
def splitSemi (ws : List String) : List (List String) :=
  let (cur, acc) := ws.foldl (fun (p : List String × List (List String)) w =>
    if w = ";" then ([], p.2 ++ [p.1]) else (p.1 ++ [w], p.2)) ([], [])
  if cur.isEmpty then acc else acc ++ [cur]

def parseOps (ws : List String) : Option (List XOp) :=
  (splitSemi ws).mapM parseXOp

def phaseName : Phase → String
  | .idle => "idle"
  | .presnap _ => "presnap"
  | .locked => "locked"
  | .running _ rest _ => s!"running:{rest.length}"
  | .finishing _ => "finishing"
  | .reading _ _ rest _ => s!"reading:{rest.length}"

def lastOut (outs : List XOut) : String :=
  match outs.getLast? with
  | some o => showXOut o
  | none => "-"

def describe (old new : Thread) (sOld sNew : State) : String :=
  match old.phase, new.phase with
  | .idle, .idle => if old.todo.isEmpty then "none" else "blocked"
  | .idle, .locked => "locked"
  | .idle, .presnap _ => "presnap"
  | .idle, .reading .. => "reading"
  | .presnap _, .presnap _ => "blocked"
  | .presnap _, .running .. => "locked-opened"
  | .locked, .running .. => "opened"
  | .running _ (_ :: _) _, .running _ _ outs => s!"out {lastOut outs}"
  | .running _ [] _, .finishing _ => s!"committed wrote={if sNew.seqno = sOld.seqno then 0 else 1}"
  | .running _ [] _, .idle => "rolledback"
  | .finishing _, .idle => "released"
  | .reading _ _ (_ :: _) _, .reading _ _ _ outs => s!"out {lastOut outs}"
  | .reading _ _ [] _, .idle => "readdone"
  | _, _ => "unexpected"

def swCmd (s : SwSession) (ws : List String) : Option (SwSession × String) :=
  match ws with
  | ["sw.init", snapAfter] =>
    some ({ cfg := { snapAfterLock := snapAfter ≠ "0" }, st := {} }, "ok")
  | ["sw.seed", ks, k, v] =>
    match ks.toNat?, ofHex k, ofHex v with
    | some ks, some k, some v =>
      some ({ s with st := { s.st with log := ⟨s.st.seqno, [⟨ks, k, 2^63, .value, v⟩]⟩ :: s.st.log,
                                        seqno := s.st.seqno + 1 } }, "ok")
    | _, _, _ => some (s, "bad-op")
  | "sw.job" :: tid :: kind :: rest =>
    match tid.toNat?, parseOps rest with
    | some tid, some ops =>
      let j : Job := { ops := ops, commit := kind = "commit", readOnly := kind = "ro" }
      let th := s.st.threads tid
      some ({ s with st := s.st.setThread tid { th with todo := th.todo ++ [j] } }, "ok")
    | _, _ => some (s, "bad-op")
  | ["sw.step", tid] =>
    match tid.toNat? with
    | some tid =>
      let st' := stepT s.cfg s.st tid
      some ({ s with st := st' }, describe (s.st.threads tid) (st'.threads tid) s.st st')
    | none => some (s, "bad-op")
  | ["sw.lock"] =>
    some (s, match s.st.lock with | none => "none" | some t => toString t)
  | ["sw.phase", tid] =>
    match tid.toNat? with
    | some tid => some (s, phaseName (s.st.threads tid).phase)
    | none => some (s, "bad-op")
  | ["sw.top", ks] =>
    match ks.toNat? with
    | some ks => some (s, s!"pairs:{showPairs (stateTop s.st.log ks).toList}")
    | none => some (s, "bad-op")
  | ["sw.state"] =>
    some (s, s!"seqno={s.st.seqno} log={s.st.log.length} done={s.st.done.length} ro={s.st.doneRo.length}")
  | _ => none

end Driver
