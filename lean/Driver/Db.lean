import Driver.Util
import Driver.Tx
import FjallModel.Db.Log
namespace Driver
open Fjall Fjall.Spec Fjall.Db

def parseLItem (s : String) : Option (KsId × LOp) :=
  match s.splitOn ":" with
  | [ks, "P", k, v] => do pure (← ks.toNat?, .put (← ofHex k) (← ofHex v))
  | [ks, "D", k] => do pure (← ks.toNat?, .del (← ofHex k))
  | [ks, "C"] => do pure (← ks.toNat?, .clear)
  | _ => none

def showOptNat : Option Nat → String
  | none => "none"
  | some n => toString n

def dbCmd (db : DbL) (ws : List String) : Option (DbL × String) :=
  match ws with
  | ["db.reset"] => some ({}, "ok")
  | ["db.createks", name] => let (d, id) := db.createKs name; some (d, s!"id={id}")
  | ["db.deleteks", id] => id.toNat?.map fun id => (db.deleteKs id, "ok")
  | ["db.write", items] =>
    match (items.splitOn ";").mapM parseLItem with
    | some its => some (db.write its, "ok")
    | none => some (db, "bad-op")
  | ["db.flush", id] => id.toNat?.map fun id => (db.flush id, "ok")
  | ["db.ingest", id, items] =>
    match id.toNat?, (items.splitOn ";").mapM (fun s => match s.splitOn ":" with
        | [k, "~"] => (ofHex k).map fun k => (k, (none : Option Val))
        | [k, v] => do pure (← ofHex k, some (← ofHex v))
        | _ => none) with
    | some id, some its => some (db.ingest id its, "ok")
    | _, _ => some (db, "bad-op")
  | ["db.lowerpersisted", id, v] =>
    id.toNat?.map fun id =>
      let db' := db.lowerPersisted id (if v = "none" then none else v.toNat?)
      -- the model's assumption about observed values (`KsL.physOk`, part of `DOp.WF`)
      (db', if db'.kss.all (fun k => k.id != id || k.physOk) then "ok" else "phys-violated")
  | ["db.rotate", id] => id.toNat?.map fun id => (db.rotate id, "ok")
  | ["db.flushsealed", id] => id.toNat?.map fun id => (db.flushSealed id, "ok")
  | ["db.bump", n] => n.toNat?.map fun n => ({ db with seqno := db.seqno + n }, "ok")
  | ["db.rotatejournal"] => some (db.rotateJournal, "ok")
  | ["db.maintenance"] => some (db.maintenance, "ok")
  | ["db.recover"] => some (db.recover, "ok")
  | ["db.abs", id] => id.toNat?.map fun id => (db, s!"pairs:{showPairs (db.absOf id).toList}")
  | ["db.state"] =>
    let ks := db.kss.map fun k => s!"{k.id}:{k.name}:persisted={showOptNat k.persisted}:sealed={k.sealedMem.length}:mem={k.mem.length}"
    some (db, s!"seqno={db.seqno} journals={db.sealed.length + 1} nextid={db.nextKsId} ks=[{" ".intercalate ks}]")
  | _ => none

end Driver
