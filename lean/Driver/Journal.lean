import Driver.Util
import FjallModel.Journal.Reader
import FjallModel.Journal.Writer
import FjallModel.Xxh3
import FjallModel.Lz4
import Generated.Params
namespace Driver
open Fjall Fjall.Journal

/-- compressor table supplied by the implementation, each entry re-validated on insertion -/
abbrev CompTable := List (Bytes × Bytes)

def mkCodec (t : CompTable) : Codec :=
  { compress := fun v => match t.lookup v with
      | some c => c
      | none => [0xde, 0xad]   -- flagged by `missing` below before it can matter
    decompress := Fjall.Lz4.decompress }

def params : Params := Generated.params

def kindStr : Kind → String
  | .value => "V" | .tomb => "T" | .weakTomb => "W" | .indirection => "X"
def kindOf : String → Option Kind
  | "V" => some .value | "T" => some .tomb | "W" => some .weakTomb | "X" => some .indirection
  | _ => none
def compOf : String → Option Comp
  | "N" => some .none | "L" => some .lz4 | _ => none

/-- entry syntax: `I,ks,kind,comp,keyhex,valhex` or `C,ks` -/
def parseEntry (s : String) : Option Entry :=
  match s.splitOn "," with
  | ["I", ks, k, cp, key, val] => do
    let ks ← ks.toNat?
    let k ← kindOf k
    let cp ← compOf cp
    let key ← ofHex key
    let val ← ofHex val
    pure (.item ⟨ks, key, val, k, cp⟩)
  | ["C", ks] => do pure (.clear (← ks.toNat?))
  | _ => none

/-- batch syntax: `seqno;entry;entry…` -/
def parseBatch (s : String) : Option WBatch :=
  match s.splitOn ";" with
  | [] => none
  | sq :: es => do
    let sq ← sq.toNat?
    let es ← es.mapM parseEntry
    pure ⟨sq, es⟩

def showBatch (b : Batch) : String :=
  s!"{b.seqno}:" ++ ",".intercalate (b.items.map fun i => s!"{i.ks}/{kindStr i.kind}/{toHex i.key}/{toHex i.val}")
    ++ ":" ++ ",".intercalate (b.clears.map toString)

def showErr : Option RErr → String
  | none => "none"
  | some .insufficientLength => "insufficient-length"
  | some .tooManyItems => "too-many-items"
  | some .checksumMismatch => "checksum-mismatch"

def showRead (r : ReadResult) : String :=
  s!"batches=[{" ".intercalate (r.batches.map showBatch)}] final={r.finalLen} err={showErr r.err}"

def missing (t : CompTable) (b : WBatch) : Bool :=
  b.entries.any fun e => match e with
    | .item i => i.comp == .lz4 && (t.lookup i.val).isNone
    | _ => false

/-- journal commands; returns the new table and the reply -/
def journalCmd (t : CompTable) (loaded : Bytes) (ws : List String) :
    Option (CompTable × Bytes × String) :=
  let ret (t : CompTable) (s : String) : Option (CompTable × Bytes × String) := some (t, loaded, s)
  match ws with
  | ["load", hx] =>
    match ofHex hx with
    | some bs => some (t, bs, "ok")
    | none => ret t "bad-op"
  | ["readcut", n, m] =>
    match n.toNat?, m.toNat? with
    | some n, some m =>
      ret t (showRead (readJournal params (mkCodec t) Fjall.Xxh3.hashBytes (loaded.take n ++ zeros m)))
    | _, _ => ret t "bad-op"
  | ["readalt", pos, byte] =>
    -- the loaded journal with the byte at `pos` replaced
    match pos.toNat?, byte.toNat? with
    | some pos, some b =>
      ret t (showRead (readJournal params (mkCodec t) Fjall.Xxh3.hashBytes
        (loaded.take pos ++ [UInt8.ofNat b] ++ loaded.drop (pos + 1))))
    | _, _ => ret t "bad-op"
  | ["params"] =>
    ret t (s!"tags={params.tagStart},{params.tagItem},{params.tagEnd},{params.tagClear} magic={toHex params.magic}")
  | ["xxh3", hx] =>
    match ofHex hx with
    | some bs => ret t (toString (Fjall.Xxh3.hashBytes bs))
    | none => ret t ("bad-op")
  | ["lz4", v, cmp] =>
    match ofHex v, ofHex cmp with
    | some v, some cmp =>
      if Fjall.Lz4.decompress cmp v.length = some v then ret ((v, cmp) :: t) "ok"
      else ret t ("lz4-law-violated")
    | _, _ => ret t ("bad-op")
  | ["unlz4", cmp, n] =>
    match ofHex cmp, n.toNat? with
    | some cmp, some n =>
      match Fjall.Lz4.decompress cmp n with
      | some v => ret t (toHex v)
      | none => ret t ("none")
    | _, _ => ret t ("bad-op")
  | ["enc", b] =>
    match parseBatch b with
    | some b =>
      if missing t b then ret t ("missing-lz4") else
      ret t (toHex (encodeBatch params (mkCodec t) Fjall.Xxh3.hashBytes b))
    | none => ret t ("bad-op")
  | ["wenc", thr, cp, b] =>
    -- writer-level: compression chosen by the writer's threshold rule
    match thr.toNat?, compOf cp, parseBatch b with
    | some thr, some cp, some b =>
      let b' := writerBatch ⟨cp, thr⟩ b
      if missing t b' then ret t ("missing-lz4") else
      ret t (toHex (encodeBatch params (mkCodec t) Fjall.Xxh3.hashBytes b'))
    | _, _, _ => ret t ("bad-op")
  | ["read", hx, m] =>
    match ofHex hx, m.toNat? with
    | some bs, some m =>
      ret t (showRead (readJournal params (mkCodec t) Fjall.Xxh3.hashBytes (bs ++ zeros m)))
    | _, _ => ret t ("bad-op")
  | _ => none

end Driver
