import FjallModel.Bytes
namespace Driver
open Fjall

def hexDigit (n : Nat) : Char :=
  if n < 10 then Char.ofNat (48 + n) else Char.ofNat (87 + n)

def toHex (bs : Bytes) : String :=
  if bs.isEmpty then "-" else
  String.ofList (bs.foldr (fun b acc => hexDigit (b.toNat / 16) :: hexDigit (b.toNat % 16) :: acc) [])

def hexVal (c : Char) : Option Nat :=
  if '0' ≤ c ∧ c ≤ '9' then some (c.toNat - 48)
  else if 'a' ≤ c ∧ c ≤ 'f' then some (c.toNat - 87)
  else if 'A' ≤ c ∧ c ≤ 'F' then some (c.toNat - 55)
  else none

def ofHexAux : List Char → List UInt8 → Option (List UInt8)
  | [], acc => some acc.reverse
  | [_], _ => none
  | a :: b :: r, acc =>
    match hexVal a, hexVal b with
    | some x, some y => ofHexAux r (UInt8.ofNat (16*x + y) :: acc)
    | _, _ => none

def ofHex (s : String) : Option Bytes :=
  if s = "-" then some [] else ofHexAux s.toList []

def words (line : String) : List String :=
  (line.trimAscii.toString.splitOn " ").filter (· ≠ "")

end Driver
