import Driver.Util
import FjallModel.Lemmas.StallRank
namespace Driver
open Fjall.Stall

structure StallSession where
  cfg : Cfg := {}
  st : State := {}

def showHolder : Option Holder → String
  | none => "none"
  | some (.w i) => s!"w{i}"
  | some (.k j) => s!"k{j}"

def showWr : WrPhase → String
  | .idle => "idle" | .locked => "locked" | .stalling => "stalling" | .stallingLocked => "stallingLocked"

def showWk : WkPhase → String
  | .idle => "idle" | .rotWait _ => "rotWait" | .rotLocked _ => "rotLocked" | .sendFlush => "sendFlush"
  | .flushWait => "flushWait" | .flushLocked => "flushLocked" | .flushing => "flushing" | .compacting => "compacting"

def stallSummary (s : State) : String :=
  s!"sealed={s.sealed} tasks={s.tasks} queued={s.queued} lock={showHolder s.jlock} over={if s.over then 1 else 0} gen={s.gen}"

def pickOf : String → Option Pick
  | "rot" => some .rot | "flush" => some .flush | "compact" => some .compact | _ => none

/-- the head of the writer's program gets the observed flag (the write that is being applied) -/
def setBig (s : State) (i : Nat) (big : Bool) : State :=
  match s.writers[i]? with
  | some w => match w.todo with
    | _ :: tl => { s with writers := s.writers.set i { w with todo := big :: tl } }
    | [] => s
  | none => s

def stallCmd (s : StallSession) (ws : List String) : Option (StallSession × String) :=
  match ws with
  | ["st.init", cap, limit, fanout, blocking, unlockFirst, writes, nworkers] =>
    match cap.toNat?, limit.toNat?, fanout.toNat?, nworkers.toNat? with
    | some cap, some limit, some fanout, some nk =>
      let progs := (writes.splitOn ",").filterMap (·.toNat?) |>.map fun n => List.replicate n false
      some ({ cfg := { cap := cap, limit := limit, fanout := fanout, workerBlockingSend := blocking = "1",
                       unlockBeforeStall := unlockFirst ≠ "0" },
              st := init progs nk }, "ok")
    | _, _, _, _ => some (s, "bad-op")
  | ["st.step", "w", i, big] =>
    match i.toNat? with
    | some i =>
      let st0 := setBig s.st i (big = "1")
      let en := enabled s.cfg st0 (.writer i)
      let st' := stepT s.cfg st0 (.writer i)
      let ph := match st'.writers[i]? with | some w => showWr w.phase | none => "?"
      some ({ s with st := st' }, s!"{if en then "ok" else "noop"} phase={ph} {stallSummary st'}")
    | none => some (s, "bad-op")
  | ["st.step", "k", j, pick] =>
    match j.toNat?, pickOf pick with
    | some j, some pk =>
      let en := enabled s.cfg s.st (.worker j pk)
      let st' := stepT s.cfg s.st (.worker j pk)
      let ph := match st'.workers[j]? with | some p => showWk p | none => "?"
      some ({ s with st := st' }, s!"{if en then "ok" else "noop"} phase={ph} {stallSummary st'}")
    | _, _ => some (s, "bad-op")
  | ["st.state"] => some (s, stallSummary s.st)
  | ["st.done"] => some (s, if s.st.done then "1" else "0")
  | ["st.rank"] => some (s, toString (rank s.cfg s.st))
  | _ => none

end Driver
