import Driver.Util
import FjallModel.Config
import FjallModel.Version
import FjallModel.Tracker
namespace Driver
open Fjall Fjall.Config
open Fjall.Journal (Comp)

def natList (s : String) : Option (List Nat) :=
  if s = "" then some [] else (s.splitOn ",").mapM (·.toNat?)

def showNatList (xs : List Nat) : String := ",".intercalate (xs.map toString)

def compChar : Comp → String | .none => "N" | .lz4 => "L"
def compOfS : String → Option Comp | "N" => some .none | "L" => some .lz4 | _ => none
def boolList (s : String) : Option (List Bool) :=
  (natList s).map fun l => l.map (· != 0)
def showBoolList (xs : List Bool) : String := ",".intercalate (xs.map fun b => if b then "1" else "0")
def compList (s : String) : Option (List Comp) := (s.splitOn ",").mapM compOfS
def showCompList (xs : List Comp) : String := ",".intercalate (xs.map compChar)

def filterOfS (s : String) : Option FilterEntry :=
  if s = "n" then some .none
  else if s.startsWith "b" then (s.drop 1).toString.toNat?.map .bitsPerKey
  else if s.startsWith "f" then (s.drop 1).toString.toNat?.map .falsePositiveRate
  else none
def showFilter : FilterEntry → String
  | .none => "n" | .bitsPerKey f => s!"b{f}" | .falsePositiveRate f => s!"f{f}"

def stratOfS (s : String) : Option Strategy :=
  match s.splitOn ":" with
  | ["L", l0, ts, rs] => do pure (.leveled (← l0.toNat?) (← ts.toNat?) (← natList (rs.replace "/" ",")))
  | ["F", lim, "-"] => do pure (.fifo (← lim.toNat?) none)
  | ["F", lim, t] => do pure (.fifo (← lim.toNat?) (some (← t.toNat?)))
  | _ => none
def showStrat : Strategy → String
  | .leveled l0 ts rs => s!"L:{l0}:{ts}:{"/".intercalate (rs.map toString)}"
  | .fifo lim none => s!"F:{lim}:-"
  | .fifo lim (some t) => s!"F:{lim}:{t}"

def blobOfS (s : String) : Option (Option BlobOpts) :=
  if s = "-" then some none else
  match s.splitOn ":" with
  | [ac, cp, fts, st, stl] => do
    pure (some ⟨← ac.toNat?, ← compOfS cp, ← fts.toNat?, ← st.toNat?, ← stl.toNat?⟩)
  | _ => none
def showBlob : Option BlobOpts → String
  | none => "-"
  | some b => s!"{b.ageCutoff}:{compChar b.compression}:{b.fileTargetSize}:{b.separationThreshold}:{b.stalenessThreshold}"

/-- `k=v|k=v|…` -/
def parseOpts (s : String) : Option Opts := do
  let kvs := (s.splitOn "|").filterMap fun kv =>
    match kv.splitOn "=" with
    | [k, v] => some (k, v)
    | _ => none
  let g := fun k => kvs.lookup k
  pure {
    dataBlockCompression := ← (← g "dbc") |> compList
    indexBlockCompression := ← (← g "ibc") |> compList
    dataBlockHashRatio := ← (← g "dbhr") |> natList
    dataBlockRestartInterval := ← (← g "dbri") |> natList
    indexBlockRestartInterval := ← (← g "ibri") |> natList
    dataBlockSize := ← (← g "dbs") |> natList
    expectPointReadHits := (← g "eprh") = "1"
    filterBlockPartitioning := ← (← g "fbpart") |> boolList
    indexBlockPartitioning := ← (← g "ibpart") |> boolList
    filterBlockPinning := ← (← g "fbpin") |> boolList
    indexBlockPinning := ← (← g "ibpin") |> boolList
    filterPolicy := ← ((← g "fp").splitOn ",").mapM filterOfS
    manualJournalPersist := (← g "mjp") = "1"
    maxMemtableSize := ← (← g "mms").toNat?
    strategy := ← (← g "strat") |> stratOfS
    blob := ← (← g "blob") |> blobOfS }

def showOpts (o : Opts) : String :=
  "|".intercalate [
    s!"dbc={showCompList o.dataBlockCompression}", s!"ibc={showCompList o.indexBlockCompression}",
    s!"dbhr={showNatList o.dataBlockHashRatio}", s!"dbri={showNatList o.dataBlockRestartInterval}",
    s!"ibri={showNatList o.indexBlockRestartInterval}", s!"dbs={showNatList o.dataBlockSize}",
    s!"eprh={if o.expectPointReadHits then 1 else 0}",
    s!"fbpart={showBoolList o.filterBlockPartitioning}", s!"ibpart={showBoolList o.indexBlockPartitioning}",
    s!"fbpin={showBoolList o.filterBlockPinning}", s!"ibpin={showBoolList o.indexBlockPinning}",
    s!"fp={",".intercalate (o.filterPolicy.map showFilter)}",
    s!"mjp={if o.manualJournalPersist then 1 else 0}", s!"mms={o.maxMemtableSize}",
    s!"strat={showStrat o.strategy}", s!"blob={showBlob o.blob}" ]

def showRows (id : Nat) (rows : Rows) : String :=
  let rs := rows.map fun (n, v) => (toHex (configKey id n), toHex v)
  let rs := rs.toArray.qsort (fun a b => a.1 < b.1) |>.toList
  ";".intercalate (rs.map fun (k, v) => s!"{k}={v}")

/-- rows given back as `keyhex=valhex;…` (full meta keys); names are recovered by stripping `c‖id` -/
def parseRows (id : Nat) (s : String) : Option (String → Option Bytes) := do
  let rs ← (s.splitOn ";").mapM fun kv =>
    match kv.splitOn "=" with
    | [k, v] => do pure (← ofHex k, ← ofHex v)
    | _ => none
  pure fun name => rs.lookup (configKey id name)

open Fjall.Version in
def showOpenRes : Except OpenErr Unit → String
  | .ok () => "ok"
  | .error .locked => "locked"
  | .error .alreadyExists => "already-exists"
  | .error (.invalidVersion none) => "invalid-version:none"
  | .error (.invalidVersion (some .v1)) => "invalid-version:1"
  | .error (.invalidVersion (some .v2)) => "invalid-version:2"
  | .error (.invalidVersion (some .v3)) => "invalid-version:3"

open Fjall.Tracker in
def parseTrOp (s : String) : Option Op :=
  if s = "o" then some .open
  else if s = "g" then some (.gc [])     -- order filled in by the caller
  else if s = "u" then some .pullup
  else if s.startsWith "c" then (s.drop 1).toString.toNat?.map .clone
  else if s.startsWith "x" then (s.drop 1).toString.toNat?.map .close
  else if s.startsWith "p" then (s.drop 1).toString.toNat?.map .publish
  else if s.startsWith "s" then (s.drop 1).toString.toNat?.map .set
  else none

open Fjall.Tracker in
def runTr (ops : List Op) : G :=
  ops.foldl (fun g o => match o with
    | .gc _ => stepG g (.gc g.t.data.reverse)   -- any permutation is allowed; use the reverse
    | o => stepG g o) {}

def configCmd (ws : List String) : Option String :=
  match ws with
  | ["cfgenc", id, spec] =>
    match id.toNat?, parseOpts spec with
    | some id, some o => some (showRows id (encodeKvs o))
    | _, _ => some "bad-op"
  | ["cfgdec", id, rows] =>
    match id.toNat? with
    | some id =>
      match parseRows id rows with
      | some get => match fromKvs get with
        | some o => some (showOpts o)
        | none => some "none"
      | none => some "bad-op"
    | none => some "bad-op"
  | ["cfgnorm", spec] =>
    match parseOpts spec with
    | some o => some (showOpts o)
    | none => some "bad-op"
  | ["ver", hx] =>
    match ofHex hx with
    | some b => some (showOpenRes (Fjall.Version.checkVersion b))
    | none => some "bad-op"
  | "lock" :: marker :: j0 :: ksf :: ops =>
    -- marker: hex or "absent"; j0: 0/1 whether 0.jnl exists; ksf: 0/1 whether the keyspaces folder exists; ops: o(pen) c(lone) d(rop)
    let m := if marker = "absent" then some none else (ofHex marker).map some
    match m with
    | none => some "bad-op"
    | some m =>
      let d0 : Fjall.Version.Dir := { marker := m, hasJournal0 := j0 = "1", hasKeyspaces := ksf = "1", mutations := 0, holders := 0 }
      let (_, outs) := ops.foldl (fun (acc : Fjall.Version.Dir × List String) op =>
        let (d, outs) := acc
        let hop := if op = "o" then Fjall.Version.HOp.open else if op = "c" then .clone else .drop
        let (d', r) := Fjall.Version.stepH d hop
        let changed := if d'.mutations = d.mutations then "" else "+w"
        (d', match r with
          | some r => outs ++ [showOpenRes r ++ changed]
          | none => outs)) (d0, [])
      some (" ".intercalate outs)
  | "tr" :: ops =>
    match ops.mapM parseTrOp with
    | some ops =>
      let g := runTr ops
      some s!"open={(g.t.data.map (·.2)).sum} wm={g.t.wm} visible={g.t.seqno}"
    | none => some "bad-op"
  | _ => none

end Driver
