import Driver.Util
import FjallModel.Tx.Ssi
namespace Driver
open Fjall Fjall.Spec Fjall.Tx

structure TxSession where
  db : SsiDb := {}
  open_ : List (Nat × OTx) := []

def boundOf (s : String) : Option Bound :=
  if s = "U" then some .unbounded
  else if s.startsWith "I" then (ofHex (s.drop 1).toString).map .incl
  else if s.startsWith "E" then (ofHex (s.drop 1).toString).map .excl
  else none

def fOf (s : String) : Option (Option Val → Option Val) :=
  match s.splitOn ":" with
  | ["F", "none"] => some fun _ => none
  | ["F", "set", h] => (ofHex h).map fun v => fun _ => some v
  | ["F", "app", h] => (ofHex h).map fun v => fun o => some ((o.getD []) ++ v)
  | ["F", "toggle"] => some fun o => match o with | some _ => none | none => some [1]
  | ["F", "keep"] => some fun o => o
  | _ => none

def showPairs (l : List (Key × Val)) : String :=
  ",".intercalate (l.map fun (k, v) => s!"{toHex k}={toHex v}")

def showXOut : XOut → String
  | .unit => "unit"
  | .val none => "val:none"
  | .val (some v) => s!"val:{toHex v}"
  | .bool b => s!"bool:{if b then 1 else 0}"
  | .size none => "size:none"
  | .size (some n) => s!"size:{n}"
  | .pairs l => s!"pairs:{showPairs l}"
  | .pair none => "pair:none"
  | .pair (some (k, v)) => s!"pair:{toHex k}={toHex v}"
  | .count n => s!"count:{n}"

def parseXOp (ws : List String) : Option XOp :=
  match ws with
  | ["get", ks, k] => do pure (.get (← ks.toNat?) (← ofHex k))
  | ["contains", ks, k] => do pure (.contains (← ks.toNat?) (← ofHex k))
  | ["sizeof", ks, k] => do pure (.sizeOf (← ks.toNat?) (← ofHex k))
  | ["range", ks, lo, hi] => do pure (.range (← ks.toNat?) (← boundOf lo) (← boundOf hi))
  | ["prefix", ks, p] => do pure (.pfx (← ks.toNat?) (← ofHex p))
  | ["iter", ks] => do pure (.iter (← ks.toNat?))
  | ["first", ks] => do pure (.first (← ks.toNat?))
  | ["last", ks] => do pure (.last (← ks.toNat?))
  | ["len", ks] => do pure (.len (← ks.toNat?))
  | ["isempty", ks] => do pure (.isEmpty (← ks.toNat?))
  | ["insert", ks, k, v] => do pure (.insert (← ks.toNat?) (← ofHex k) (← ofHex v))
  | ["remove", ks, k] => do pure (.remove (← ks.toNat?) (← ofHex k))
  | ["fetchupdate", ks, k, f] => do pure (.fetchUpdate (← ks.toNat?) (← ofHex k) (← fOf f))
  | ["updatefetch", ks, k, f] => do pure (.updateFetch (← ks.toNat?) (← ofHex k) (← fOf f))
  | ["take", ks, k] => do pure (.take (← ks.toNat?) (← ofHex k))
  | _ => none

def txCmd (s : TxSession) (ws : List String) : Option (TxSession × String) :=
  match ws with
  | ["tx.reset"] => some ({}, "ok")
  | ["tx.bump", sq, vis] =>
    match sq.toNat?, vis.toNat? with
    | some sq, some vis =>
      some ({ s with db := { s.db with seqno := max s.db.seqno sq,
                                        tr := Tracker.step s.db.tr (.set vis) } }, "ok")
    | _, _ => some (s, "bad-op")
  | ["tx.begin", id] =>
    match id.toNat? with
    | some id =>
      let (db, t) := s.db.begin
      some ({ db := db, open_ := (id, t) :: s.open_ }, s!"instant={t.instant}")
    | none => some (s, "bad-op")
  | "tx.op" :: id :: rest =>
    match id.toNat?, parseXOp rest with
    | some id, some op =>
      match s.open_.lookup id with
      | some t =>
        let (t', out) := xstep t op
        some ({ s with open_ := (id, t') :: s.open_.filter (·.1 ≠ id) }, showXOut out)
      | none => some (s, "no-such-tx")
    | _, _ => some (s, "bad-op")
  | ["tx.commit", id] =>
    match id.toNat? with
    | some id =>
      match s.open_.lookup id with
      | some t =>
        let (db, o) := s.db.commit t
        some ({ db := db, open_ := s.open_.filter (·.1 ≠ id) },
          match o with | .ok => "ok" | .conflict => "conflict")
      | none => some (s, "no-such-tx")
    | none => some (s, "bad-op")
  | ["tx.rollback", id] =>
    match id.toNat? with
    | some id =>
      match s.open_.lookup id with
      | some t => some ({ db := s.db.rollback t, open_ := s.open_.filter (·.1 ≠ id) }, "ok")
      | none => some (s, "no-such-tx")
    | none => some (s, "bad-op")
  | ["tx.gc"] =>
    some ({ s with db := { s.db with tr := Tracker.step s.db.tr (.gc s.db.tr.data) } }, "ok")
  | ["tx.top", ks] =>
    match ks.toNat? with
    | some ks => some (s, s!"pairs:{showPairs (stateTop s.db.log ks).toList}")
    | none => some (s, "bad-op")
  | ["tx.state"] =>
    some (s, s!"seqno={s.db.seqno} visible={s.db.visible} open={(s.db.tr.data.map (·.2)).sum} wm={s.db.tr.wm} committed={s.db.committed.length}")
  | _ => none

end Driver
