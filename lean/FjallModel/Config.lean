/-
  Keyspace option codecs: src/keyspace/config/*.rs (six policy codecs),
  src/keyspace/options.rs (`encode_kvs` / `from_kvs`), and the strategy parameter rows that
  lsm-tree's `get_config()` emits (leveled / fifo).  f32 values are carried as bit patterns.
-/
import FjallModel.Bytes
import FjallModel.Journal.Entry
namespace Fjall.Config
open Fjall Fjall.P
open Fjall.Journal (Comp)

/-! ### policy vectors: one count byte (`len as u8`), then the elements -/

def encPolicy (encE : α → Bytes) (xs : List α) : Bytes :=
  UInt8.ofNat (xs.length % 256) :: xs.flatMap encE

def decElems (decE : P α) : Nat → P (List α)
  | 0 => P.pure []
  | n+1 => P.bind decE fun x => P.bind (decElems decE n) fun xs => P.pure (x :: xs)

/-- trailing bytes are ignored, a short buffer is an error (or a panic): `none` -/
def decPolicy (decE : P α) (b : Bytes) : Option (List α) :=
  match (P.bind P.byte fun n => decElems decE n.toNat) b with
  | some (xs, _) => some xs
  | none => none

/-! element codecs -/
def encU8 (x : Nat) : Bytes := leN 1 x
def decU8 : P Nat := P.nat 1
def encU32 (x : Nat) : Bytes := leN 4 x
def decU32 : P Nat := P.nat 4
def encBool (b : Bool) : Bytes := [if b then 1 else 0]
def decBool : P Bool := P.bind P.byte fun b => P.pure (b == 1)
def encComp (c : Comp) : Bytes := [c.toByte]
def decComp : P Comp := P.bind P.byte fun b => P.ofOption (Comp.ofByte b)

inductive FilterEntry
  | none
  | bitsPerKey (f32 : Nat)
  | falsePositiveRate (f32 : Nat)
  deriving Repr, DecidableEq

def encFilter : FilterEntry → Bytes
  | .none => [0]
  | .bitsPerKey f => [1, 0] ++ leN 4 f
  | .falsePositiveRate f => [1, 1] ++ leN 4 f

def decFilter : P FilterEntry :=
  P.bind P.byte fun t =>
    if t = 0 then P.pure .none
    else if t = 1 then
      P.bind P.byte fun k =>
        if k = 0 then P.bind (P.nat 4) fun f => P.pure (.bitsPerKey f)
        else if k = 1 then P.bind (P.nat 4) fun f => P.pure (.falsePositiveRate f)
        else P.fail    -- panic!("unknown bloom filter policy type")
    else P.fail        -- panic!("unknown filter policy tag")

def FilterEntry.WF : FilterEntry → Prop
  | .none => True
  | .bitsPerKey f => f < 2^32
  | .falsePositiveRate f => f < 2^32

/-! ### options -/

inductive Strategy
  | leveled (l0Threshold : Nat) (targetSize : Nat) (ratios : List Nat)
  | fifo (limit : Nat) (ttl : Option Nat)
  deriving Repr, DecidableEq

structure BlobOpts where
  ageCutoff : Nat
  compression : Comp
  fileTargetSize : Nat
  separationThreshold : Nat
  stalenessThreshold : Nat
  deriving Repr, DecidableEq

structure Opts where
  dataBlockCompression : List Comp
  indexBlockCompression : List Comp
  dataBlockHashRatio : List Nat
  dataBlockRestartInterval : List Nat
  indexBlockRestartInterval : List Nat
  dataBlockSize : List Nat
  expectPointReadHits : Bool
  filterBlockPartitioning : List Bool
  indexBlockPartitioning : List Bool
  filterBlockPinning : List Bool
  indexBlockPinning : List Bool
  filterPolicy : List FilterEntry
  manualJournalPersist : Bool
  maxMemtableSize : Nat
  strategy : Strategy
  blob : Option BlobOpts
  deriving Repr, DecidableEq

abbrev Rows := List (String × Bytes)

def strategyName : Strategy → String
  | .leveled .. => "LeveledCompaction"
  | .fifo .. => "FifoCompaction"

def strategyRows : Strategy → Rows
  | .leveled l0 ts rs =>
    [("leveled_l0_threshold", leN 1 l0), ("leveled_target_size", leN 8 ts),
     ("leveled_level_ratio_policy", encPolicy encU32 rs)]
  | .fifo lim ttl =>
    [("fifo_limit", leN 8 lim), ("fifo_ttl", [if ttl.isSome then 1 else 0]),
     ("fifo_ttl_seconds", leN 8 (ttl.getD 0))]

def blobRows (b : BlobOpts) : Rows :=
  [("blob", [1]), ("blob_age_cutoff", leN 4 b.ageCutoff), ("blob_compression", encComp b.compression),
   ("blob_file_target_size", leN 8 b.fileTargetSize),
   ("blob_separation_threshold", leN 4 b.separationThreshold),
   ("blob_staleness_threshold", leN 4 b.stalenessThreshold)]

/-- `CreateOptions::encode_kvs` (row name ↦ value; the key prefix `c‖id` is `configKey`) -/
def encodeKvs (o : Opts) : Rows :=
  [ ("compaction_strategy", asciiBytes (strategyName o.strategy)),
    ("data_block_compression_policy", encPolicy encComp o.dataBlockCompression),
    ("data_block_hash_ratio_policy", encPolicy encU32 o.dataBlockHashRatio),
    ("data_block_restart_interval_policy", encPolicy encU8 o.dataBlockRestartInterval),
    ("data_block_size_policy", encPolicy encU32 o.dataBlockSize),
    ("expect_point_read_hits", [if o.expectPointReadHits then 1 else 0]),
    ("filter_block_partitioning_policy", encPolicy encBool o.filterBlockPartitioning),
    ("filter_block_pinning_policy", encPolicy encBool o.filterBlockPinning),
    ("filter_policy", encPolicy encFilter o.filterPolicy),
    ("index_block_compression_policy", encPolicy encComp o.indexBlockCompression),
    ("index_block_partitioning_policy", encPolicy encBool o.indexBlockPartitioning),
    ("index_block_pinning_policy", encPolicy encBool o.indexBlockPinning),
    ("index_block_restart_interval_policy", encPolicy encU8 o.indexBlockRestartInterval),
    ("level_count", [7]),
    ("manual_journal_persist", [if o.manualJournalPersist then 1 else 0]),
    ("max_memtable_size", leN 8 o.maxMemtableSize),
    ("version", [3]) ]
  ++ strategyRows o.strategy
  ++ (match o.blob with | some b => blobRows b | none => [])

/-- the meta-keyspace key of a config row: `'c' ‖ id (u64 BE) ‖ name` -/
def configKey (id : Nat) (name : String) : Bytes := 0x63 :: beN 8 id ++ asciiBytes name

/-- read a little-endian number from the front of a row value (`read_uN::<LE>` on the slice) -/
def rowNat (k : Nat) (b : Bytes) : Option Nat := (rdN k b).map (·.1)

def decodeStrategy (get : String → Option Bytes) : Option Strategy := do
  let name ← get "compaction_strategy"
  if name = asciiBytes "LeveledCompaction" then
    let l0 ← (get "leveled_l0_threshold").bind (rowNat 1)
    let ts ← (get "leveled_target_size").bind (rowNat 8)
    let rs ← (get "leveled_level_ratio_policy").bind (decPolicy decU32)
    pure (.leveled l0 ts rs)
  else if name = asciiBytes "FifoCompaction" then
    let lim ← (get "fifo_limit").bind (rowNat 8)
    let has ← get "fifo_ttl"
    if has = [1] then
      let t ← (get "fifo_ttl_seconds").bind (rowNat 8)
      pure (.fifo lim (some t))
    else pure (.fifo lim none)
  else none   -- panic!("Invalid/unsupported compaction strategy")

def decodeBlob (get : String → Option Bytes) : Option (Option BlobOpts) :=
  match get "blob" with
  | none => some none
  | some _ => do
    let ac ← (get "blob_age_cutoff").bind (rowNat 4)
    let cp ← (get "blob_compression").bind fun b => (decComp b).map (·.1)
    let fts ← (get "blob_file_target_size").bind (rowNat 8)
    let st ← (get "blob_separation_threshold").bind (rowNat 4)
    let stl ← (get "blob_staleness_threshold").bind (rowNat 4)
    pure (some ⟨ac, cp, fts, st, stl⟩)

/-- `CreateOptions::from_kvs` over a row lookup (`none` = an `expect` fails or a decoder errors) -/
def fromKvs (get : String → Option Bytes) : Option Opts := do
  let blob ← decodeBlob get
  let dbc ← (get "data_block_compression_policy").bind (decPolicy decComp)
  let ibc ← (get "index_block_compression_policy").bind (decPolicy decComp)
  let dbs ← (get "data_block_size_policy").bind (decPolicy decU32)
  let fbp ← (get "filter_block_partitioning_policy").bind (decPolicy decBool)
  let ibp ← (get "index_block_partitioning_policy").bind (decPolicy decBool)
  let fbpin ← (get "filter_block_pinning_policy").bind (decPolicy decBool)
  let ibpin ← (get "index_block_pinning_policy").bind (decPolicy decBool)
  let dbri ← (get "data_block_restart_interval_policy").bind (decPolicy decU8)
  let ibri ← (get "index_block_restart_interval_policy").bind (decPolicy decU8)
  let dbhr ← (get "data_block_hash_ratio_policy").bind (decPolicy decU32)
  let eprh ← get "expect_point_read_hits"
  let fp ← (get "filter_policy").bind (decPolicy decFilter)
  let strat ← decodeStrategy get
  let mjp ← get "manual_journal_persist"
  let mms ← (get "max_memtable_size").bind (rowNat 8)
  pure { dataBlockCompression := dbc, indexBlockCompression := ibc, dataBlockHashRatio := dbhr,
         dataBlockRestartInterval := dbri, indexBlockRestartInterval := ibri, dataBlockSize := dbs,
         expectPointReadHits := eprh == [1], filterBlockPartitioning := fbp,
         indexBlockPartitioning := ibp, filterBlockPinning := fbpin, indexBlockPinning := ibpin,
         filterPolicy := fp, manualJournalPersist := mjp == [1], maxMemtableSize := mms,
         strategy := strat, blob := blob }

def lookupRow (rows : Rows) (name : String) : Option Bytes := rows.lookup name

def Strategy.WF : Strategy → Prop
  | .leveled l0 ts rs => l0 < 2^8 ∧ ts < 2^64 ∧ rs.length ≤ 255 ∧ ∀ r ∈ rs, r < 2^32
  | .fifo lim ttl => lim < 2^64 ∧ ∀ t, ttl = some t → t < 2^64

def BlobOpts.WF (b : BlobOpts) : Prop :=
  b.ageCutoff < 2^32 ∧ b.fileTargetSize < 2^64 ∧ b.separationThreshold < 2^32 ∧
    b.stalenessThreshold < 2^32

/-- exactly the domain the constructors accept: vectors of 1..255 entries (only `≤ 255` matters
    for the round trip), numbers within their field widths -/
def Opts.WF (o : Opts) : Prop :=
  o.dataBlockCompression.length ≤ 255 ∧ o.indexBlockCompression.length ≤ 255 ∧
  o.dataBlockHashRatio.length ≤ 255 ∧ (∀ x ∈ o.dataBlockHashRatio, x < 2^32) ∧
  o.dataBlockRestartInterval.length ≤ 255 ∧ (∀ x ∈ o.dataBlockRestartInterval, x < 2^8) ∧
  o.indexBlockRestartInterval.length ≤ 255 ∧ (∀ x ∈ o.indexBlockRestartInterval, x < 2^8) ∧
  o.dataBlockSize.length ≤ 255 ∧ (∀ x ∈ o.dataBlockSize, x < 2^32) ∧
  o.filterBlockPartitioning.length ≤ 255 ∧ o.indexBlockPartitioning.length ≤ 255 ∧
  o.filterBlockPinning.length ≤ 255 ∧ o.indexBlockPinning.length ≤ 255 ∧
  o.filterPolicy.length ≤ 255 ∧ (∀ x ∈ o.filterPolicy, x.WF) ∧
  o.maxMemtableSize < 2^64 ∧ o.strategy.WF ∧ (∀ b, o.blob = some b → b.WF)

end Fjall.Config
