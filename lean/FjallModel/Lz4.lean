/-
  LZ4 block decoder (executable; instantiates `Codec.decompress` in the driver).
  `compress` is supplied by the implementation as a lookup table and each entry is
  re-validated with this decoder: that is exactly hypothesis `Codec.Law` on the values used.
-/
namespace Fjall.Lz4

/-- read an extended length (sequence of 255s terminated by a byte < 255) -/
partial def readExt (inp : ByteArray) (i : Nat) (acc : Nat) : Option (Nat × Nat) :=
  if h : i < inp.size then
    let b := (inp[i]).toNat
    if b = 255 then readExt inp (i+1) (acc + 255) else some (acc + b, i+1)
  else none

partial def go (inp : ByteArray) (i : Nat) (out : ByteArray) (limit : Nat) : Option ByteArray :=
  if h : i < inp.size then
    let tok := (inp[i]).toNat
    let litLen0 := tok / 16
    let ml0 := tok % 16
    match (if litLen0 = 15 then readExt inp (i+1) 15 else some (litLen0, i+1)) with
    | none => none
    | some (litLen, i1) =>
      if i1 + litLen > inp.size then none else
      let out := out ++ inp.extract i1 (i1 + litLen)
      if out.size > limit then none else
      let i2 := i1 + litLen
      if i2 = inp.size then some out else
      if i2 + 2 > inp.size then none else
      let off := (inp.get! i2).toNat + 256 * (inp.get! (i2+1)).toNat
      if off = 0 || off > out.size then none else
      match (if ml0 = 15 then readExt inp (i2+2) 15 else some (ml0, i2+2)) with
      | none => none
      | some (ml, i3) =>
        let ml := ml + 4
        if out.size + ml > limit then none else
        let out := Id.run do
          let mut o := out
          let start := out.size - off
          for k in [0:ml] do
            o := o.push (o.get! (start + k))
          return o
        go inp i3 out limit
  else none

/-- `lz4_flex::decompress_into(input, buf of n bytes)` followed by the `size != n` check -/
def decompress (stored : List UInt8) (n : Nat) : Option (List UInt8) :=
  match go ⟨stored.toArray⟩ 0 ByteArray.empty n with
  | none => none
  | some out => if out.size = n then some out.toList else none

end Fjall.Lz4
