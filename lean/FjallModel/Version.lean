/-
  Version marker and directory lock: src/version.rs (`parse_file_header`), src/db.rs
  (`check_version`, `create_or_recover`, the order of steps in `recover` / `create_new`),
  src/locked_file.rs (one flock guard shared by the database and every keyspace handle).
-/
import FjallModel.Bytes
namespace Fjall.Version
open Fjall

inductive FormatVersion | v1 | v2 | v3
  deriving Repr, DecidableEq

def FormatVersion.ofByte (b : UInt8) : Option FormatVersion :=
  if b = 1 then some .v1 else if b = 2 then some .v2 else if b = 3 then some .v3 else none

def markerMagic : Bytes := [0x46, 0x4A, 0x4C]

/-- `FormatVersion::parse_file_header` -/
def parseFileHeader : Bytes → Option FormatVersion
  | a :: b :: c :: v :: _ => if [a, b, c] = markerMagic then FormatVersion.ofByte v else none
  | _ => none

inductive OpenErr | invalidVersion (v : Option FormatVersion) | locked | alreadyExists
  deriving Repr, DecidableEq

/-- `Database::check_version` on the bytes of the marker file -/
def checkVersion (bytes : Bytes) : Except OpenErr Unit :=
  match parseFileHeader bytes with
  | some v => if v = .v3 then .ok () else .error (.invalidVersion (some v))
  | none => .error (.invalidVersion none)

/-! ### directory + lock + handles -/

/-- What an `open` can observe / change in a database directory, at the granularity the property
    speaks about: the marker, whether `0.jnl` exists, a counter of mutations made to the directory
    tree, and the advisory lock with the number of live handles sharing its guard. -/
structure Dir where
  marker : Option Bytes
  hasJournal0 : Bool
  /-- the `keyspaces` folder exists (the directory holds, or held, a database) -/
  hasKeyspaces : Bool := false
  mutations : Nat
  /-- number of live handles (Database / tx database / Keyspace) sharing the lock guard -/
  holders : Nat
  /-- the live instance holds acknowledged journal bytes that are not yet written and synced
      (manual journal persist, or writes since the last sync) -/
  pendingJournal : Bool := false
  deriving Repr, DecidableEq

def Dir.locked (d : Dir) : Bool := d.holders > 0

/-- `Database::create_or_recover`, as far as refusal and modification are concerned.
    Recover path: version check → lock → (writes).  Create path: lock → journal `create_new`
    → marker → (writes). -/
def openDb (d : Dir) : Dir × Except OpenErr Unit :=
  match d.marker with
  | some bytes =>
    match checkVersion bytes with
    | .error e => (d, .error e)                          -- nothing touched
    | .ok () =>
      if d.locked then (d, .error .locked)               -- `try_acquire` refused: nothing touched
      else ({ d with holders := 1, mutations := d.mutations + 1 }, .ok ())
  | none =>
    -- create path.  (repaired, finding F12) a folder that already holds keyspaces but no marker is
    -- refused before anything is created
    if d.hasKeyspaces then (d, .error (.invalidVersion none))
    -- `create_dir_all`, then the lock file is created/locked first
    else if d.locked then (d, .error .locked)
    else if d.hasJournal0 then
      -- `Journal::create_new("0.jnl")` fails with AlreadyExists; the lock and the keyspaces folder
      -- were created before that (a mutation), the guard is released again on return
      ({ d with mutations := d.mutations + 1 }, .error .alreadyExists)
    else
      ({ d with marker := some (markerMagic ++ [3]), hasJournal0 := true, hasKeyspaces := true, holders := 1,
                mutations := d.mutations + 1 }, .ok ())

/-- the recover path with the lock taken where the guard is stored, after journal recovery and after
    the meta tree was opened (seeded change C17-7; kept for the counterexample): recovery cleans up
    before the refusal -/
def openDbLateLock (d : Dir) : Dir × Except OpenErr Unit :=
  match d.marker with
  | some bytes =>
    match checkVersion bytes with
    | .error e => (d, .error e)
    | .ok () =>
      if d.locked then ({ d with mutations := d.mutations + 1 }, .error .locked)
      else ({ d with holders := 1, mutations := d.mutations + 1 }, .ok ())
  | none => openDb d

/-- Dropping the last handle, as the directory states another opener can observe one after the other:
    `Journal::drop` writes and syncs what is pending, then the lock guard goes (`DatabaseInner` drops
    `supervisor` before `lock_file`).  `lockFirst` = the other order (seeded change C17-9). -/
def dropLastStates (lockFirst : Bool) (d : Dir) : List Dir :=
  if lockFirst then
    [{ d with holders := 0 },
     { d with holders := 0, pendingJournal := false, mutations := d.mutations + 1 }]
  else
    [{ d with pendingJournal := false, mutations := d.mutations + 1 },
     { d with holders := 0, pendingJournal := false, mutations := d.mutations + 1 }]

inductive HOp | open | clone | drop
  deriving Repr, DecidableEq

/-- cloning a handle / opening a keyspace adds a holder; dropping one removes it
    (only live handles can be cloned or dropped) -/
def stepH (d : Dir) : HOp → Dir × Option (Except OpenErr Unit)
  | .open => let (d', r) := openDb d; (d', some r)
  | .clone => if d.holders > 0 then ({ d with holders := d.holders + 1 }, none) else (d, none)
  | .drop => if d.holders > 0 then ({ d with holders := d.holders - 1 }, none) else (d, none)

def runH (d : Dir) : List HOp → Dir
  | [] => d
  | o :: os => runH (stepH d o).1 os

end Fjall.Version
