/-
  Snapshot tracker: src/snapshot_tracker.rs + src/snapshot_nonce.rs.
  `data` is the DashMap (instant ↦ number of open nonces), `seqno` the shared *visible* counter,
  `wm` = `lowest_freed_instant` (the GC watermark handed to flush / compaction / version GC).
  DashMap iteration order is arbitrary: `gc` takes the visiting order as an argument.
-/
namespace Fjall.Tracker

structure Tracker where
  data : List (Nat × Nat) := []
  seqno : Nat := 0
  wm : Nat := 0
  freed : Nat := 0
  deriving Repr, DecidableEq

/-- `entry(i).and_modify(+1).or_insert(1)` -/
def bump (i : Nat) : List (Nat × Nat) → List (Nat × Nat)
  | [] => [(i, 1)]
  | (k, c) :: r => if k = i then (k, c + 1) :: r else (k, c) :: bump i r

/-- `alter(&i, |_, v| v.saturating_sub(1))` (no-op when the key is absent) -/
def decr (i : Nat) : List (Nat × Nat) → List (Nat × Nat)
  | [] => []
  | (k, c) :: r => if k = i then (k, c - 1) :: r else (k, c) :: decr i r

/-- number of open nonces the table records for instant `i` -/
def cnt (i : Nat) : List (Nat × Nat) → Nat
  | [] => 0
  | (k, c) :: r => if k = i then c else cnt i r

def keep (thr : Nat) (kc : Nat × Nat) : Bool := kc.2 > 0 || kc.1 ≥ thr

/-- running minimum as the (repaired) `retain` closure computes it, visiting `ord` left to right -/
def lowestL (acc : Option Nat) : List (Nat × Nat) → Option Nat
  | [] => acc
  | (k, _) :: r => lowestL (some (match acc with | none => k | some lo => min lo k)) r

/-- `SnapshotTracker::gc`, visiting the table in the order `ord` -/
def gcWith (ord : List (Nat × Nat)) (t : Tracker) : Tracker :=
  let thr := t.seqno
  let lo := (lowestL none (ord.filter (keep thr))).getD thr
  { t with data := t.data.filter (keep thr), wm := max t.wm (lo - 1) }

/-- the *unrepaired* running minimum with `0` as "nothing yet" marker (finding F19) -/
def lowestOld (acc : Nat) : List (Nat × Nat) → Nat
  | [] => acc
  | (k, _) :: r => lowestOld (if acc = 0 then k else min acc k) r

def gcOld (ord : List (Nat × Nat)) (t : Tracker) : Tracker :=
  let thr := t.seqno
  let kept := ord.filter (keep thr)
  let lo := if kept.isEmpty then thr else lowestOld 0 kept
  { t with data := t.data.filter (keep thr), wm := max t.wm (lo - 1) }

inductive Op
  | open
  | clone (i : Nat)
  | close (i : Nat)
  | publish (s : Nat)
  | set (v : Nat)
  | gc (ord : List (Nat × Nat))
  | pullup
  deriving Repr, DecidableEq

def step (t : Tracker) : Op → Tracker
  | .open => { t with data := bump t.seqno t.data }
  | .clone i => { t with data := bump i t.data }
  | .close i =>
    let t' := { t with data := decr i t.data, freed := t.freed + 1 }
    if t'.freed % 10000 = 0 then gcWith t'.data t' else t'
  | .publish s => { t with seqno := max t.seqno (s + 1) }
  | .set v => { t with seqno := max t.seqno v }
  | .gc ord => gcWith ord t
  | .pullup => if t.data.isEmpty then { t with wm := t.seqno - 1 } else t

/-- ghost state: the multiset of instants of the nonces that are alive -/
structure G where
  t : Tracker := {}
  live : List Nat := []
  deriving Repr

def stepG (g : G) : Op → G
  | .open => { t := step g.t .open, live := g.t.seqno :: g.live }
  | .clone i => { t := step g.t (.clone i), live := i :: g.live }
  | .close i => { t := step g.t (.close i), live := g.live.erase i }
  | op => { g with t := step g.t op }

/-- each nonce is cloned / closed only while alive (`SnapshotNonce`'s Clone / Drop), and `gc`
    visits exactly the entries of the table -/
def Disciplined (g : G) : Op → Prop
  | .clone i => i ∈ g.live
  | .close i => i ∈ g.live
  | .gc ord => ord.Perm g.t.data
  | _ => True

def runG (g : G) : List Op → G
  | [] => g
  | o :: os => runG (stepG g o) os

inductive Reach : G → Prop
  | init : Reach {}
  | step (g : G) (o : Op) : Reach g → Disciplined g o → Reach (stepG g o)

structure Inv (g : G) : Prop where
  /-- (A) the table counts every live nonce -/
  counted : ∀ i, g.live.count i ≤ cnt i g.t.data
  /-- (B) the watermark is below every live instant (an instant-0 view pins it at 0) -/
  safe : ∀ i ∈ g.live, g.t.wm ≤ i - 1
  /-- (C) the watermark stays below the visible seqno -/
  below : g.t.wm ≤ g.t.seqno - 1
  /-- (D) no entry lies in the future -/
  keys : ∀ kc ∈ g.t.data, kc.1 ≤ g.t.seqno

end Fjall.Tracker
