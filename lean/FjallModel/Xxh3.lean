/-
  XXH3-64 (seed 0, default secret): executable port used by the driver to instantiate the
  journal model's checksum parameter `h`. Validated on every run against xxhash-rust.
  The theorems never unfold this definition.
-/
namespace Fjall.Xxh3

def secret : ByteArray := ⟨#[
    0xb8, 0xfe, 0x6c, 0x39, 0x23, 0xa4, 0x4b, 0xbe, 0x7c, 0x01, 0x81, 0x2c, 0xf7, 0x21, 0xad, 0x1c,
    0xde, 0xd4, 0x6d, 0xe9, 0x83, 0x90, 0x97, 0xdb, 0x72, 0x40, 0xa4, 0xa4, 0xb7, 0xb3, 0x67, 0x1f,
    0xcb, 0x79, 0xe6, 0x4e, 0xcc, 0xc0, 0xe5, 0x78, 0x82, 0x5a, 0xd0, 0x7d, 0xcc, 0xff, 0x72, 0x21,
    0xb8, 0x08, 0x46, 0x74, 0xf7, 0x43, 0x24, 0x8e, 0xe0, 0x35, 0x90, 0xe6, 0x81, 0x3a, 0x26, 0x4c,
    0x3c, 0x28, 0x52, 0xbb, 0x91, 0xc3, 0x00, 0xcb, 0x88, 0xd0, 0x65, 0x8b, 0x1b, 0x53, 0x2e, 0xa3,
    0x71, 0x64, 0x48, 0x97, 0xa2, 0x0d, 0xf9, 0x4e, 0x38, 0x19, 0xef, 0x46, 0xa9, 0xde, 0xac, 0xd8,
    0xa8, 0xfa, 0x76, 0x3f, 0xe3, 0x9c, 0x34, 0x3f, 0xf9, 0xdc, 0xbb, 0xc7, 0xc7, 0x0b, 0x4f, 0x1d,
    0x8a, 0x51, 0xe0, 0x4b, 0xcd, 0xb4, 0x59, 0x31, 0xc8, 0x9f, 0x7e, 0xc9, 0xd9, 0x78, 0x73, 0x64,
    0xea, 0xc5, 0xac, 0x83, 0x34, 0xd3, 0xeb, 0xc3, 0xc5, 0x81, 0xa0, 0xff, 0xfa, 0x13, 0x63, 0xeb,
    0x17, 0x0d, 0xdd, 0x51, 0xb7, 0xf0, 0xda, 0x49, 0xd3, 0x16, 0x55, 0x26, 0x29, 0xd4, 0x68, 0x9e,
    0x2b, 0x16, 0xbe, 0x58, 0x7d, 0x47, 0xa1, 0xfc, 0x8f, 0xf8, 0xb8, 0xd1, 0x7a, 0xd0, 0x31, 0xce,
    0x45, 0xcb, 0x3a, 0x8f, 0x95, 0x16, 0x04, 0x28, 0xaf, 0xd7, 0xfb, 0xca, 0xbb, 0x4b, 0x40, 0x7e]⟩

def P32_1 : UInt64 := 0x9E3779B1
def P32_2 : UInt64 := 0x85EBCA77
def P32_3 : UInt64 := 0xC2B2AE3D
def P64_1 : UInt64 := 0x9E3779B185EBCA87
def P64_2 : UInt64 := 0xC2B2AE3D27D4EB4F
def P64_3 : UInt64 := 0x165667B19E3779F9
def P64_4 : UInt64 := 0x85EBCA77C2B2AE63
def P64_5 : UInt64 := 0x27D4EB2F165667C5
def PMX1 : UInt64 := 0x165667919E3779F9
def PMX2 : UInt64 := 0x9FB21C651E98DF25

@[inline] def gb (a : ByteArray) (i : Nat) : UInt64 := (a.get! i).toUInt64

def r32 (a : ByteArray) (i : Nat) : UInt64 :=
  gb a i ||| (gb a (i+1) <<< 8) ||| (gb a (i+2) <<< 16) ||| (gb a (i+3) <<< 24)

def r64 (a : ByteArray) (i : Nat) : UInt64 :=
  r32 a i ||| (r32 a (i+4) <<< 32)

def rotl (x : UInt64) (k : UInt64) : UInt64 := (x <<< k) ||| (x >>> (64 - k))

def swap32 (x : UInt64) : UInt64 :=
  ((x &&& 0xFF) <<< 24) ||| ((x &&& 0xFF00) <<< 8) ||| ((x &&& 0xFF0000) >>> 8) ||| ((x &&& 0xFF000000) >>> 24)

def swap64 (x : UInt64) : UInt64 :=
  (swap32 (x &&& 0xFFFFFFFF) <<< 32) ||| swap32 (x >>> 32)

def mulFold (a b : UInt64) : UInt64 :=
  let pr := a.toNat * b.toNat
  UInt64.ofNat (pr % 18446744073709551616) ^^^ UInt64.ofNat (pr / 18446744073709551616)

def aval64 (h : UInt64) : UInt64 :=
  let h := h ^^^ (h >>> 33)
  let h := h * P64_2
  let h := h ^^^ (h >>> 29)
  let h := h * P64_3
  h ^^^ (h >>> 32)

def aval3 (h : UInt64) : UInt64 :=
  let h := h ^^^ (h >>> 37)
  let h := h * PMX1
  h ^^^ (h >>> 32)

def rrmxmx (h : UInt64) (len : UInt64) : UInt64 :=
  let h := h ^^^ (rotl h 49 ^^^ rotl h 24)
  let h := h * PMX2
  let h := h ^^^ ((h >>> 35) + len)
  let h := h * PMX2
  h ^^^ (h >>> 28)

def mix16 (inp : ByteArray) (i : Nat) (s : Nat) : UInt64 :=
  mulFold (r64 inp i ^^^ r64 secret s) (r64 inp (i+8) ^^^ r64 secret (s+8))

def accumulate512 (acc : Array UInt64) (inp : ByteArray) (ioff soff : Nat) : Array UInt64 := Id.run do
  let mut acc := acc
  for i in [0:8] do
    let dv := r64 inp (ioff + 8*i)
    let dk := dv ^^^ r64 secret (soff + 8*i)
    let j := if i % 2 = 0 then i + 1 else i - 1
    acc := acc.set! j (acc[j]! + dv)
    acc := acc.set! i (acc[i]! + (dk &&& (0xFFFFFFFF : UInt64)) * (dk >>> 32))
  return acc

def scramble (acc : Array UInt64) : Array UInt64 := Id.run do
  let mut acc := acc
  for i in [0:8] do
    let k := r64 secret (192 - 64 + 8*i)
    let a := acc[i]!
    let a := a ^^^ (a >>> 47)
    let a := a ^^^ k
    acc := acc.set! i (a * P32_1)
  return acc

def hashLong (inp : ByteArray) : UInt64 := Id.run do
  let len := inp.size
  let mut acc : Array UInt64 := #[P32_3, P64_1, P64_2, P64_3, P64_4, P32_2, P64_5, P32_1]
  let nbStripesPerBlock := 16
  let blockLen := 1024
  let nbBlocks := (len - 1) / blockLen
  for n in [0:nbBlocks] do
    for i in [0:nbStripesPerBlock] do
      acc := accumulate512 acc inp (n*blockLen + i*64) (i*8)
    acc := scramble acc
  let nbStripes := ((len - 1) - blockLen*nbBlocks) / 64
  for i in [0:nbStripes] do
    acc := accumulate512 acc inp (nbBlocks*blockLen + i*64) (i*8)
  acc := accumulate512 acc inp (len - 64) (192 - 64 - 7)
  let mut r : UInt64 := UInt64.ofNat len * P64_1
  for i in [0:4] do
    r := r + mulFold (acc[2*i]! ^^^ r64 secret (11 + 16*i)) (acc[2*i+1]! ^^^ r64 secret (11 + 16*i + 8))
  return aval3 r

def hash (inp : ByteArray) : UInt64 := Id.run do
  let len := inp.size
  let l64 := UInt64.ofNat len
  if len = 0 then
    return aval64 (r64 secret 56 ^^^ r64 secret 64)
  else if len ≤ 3 then
    let c1 := gb inp 0
    let c2 := gb inp (len / 2)
    let c3 := gb inp (len - 1)
    let combined := (c1 <<< 16) ||| (c2 <<< 24) ||| c3 ||| (l64 <<< 8)
    let bitflip := r32 secret 0 ^^^ r32 secret 4
    return aval64 (combined ^^^ bitflip)
  else if len ≤ 8 then
    let i1 := r32 inp 0
    let i2 := r32 inp (len - 4)
    let bitflip := r64 secret 8 ^^^ r64 secret 16
    let i64 := i2 + (i1 <<< 32)
    return rrmxmx (i64 ^^^ bitflip) l64
  else if len ≤ 16 then
    let bf1 := r64 secret 24 ^^^ r64 secret 32
    let bf2 := r64 secret 40 ^^^ r64 secret 48
    let lo := r64 inp 0 ^^^ bf1
    let hi := r64 inp (len - 8) ^^^ bf2
    let acc := l64 + swap64 lo + hi + mulFold lo hi
    return aval3 acc
  else if len ≤ 128 then
    let mut acc := l64 * P64_1
    if len > 32 then
      if len > 64 then
        if len > 96 then
          acc := acc + mix16 inp 48 96
          acc := acc + mix16 inp (len - 64) 112
        acc := acc + mix16 inp 32 64
        acc := acc + mix16 inp (len - 48) 80
      acc := acc + mix16 inp 16 32
      acc := acc + mix16 inp (len - 32) 48
    acc := acc + mix16 inp 0 0
    acc := acc + mix16 inp (len - 16) 16
    return aval3 acc
  else if len ≤ 240 then
    let mut acc := l64 * P64_1
    let nbRounds := len / 16
    for i in [0:8] do
      acc := acc + mix16 inp (16*i) (16*i)
    acc := aval3 acc
    for i in [8:nbRounds] do
      acc := acc + mix16 inp (16*i) (16*(i-8) + 3)
    acc := acc + mix16 inp (len - 16) (136 - 17)
    return aval3 acc
  else
    return hashLong inp

/-- the checksum parameter as the journal model wants it -/
def hashBytes (bs : List UInt8) : Nat := (hash ⟨bs.toArray⟩).toNat

end Fjall.Xxh3
