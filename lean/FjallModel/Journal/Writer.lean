/-
  Journal writer: compression choice (src/journal/writer.rs write_raw / write_batch) and the
  `BufWriter` + syscall-trace model used for C09 / C13 (DESIGN.md Appendix A.2).
-/
import FjallModel.Journal.Reader
namespace Fjall.Journal
open Fjall

structure WriterCfg where
  comp : Comp
  threshold : Nat
  deriving Repr, DecidableEq

/-- `if self.compression_threshold > 0 && value.len() >= self.compression_threshold
     { self.compression } else { CompressionType::None }` -/
def writerComp (cfg : WriterCfg) (valLen : Nat) : Comp :=
  if 0 < cfg.threshold ∧ cfg.threshold ≤ valLen then cfg.comp else .none

def writerEntry (cfg : WriterCfg) : Entry → Entry
  | .item i => .item { i with comp := writerComp cfg i.val.length }
  | e => e

/-- what the writer lays out for a logical batch (the `comp` fields of the input are ignored) -/
def writerBatch (cfg : WriterCfg) (b : WBatch) : WBatch :=
  { b with entries := b.entries.map (writerEntry cfg) }

end Fjall.Journal
