/-
  Journal writer: compression choice (src/journal/writer.rs write_raw / write_batch) and the
  `BufWriter` + syscall-trace model used for C09 / C13 (DESIGN.md Appendix A.2).
-/
import FjallModel.Journal.Reader
namespace Fjall.Journal
open Fjall

structure WriterCfg where
  comp : Comp
  threshold : Nat
  deriving Repr, DecidableEq

/-- `if self.compression_threshold > 0 && value.len() >= self.compression_threshold
     { self.compression } else { CompressionType::None }` -/
def writerComp (cfg : WriterCfg) (valLen : Nat) : Comp :=
  if 0 < cfg.threshold ∧ cfg.threshold ≤ valLen then cfg.comp else .none

def writerEntry (cfg : WriterCfg) : Entry → Entry
  | .item i => .item { i with comp := writerComp cfg i.val.length }
  | e => e

/-- what the writer lays out for a logical batch (the `comp` fields of the input are ignored) -/
def writerBatch (cfg : WriterCfg) (b : WBatch) : WBatch :=
  { b with entries := b.entries.map (writerEntry cfg) }

end Fjall.Journal

namespace Fjall.Journal
open Fjall

/-! ### `BufWriter<File>` + journal writer + poison flag, with a syscall trace and a fault plan -/

inductive Sys
  | write (requested : Nat) (written : Nat)     -- write(2): bytes asked / bytes taken by the OS
  | writeFail (requested : Nat)
  | fsync (ok : Bool)
  | fdatasync (ok : Bool)
  | ftruncate (len : Nat)                       -- preallocation of a fresh journal file
  /-- directory-level events of a journal rotation (not numbered as journal system calls): the next
      journal file is created, the folder holding the journal files is fsynced -/
  | create
  | dirsync
  deriving Repr, DecidableEq

inductive PersistMode | buffer | syncData | syncAll
  deriving Repr, DecidableEq

structure Writer where
  /-- bytes the OS has taken (completed `write(2)` calls), in file order -/
  os : Bytes := []
  /-- user-space buffer of the `BufWriter` -/
  buf : Bytes := []
  dirty : Bool := false
  /-- length of the file that is known durable (last successful fsync / fdatasync) -/
  synced : Nat := 0
  trace : List Sys := []
  cap : Nat := 8192
  /-- fault plan: journal syscalls numbered from 1; from `failAt` on every call fails (only that
      call if `failOnce`); the call number `failAt` itself, if it is a write and `shortK` is set,
      takes `shortK` bytes and succeeds (a short write) -/
  calls : Nat := 0
  failAt : Option Nat := none
  shortK : Option Nat := none
  /-- a transient fault: only the call number `failAt` is affected -/
  failOnce : Bool := false
  deriving Repr, DecidableEq

inductive IoRes | ok | err
  deriving Repr, DecidableEq

def Writer.failing (w : Writer) : Bool :=
  match w.failAt with
  | none => false
  | some n => if w.failOnce then n = w.calls + 1 else n ≤ w.calls + 1

/-- one `write(2)` of `d`: returns how many bytes were taken, or failure -/
def Writer.sysWrite (w : Writer) (d : Bytes) : Writer × Option Nat :=
  let c := w.calls + 1
  if w.failing then
    match w.failAt, w.shortK with
    | some n, some k =>
      if n = c ∧ 0 < k ∧ k < d.length then
        ({ w with calls := c, os := w.os ++ d.take k, trace := w.trace ++ [.write d.length k] }, some k)
      else ({ w with calls := c, trace := w.trace ++ [.writeFail d.length] }, none)
    | _, _ => ({ w with calls := c, trace := w.trace ++ [.writeFail d.length] }, none)
  else ({ w with calls := c, os := w.os ++ d, trace := w.trace ++ [.write d.length d.length] }, some d.length)

/-- `write_all` on the raw file: loop until everything is taken or an error occurs -/
def Writer.rawWriteAll (w : Writer) (d : Bytes) : Nat → Writer × IoRes
  | 0 => (w, .err)
  | fuel+1 =>
    if d.isEmpty then (w, .ok) else
    match w.sysWrite d with
    | (w', none) => (w', .err)
    | (w', some 0) => (w', .err)            -- WriteZero
    | (w', some k) => Writer.rawWriteAll w' (d.drop k) fuel

/-- `BufWriter::flush_buf`: write out the buffer; what was not taken stays buffered -/
def Writer.flushBuf (w : Writer) : Nat → Writer × IoRes
  | 0 => (w, .err)
  | fuel+1 =>
    if w.buf.isEmpty then (w, .ok) else
    match w.sysWrite w.buf with
    | (w', none) => (w', .err)
    | (w', some 0) => (w', .err)
    | (w', some k) => Writer.flushBuf { w' with buf := w'.buf.drop k } fuel

/-- `BufWriter::write_all(d)` -/
def Writer.writeAll (w : Writer) (d : Bytes) : Writer × IoRes :=
  let (w1, r1) := if w.buf.length + d.length > w.cap then w.flushBuf (w.buf.length + 1) else (w, .ok)
  match r1 with
  | .err => (w1, .err)
  | .ok =>
    if d.length ≥ w1.cap then w1.rawWriteAll d (d.length + 1)
    else ({ w1 with buf := w1.buf ++ d }, .ok)

/-- `Writer::write_raw` / `write_clear` / `write_batch`: mark dirty, then `write_all` every piece
    (start marker, each item, end marker); stops at the first error -/
def Writer.writePieces (w : Writer) (pieces : List Bytes) : Writer × IoRes :=
  pieces.foldl (fun (acc : Writer × IoRes) p => match acc.2 with
    | .err => acc
    | .ok => acc.1.writeAll p) ({ w with dirty := true }, .ok)

def Writer.sysSync (w : Writer) (data : Bool) : Writer × IoRes :=
  let c := w.calls + 1
  if w.failing then
    ({ w with calls := c, trace := w.trace ++ [if data then .fdatasync false else .fsync false] }, .err)
  else
    ({ w with calls := c, synced := w.os.length, trace := w.trace ++ [if data then .fdatasync true else .fsync true] }, .ok)

/-- `Writer::persist(mode)` -/
def Writer.persist (w : Writer) (mode : PersistMode) : Writer × IoRes :=
  let (w1, r1) := if w.dirty then w.flushBuf (w.buf.length + 1) else (w, .ok)
  match r1 with
  | .err => (w1, .err)
  | .ok =>
    let w2 := if w.dirty then { w1 with dirty := false } else w1
    match mode with
    | .buffer => (w2, .ok)
    | .syncData => w2.sysSync true
    | .syncAll => w2.sysSync false

/-! #### the database-level write paths (src/keyspace/mod.rs, src/batch/mod.rs, src/db.rs) -/

structure JDb where
  w : Writer := {}
  poisoned : Bool := false
  manual : Bool := false          -- manual_journal_persist
  /-- sealed journal files: (content, length known durable) -/
  sealed : List (Bytes × Nat) := []
  /-- journal files created so far (sealed ones and the active one) -/
  created : Nat := 1
  /-- how many of them, oldest first, have a directory entry that survives a power loss -/
  dirDurable : Nat := 1
  /-- `Writer::rotate` fsyncs the journal folder after creating the next file (false: seeded change C09-7) -/
  rotateSyncsFolder : Bool := true
  deriving Repr, DecidableEq

inductive JOp
  | single (pieces : List Bytes)                            -- Keyspace::insert / remove
  | clear (pieces : List Bytes)                             -- Keyspace::clear
  | batch (pieces : List Bytes) (dur : Option PersistMode)  -- WriteBatch::commit / tx commit
  | persist (mode : PersistMode)                            -- Database::persist
  | rotate                                                  -- Writer::rotate (journal rotation)
  deriving Repr, DecidableEq

inductive JRes | ok | io | poisoned
  deriving Repr, DecidableEq

/-- every journal I/O error poisons the database (repaired: the append of a batch and of a clear
    marker used to propagate the error without poisoning, finding F8) -/
def jstep (db : JDb) : JOp → JDb × JRes
  | .single pieces =>
    if db.poisoned then (db, .poisoned) else
    match db.w.writePieces pieces with
    | (w, .err) => ({ db with w := w, poisoned := true }, .io)
    | (w, .ok) =>
      if db.manual then ({ db with w := w }, .ok) else
      match w.persist .buffer with
      | (w', .err) => ({ db with w := w', poisoned := true }, .io)
      | (w', .ok) => ({ db with w := w' }, .ok)
  | .clear pieces =>
    if db.poisoned then (db, .poisoned) else
    match db.w.writePieces pieces with
    | (w, .err) => ({ db with w := w, poisoned := true }, .io)
    | (w, .ok) =>
      if db.manual then ({ db with w := w }, .ok) else
      match w.persist .buffer with
      | (w', .err) => ({ db with w := w', poisoned := true }, .io)
      | (w', .ok) => ({ db with w := w' }, .ok)
  | .batch pieces dur =>
    if pieces.isEmpty then (db, .ok) else
    if db.poisoned then (db, .poisoned) else
    match db.w.writePieces pieces with
    | (w, .err) => ({ db with w := w, poisoned := true }, .io)
    | (w, .ok) =>
      match dur with
      | none => ({ db with w := w }, .ok)
      | some m =>
        match w.persist m with
        | (w', .err) => ({ db with w := w', poisoned := true }, .poisoned)
        | (w', .ok) => ({ db with w := w' }, .ok)
  | .persist m =>
    if db.poisoned then (db, .poisoned) else
    match db.w.persist m with
    | (w', .err) => ({ db with w := w', poisoned := true }, .poisoned)
    | (w', .ok) => ({ db with w := w' }, .ok)
  | .rotate =>
    -- the active journal is sealed with persist(SyncAll); writing continues in a fresh file
    if db.poisoned then (db, .poisoned) else
    match db.w.persist .syncAll with
    | (w', .err) => ({ db with w := w', poisoned := true }, .poisoned)
    | (w', .ok) =>
      -- `Writer::create_new`: create the fresh file, preallocate and sync it; then `rotate` syncs the
      -- folder (no fault plan in rotation workloads)
      ({ db with w := { w' with os := [], synced := 0, calls := w'.calls + 2,
                                 trace := w'.trace ++ [.create, .ftruncate 67108864, .fsync true] ++
                                   (if db.rotateSyncsFolder then [.dirsync] else []) },
                 sealed := db.sealed ++ [(w'.os, w'.synced)],
                 created := db.created + 1,
                 dirDurable := if db.rotateSyncsFolder then db.created + 1 else db.dirDurable }, .ok)

/-- what a power loss leaves of the journal folder: of the files whose directory entry is durable,
    the bytes covered by a successful sync (oldest file first, the active one last) -/
def JDb.powerLossFiles (db : JDb) : List Bytes :=
  ((db.sealed.map fun p => p.1.take p.2) ++ [db.w.os.take db.w.synced]).take db.dirDurable

def jrun (db : JDb) : List JOp → JDb × List JRes
  | [] => (db, [])
  | o :: os => let (d1, r) := jstep db o; let (d2, rs) := jrun d1 os; (d2, r :: rs)

end Fjall.Journal
