/-
  Journal reader: transcription of src/journal/reader.rs (entry level, truncation rule)
  and src/journal/batch_reader.rs (batch level), see DESIGN.md Appendix A.1.
  Writer-side batch layout: src/journal/writer.rs write_raw / write_clear / write_batch.
-/
import FjallModel.Journal.Entry
namespace Fjall.Journal
open Fjall

/-- `ReadBatchItem` -/
structure RItem where
  ks : Nat
  key : Bytes
  val : Bytes
  kind : Kind
  deriving Repr, DecidableEq

def Item.toR (i : Item) : RItem := { ks := i.ks, key := i.key, val := i.val, kind := i.kind }

/-- `Batch` as emitted by `JournalBatchReader` -/
structure Batch where
  seqno : Nat
  items : List RItem
  clears : List Nat
  deriving Repr, DecidableEq

inductive RErr | insufficientLength | tooManyItems | checksumMismatch
  deriving Repr, DecidableEq

structure ReadResult where
  batches : List Batch
  /-- length of the journal file after the reader (and its truncations) finished -/
  finalLen : Nat
  err : Option RErr
  deriving Repr, DecidableEq

def ReadResult.cons (b : Batch) (r : ReadResult) : ReadResult := { r with batches := b :: r.batches }

structure RState where
  inBatch : Bool := false
  counter : Nat := 0
  seqno : Nat := 0
  items : List RItem := []
  clears : List Nat := []
  /-- bytes fed to the checksum builder since its last reset -/
  acc : Bytes := []
  /-- `JournalBatchReader::last_valid_pos` -/
  lastValid : Nat := 0
  /-- `JournalReader::last_valid_pos` -/
  pos : Nat := 0
  deriving Repr

/-- end of the entry stream: reader-level truncation, then `on_close` -/
def RState.stopLen (st : RState) : Nat := if st.inBatch then st.lastValid else st.pos

/-- `JournalBatchReader::next` iterated until it returns `None` or an error.
    `total` is the file length (reported unchanged when a hard error aborts recovery). -/
def readLoop (p : Params) (c : Codec) (h : Bytes → Nat) (total : Nat) :
    Nat → RState → Bytes → ReadResult
  | 0, st, _ => ⟨[], st.stopLen, none⟩
  | fuel+1, st, x =>
    match decodeEntry p c x with
    | none => ⟨[], st.stopLen, none⟩
    | some (e, r) =>
      let pos' := st.pos + (x.length - r.length)
      match e with
      | .start n s =>
        if st.inBatch then ⟨[], st.lastValid, none⟩
        else readLoop p c h total fuel { st with inBatch := true, counter := n, seqno := s, pos := pos' } r
      | .fin sum =>
        if st.counter > 0 then ⟨[], total, some .insufficientLength⟩
        else if !st.inBatch then ⟨[], st.lastValid, none⟩
        else if h st.acc ≠ sum then ⟨[], total, some .checksumMismatch⟩
        else
          (readLoop p c h total fuel
            { inBatch := false, counter := 0, seqno := st.seqno, items := [], clears := [],
              acc := [], lastValid := pos', pos := pos' } r).cons
            ⟨st.seqno, st.items, st.clears⟩
      | .item i =>
        if !st.inBatch then ⟨[], st.lastValid, none⟩
        else if st.counter = 0 then ⟨[], total, some .tooManyItems⟩
        else readLoop p c h total fuel
          { st with counter := st.counter - 1, items := st.items ++ [i.toR],
                    acc := st.acc ++ encodeEntry p c (.item i), pos := pos' } r
      | .clear ks =>
        if !st.inBatch then ⟨[], st.lastValid, none⟩
        else if st.counter = 0 then ⟨[], total, some .tooManyItems⟩
        else readLoop p c h total fuel
          { st with counter := st.counter - 1, clears := st.clears ++ [ks],
                    acc := st.acc ++ encodeEntry p c (.clear ks), pos := pos' } r

def readJournal (p : Params) (c : Codec) (h : Bytes → Nat) (x : Bytes) : ReadResult :=
  readLoop p c h x.length (x.length + 1) {} x

/-! ### writer side -/

/-- a batch as the writer lays it out: payload entries are items and clears -/
structure WBatch where
  seqno : Nat
  entries : List Entry
  deriving Repr, DecidableEq

def Entry.isPayload : Entry → Bool
  | .item _ => true
  | .clear _ => true
  | _ => false

def encodeBody (p : Params) (c : Codec) (es : List Entry) : Bytes :=
  es.flatMap (encodeEntry p c)

def encodeBatch (p : Params) (c : Codec) (h : Bytes → Nat) (b : WBatch) : Bytes :=
  encodeEntry p c (.start b.entries.length b.seqno) ++ encodeBody p c b.entries ++
    encodeEntry p c (.fin (h (encodeBody p c b.entries)))

def encodeBatches (p : Params) (c : Codec) (h : Bytes → Nat) (bs : List WBatch) : Bytes :=
  bs.flatMap (encodeBatch p c h)

def itemsOf : List Entry → List RItem
  | [] => []
  | .item i :: es => i.toR :: itemsOf es
  | _ :: es => itemsOf es

def clearsOf : List Entry → List Nat
  | [] => []
  | .clear k :: es => k :: clearsOf es
  | _ :: es => clearsOf es

def WBatch.toBatch (b : WBatch) : Batch := ⟨b.seqno, itemsOf b.entries, clearsOf b.entries⟩

def WBatch.WF (c : Codec) (b : WBatch) : Prop :=
  b.entries.length < 2^32 ∧ b.seqno < 2^64 ∧ ∀ e ∈ b.entries, e.isPayload = true ∧ e.WF c

end Fjall.Journal
