/-
  Journal entry codec: transcription of src/journal/entry.rs
  (Entry::encode_into / serialize_marker_item / Entry::decode_from).
-/
import FjallModel.Bytes
namespace Fjall.Journal
open Fjall

/-- tags and trailer (extracted from the source into `Generated/Params.lean` on every run) -/
structure Params where
  tagStart : UInt8
  tagItem : UInt8
  tagEnd : UInt8
  tagClear : UInt8
  magic : Bytes
  deriving Repr, DecidableEq

def Params.Valid (p : Params) : Prop :=
  p.tagStart ≠ p.tagItem ∧ p.tagStart ≠ p.tagEnd ∧ p.tagStart ≠ p.tagClear ∧
  p.tagItem ≠ p.tagEnd ∧ p.tagItem ≠ p.tagClear ∧ p.tagEnd ≠ p.tagClear ∧
  p.tagStart ≠ 0 ∧ p.tagItem ≠ 0 ∧ p.tagEnd ≠ 0 ∧ p.tagClear ≠ 0 ∧
  p.magic ≠ [] ∧ p.magic.getLast? ≠ some 0

instance (p : Params) : Decidable p.Valid := by unfold Params.Valid; infer_instance

/-- what the code has at the pinned commit; the generated file is compared with it -/
def Params.default : Params :=
  { tagStart := 1, tagItem := 2, tagEnd := 3, tagClear := 4, magic := [0x46, 0x4A, 0x4C, 3] }

/-- the block compressor is a parameter (lz4_flex in the implementation) -/
structure Codec where
  compress : Bytes → Bytes
  /-- `decompress stored expectedLen` = `lz4_flex::decompress_into` into a buffer of `expectedLen`
      bytes followed by the `size != value.len()` check -/
  decompress : Bytes → Nat → Option Bytes

def Codec.Law (c : Codec) : Prop := ∀ v, c.decompress (c.compress v) v.length = some v

inductive Kind | value | tomb | weakTomb | indirection
  deriving Repr, DecidableEq

def Kind.toByte : Kind → UInt8
  | .value => 0 | .tomb => 1 | .weakTomb => 2 | .indirection => 4
def Kind.ofByte (b : UInt8) : Option Kind :=
  if b = 0 then some .value else if b = 1 then some .tomb else if b = 2 then some .weakTomb
  else if b = 4 then some .indirection else none

inductive Comp | none | lz4
  deriving Repr, DecidableEq
def Comp.toByte : Comp → UInt8
  | .none => 0 | .lz4 => 1
def Comp.ofByte (b : UInt8) : Option Comp :=
  if b = 0 then some .none else if b = 1 then some .lz4 else Option.none

@[simp] theorem Kind.ofByte_toByte (k : Kind) : Kind.ofByte k.toByte = some k := by
  cases k <;> decide
@[simp] theorem Comp.ofByte_toByte (k : Comp) : Comp.ofByte k.toByte = some k := by
  cases k <;> decide

structure Item where
  ks : Nat
  key : Bytes
  val : Bytes
  kind : Kind
  comp : Comp
  deriving Repr, DecidableEq

inductive Entry
  | start (count seqno : Nat)
  | item (i : Item)
  | fin (sum : Nat)
  | clear (ks : Nat)
  deriving Repr, DecidableEq

def Item.stored (c : Codec) (i : Item) : Bytes :=
  match i.comp with
  | .none => i.val
  | .lz4 => c.compress i.val

def encodeItem (p : Params) (c : Codec) (i : Item) : Bytes :=
  [p.tagItem, i.kind.toByte, i.comp.toByte] ++ leN 8 i.ks ++ leN 2 i.key.length ++
    leN 4 i.val.length ++ leN 4 (i.stored c).length ++ i.key ++ i.stored c

def encodeEntry (p : Params) (c : Codec) : Entry → Bytes
  | .start n s => [p.tagStart] ++ leN 4 n ++ leN 8 s
  | .item i => encodeItem p c i
  | .fin s => [p.tagEnd] ++ leN 8 s ++ p.magic
  | .clear ks => [p.tagClear] ++ leN 8 ks

def Item.WF (c : Codec) (i : Item) : Prop :=
  i.ks < 2^64 ∧ i.key.length < 2^16 ∧ i.val.length < 2^32 ∧ (i.stored c).length < 2^32

def Entry.WF (c : Codec) : Entry → Prop
  | .start n s => n < 2^32 ∧ s < 2^64
  | .item i => i.WF c
  | .fin s => s < 2^64
  | .clear ks => ks < 2^64

open P in
def decodeItemBody (c : Codec) : P Entry :=
  bind byte fun vt =>
  bind (ofOption (Kind.ofByte vt)) fun kind =>
  bind byte fun cb =>
  bind (ofOption (Comp.ofByte cb)) fun comp =>
  bind (nat 8) fun ks =>
  bind (nat 2) fun keyLen =>
  bind (nat 4) fun valLen =>
  bind (nat 4) fun storedLen =>
  bind (take keyLen) fun key =>
  bind (take storedLen) fun stored =>
  match comp with
  | .none =>
    -- the length fields are untrusted: `value_len != on_disk_value_len` is a decode error
    if valLen = storedLen then pure (.item { ks, key, val := stored, kind, comp }) else fail
  | .lz4 => bind (ofOption (c.decompress stored valLen)) fun val =>
      pure (.item { ks, key, val, kind, comp })

open P in
/-- `Entry::decode_from`; `none` = any decode failure (EOF, invalid tag, invalid trailer,
    invalid value type / compression tag, decompression failure): the reader treats them alike. -/
def decodeEntry (p : Params) (c : Codec) : P Entry :=
  bind byte fun t =>
  if t = p.tagStart then
    bind (nat 4) fun n => bind (nat 8) fun s => pure (.start n s)
  else if t = p.tagItem then decodeItemBody c
  else if t = p.tagEnd then
    bind (nat 8) fun s => bind (take p.magic.length) fun m =>
      if m = p.magic then pure (.fin s) else fail
  else if t = p.tagClear then
    bind (nat 8) fun ks => pure (.clear ks)
  else fail

end Fjall.Journal
