/-
  Field layouts of the straight-line journal encoders, as extracted from the source by
  tools/extract_params.py, and their interpretation as byte strings.
  `Generated/SideConditions.lean` proves that interpreting the *extracted* layouts is the
  model's `encodeEntry` — reordering or re-sizing a field in the source breaks that proof.
-/
import FjallModel.Journal.Entry
namespace Fjall.Journal.Layout
open Fjall Fjall.Journal

inductive Wd | u8 | u16le | u32le | u64le | u16be | u32be | u64be | raw | enc
  deriving DecidableEq, Repr

inductive Src
  | tagStart | tagItem | tagEnd | tagClear | valueType | compression | ksId | keyLen | valLen
  | storedLen | key | stored | count | seqno | checksum | magic | unknown
  deriving DecidableEq, Repr

structure Field where
  wd : Wd
  src : Src
  deriving DecidableEq, Repr

structure Env where
  nat : Src → Nat
  bytes : Src → Bytes

def fieldBytes (env : Env) (f : Field) : Bytes :=
  match f.wd with
  | .u8 => leN 1 (env.nat f.src)
  | .enc => leN 1 (env.nat f.src)
  | .u16le => leN 2 (env.nat f.src)
  | .u32le => leN 4 (env.nat f.src)
  | .u64le => leN 8 (env.nat f.src)
  | .u16be => beN 2 (env.nat f.src)
  | .u32be => beN 4 (env.nat f.src)
  | .u64be => beN 8 (env.nat f.src)
  | .raw => env.bytes f.src

def interp (env : Env) (fs : List Field) : Bytes := fs.flatMap (fieldBytes env)

def envOf (p : Params) (c : Codec) : Entry → Env
  | .start n s =>
    { nat := fun | .tagStart => p.tagStart.toNat | .count => n | .seqno => s | _ => 0
      bytes := fun _ => [] }
  | .item i =>
    { nat := fun
        | .tagItem => p.tagItem.toNat | .valueType => i.kind.toByte.toNat
        | .compression => i.comp.toByte.toNat | .ksId => i.ks | .keyLen => i.key.length
        | .valLen => i.val.length | .storedLen => (i.stored c).length | _ => 0
      bytes := fun | .key => i.key | .stored => i.stored c | _ => [] }
  | .fin s =>
    { nat := fun | .tagEnd => p.tagEnd.toNat | .checksum => s | _ => 0
      bytes := fun | .magic => p.magic | _ => [] }
  | .clear k =>
    { nat := fun | .tagClear => p.tagClear.toNat | .ksId => k | _ => 0
      bytes := fun _ => [] }

theorem leN_one_toNat (b : UInt8) : leN 1 b.toNat = [b] := by
  simp [leN, Nat.mod_eq_of_lt b.toNat_lt]

end Fjall.Journal.Layout
