/-
  Reference semantics shared by the layers: a keyspace's logical content as a newest-first list of
  assignments (`none` = deleted); point lookup = first match.  Scans are derived from it.
-/
import FjallModel.Bytes
namespace Fjall.Spec
open Fjall

abbrev Key := Bytes
abbrev Val := Bytes
abbrev KsId := Nat

abbrev KMap := List (Key × Option Val)

def KMap.get : KMap → Key → Option Val
  | [], _ => none
  | (k', v) :: r, k => if k' = k then v else KMap.get r k

def KMap.put (m : KMap) (k : Key) (v : Val) : KMap := (k, some v) :: m
def KMap.del (m : KMap) (k : Key) : KMap := (k, none) :: m

/-- extensional equality of contents -/
def KMap.Equiv (a b : KMap) : Prop := ∀ k, a.get k = b.get k

theorem KMap.Equiv.refl (a : KMap) : a.Equiv a := fun _ => rfl
theorem KMap.Equiv.symm {a b : KMap} (h : a.Equiv b) : b.Equiv a := fun k => (h k).symm
theorem KMap.Equiv.trans {a b c : KMap} (h1 : a.Equiv b) (h2 : b.Equiv c) : a.Equiv c :=
  fun k => (h1 k).trans (h2 k)

@[simp] theorem KMap.get_put (m : KMap) (k k' : Key) (v : Val) :
    (m.put k v).get k' = if k = k' then some v else m.get k' := rfl
@[simp] theorem KMap.get_del (m : KMap) (k k' : Key) :
    (m.del k).get k' = if k = k' then none else m.get k' := rfl

/-- lexicographic order on byte strings (the key order of the store) -/
def bytesLt : Bytes → Bytes → Bool
  | [], [] => false
  | [], _ :: _ => true
  | _ :: _, [] => false
  | a :: as, b :: bs => if a < b then true else if b < a then false else bytesLt as bs

def insertSorted (k : Key) : List Key → List Key
  | [] => [k]
  | x :: r => if k = x then x :: r else if bytesLt k x then k :: x :: r else x :: insertSorted k r

/-- sorted, duplicate-free list of the keys mentioned -/
def KMap.keys (m : KMap) : List Key := m.foldl (fun acc kv => insertSorted kv.1 acc) []

/-- the content as a sorted list of live pairs: what a full forward scan returns -/
def KMap.toList (m : KMap) : List (Key × Val) :=
  m.keys.filterMap fun k => (m.get k).map fun v => (k, v)

/-- range bounds as the API takes them -/
inductive Bound | unbounded | incl (k : Key) | excl (k : Key)
  deriving Repr, DecidableEq

def Bound.lowerOk : Bound → Key → Bool
  | .unbounded, _ => true
  | .incl b, k => !(bytesLt k b)
  | .excl b, k => bytesLt b k
def Bound.upperOk : Bound → Key → Bool
  | .unbounded, _ => true
  | .incl b, k => !(bytesLt b k)
  | .excl b, k => bytesLt k b

def inRange (lo hi : Bound) (k : Key) : Bool := lo.lowerOk k && hi.upperOk k

/-- `prefix_to_range`: [prefix, next-prefix) where next-prefix increments the last non-0xFF byte -/
def prefixUpper (p : Bytes) : Bound :=
  let rec go : List UInt8 → Option (List UInt8)     -- on the reversed prefix
    | [] => none
    | b :: r => if b = 255 then go r else some ((b + 1) :: r)
  match go p.reverse with
  | none => .unbounded
  | some r => .excl r.reverse

def prefixRange (p : Bytes) : Bound × Bound :=
  if p.isEmpty then (.unbounded, .unbounded) else (.incl p, prefixUpper p)

def KMap.range (m : KMap) (lo hi : Bound) : List (Key × Val) :=
  m.toList.filter fun kv => inRange lo hi kv.1

end Fjall.Spec
