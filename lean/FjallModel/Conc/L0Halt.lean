/-
  The write halt on too many L0 runs (C14, "the write stall mechanisms always let writers proceed
  eventually").  Transcribes `Keyspace::check_write_halt` (src/keyspace/mod.rs):

      while self.tree.l0_run_count() >= 30 { sleep(10 ms) }

  together with what changes the number of L0 runs: a flush adds a run, a compaction merges runs.
  `Cfg.pollCurrent = false` is the seeded change C14-7: the loop polls a version fetched once
  before the loop.
-/
namespace Fjall.L0Halt

structure Cfg where
  haltAt : Nat := 30
  /-- every iteration reads the tree's current version -/
  pollCurrent : Bool := true

inductive WPhase
  | idle
  /-- inside the halt loop; `seen` = the run count of the version fetched when the loop was entered -/
  | halted (seen : Nat)
  | done
  deriving DecidableEq, Repr

structure State where
  l0 : Nat
  w : WPhase := .idle
  deriving DecidableEq, Repr

inductive Ev
  /-- the writer's next step: enter the loop / one iteration of it -/
  | writer
  | flush
  /-- a compaction leaves at most `to` runs in L0 -/
  | compact (to : Nat)
  deriving DecidableEq, Repr

def step (cfg : Cfg) (s : State) : Ev → State
  | .writer =>
    match s.w with
    | .idle => if s.l0 ≥ cfg.haltAt then { s with w := .halted s.l0 } else { s with w := .done }
    | .halted seen =>
      if (if cfg.pollCurrent then s.l0 else seen) ≥ cfg.haltAt then s else { s with w := .done }
    | .done => s
  | .flush => { s with l0 := s.l0 + 1 }
  | .compact to => { s with l0 := min s.l0 to }

def run (cfg : Cfg) (s : State) (evs : List Ev) : State := evs.foldl (step cfg) s

end Fjall.L0Halt
