/-
  Conc — small-step interleaving semantics of the write path, snapshot creation and version
  registration at lock-and-atomic granularity (src/batch/mod.rs `commit`, src/keyspace/mod.rs
  `insert` / `remove` / `rotate_memtable`, src/snapshot_tracker.rs `open` / `begin_write` / `publish`,
  lsm-tree `upgrade_version`).  A schedule is a list of thread ids; a step of a thread that is not
  enabled (finished, or waiting for the journal lock) leaves the state unchanged.
-/
import FjallModel.Spec
namespace Fjall.Conc
open Fjall Fjall.Spec

abbrev Tid := Nat

/-- a versioned entry of some memtable / table -/
structure Entry where
  ks : KsId
  key : Key
  seqno : Nat
  val : Option Val          -- `none` = tombstone
  deriving Repr, DecidableEq

structure Item where
  ks : KsId
  key : Key
  val : Option Val
  deriving Repr, DecidableEq

def Item.entry (s : Nat) (it : Item) : Entry := ⟨it.ks, it.key, s, it.val⟩

inductive Cmd
  /-- `insert` / `remove` (one item), `Batch::commit`, transaction commit -/
  | write (items : List Item)
  /-- `SnapshotTracker::open`: snapshot, read transaction, `iter` / `range` / `prefix` -/
  | snap
  /-- one read through the thread's current view (a point read, or one position of a scan) -/
  | read (ks : KsId) (key : Key)
  /-- `Keyspace::get` and friends: read the latest state -/
  | readTop (ks : KsId) (key : Key)
  /-- a version registration (flush, compaction, keyspace creation): draw a seqno, then advance
      the shared visible seqno past it -/
  | register
  /-- `rotate_memtable`: takes and releases the journal lock, then runs the tracker GC -/
  | rotate
  /-- bulk ingestion (`Ingestion::finish`): under the journal lock, draw a seqno, register the
      ingested tables with it, advance the visible seqno, run the tracker GC -/
  | ingest (items : List Item)
  /-- `SnapshotTracker::gc` (needs the GC lock exclusively: no `open` may be in progress) -/
  | gc
  /-- drop the thread's snapshot -/
  | close
  deriving Repr, DecidableEq

/-- what the holder of the journal mutex is doing -/
inductive LPhase
  | wLocked (items : List Item)
  | wFloored (items : List Item)              -- `begin_write` done
  | wDrawn (s : Nat) (done rest : List Item)  -- seqno drawn and journaled; `done` applied so far
  | wPublished
  | rLocked                                   -- `rotate_memtable`
  | iLocked (items : List Item)               -- `Ingestion::finish` holds the lock
  | iGc                                       -- ingested tables registered; tracker GC pending
  deriving Repr, DecidableEq

/-- a thread's own position outside the journal critical section -/
inductive Phase
  | idle
  | sLoaded (v : Nat)             -- `open`: the counter was read, the floor not yet
  | gDrawn (s : Nat)              -- `upgrade_version`: seqno drawn, visible not yet advanced
  | needGc                        -- after a memtable rotation: tracker GC pending
  deriving Repr, DecidableEq

structure Thread where
  prog : List Cmd
  phase : Phase := .idle
  view : Option Nat := none
  deriving Repr, DecidableEq

structure Obs where
  tid : Tid
  view : Nat
  ks : KsId
  key : Key
  res : Option Val
  deriving Repr, DecidableEq

/-- events of the history; `applied` and `readTop` are the linearization points -/
inductive Ev
  | call (t : Tid) (c : Cmd)
  | ret (t : Tid)
  | applied (t : Tid) (e : Entry)
  | readTop (t : Tid) (ks : KsId) (key : Key) (res : Option Val)
  | opened (t : Tid) (i : Nat)
  deriving Repr, DecidableEq

structure State where
  /-- the seqno generator -/
  counter : Nat := 0
  /-- the visible seqno (shared by the snapshot tracker and all trees) -/
  visible : Nat := 0
  /-- `write_floor` of the snapshot tracker (repaired, F6) -/
  floor : Option Nat := none
  /-- holder of the journal mutex and its position inside the critical section -/
  lock : Option (Tid × LPhase) := none
  /-- all entries applied to memtables so far, in apply order -/
  store : List Entry := []
  /-- ghost: every write whose seqno was drawn (= journal order) -/
  batches : List (Nat × List Item) := []
  threads : List Thread := []
  /-- ghost: reads through views -/
  obs : List Obs := []
  /-- ghost: history -/
  log : List Ev := []
  /-- `lowest_freed_instant`: the GC watermark handed to flushes and compactions -/
  wm : Nat := 0
  deriving Repr, DecidableEq

def below (bound : Option Nat) (n : Nat) : Bool :=
  match bound with
  | none => true
  | some i => n < i

def Entry.hit (e : Entry) (ks : KsId) (key : Key) (bound : Option Nat) : Bool :=
  e.ks = ks && e.key = key && below bound e.seqno

/-- newest visible entry of a key: highest seqno below the bound, ties resolved by apply order -/
def best (ks : KsId) (key : Key) (bound : Option Nat) : List Entry → Option Entry → Option Entry
  | [], acc => acc
  | e :: r, acc =>
    if e.hit ks key bound then
      match acc with
      | none => best ks key bound r (some e)
      | some a => if a.seqno ≤ e.seqno then best ks key bound r (some e) else best ks key bound r acc
    else best ks key bound r acc

def lookup (store : List Entry) (ks : KsId) (key : Key) (bound : Option Nat) : Option Val :=
  match best ks key bound store none with
  | some e => e.val
  | none => none

/-- the store in which exactly the given writes are applied, each entirely -/
def specStore (bs : List (Nat × List Item)) : List Entry :=
  bs.flatMap fun b => b.2.map (Item.entry b.1)

def natMax (a b : Nat) : Nat := if a ≤ b then b else a

structure Cfg where
  /-- `false` = the code before the repair of finding F6: `open` hands out the raw counter -/
  useFloor : Bool := true

def setThread (s : State) (t : Tid) (th : Thread) : State :=
  { s with threads := s.threads.set t th }

/-- the instant `open` hands out: it read the counter (`v`) first, the floor now -/
def instantOf (cfg : Cfg) (s : State) (v : Nat) : Nat :=
  if cfg.useFloor then (match s.floor with | some f => if v ≤ f then v else f | none => v) else v

/-- is some `open` in progress (holding the GC lock shared)? -/
def loading (s : State) : Bool :=
  s.threads.any fun th => match th.phase with | .sLoaded _ => true | _ => false

def natMin (a b : Nat) : Nat := if a ≤ b then a else b

def viewMin (acc : Nat) (th : Thread) : Nat :=
  match th.view with
  | some i => natMin acc i
  | none => acc

/-- `SnapshotTracker::gc`: the lowest instant still retained (a live snapshot's, else the instant a
    new snapshot would get now) minus one becomes the watermark, never lowering it -/
def gcWm (cfg : Cfg) (s : State) : Nat :=
  let t := instantOf cfg s s.visible
  let lowest := s.threads.foldl viewMin t
  natMax s.wm (lowest - 1)

/-- a step of the holder of the journal mutex; `none` = has to wait (for the GC lock) -/
def lockedStep (cfg : Cfg) (s : State) (t : Tid) (th : Thread) : LPhase → Option State
  | .wLocked items => some { s with lock := some (t, .wFloored items), floor := some s.visible }
  | .wFloored items =>
    some { s with lock := some (t, .wDrawn s.counter [] items), counter := s.counter + 1,
                  batches := s.batches ++ [(s.counter, items)] }
  | .wDrawn sq done (it :: rest) =>
    some { s with lock := some (t, .wDrawn sq (done ++ [it]) rest), store := s.store ++ [it.entry sq],
                  log := s.log ++ [.applied t (it.entry sq)] }
  | .wDrawn sq _ [] =>
    some { s with lock := some (t, .wPublished), visible := natMax s.visible (sq + 1), floor := none }
  | .wPublished =>
    some { (setThread s t { th with prog := th.prog.tail }) with lock := none, log := s.log ++ [.ret t] }
  | .rLocked => some { (setThread s t { th with phase := .needGc }) with lock := none }
  | .iLocked items =>
    some { s with lock := some (t, .iGc), counter := s.counter + 1,
                  batches := s.batches ++ [(s.counter, items)],
                  store := s.store ++ items.map (Item.entry s.counter),
                  visible := natMax s.visible (s.counter + 1),
                  log := s.log ++ items.map (fun it => Ev.applied t (it.entry s.counter)) }
  | .iGc => if loading s then none else some { s with lock := some (t, .wPublished), wm := gcWm cfg s }

/-- a step of a thread that does not hold the journal mutex -/
def freeStep (cfg : Cfg) (s : State) (t : Tid) (th : Thread) : Option State :=
  match th.phase, th.prog with
  | .sLoaded v, _ =>
    some { (setThread s t { th with phase := .idle, prog := th.prog.tail, view := some (instantOf cfg s v) }) with
            log := s.log ++ [.opened t (instantOf cfg s v), .ret t] }
  | .gDrawn sq, _ =>
    some { (setThread s t { th with phase := .idle, prog := th.prog.tail }) with
            visible := natMax s.visible (sq + 1) }
  | .idle, [] => none
  | .idle, .write items :: _ =>
    match s.lock with
    | some _ => none
    | none => some { s with lock := some (t, .wLocked items), log := s.log ++ [.call t (.write items)] }
  | .idle, .rotate :: _ =>
    match s.lock with
    | some _ => none
    | none => some { s with lock := some (t, .rLocked) }
  | .needGc, _ =>
    if loading s then none
    else some { (setThread s t { th with phase := .idle, prog := th.prog.tail }) with wm := gcWm cfg s }
  | .idle, .ingest items :: _ =>
    match s.lock with
    | some _ => none
    | none => some { s with lock := some (t, .iLocked items), log := s.log ++ [.call t (.ingest items)] }
  | .idle, .gc :: _ =>
    if loading s then none
    else some { (setThread s t { th with prog := th.prog.tail }) with wm := gcWm cfg s }
  | .idle, .close :: _ => some (setThread s t { th with prog := th.prog.tail, view := none })
  | .idle, .snap :: _ =>
    some { (setThread s t { th with phase := .sLoaded s.visible }) with log := s.log ++ [.call t .snap] }
  | .idle, .read ks key :: _ =>
    match th.view with
    | none => some (setThread s t { th with prog := th.prog.tail })
    | some i =>
      some { (setThread s t { th with prog := th.prog.tail }) with
              obs := s.obs ++ [⟨t, i, ks, key, lookup s.store ks key (some i)⟩] }
  | .idle, .readTop ks key :: _ =>
    some { (setThread s t { th with prog := th.prog.tail }) with
            log := s.log ++ [.call t (.readTop ks key), .readTop t ks key (lookup s.store ks key none), .ret t] }
  | .idle, .register :: _ =>
    some { (setThread s t { th with phase := .gDrawn s.counter }) with counter := s.counter + 1 }

/-- one step of thread `t`; `none` = not enabled -/
def stepT (cfg : Cfg) (s : State) (t : Tid) : Option State :=
  match s.threads[t]? with
  | none => none
  | some th =>
    match s.lock with
    | some (h, ph) => if h = t then lockedStep cfg s t th ph else freeStep cfg s t th
    | none => freeStep cfg s t th

def step (cfg : Cfg) (s : State) (t : Tid) : State := (stepT cfg s t).getD s

def run (cfg : Cfg) (s : State) (sched : List Tid) : State := sched.foldl (step cfg) s

def init (progs : List (List Cmd)) : State := { threads := progs.map fun p => { prog := p } }

/-- **Atomic visibility**: every read through a view with instant `i` returns the value of the
    state in which exactly the writes with seqno below `i` are applied, each *entirely* — whatever
    was or was not yet applied at the time of the read, and whatever was drawn later. -/
def AtomicVisible (s : State) : Prop :=
  ∀ o ∈ s.obs, o.res = lookup (specStore s.batches) o.ks o.key (some o.view)

instance (s : State) : Decidable (AtomicVisible s) := by unfold AtomicVisible; infer_instance

end Fjall.Conc
