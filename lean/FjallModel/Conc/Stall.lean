/-
  Write stall and background workers (C14, "the write stall mechanisms always let writers proceed
  eventually").  Transcribes, at the level of who waits for whom:

  * `Keyspace::insert` … `drop(journal_writer); self.maintenance(size)`:
    `check_memtable_rotate` = `try_send(RotateMemtable(active memtable id))` while the active
    memtable is above its limit; `local_backpressure` = spin while `sealed_memtable_count() >= 4`
    (src/keyspace/mod.rs);
  * `worker_tick` / `handle_message` (src/worker_pool.rs): `RotateMemtable(id)` takes the journal
    lock, rotates if `id` is still the active memtable, queues the flush task and notifies with
    `Flush` (`try_send`; flushes right away when the channel is full – fix F24); `Flush` dequeues
    a task (none: done), takes and releases the journal lock (journal rotation), flushes *all*
    sealed memtables (lsm-tree `AbstractTree::flush`), then `try_send`s `pool_size` `Compact`
    messages; `Compact` runs a compaction (no fjall lock);
  * the worker channel is bounded (`flume::bounded(1_000)`), the writers use `try_send`.

  A state records counters and phases; the schedule (a list of thread ids) is the input.
  `Cfg` selects the code as it is, the code before fix F24 (`workerBlockingSend`) or the seeded
  change C14-2 (`unlockBeforeStall := false`).
-/
namespace Fjall.Stall

structure Cfg where
  /-- capacity of the worker channel -/
  cap : Nat := 1000
  /-- sealed memtables at which writers halt -/
  limit : Nat := 4
  /-- `Compact` messages sent after a flush (`pool_size`) -/
  fanout : Nat := 1
  /-- before fix F24: a worker notifies with a blocking `send(Flush)` -/
  workerBlockingSend : Bool := false
  /-- the writer releases the journal lock before `maintenance` (false: seeded change C14-2) -/
  unlockBeforeStall : Bool := true

inductive WrPhase
  | idle | locked | stalling | stallingLocked
  deriving DecidableEq, Repr

structure Writer where
  /-- writes still to do; `true` = the write brings the active memtable above its limit -/
  todo : List Bool
  phase : WrPhase := .idle
  deriving DecidableEq, Repr

inductive WkPhase
  | idle
  /-- took a rotation request for memtable generation `g` -/
  | rotWait (g : Nat) | rotLocked (g : Nat)
  | sendFlush | flushWait | flushLocked | flushing | compacting
  deriving DecidableEq, Repr

inductive Holder
  | w (i : Nat) | k (i : Nat)
  deriving DecidableEq, Repr

/-- what an idle worker receives -/
inductive Pick | rot | flush | compact
  deriving DecidableEq, Repr

inductive Tid
  | writer (i : Nat)
  /-- an idle worker receives a message of kind `pick`; a busy one advances -/
  | worker (i : Nat) (pick : Pick)
  deriving DecidableEq, Repr

structure State where
  jlock : Option Holder := none
  /-- sealed memtables not yet flushed -/
  sealed : Nat := 0
  /-- queued flush tasks (`FlushManager`) -/
  tasks : Nat := 0
  /-- `RotateMemtable` messages in the worker channel, oldest first, each with the generation of
      the memtable it was requested for -/
  rotq : List Nat := []
  /-- `Flush` messages in the worker channel -/
  fl : Nat := 0
  /-- `Compact` messages in the worker channel -/
  cp : Nat := 0
  /-- generation (id) of the active memtable -/
  gen : Nat := 0
  /-- the active memtable is above its limit -/
  over : Bool := false
  writers : List Writer := []
  workers : List WkPhase := []
  deriving DecidableEq, Repr

def State.queued (s : State) : Nat := s.rotq.length + s.fl + s.cp
def State.room (cfg : Cfg) (s : State) : Bool := s.queued < cfg.cap

/-- `try_send` of `n` `Compact` messages -/
def State.sendCompacts (cfg : Cfg) (s : State) : Nat → State
  | 0 => s
  | n + 1 => (if s.room cfg then { s with cp := s.cp + 1 } else s).sendCompacts cfg n

def stepWriter (cfg : Cfg) (s : State) (i : Nat) (w : Writer) : State :=
  match w.phase, w.todo with
  | .idle, _ :: _ =>
    if s.jlock.isNone then { s with jlock := some (.w i), writers := s.writers.set i { w with phase := .locked } }
    else s
  | .idle, [] => s
  | .locked, big :: _ =>
    -- journal write, memtable insert, publish; then `maintenance`
    let over := s.over || big
    let rotq := if over && s.room cfg then s.rotq ++ [s.gen] else s.rotq
    if cfg.unlockBeforeStall then
      { s with jlock := none, over := over, rotq := rotq, writers := s.writers.set i { w with phase := .stalling } }
    else
      { s with over := over, rotq := rotq, writers := s.writers.set i { w with phase := .stallingLocked } }
  | .locked, [] => s
  | .stalling, _ =>
    if s.sealed ≥ cfg.limit then s
    else { s with writers := s.writers.set i { todo := w.todo.tail, phase := .idle } }
  | .stallingLocked, _ =>
    if s.sealed ≥ cfg.limit then s
    else { s with jlock := none, writers := s.writers.set i { todo := w.todo.tail, phase := .idle } }

def stepWorker (cfg : Cfg) (s : State) (j : Nat) (pick : Pick) (p : WkPhase) : State :=
  match p with
  | .idle =>
    match pick with
    | .rot =>
      (match s.rotq with
       | g :: r => { s with rotq := r, workers := s.workers.set j (.rotWait g) }
       | [] => s)
    | .flush =>
      (if s.fl > 0 then
        (if s.tasks > 0 then { s with fl := s.fl - 1, tasks := s.tasks - 1, workers := s.workers.set j .flushWait }
         else { s with fl := s.fl - 1 })
       else s)
    | .compact =>
      (if s.cp > 0 then { s with cp := s.cp - 1, workers := s.workers.set j .compacting } else s)
  | .rotWait g =>
    if s.jlock.isNone then { s with jlock := some (.k j), workers := s.workers.set j (.rotLocked g) } else s
  | .rotLocked g =>
    if g = s.gen then
      -- rotate: seal the memtable, queue the flush task, release the lock, notify
      let s1 := { s with jlock := none, over := false, gen := s.gen + 1, sealed := s.sealed + 1, tasks := s.tasks + 1 }
      if cfg.workerBlockingSend then { s1 with workers := s.workers.set j .sendFlush }
      else if s1.room cfg then { s1 with fl := s.fl + 1, workers := s.workers.set j .idle }
      else -- no room: flush right away (the task just queued, or an older one)
        { s1 with tasks := s1.tasks - 1, workers := s.workers.set j .flushWait }
    else { s with jlock := none, workers := s.workers.set j .idle }   -- stale request
  | .sendFlush =>
    if s.room cfg then { s with fl := s.fl + 1, workers := s.workers.set j .idle } else s
  | .flushWait =>
    if s.jlock.isNone then { s with jlock := some (.k j), workers := s.workers.set j .flushLocked } else s
  | .flushLocked => { s with jlock := none, workers := s.workers.set j .flushing }
  | .flushing =>
    -- all memtables sealed by now go into the table; then the compaction requests
    ({ s with sealed := 0, workers := s.workers.set j .idle }).sendCompacts cfg cfg.fanout
  | .compacting => { s with workers := s.workers.set j .idle }

def stepT (cfg : Cfg) (s : State) : Tid → State
  | .writer i => match s.writers[i]? with
    | some w => stepWriter cfg s i w
    | none => s
  | .worker j pick => match s.workers[j]? with
    | some p => stepWorker cfg s j pick p
    | none => s

def run (cfg : Cfg) (s : State) (sched : List Tid) : State := sched.foldl (stepT cfg) s

def init (progs : List (List Bool)) (nworkers : Nat) : State :=
  { writers := progs.map fun p => { todo := p }, workers := List.replicate nworkers .idle }

/-- every writer has finished its program -/
def State.done (s : State) : Bool := s.writers.all fun w => w.todo.isEmpty

end Fjall.Stall
