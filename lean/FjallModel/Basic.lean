def hello := "world"
