/-
  Single-writer transactional database across threads
  (src/tx/single_writer/mod.rs `write_tx`, write_tx.rs `commit` / `rollback`, `read_tx`).

  `write_tx` = lock the single-writer mutex, THEN open the snapshot; the guard lives in the
  transaction and is released when `commit` / `rollback` / drop returns. Every write method of a
  `SingleWriterTxKeyspace` goes through `write_tx`, so the threads below are the only writers.
  The commit itself (journal batch, apply, publish) is one step here: that it is atomic and
  visible before it returns is C06's theorem about the `Conc` model.

  A schedule is a list of thread ids; `stepT` performs the next step of that thread (no-op when
  the thread is blocked on the lock or finished).
-/
import FjallModel.Tx.Ssi
namespace Fjall.Sw
open Fjall Fjall.Spec Fjall.Tx

structure Cfg where
  /-- true = the code as it is: the snapshot is opened after the single-writer lock was taken.
      false = the snapshot is opened first (seeded change C08-1), kept for the counterexample. -/
  snapAfterLock : Bool := true

/-- one transaction a thread is going to run -/
structure Job where
  ops : List XOp
  /-- ending of a write transaction: commit, or rollback / drop -/
  commit : Bool := true
  /-- `read_tx()`: a snapshot, no lock -/
  readOnly : Bool := false

def snapOf (log : List LogEntry) (seqno : Nat) : OTx := { instant := seqno, base := { snap := stateTop log } }

inductive Phase
  | idle
  /-- only with `snapAfterLock = false`: snapshot taken, lock not yet -/
  | presnap (t : OTx)
  /-- holds the lock, snapshot not opened yet -/
  | locked
  | running (t : OTx) (rest : List XOp) (outs : List XOut)
  /-- `commit` done, guard not yet dropped -/
  | finishing (outs : List XOut)
  /-- read-only snapshot; `before` (ghost) = the committed log it was opened on -/
  | reading (before : List LogEntry) (t : OTx) (rest : List XOp) (outs : List XOut)

structure Thread where
  todo : List Job := []
  phase : Phase := .idle
  /-- outputs of the finished transactions, oldest first -/
  results : List (List XOut) := []

/-- ghost record of a finished transaction -/
structure Done where
  prog : List XOp
  outs : List XOut
  /-- the committed log right before its commit / at its snapshot (newest first) -/
  before : List LogEntry
  batch : List TEntry

structure State where
  log : List LogEntry := []
  seqno : Nat := 0
  lock : Option Nat := none
  threads : Nat → Thread := fun _ => {}
  /-- ghost: committed writers in commit order -/
  done : List Done := []
  /-- ghost: finished read-only snapshots -/
  doneRo : List Done := []

def State.setThread (s : State) (tid : Nat) (th : Thread) : State :=
  { s with threads := fun i => if i = tid then th else s.threads i }

def Thread.finish (th : Thread) (outs : List XOut) : Thread :=
  { todo := th.todo.tail, phase := .idle, results := th.results ++ [outs] }

/-- the next step of thread `tid`, whose record is `th` and whose current job is `j` -/
def stepJ (cfg : Cfg) (s : State) (tid : Nat) (th : Thread) (j : Job) : State :=
  match th.phase with
  | .idle =>
    if j.readOnly then
      s.setThread tid { th with phase := .reading s.log (snapOf s.log s.seqno) j.ops [] }
    else if cfg.snapAfterLock then
      (if s.lock.isNone then { s with lock := some tid }.setThread tid { th with phase := .locked } else s)
    else s.setThread tid { th with phase := .presnap (snapOf s.log s.seqno) }
  | .presnap t =>
    if s.lock.isNone then { s with lock := some tid }.setThread tid { th with phase := .running t j.ops [] }
    else s
  | .locked => s.setThread tid { th with phase := .running (snapOf s.log s.seqno) j.ops [] }
  | .running t (o :: rest) outs =>
    s.setThread tid { th with phase := .running (xstep t o).1 rest (outs ++ [(xstep t o).2]) }
  | .running t [] outs =>
    if j.commit then
      if t.base.mem.isEmpty then s.setThread tid { th with phase := .finishing outs }
      else
        { s with log := ⟨s.seqno, t.base.commitBatch⟩ :: s.log, seqno := s.seqno + 1,
                 done := s.done ++ [(⟨j.ops, outs, s.log, t.base.commitBatch⟩ : Done)] }.setThread
          tid { th with phase := .finishing outs }
    else
      -- rollback / drop: nothing changes, the guard goes
      { s with lock := none }.setThread tid (th.finish outs)
  | .finishing outs => { s with lock := none }.setThread tid (th.finish outs)
  | .reading before t (o :: rest) outs =>
    s.setThread tid { th with phase := .reading before (xstep t o).1 rest (outs ++ [(xstep t o).2]) }
  | .reading before _ [] outs =>
    { s with doneRo := s.doneRo ++ [(⟨j.ops, outs, before, []⟩ : Done)] }.setThread
      tid (th.finish outs)

def stepT (cfg : Cfg) (s : State) (tid : Nat) : State :=
  match (s.threads tid).todo with
  | [] => s
  | j :: _ => stepJ cfg s tid (s.threads tid) j

def run (cfg : Cfg) (s : State) (sched : List Nat) : State := sched.foldl (stepT cfg) s

def init (jobs : List (List Job)) : State :=
  { threads := fun i => { todo := (jobs[i]?).getD [] } }

/-- the thread holds the single-writer lock -/
def Phase.holds : Phase → Bool
  | .locked => true
  | .running .. => true
  | .finishing .. => true
  | _ => false

end Fjall.Sw
