/-
  The commit mutex of optimistic transactions across threads
  (src/tx/optimistic/oracle.rs `Oracle::with_commit`).

  `with_commit` = lock `write_serialize_lock`; validate the transaction's read set against the
  write sets committed after its snapshot and prune the table; if there is no conflict run `f`
  (journal batch, memtables, publish) and register the write set; unlock.  The event model of
  `Tx.Ssi` / `Lemmas.SsiHist` takes a commit as ONE event; this file is about why it may: the
  threads below perform validation and application as separate steps, the schedule (a list of
  thread ids) is the input.

  The semantics of validation and application are parameters (`Sem`), so the result holds for the
  `Tx.Ssi` instance (`ssiSem`) and for anything else put behind the same mutex discipline.
  `Cfg.holdAcross = false` is the seeded change C07-7: the mutex is released after validation.
-/
import FjallModel.Tx.Ssi
namespace Fjall.CommitMutex

structure Cfg where
  /-- the mutex is held from validation to registration (the code as it is) -/
  holdAcross : Bool := true

/-- what a commit does to the shared state `D`, for a commit request `T` -/
structure Sem (D T : Type) where
  /-- first half: conflict check and pruning of the table; verdict `true` = no conflict -/
  validate : D → T → D × Bool
  /-- second half: apply the batch, register the write set -/
  apply : D → T → D

/-- a commit as one event -/
def Sem.atomic (m : Sem D T) (d : D) (t : T) : D × Bool :=
  if (m.validate d t).2 then (m.apply (m.validate d t).1 t, true) else ((m.validate d t).1, false)

def atomicStep (m : Sem D T) (acc : D × List Bool) (t : T) : D × List Bool :=
  ((m.atomic acc.1 t).1, acc.2 ++ [(m.atomic acc.1 t).2])

/-- commits executed one after the other: final state and verdicts -/
def runAtomic (m : Sem D T) (d : D) (ts : List T) : D × List Bool := ts.foldl (atomicStep m) (d, [])

inductive Phase
  | idle
  /-- holds the mutex, not validated yet -/
  | locked
  /-- validated without conflict, batch not applied yet -/
  | validated
  deriving DecidableEq, Repr

structure Thread (T : Type) where
  todo : List T := []
  phase : Phase := .idle

structure State (D T : Type) where
  db : D
  mutex : Option Nat := none
  threads : Nat → Thread T := fun _ => {}
  /-- ghost: finished commits with their verdicts, in the order they finished -/
  done : List (T × Bool) := []

def State.setThread (s : State D T) (i : Nat) (th : Thread T) : State D T :=
  { s with threads := fun j => if j = i then th else s.threads j }

/-- the next step of thread `i`, whose record is `th` and whose current commit request is `t` -/
def stepJ (cfg : Cfg) (m : Sem D T) (s : State D T) (i : Nat) (th : Thread T) (t : T) : State D T :=
  match th.phase with
  | .idle =>
    if s.mutex.isNone then { s with mutex := some i }.setThread i { th with phase := .locked } else s
  | .locked =>
    if (m.validate s.db t).2 then
      { s with db := (m.validate s.db t).1, mutex := if cfg.holdAcross then s.mutex else none }.setThread
        i { th with phase := .validated }
    else
      { s with db := (m.validate s.db t).1, mutex := none, done := s.done ++ [(t, false)] }.setThread
        i { todo := th.todo.tail, phase := .idle }
  | .validated =>
    { s with db := m.apply s.db t, mutex := if cfg.holdAcross then none else s.mutex,
             done := s.done ++ [(t, true)] }.setThread i { todo := th.todo.tail, phase := .idle }

def stepT (cfg : Cfg) (m : Sem D T) (s : State D T) (i : Nat) : State D T :=
  match (s.threads i).todo with
  | [] => s
  | t :: _ => stepJ cfg m s i (s.threads i) t

def run (cfg : Cfg) (m : Sem D T) (s : State D T) (sched : List Nat) : State D T :=
  sched.foldl (stepT cfg m) s

def init (d : D) (jobs : List (List T)) : State D T :=
  { db := d, threads := fun i => { todo := (jobs[i]?).getD [] } }

/-! ### the `Tx.Ssi` instance: `SsiDb.commit` of a writing transaction, split where the code splits it -/

open Fjall.Tx in
def ssiSem : Sem SsiDb OTx where
  validate db t :=
    ({ db with committed := db.committed.filter fun c => c.ts > db.tr.wm },
     !(db.committed.any fun c => c.ts ≥ t.instant + 1 && hasConflict t.reads c.keys))
  apply db t :=
    let s := db.seqno
    let tr1 := Tracker.step db.tr (.publish s)
    { log := ⟨s, t.base.commitBatch⟩ :: db.log, seqno := s + 1, tr := tr1,
      committed := db.committed ++ [⟨tr1.seqno, t.wkeys⟩] }

/-- a second instance, used by the counterexample and by the two-thread probe of the `tx` engine:
    write skew on two accounts; a withdrawal of 100 from account `t` is valid while the sum stays ≥ 0 -/
def skew : Sem (Int × Int) Bool where
  validate d _ := (d, decide (d.1 + d.2 - 100 ≥ 0))
  apply d t := if t then (d.1 - 100, d.2) else (d.1, d.2 - 100)

end Fjall.CommitMutex
