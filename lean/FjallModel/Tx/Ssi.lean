/-
  Optimistic (SSI) transactions: src/tx/optimistic/{mod,write_tx,oracle,conflict_manager}.rs
  on top of `Tx.Base`, the snapshot `Tracker`, and an abstract committed log.
-/
import FjallModel.Tx.Base
import FjallModel.Tracker
namespace Fjall.Tx
open Fjall Fjall.Spec

/-- what the conflict manager records for a read -/
inductive Foot
  | point (ks : KsId) (k : Key)
  | range (ks : KsId) (lo hi : Bound)
  | all (ks : KsId)
  deriving Repr, DecidableEq

def Foot.ks : Foot → KsId
  | .point ks _ => ks | .range ks _ _ => ks | .all ks => ks

def Foot.covers : Foot → KsId → Key → Bool
  | .point ks k, ks', k' => ks = ks' && k = k'
  | .range ks lo hi, ks', k' => ks = ks' && inRange lo hi k'
  | .all ks, ks', _ => ks = ks'

/-- `mark_range` drops ranges that cannot contain a key (repaired; before the repair such bounds
    made `BTreeSet::range` panic during validation) and turns `(Unbounded, Unbounded)` into `All` -/
def rangeEmpty : Bound → Bound → Bool
  | .incl a, .incl b => bytesLt b a
  | .incl a, .excl b => bytesLt b a || a = b
  | .excl a, .incl b => bytesLt b a || a = b
  | .excl a, .excl b => bytesLt b a || a = b
  | _, _ => false

def markRange (ks : KsId) (lo hi : Bound) : List Foot :=
  if rangeEmpty lo hi then []
  else if lo = .unbounded ∧ hi = .unbounded then [.all ks]
  else [.range ks lo hi]

/-- one read footprint against the conflict keys of one committed transaction -/
def Foot.hits (f : Foot) (keys : List (KsId × Key)) : Bool :=
  keys.any fun (ks, k) => f.covers ks k

/-- `ConflictManager::has_conflict` -/
def hasConflict (reads : List Foot) (keys : List (KsId × Key)) : Bool :=
  reads.any fun f => f.hits keys

structure Committed where
  ts : Nat
  keys : List (KsId × Key)
  deriving Repr, DecidableEq

/-- committed log entry: one journal batch -/
structure LogEntry where
  seqno : Nat
  items : List TEntry
  deriving Repr, DecidableEq

/-- logical content of keyspace `ks` as seen at `instant`: batches with `seqno < instant`,
    newest batch first (log is kept newest first) -/
def stateAt (log : List LogEntry) (instant : Nat) (ks : KsId) : KMap :=
  (log.filter fun b => b.seqno < instant).flatMap fun b =>
    (b.items.filter fun e => e.ks = ks).map fun e => (e.key, e.toVal)

/-- reads at ⊤ (no snapshot) -/
def stateTop (log : List LogEntry) (ks : KsId) : KMap :=
  log.flatMap fun b => (b.items.filter fun e => e.ks = ks).map fun e => (e.key, e.toVal)

/-- an open optimistic write transaction -/
structure OTx where
  instant : Nat
  base : BaseTx
  reads : List Foot := []
  wkeys : List (KsId × Key) := []

structure SsiDb where
  log : List LogEntry := []
  seqno : Nat := 0
  tr : Tracker.Tracker := {}
  committed : List Committed := []

def SsiDb.visible (db : SsiDb) : Nat := db.tr.seqno

/-- `OptimisticTxDatabase::write_tx` (under the commit mutex): snapshot at the visible seqno -/
def SsiDb.begin (db : SsiDb) : SsiDb × OTx :=
  let i := db.visible
  ({ db with tr := Tracker.step db.tr .open },
   { instant := i, base := { snap := stateAt db.log i } })

/-- transaction operations: `Tx.Base` semantics plus what the conflict manager records -/
inductive XOp
  | get (ks : KsId) (k : Key)
  | contains (ks : KsId) (k : Key)
  | sizeOf (ks : KsId) (k : Key)
  | range (ks : KsId) (lo hi : Bound)
  | pfx (ks : KsId) (p : Bytes)
  | iter (ks : KsId)
  | first (ks : KsId)
  | last (ks : KsId)
  | len (ks : KsId)
  | isEmpty (ks : KsId)
  | insert (ks : KsId) (k : Key) (v : Val)
  | remove (ks : KsId) (k : Key)
  | fetchUpdate (ks : KsId) (k : Key) (f : Option Val → Option Val)
  | updateFetch (ks : KsId) (k : Key) (f : Option Val → Option Val)
  | take (ks : KsId) (k : Key)

inductive XOut
  | unit
  | val (v : Option Val)
  | bool (b : Bool)
  | size (n : Option Nat)
  | pairs (l : List (Key × Val))
  | pair (p : Option (Key × Val))
  | count (n : Nat)
  deriving Repr, DecidableEq

def OTx.markRead (t : OTx) (f : List Foot) : OTx := { t with reads := t.reads ++ f }
def OTx.markWrite (t : OTx) (ks : KsId) (k : Key) : OTx := { t with wkeys := (ks, k) :: t.wkeys }

def xstep (t : OTx) : XOp → OTx × XOut
  | .get ks k => (t.markRead [.point ks k], .val (t.base.get ks k))
  | .contains ks k => (t.markRead [.point ks k], .bool (t.base.containsKey ks k))
  | .sizeOf ks k => (t.markRead [.point ks k], .size (t.base.sizeOf ks k))
  | .range ks lo hi => (t.markRead (markRange ks lo hi), .pairs ((t.base.view ks).range lo hi))
  | .pfx ks p =>
    let (lo, hi) := prefixRange p
    (t.markRead (markRange ks lo hi), .pairs ((t.base.view ks).range lo hi))
  | .iter ks => (t.markRead [.all ks], .pairs (t.base.view ks).toList)
  | .first ks => (t.markRead [.all ks], .pair (t.base.view ks).toList.head?)
  | .last ks => (t.markRead [.all ks], .pair (t.base.view ks).toList.getLast?)
  | .len ks => (t.markRead [.all ks], .count (t.base.view ks).toList.length)
  | .isEmpty ks => (t.markRead [.all ks], .bool (t.base.view ks).toList.isEmpty)
  | .insert ks k v => ({ t with base := t.base.insert ks k v }.markWrite ks k, .unit)
  | .remove ks k => ({ t with base := t.base.remove ks k }.markWrite ks k, .unit)
  | .fetchUpdate ks k f =>
    let (b, o) := t.base.fetchUpdate ks k f
    (({ t with base := b }.markRead [.point ks k]).markWrite ks k, .val o)
  | .updateFetch ks k f =>
    let (b, o) := t.base.updateFetch ks k f
    (({ t with base := b }.markRead [.point ks k]).markWrite ks k, .val o)
  | .take ks k =>
    let (b, o) := t.base.take ks k
    (({ t with base := b }.markRead [.point ks k]).markWrite ks k, .val o)

def xrun (t : OTx) : List XOp → OTx × List XOut
  | [] => (t, [])
  | o :: os => let (t1, out) := xstep t o; let (t2, outs) := xrun t1 os; (t2, out :: outs)

inductive Outcome | ok | conflict
  deriving Repr, DecidableEq

/-- `WriteTransaction::commit` + `Oracle::with_commit` + the nonce drop that follows -/
def SsiDb.commit (db : SsiDb) (t : OTx) : SsiDb × Outcome :=
  if t.base.mem.isEmpty then
    -- read-only: nothing to validate, nothing to apply; the nonce is released
    ({ db with tr := Tracker.step db.tr (.close t.instant) }, .ok)
  else
    let conflicted := db.committed.any fun c => c.ts ≥ t.instant + 1 && hasConflict t.reads c.keys
    let pruned := db.committed.filter fun c => c.ts > db.tr.wm
    if conflicted then
      ({ db with committed := pruned, tr := Tracker.step db.tr (.close t.instant) }, .conflict)
    else
      let s := db.seqno
      let tr1 := Tracker.step db.tr (.publish s)
      let db1 : SsiDb :=
        { log := ⟨s, t.base.commitBatch⟩ :: db.log, seqno := s + 1, tr := tr1,
          committed := pruned ++ [⟨tr1.seqno, t.wkeys⟩] }
      ({ db1 with tr := Tracker.step db1.tr (.close t.instant) }, .ok)

/-- rollback / drop -/
def SsiDb.rollback (db : SsiDb) (t : OTx) : SsiDb :=
  { db with tr := Tracker.step db.tr (.close t.instant) }

end Fjall.Tx
