/-
  Transaction-local semantics: src/tx/write_tx.rs (`BaseTransaction`).
  `snap` is the frozen committed view at the transaction's instant; `mem` are the ephemeral
  memtables (all keyspaces, newest first); private seqnos count up from 2^63.
-/
import FjallModel.Spec
namespace Fjall.Tx
open Fjall Fjall.Spec

inductive TKind | value | tomb | weakTomb
  deriving Repr, DecidableEq

structure TEntry where
  ks : KsId
  key : Key
  seqno : Nat
  kind : TKind
  val : Val
  deriving Repr, DecidableEq

structure BaseTx where
  snap : KsId → KMap
  /-- own writes, newest first -/
  mem : List TEntry := []
  seqno : Nat := 2^63

/-- `memtable.get(key, SeqNo::MAX)` on the keyspace's ephemeral memtable -/
def BaseTx.newestOwn (tx : BaseTx) (ks : KsId) (k : Key) : Option TEntry :=
  tx.mem.find? fun e => e.ks = ks ∧ e.key = k

def TEntry.toVal (e : TEntry) : Option Val := if e.kind = .value then some e.val else none

def BaseTx.get (tx : BaseTx) (ks : KsId) (k : Key) : Option Val :=
  match tx.newestOwn ks k with
  | some e => e.toVal
  | none => (tx.snap ks).get k

def BaseTx.containsKey (tx : BaseTx) (ks : KsId) (k : Key) : Bool := (tx.get ks k).isSome
def BaseTx.sizeOf (tx : BaseTx) (ks : KsId) (k : Key) : Option Nat := (tx.get ks k).map (·.length)

/-- what scans merge: own entries of the keyspace over the snapshot -/
def BaseTx.view (tx : BaseTx) (ks : KsId) : KMap :=
  ((tx.mem.filter fun e => e.ks = ks).map fun e => (e.key, e.toVal)) ++ tx.snap ks

def BaseTx.push (tx : BaseTx) (ks : KsId) (k : Key) (kind : TKind) (v : Val) : BaseTx :=
  { tx with mem := ⟨ks, k, tx.seqno, kind, v⟩ :: tx.mem, seqno := tx.seqno + 1 }

def BaseTx.insert (tx : BaseTx) (ks : KsId) (k : Key) (v : Val) : BaseTx := tx.push ks k .value v
def BaseTx.remove (tx : BaseTx) (ks : KsId) (k : Key) : BaseTx := tx.push ks k .tomb []
def BaseTx.removeWeak (tx : BaseTx) (ks : KsId) (k : Key) : BaseTx := tx.push ks k .weakTomb []

/-- `fetch_update`: returns the previous value; skips the write when nothing changes -/
def BaseTx.fetchUpdate (tx : BaseTx) (ks : KsId) (k : Key) (f : Option Val → Option Val) :
    BaseTx × Option Val :=
  let prev := tx.get ks k
  match f prev with
  | some v => (if prev = some v then tx else tx.insert ks k v, prev)
  | none => (if prev.isSome then tx.remove ks k else tx, prev)

/-- `update_fetch`: same, returns the new value -/
def BaseTx.updateFetch (tx : BaseTx) (ks : KsId) (k : Key) (f : Option Val → Option Val) :
    BaseTx × Option Val :=
  let (tx', _) := tx.fetchUpdate ks k f
  (tx', f (tx.get ks k))

def BaseTx.take (tx : BaseTx) (ks : KsId) (k : Key) : BaseTx × Option Val :=
  tx.fetchUpdate ks k fun _ => none

/-- the batch a commit emits: the newest entry per (keyspace, key), each exactly once -/
def commitItems : List TEntry → List TEntry
  | [] => []
  | e :: r => e :: (commitItems r).filter fun x => ¬ (x.ks = e.ks ∧ x.key = e.key)

def BaseTx.commitBatch (tx : BaseTx) : List TEntry := commitItems tx.mem

/-! ### programs -/

inductive TOp
  | get (ks : KsId) (k : Key)
  | contains (ks : KsId) (k : Key)
  | sizeOf (ks : KsId) (k : Key)
  | scan (ks : KsId) (lo hi : Bound)
  | insert (ks : KsId) (k : Key) (v : Val)
  | remove (ks : KsId) (k : Key)
  | removeWeak (ks : KsId) (k : Key)
  | fetchUpdate (ks : KsId) (k : Key) (f : Option Val → Option Val)
  | updateFetch (ks : KsId) (k : Key) (f : Option Val → Option Val)
  | take (ks : KsId) (k : Key)

inductive Out
  | unit
  | val (v : Option Val)
  | bool (b : Bool)
  | size (n : Option Nat)
  | pairs (l : List (Key × Val))
  deriving Repr, DecidableEq

def step (tx : BaseTx) : TOp → BaseTx × Out
  | .get ks k => (tx, .val (tx.get ks k))
  | .contains ks k => (tx, .bool (tx.containsKey ks k))
  | .sizeOf ks k => (tx, .size (tx.sizeOf ks k))
  | .scan ks lo hi => (tx, .pairs ((tx.view ks).range lo hi))
  | .insert ks k v => (tx.insert ks k v, .unit)
  | .remove ks k => (tx.remove ks k, .unit)
  | .removeWeak ks k => (tx.removeWeak ks k, .unit)
  | .fetchUpdate ks k f => let (t, o) := tx.fetchUpdate ks k f; (t, .val o)
  | .updateFetch ks k f => let (t, o) := tx.updateFetch ks k f; (t, .val o)
  | .take ks k => let (t, o) := tx.take ks k; (t, .val o)

/-- reference: a plain map per keyspace, every write applied at once -/
def refStep (m : KsId → KMap) : TOp → (KsId → KMap) × Out
  | .get ks k => (m, .val ((m ks).get k))
  | .contains ks k => (m, .bool ((m ks).get k).isSome)
  | .sizeOf ks k => (m, .size (((m ks).get k).map (·.length)))
  | .scan ks lo hi => (m, .pairs ((m ks).range lo hi))
  | .insert ks k v => (fun x => if x = ks then (m ks).put k v else m x, .unit)
  | .remove ks k => (fun x => if x = ks then (m ks).del k else m x, .unit)
  | .removeWeak ks k => (fun x => if x = ks then (m ks).del k else m x, .unit)
  | .fetchUpdate ks k f =>
    let prev := (m ks).get k
    (fun x => if x = ks then (match f prev with | some v => (m ks).put k v | none => (m ks).del k) else m x,
     .val prev)
  | .updateFetch ks k f =>
    let prev := (m ks).get k
    (fun x => if x = ks then (match f prev with | some v => (m ks).put k v | none => (m ks).del k) else m x,
     .val (f prev))
  | .take ks k =>
    (fun x => if x = ks then (m ks).del k else m x, .val ((m ks).get k))

def run (tx : BaseTx) : List TOp → BaseTx × List Out
  | [] => (tx, [])
  | o :: os => let (t, out) := step tx o; let (t', outs) := run t os; (t', out :: outs)

def refRun (m : KsId → KMap) : List TOp → (KsId → KMap) × List Out
  | [] => (m, [])
  | o :: os => let (t, out) := refStep m o; let (t', outs) := refRun t os; (t', out :: outs)

end Fjall.Tx
