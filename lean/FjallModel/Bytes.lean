/-
  Bytes: byte strings and fixed-width little-endian codecs, plus a tiny
  parser-combinator layer with the `Local` (prefix-determinism) property.
  Import-free so that the driver links as a `lean_exe`.
-/
namespace Fjall

abbrev Bytes := List UInt8

/-- `k`-byte little-endian encoding of `n mod 256^k` (this is `write_uN::<LittleEndian>(n as uN)`). -/
def leN : Nat → Nat → Bytes
  | 0, _ => []
  | k+1, n => UInt8.ofNat (n % 256) :: leN k (n / 256)

/-- `k`-byte big-endian encoding. -/
def beN (k n : Nat) : Bytes := (leN k n).reverse

/-- read `k` bytes little-endian -/
def rdN : Nat → Bytes → Option (Nat × Bytes)
  | 0, r => some (0, r)
  | _+1, [] => none
  | k+1, b :: r =>
    match rdN k r with
    | none => none
    | some (n, r') => some (b.toNat + 256 * n, r')

@[simp] theorem leN_length (k n : Nat) : (leN k n).length = k := by
  induction k generalizing n with
  | zero => rfl
  | succ k ih => simp [leN, ih]

theorem rdN_leN (k n : Nat) (r : Bytes) (h : n < 256 ^ k) :
    rdN k (leN k n ++ r) = some (n, r) := by
  induction k generalizing n with
  | zero =>
    simp at h; subst h; rfl
  | succ k ih =>
    have h' : n / 256 < 256 ^ k := by
      rw [Nat.pow_succ] at h
      exact Nat.div_lt_of_lt_mul (by rw [Nat.mul_comm]; exact h)
    simp only [leN, List.cons_append, rdN, ih _ h']
    have : (UInt8.ofNat (n % 256)).toNat = n % 256 := by
      simp [UInt8.toNat_ofNat']
    rw [this]
    congr 2
    omega

/-- whatever `rdN` returns was the encoding of that number -/
theorem rdN_inv (k : Nat) (x : Bytes) (n : Nat) (r : Bytes) (h : rdN k x = some (n, r)) :
    x = leN k n ++ r ∧ n < 256 ^ k := by
  induction k generalizing x n r with
  | zero => simp [rdN] at h; obtain ⟨rfl, rfl⟩ := h; simp [leN]
  | succ k ih =>
    cases x with
    | nil => simp [rdN] at h
    | cons b x =>
      simp only [rdN] at h
      split at h
      · simp at h
      · rename_i n' r' hk
        simp at h
        obtain ⟨rfl, rfl⟩ := h
        obtain ⟨hx, hn⟩ := ih x n' r' hk
        have hb : b.toNat < 256 := b.toNat_lt
        constructor
        · simp only [leN, List.cons_append]
          have h1 : (b.toNat + 256 * n') % 256 = b.toNat := by omega
          have h2 : (b.toNat + 256 * n') / 256 = n' := by omega
          rw [h1, h2, ← hx]
          simp
        · rw [Nat.pow_succ]; omega

/-! ### parsers -/

abbrev P (α : Type) := Bytes → Option (α × Bytes)

namespace P
def pure (a : α) : P α := fun x => some (a, x)
def bind (f : P α) (g : α → P β) : P β := fun x =>
  match f x with
  | none => none
  | some (a, r) => g a r
def fail : P α := fun _ => none
def ofOption : Option α → P α
  | none => fail
  | some a => pure a
def byte : P UInt8
  | [] => none
  | b :: r => some (b, r)
def nat (k : Nat) : P Nat := rdN k
def take (n : Nat) : P Bytes := fun x =>
  if n ≤ x.length then some (x.take n, x.drop n) else none

/-- A parser is *local* when a successful parse depends only on the bytes it consumed. -/
def Local (f : P α) : Prop :=
  ∀ x a r, f x = some (a, r) → ∃ pre, x = pre ++ r ∧ ∀ r', f (pre ++ r') = some (a, r')

theorem local_pure (a : α) : Local (pure a) := by
  intro x a' r h
  simp [pure] at h
  obtain ⟨rfl, rfl⟩ := h
  exact ⟨[], rfl, fun r' => rfl⟩

theorem local_fail : Local (fail : P α) := by
  intro x a r h; simp [fail] at h

theorem local_ofOption (o : Option α) : Local (ofOption o) := by
  cases o
  · exact local_fail
  · exact local_pure _

theorem local_bind {f : P α} {g : α → P β} (hf : Local f) (hg : ∀ a, Local (g a)) :
    Local (bind f g) := by
  intro x b r h
  simp only [bind] at h
  split at h
  · simp at h
  · rename_i a r1 hfx
    obtain ⟨pre1, hx, hpre1⟩ := hf x a r1 hfx
    obtain ⟨pre2, hr1, hpre2⟩ := hg a r1 b r h
    refine ⟨pre1 ++ pre2, by rw [hx, hr1, List.append_assoc], fun r' => ?_⟩
    simp only [bind, List.append_assoc, hpre1, hpre2]

theorem local_byte : Local byte := by
  intro x a r h
  cases x with
  | nil => simp [byte] at h
  | cons b x =>
    simp [byte] at h
    obtain ⟨rfl, rfl⟩ := h
    exact ⟨[b], rfl, fun r' => rfl⟩

theorem local_nat (k : Nat) : Local (nat k) := by
  intro x n r h
  obtain ⟨hx, hn⟩ := rdN_inv k x n r h
  exact ⟨leN k n, hx, fun r' => rdN_leN k n r' hn⟩

theorem local_take (n : Nat) : Local (take n) := by
  intro x a r h
  simp only [take] at h
  split at h
  · rename_i hle
    simp at h
    obtain ⟨rfl, rfl⟩ := h
    refine ⟨x.take n, (List.take_append_drop n x).symm, fun r' => ?_⟩
    have hl : (List.take n x).length = n := by simp; omega
    simp only [take]
    rw [if_pos (by simp; omega)]
    simp [hl]
  · simp at h

/-- every successful result satisfies `Q` -/
def Yields (f : P α) (Q : α → Prop) : Prop := ∀ x a r, f x = some (a, r) → Q a

theorem yields_pure {Q : α → Prop} {a : α} (h : Q a) : Yields (pure a) Q := by
  intro x a' r hx
  simp [pure] at hx
  exact hx.1 ▸ h

theorem yields_fail {Q : α → Prop} : Yields (fail : P α) Q := by
  intro x a r h; simp [fail] at h

theorem yields_bind {f : P α} {g : α → P β} {Q : β → Prop} (hg : ∀ a, Yields (g a) Q) :
    Yields (bind f g) Q := by
  intro x b r h
  simp only [bind] at h
  split at h
  · simp at h
  · exact hg _ _ _ _ h

end P

/-- bytes of an ASCII string (all names in the model are ASCII; the real bytes are compared by the
    correspondence check) -/
def asciiBytes (s : String) : Bytes := s.toList.map fun c => UInt8.ofNat c.toNat

/-- zero padding -/
def zeros (m : Nat) : Bytes := List.replicate m 0

end Fjall
