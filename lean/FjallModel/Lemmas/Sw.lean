import FjallModel.Tx.Sw
import FjallModel.Lemmas.SsiHist
namespace Fjall.Sw
open Fjall Fjall.Spec Fjall.Tx

theorem snapOf_eq_fresh (log : List LogEntry) (i : Nat) : snapOf log i = fresh i (stateTop log) := rfl

/-- the committed log is exactly what the committed writers produce one after the other -/
inductive Chain : List Done → List LogEntry → Prop
  | nil : Chain [] []
  | snoc (ds : List Done) (L : List LogEntry) (d : Done) (sq : Nat) :
      Chain ds L → d.before = L → Chain (ds ++ [d]) (⟨sq, d.batch⟩ :: L)

/-- a finished transaction's outputs (and batch) are those of running it alone on `before` -/
def Replays (d : Done) : Prop :=
  ∀ i, (xrun (snapOf d.before i) d.prog).2 = d.outs ∧
       (xrun (snapOf d.before i) d.prog).1.base.commitBatch = d.batch

structure ThreadOk (s : State) (tid : Nat) : Prop where
  holds : (s.threads tid).phase.holds = true → s.lock = some tid
  noPre : ∀ t, (s.threads tid).phase ≠ .presnap t
  runOk : ∀ t rest outs, (s.threads tid).phase = .running t rest outs →
    ∃ j tl pre, (s.threads tid).todo = j :: tl ∧ j.ops = pre ++ rest ∧
      xrun (snapOf s.log t.instant) pre = (t, outs)
  readOk : ∀ before t rest outs, (s.threads tid).phase = .reading before t rest outs →
    ∃ j tl pre, (s.threads tid).todo = j :: tl ∧ j.ops = pre ++ rest ∧
      xrun (snapOf before t.instant) pre = (t, outs) ∧ ∃ newer, s.log = newer ++ before

structure Inv (s : State) : Prop where
  thr : ∀ tid, ThreadOk s tid
  doneOk : ∀ d ∈ s.done, Replays d
  roOk : ∀ d ∈ s.doneRo, (∀ i, (xrun (snapOf d.before i) d.prog).2 = d.outs) ∧
    ∃ newer, s.log = newer ++ d.before
  chain : Chain s.done s.log

theorem xrun_instant (t : OTx) (p : List XOp) : (xrun t p).1.instant = t.instant := by
  induction p generalizing t with
  | nil => rfl
  | cons o os ih => simp only [xrun]; rw [ih, xstep_instant]

theorem replays_of_run (log : List LogEntry) (prog : List XOp) (t : OTx) (outs : List XOut)
    (h : xrun (snapOf log t.instant) prog = (t, outs)) :
    Replays ⟨prog, outs, log, t.base.commitBatch⟩ := by
  intro i
  have hs := xrun_footprint_sound (snapOf log i) (snapOf log t.instant) prog ⟨rfl, rfl⟩ (fun _ _ _ => rfl)
  rw [h] at hs
  obtain ⟨h1, h2, _⟩ := hs
  exact ⟨h1, by simp only [BaseTx.commitBatch]; rw [h2]⟩

theorem init_inv (jobs : List (List Job)) : Inv (init jobs) := by
  refine ⟨fun tid => ⟨?_, ?_, ?_, ?_⟩, by simp [init], by simp [init], Chain.nil⟩
  · intro h; simp [init, Phase.holds] at h
  · intro t h; simp [init] at h
  · intro t rest outs h; simp [init] at h
  · intro b t rest outs h; simp [init] at h

/-- frame: a step of thread `tid` that leaves the log and the ghost lists alone -/
theorem inv_update (s s' : State) (tid : Nat) (h : Inv s)
    (hlog : s'.log = s.log) (hdone : s'.done = s.done) (hro : s'.doneRo = s.doneRo)
    (hthr : ∀ u, u ≠ tid → s'.threads u = s.threads u)
    (hlock : ∀ u, u ≠ tid → s.lock = some u → s'.lock = some u)
    (htid : ThreadOk s' tid) : Inv s' := by
  refine ⟨fun u => ?_, by rw [hdone]; exact h.doneOk, by rw [hro, hlog]; exact h.roOk,
    by rw [hdone, hlog]; exact h.chain⟩
  by_cases hu : u = tid
  · subst hu; exact htid
  · have ho := h.thr u
    refine ⟨?_, ?_, ?_, ?_⟩
    · rw [hthr u hu]; intro hh; exact hlock u hu (ho.holds hh)
    · rw [hthr u hu]; exact ho.noPre
    · rw [hthr u hu, hlog]; exact ho.runOk
    · rw [hthr u hu, hlog]; exact ho.readOk

theorem step_inv (cfg : Cfg) (hc : cfg.snapAfterLock = true) (s : State) (tid : Nat) (h : Inv s) :
    Inv (stepT cfg s tid) := by
  have hT := h.thr tid
  unfold stepT
  split
  · exact h
  rename_i j tl htodo
  unfold stepJ
  split
  · -- idle
    rename_i hph
    simp only [hc, if_true]
    by_cases hro : j.readOnly = true
    · simp only [hro, if_true]
      refine inv_update s _ tid h rfl rfl rfl (fun u hu => by simp [State.setThread, hu])
        (fun u _ hl => hl) ⟨?_, ?_, ?_, ?_⟩
      · intro hh; simp [State.setThread, Phase.holds] at hh
      · intro t hh; simp [State.setThread] at hh
      · intro t rest outs hh; simp [State.setThread] at hh
      · intro b t rest outs hh
        simp only [State.setThread, if_true, Phase.reading.injEq] at hh
        obtain ⟨rfl, rfl, rfl, rfl⟩ := hh
        exact ⟨j, tl, [], by simp [State.setThread, htodo], by simp, rfl, [], by simp [State.setThread]⟩
    · simp only [hro, Bool.false_eq_true, if_false]
      by_cases hl : s.lock.isNone = true
      · simp only [hl, if_true]
        have hln : s.lock = none := by simpa using hl
        refine inv_update s _ tid h rfl rfl rfl (fun u hu => by simp [State.setThread, hu])
          (fun u _ hl' => by rw [hln] at hl'; cases hl') ⟨?_, ?_, ?_, ?_⟩
        · intro _; simp [State.setThread]
        · intro t hh; simp [State.setThread] at hh
        · intro t rest outs hh; simp [State.setThread] at hh
        · intro b t rest outs hh; simp [State.setThread] at hh
      · simp only [hl, Bool.false_eq_true, if_false]; exact h
  · -- presnap
    rename_i t hph
    exact absurd hph (hT.noPre t)
  · -- locked
    rename_i hph
    have hlk := hT.holds (by rw [hph]; rfl)
    refine inv_update s _ tid h rfl rfl rfl (fun u hu => by simp [State.setThread, hu])
      (fun u _ hl => hl) ⟨?_, ?_, ?_, ?_⟩
    · intro _; simpa [State.setThread] using hlk
    · intro t hh; simp [State.setThread] at hh
    · intro t rest outs hh
      simp only [State.setThread, if_true, Phase.running.injEq] at hh
      obtain ⟨rfl, rfl, rfl⟩ := hh
      exact ⟨j, tl, [], by simp [State.setThread, htodo], by simp, rfl⟩
    · intro b t rest outs hh; simp [State.setThread] at hh
  · -- running, next operation
    rename_i t o rest outs hph
    have hlk := hT.holds (by rw [hph]; rfl)
    obtain ⟨j', tl', pre, htd, hops, hrun⟩ := hT.runOk t (o :: rest) outs hph
    rw [htodo] at htd
    obtain ⟨rfl, rfl⟩ := List.cons.inj htd
    refine inv_update s _ tid h rfl rfl rfl (fun u hu => by simp [State.setThread, hu])
      (fun u _ hl => hl) ⟨?_, ?_, ?_, ?_⟩
    · intro _; simpa [State.setThread] using hlk
    · intro t hh; simp [State.setThread] at hh
    · intro t' rest' outs' hh
      simp only [State.setThread, if_true, Phase.running.injEq] at hh
      obtain ⟨rfl, rfl, rfl⟩ := hh
      refine ⟨j, tl, pre ++ [o], by simp [State.setThread, htodo], by simp [hops], ?_⟩
      show xrun (snapOf s.log (xstep t o).1.instant) (pre ++ [o]) = _
      rw [xstep_instant, xrun_snoc, hrun]
    · intro b t rest outs hh; simp [State.setThread] at hh
  · -- running, end of the program
    rename_i t outs hph
    have hlk := hT.holds (by rw [hph]; rfl)
    obtain ⟨j', tl', pre, htd, hops, hrun⟩ := hT.runOk t [] outs hph
    rw [htodo] at htd
    obtain ⟨rfl, rfl⟩ := List.cons.inj htd
    rw [List.append_nil] at hops
    by_cases hcm : j.commit = true
    · simp only [hcm, if_true]
      by_cases hem : t.base.mem.isEmpty = true
      · simp only [hem, if_true]
        refine inv_update s _ tid h rfl rfl rfl (fun u hu => by simp [State.setThread, hu])
          (fun u _ hl => hl) ⟨?_, ?_, ?_, ?_⟩
        · intro _; simpa [State.setThread] using hlk
        · intro t hh; simp [State.setThread] at hh
        · intro t rest outs hh; simp [State.setThread] at hh
        · intro b t rest outs hh; simp [State.setThread] at hh
      · simp only [hem, Bool.false_eq_true, if_false]
        -- the commit: the log grows; nobody else is running
        refine ⟨fun u => ?_, ?_, ?_, ?_⟩
        · by_cases hu : u = tid
          · subst hu
            refine ⟨?_, ?_, ?_, ?_⟩
            · intro _; simpa [State.setThread] using hlk
            · intro t hh; simp [State.setThread] at hh
            · intro t rest outs hh; simp [State.setThread] at hh
            · intro b t rest outs hh; simp [State.setThread] at hh
          · have ho := h.thr u
            refine ⟨?_, ?_, ?_, ?_⟩ <;> simp only [State.setThread, hu, if_false]
            · exact ho.holds
            · exact ho.noPre
            · intro t' rest' outs' hh
              have := ho.holds (by rw [hh]; rfl)
              rw [hlk] at this
              exact absurd (Option.some.inj this).symm hu
            · intro b t' rest' outs' hh
              obtain ⟨j', tl', pre', h1, h2, h3, newer, h4⟩ := ho.readOk b t' rest' outs' hh
              exact ⟨j', tl', pre', h1, h2, h3, ⟨s.seqno, t.base.commitBatch⟩ :: newer, by simp [h4]⟩
        · intro d hd
          simp only [State.setThread, List.mem_append, List.mem_singleton] at hd
          rcases hd with hd | rfl
          · exact h.doneOk d hd
          · rw [hops]; exact replays_of_run s.log pre t outs hrun
        · intro d hd
          obtain ⟨h1, newer, h2⟩ := h.roOk d hd
          exact ⟨h1, ⟨s.seqno, t.base.commitBatch⟩ :: newer, by simp [State.setThread, h2]⟩
        · exact Chain.snoc s.done s.log ⟨j.ops, outs, s.log, t.base.commitBatch⟩ s.seqno h.chain rfl
    · simp only [hcm, Bool.false_eq_true, if_false]
      refine inv_update s _ tid h rfl rfl rfl (fun u hu => by simp [State.setThread, hu])
        (fun u hu hl => by rw [hlk] at hl; exact absurd (Option.some.inj hl).symm hu) ⟨?_, ?_, ?_, ?_⟩
      · intro hh; simp [State.setThread, Thread.finish, Phase.holds] at hh
      · intro t hh; simp [State.setThread, Thread.finish] at hh
      · intro t rest outs hh; simp [State.setThread, Thread.finish] at hh
      · intro b t rest outs hh; simp [State.setThread, Thread.finish] at hh
  · -- finishing: the guard is dropped
    rename_i outs hph
    have hlk := hT.holds (by rw [hph]; rfl)
    refine inv_update s _ tid h rfl rfl rfl (fun u hu => by simp [State.setThread, hu])
      (fun u hu hl => by rw [hlk] at hl; exact absurd (Option.some.inj hl).symm hu) ⟨?_, ?_, ?_, ?_⟩
    · intro hh; simp [State.setThread, Thread.finish, Phase.holds] at hh
    · intro t hh; simp [State.setThread, Thread.finish] at hh
    · intro t rest outs hh; simp [State.setThread, Thread.finish] at hh
    · intro b t rest outs hh; simp [State.setThread, Thread.finish] at hh
  · -- reading, next operation
    rename_i before t o rest outs hph
    obtain ⟨j', tl', pre, htd, hops, hrun, newer, hlog⟩ := hT.readOk before t (o :: rest) outs hph
    rw [htodo] at htd
    obtain ⟨rfl, rfl⟩ := List.cons.inj htd
    refine inv_update s _ tid h rfl rfl rfl (fun u hu => by simp [State.setThread, hu])
      (fun u _ hl => hl) ⟨?_, ?_, ?_, ?_⟩
    · intro hh; simp [State.setThread, Phase.holds] at hh
    · intro t hh; simp [State.setThread] at hh
    · intro t rest outs hh; simp [State.setThread] at hh
    · intro b t' rest' outs' hh
      simp only [State.setThread, if_true, Phase.reading.injEq] at hh
      obtain ⟨rfl, rfl, rfl, rfl⟩ := hh
      refine ⟨j, tl, pre ++ [o], by simp [State.setThread, htodo], by simp [hops], ?_, newer, hlog⟩
      show xrun (snapOf before (xstep t o).1.instant) (pre ++ [o]) = _
      rw [xstep_instant, xrun_snoc, hrun]
  · -- reading, end
    rename_i before t outs hph
    obtain ⟨j', tl', pre, htd, hops, hrun, newer, hlog⟩ := hT.readOk before t [] outs hph
    rw [htodo] at htd
    obtain ⟨rfl, rfl⟩ := List.cons.inj htd
    rw [List.append_nil] at hops
    refine ⟨fun u => ?_, h.doneOk, ?_, h.chain⟩
    · by_cases hu : u = tid
      · subst hu
        refine ⟨?_, ?_, ?_, ?_⟩
        · intro hh; simp [State.setThread, Thread.finish, Phase.holds] at hh
        · intro t hh; simp [State.setThread, Thread.finish] at hh
        · intro t rest outs hh; simp [State.setThread, Thread.finish] at hh
        · intro b t rest outs hh; simp [State.setThread, Thread.finish] at hh
      · have ho := h.thr u
        refine ⟨?_, ?_, ?_, ?_⟩ <;> simp only [State.setThread, hu, if_false]
        · exact ho.holds
        · exact ho.noPre
        · exact ho.runOk
        · exact ho.readOk
    · intro d hd
      simp only [State.setThread, List.mem_append, List.mem_singleton] at hd
      rcases hd with hd | rfl
      · exact h.roOk d hd
      · refine ⟨fun i => ?_, newer, hlog⟩
        rw [hops]
        exact (replays_of_run before pre t outs hrun i).1

theorem run_inv (cfg : Cfg) (hc : cfg.snapAfterLock = true) (s : State) (sched : List Nat) (h : Inv s) :
    Inv (run cfg s sched) := by
  induction sched generalizing s with
  | nil => exact h
  | cons t ts ih => exact ih _ (step_inv cfg hc s t h)

/-- mutual exclusion -/
theorem holders_equal (s : State) (h : Inv s) (a b : Nat)
    (ha : (s.threads a).phase.holds = true) (hb : (s.threads b).phase.holds = true) : a = b := by
  have h1 := (h.thr a).holds ha
  have h2 := (h.thr b).holds hb
  rw [h1] at h2
  exact Option.some.inj h2

end Fjall.Sw

namespace Fjall.Sw
open Fjall Fjall.Spec Fjall.Tx

/-! ### where the ghost records come from -/

theorem stepT_done (cfg : Cfg) (s : State) (tid : Nat) :
    (stepT cfg s tid).done = s.done ∨
    ∃ j tl outs before batch, (s.threads tid).todo = j :: tl ∧
      (stepT cfg s tid).done = s.done ++ [⟨j.ops, outs, before, batch⟩] := by
  unfold stepT
  split
  · exact Or.inl rfl
  rename_i j tl htodo
  unfold stepJ
  split
  · split
    · exact Or.inl rfl
    · split
      · split <;> exact Or.inl rfl
      · exact Or.inl rfl
  · split <;> exact Or.inl rfl
  · exact Or.inl rfl
  · exact Or.inl rfl
  · split
    · split
      · exact Or.inl rfl
      · exact Or.inr ⟨j, tl, _, _, _, htodo, rfl⟩
    · exact Or.inl rfl
  · exact Or.inl rfl
  · exact Or.inl rfl
  · exact Or.inl rfl

theorem stepT_todo (cfg : Cfg) (s : State) (tid u : Nat) :
    ((stepT cfg s tid).threads u).todo = (s.threads u).todo ∨
    ((stepT cfg s tid).threads u).todo = (s.threads u).todo.tail := by
  unfold stepT
  split
  · exact Or.inl rfl
  rename_i j tl htodo
  unfold stepJ
  by_cases hu : u = tid
  · subst hu
    split
    · split
      · exact Or.inl (by simp [State.setThread])
      · split
        · split
          · exact Or.inl (by simp [State.setThread])
          · exact Or.inl rfl
        · exact Or.inl (by simp [State.setThread])
    · split
      · exact Or.inl (by simp [State.setThread])
      · exact Or.inl rfl
    · exact Or.inl (by simp [State.setThread])
    · exact Or.inl (by simp [State.setThread])
    · split
      · split
        · exact Or.inl (by simp [State.setThread])
        · exact Or.inl (by simp [State.setThread])
      · exact Or.inr (by simp [State.setThread, Thread.finish])
    · exact Or.inr (by simp [State.setThread, Thread.finish])
    · exact Or.inl (by simp [State.setThread])
    · exact Or.inr (by simp [State.setThread, Thread.finish])
  · refine Or.inl ?_
    split
    · split
      · simp [State.setThread, hu]
      · split
        · split
          · simp [State.setThread, hu]
          · rfl
        · simp [State.setThread, hu]
    · split
      · simp [State.setThread, hu]
      · rfl
    · simp [State.setThread, hu]
    · simp [State.setThread, hu]
    · split
      · split
        · simp [State.setThread, hu]
        · simp [State.setThread, hu]
      · simp [State.setThread, hu]
    · simp [State.setThread, hu]
    · simp [State.setThread, hu]
    · simp [State.setThread, hu]

/-- every thread is still working through its own job list, and every committed transaction
    recorded is one of the jobs -/
structure Src (jobs : List (List Job)) (s : State) : Prop where
  suffix : ∀ tid, ∃ pre, (jobs[tid]?).getD [] = pre ++ (s.threads tid).todo
  fromJobs : ∀ d ∈ s.done, ∃ (tid : Nat) (j : Job), j ∈ (jobs[tid]?).getD [] ∧ d.prog = j.ops

theorem src_init (jobs : List (List Job)) : Src jobs (init jobs) :=
  ⟨fun tid => ⟨[], by simp [init]⟩, by simp [init]⟩

theorem src_step (cfg : Cfg) (jobs : List (List Job)) (s : State) (tid : Nat) (h : Src jobs s) :
    Src jobs (stepT cfg s tid) := by
  refine ⟨fun u => ?_, ?_⟩
  · obtain ⟨pre, hp⟩ := h.suffix u
    rcases stepT_todo cfg s tid u with e | e
    · exact ⟨pre, by rw [e]; exact hp⟩
    · cases htd : (s.threads u).todo with
      | nil => exact ⟨pre, by rw [e, htd]; simpa [htd] using hp⟩
      | cons j tl => exact ⟨pre ++ [j], by rw [e, htd]; simpa [htd] using hp⟩
  · intro d hd
    rcases stepT_done cfg s tid with e | ⟨j, tl, outs, before, batch, htd, e⟩
    · rw [e] at hd; exact h.fromJobs d hd
    · rw [e] at hd
      rcases List.mem_append.mp hd with hd | hd
      · exact h.fromJobs d hd
      · simp only [List.mem_singleton] at hd
        subst hd
        obtain ⟨pre, hp⟩ := h.suffix tid
        exact ⟨tid, j, by rw [hp, htd]; simp, rfl⟩

theorem src_run (cfg : Cfg) (jobs : List (List Job)) (s : State) (sched : List Nat) (h : Src jobs s) :
    Src jobs (run cfg s sched) := by
  induction sched generalizing s with
  | nil => exact h
  | cons t ts ih => exact ih _ (src_step cfg jobs s t h)

/-! ### "no update is lost", made concrete: concurrent appends -/

/-- read-modify-write: append `v` to whatever is stored under the key -/
def appendOp (ks : KsId) (k : Key) (v : Val) : XOp :=
  .updateFetch ks k (fun o => some (o.getD [] ++ v))

theorem append_batch (L : List LogEntry) (i : Nat) (ks : KsId) (k : Key) (v : Val) (hv : v ≠ []) :
    (xrun (snapOf L i) [appendOp ks k v]).1.base.commitBatch =
      [⟨ks, k, 2^63, .value, ((stateTop L ks).get k).getD [] ++ v⟩] := by
  have hget : (snapOf L i).base.get ks k = (stateTop L ks).get k := by
    simp [snapOf, BaseTx.get, BaseTx.newestOwn]
  have hne : (stateTop L ks).get k ≠ some (((stateTop L ks).get k).getD [] ++ v) := by
    cases hg : (stateTop L ks).get k with
    | none => simp
    | some p =>
      simp only [Option.getD_some, ne_eq, Option.some.injEq]
      intro hp
      have : (p ++ v).length = p.length := by rw [← hp]
      simp at this
      exact hv this
  simp only [xrun, xstep, appendOp, BaseTx.updateFetch, BaseTx.fetchUpdate, hget, if_neg hne]
  simp [OTx.markRead, OTx.markWrite, BaseTx.insert, BaseTx.push, BaseTx.commitBatch, commitItems, snapOf]

theorem stateTop_after_append (L : List LogEntry) (sq : Nat) (ks : KsId) (k : Key) (w : Val) :
    (stateTop (⟨sq, [⟨ks, k, 2^63, .value, w⟩]⟩ :: L) ks).get k = some w := by
  simp [stateTop, KMap.get, TEntry.toVal]

theorem appends_all_there (ks : KsId) (k : Key) (ds : List Done) (L : List LogEntry) (hc : Chain ds L) :
    ∀ vs : List Val, ds.map (·.prog) = vs.map (fun v => [appendOp ks k v]) → (∀ v ∈ vs, v ≠ []) →
      (∀ d ∈ ds, Replays d) →
      (stateTop L ks).get k = if vs = [] then none else some vs.flatten := by
  induction hc with
  | nil =>
    intro vs hm _ _
    have : vs = [] := by simpa using hm.symm
    subst this
    simp [stateTop, KMap.get]
  | snoc ds L d sq hch hbef ih =>
    intro vs hm hv hr
    rw [List.map_append] at hm
    obtain ⟨l1, l2, rfl, h1, h2⟩ := List.map_eq_append_iff.mp hm.symm
    have hl2 : ∃ v, l2 = [v] := by
      cases l2 with
      | nil => simp at h2
      | cons v r =>
        cases r with
        | nil => exact ⟨v, rfl⟩
        | cons _ _ => simp at h2
    obtain ⟨v, rfl⟩ := hl2
    have hprog : d.prog = [appendOp ks k v] := by simpa using h2.symm
    have hvne : v ≠ [] := hv v (by simp)
    have ihv := ih l1 h1.symm (fun x hx => hv x (by simp [hx])) (fun x hx => hr x (by simp [hx]))
    have hb := (hr d (by simp) 0).2
    rw [hprog, hbef, append_batch L 0 ks k v hvne] at hb
    rw [← hb, stateTop_after_append, ihv]
    by_cases hl : l1 = []
    · subst hl; simp
    · simp [hl]

end Fjall.Sw
