import FjallModel.Config
import FjallModel.Lemmas.Entry
namespace Fjall.Config
open Fjall Fjall.P
open Fjall.Journal (Comp)

theorem decElems_flatMap (encE : α → Bytes) (decE : P α) (xs : List α)
    (he : ∀ x ∈ xs, ∀ r, decE (encE x ++ r) = some (x, r)) (rest : Bytes) :
    decElems decE xs.length (xs.flatMap encE ++ rest) = some (xs, rest) := by
  induction xs with
  | nil => rfl
  | cons x xs ih =>
    simp only [List.flatMap_cons, List.append_assoc, List.length_cons, decElems, P.bind]
    rw [he x (by simp)]
    simp only
    rw [ih (fun y hy => he y (by simp [hy]))]
    rfl

/-- **policy round trip** for any element codec that is a left inverse on the elements used -/
theorem policy_roundtrip (encE : α → Bytes) (decE : P α) (xs : List α) (hl : xs.length ≤ 255)
    (he : ∀ x ∈ xs, ∀ r, decE (encE x ++ r) = some (x, r)) :
    decPolicy decE (encPolicy encE xs) = some xs := by
  unfold decPolicy encPolicy
  have hn : (UInt8.ofNat (xs.length % 256)).toNat = xs.length := by
    simp [UInt8.toNat_ofNat']; omega
  simp only [P.bind, P.byte, hn]
  have := decElems_flatMap encE decE xs he []
  rw [List.append_nil] at this
  rw [this]

theorem u8_law (x : Nat) (h : x < 2^8) (r : Bytes) : decU8 (encU8 x ++ r) = some (x, r) := by
  simpa [decU8, encU8, P.nat] using rdN_leN 1 x r (by simpa using h)

theorem u32_law (x : Nat) (h : x < 2^32) (r : Bytes) : decU32 (encU32 x ++ r) = some (x, r) := by
  simpa [decU32, encU32, P.nat] using rdN_leN 4 x r (by simpa using h)

theorem bool_law (b : Bool) (r : Bytes) : decBool (encBool b ++ r) = some (b, r) := by
  cases b <;> simp [decBool, encBool, P.bind, P.byte, P.pure]

theorem comp_law (c : Comp) (r : Bytes) : decComp (encComp c ++ r) = some (c, r) := by
  cases c <;> simp [decComp, encComp, P.bind, P.byte, P.ofOption, P.pure, Comp.toByte, Comp.ofByte]

theorem filter_law (f : FilterEntry) (h : f.WF) (r : Bytes) :
    decFilter (encFilter f ++ r) = some (f, r) := by
  cases f with
  | none => simp [decFilter, encFilter, P.bind, P.byte, P.pure]
  | bitsPerKey x =>
    have := rdN_leN 4 x r (by simpa [FilterEntry.WF] using h)
    simp [decFilter, encFilter, P.bind, P.byte, P.pure, P.nat, this]
  | falsePositiveRate x =>
    have := rdN_leN 4 x r (by simpa [FilterEntry.WF] using h)
    simp [decFilter, encFilter, P.bind, P.byte, P.pure, P.nat, this]

theorem rowNat_leN (k n : Nat) (h : n < 256 ^ k) : rowNat k (leN k n) = some n := by
  have := rdN_leN k n [] h
  rw [List.append_nil] at this
  simp [rowNat, this]

end Fjall.Config
