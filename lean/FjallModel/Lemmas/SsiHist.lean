import FjallModel.Lemmas.Ssi
import FjallModel.Lemmas.Tracker
namespace Fjall.Tx
open Fjall Fjall.Spec

/-! ### whole histories of optimistic transactions -/

structure OpenTx where
  tx : OTx
  /-- operations executed so far, oldest first, and what they returned -/
  prog : List XOp := []
  outs : List XOut := []

/-- a transaction that committed writes -/
structure DoneTx where
  prog : List XOp
  outs : List XOut
  /-- the committed log right before its commit (newest first) -/
  before : List LogEntry
  batch : List TEntry

inductive HEv
  | begin
  /-- `n` = position in the list of open transactions -/
  | op (n : Nat) (o : XOp)
  | commit (n : Nat)
  | rollback (n : Nat)
  | gc

structure HSt where
  db : SsiDb := {}
  open_ : List OpenTx := []
  done : List DoneTx := []
  /-- read-only transactions that committed; `before` = the part of the log their snapshot contains -/
  doneRo : List DoneTx := []
  /-- ghost: instants of the live nonces -/
  live : List Nat := []

def hstep (s : HSt) : HEv → HSt
  | .begin =>
    let (db', t) := s.db.begin
    { s with db := db', open_ := { tx := t } :: s.open_, live := t.instant :: s.live }
  | .op n o =>
    match s.open_[n]? with
    | none => s
    | some T =>
      let (t', out) := xstep T.tx o
      { s with open_ := s.open_.set n { tx := t', prog := T.prog ++ [o], outs := T.outs ++ [out] } }
  | .commit n =>
    match s.open_[n]? with
    | none => s
    | some T =>
      let (db', oc) := s.db.commit T.tx
      { db := db', open_ := s.open_.eraseIdx n, live := s.live.erase T.tx.instant,
        done := if oc = .ok ∧ T.tx.base.mem.isEmpty = false
                then s.done ++ [{ prog := T.prog, outs := T.outs, before := s.db.log, batch := T.tx.base.commitBatch }]
                else s.done,
        doneRo := if T.tx.base.mem.isEmpty
                then s.doneRo ++ [{ prog := T.prog, outs := T.outs, before := s.db.log.filter (fun b => b.seqno < T.tx.instant), batch := [] }]
                else s.doneRo }
  | .rollback n =>
    match s.open_[n]? with
    | none => s
    | some T => { s with db := s.db.rollback T.tx, open_ := s.open_.eraseIdx n, live := s.live.erase T.tx.instant }
  | .gc => { s with db := { s.db with tr := Tracker.gcWith s.db.tr.data s.db.tr } }

def hrun (s : HSt) (evs : List HEv) : HSt := evs.foldl hstep s

/-- the transaction as it would start on the state `S` -/
def fresh (i : Nat) (S : KsId → KMap) : OTx := { instant := i, base := { snap := S } }

/-! ### lemmas -/

theorem xrun_snoc (t : OTx) (p : List XOp) (o : XOp) :
    xrun t (p ++ [o]) = ((xstep (xrun t p).1 o).1, (xrun t p).2 ++ [(xstep (xrun t p).1 o).2]) := by
  induction p generalizing t with
  | nil => simp [xrun]
  | cons a r ih =>
    simp only [List.cons_append, xrun]
    rw [ih]

theorem stateAt_cons_ge (e : LogEntry) (log : List LogEntry) (i : Nat) (h : i ≤ e.seqno) :
    stateAt (e :: log) i = stateAt log i := by
  funext ks
  have : decide (e.seqno < i) = false := by simp; omega
  simp [stateAt, List.filter, this]

def entriesOf (e : LogEntry) (ks : KsId) : KMap := (e.items.filter fun x => x.ks = ks).map fun x => (x.key, x.toVal)

theorem get_append_left_none (a b : KMap) (k : Key) (h : ∀ kv ∈ a, kv.1 ≠ k) : (a ++ b).get k = b.get k := by
  induction a with
  | nil => rfl
  | cons x r ih =>
    obtain ⟨k', v⟩ := x
    have hne : k' ≠ k := h (k', v) (by simp)
    simp only [List.cons_append, KMap.get, hne, if_false]
    exact ih (fun kv hkv => h kv (by simp [hkv]))

theorem get_append_congr (a b b' : KMap) (k : Key) (h : b.get k = b'.get k) : (a ++ b).get k = (a ++ b').get k := by
  induction a with
  | nil => exact h
  | cons x r ih =>
    obtain ⟨k', v⟩ := x
    simp only [List.cons_append, KMap.get]
    split
    · rfl
    · exact ih

/-- what was committed after a snapshot and does not touch a key does not change the key -/
theorem stateTop_get_eq_stateAt (log : List LogEntry) (i : Nat) (ks : KsId) (k : Key)
    (h : ∀ e ∈ log, i ≤ e.seqno → ∀ it ∈ e.items, ¬ (it.ks = ks ∧ it.key = k)) :
    (stateTop log ks).get k = (stateAt log i ks).get k := by
  induction log with
  | nil => rfl
  | cons e r ih =>
    have ih' := ih (fun e' he' => h e' (by simp [he']))
    have htop : stateTop (e :: r) ks = entriesOf e ks ++ stateTop r ks := by simp [stateTop, entriesOf]
    rw [htop]
    by_cases hlt : e.seqno < i
    · have hat : stateAt (e :: r) i ks = entriesOf e ks ++ stateAt r i ks := by
        simp [stateAt, entriesOf, List.filter, hlt]
      rw [hat]
      exact get_append_congr _ _ _ _ ih'
    · have hge : i ≤ e.seqno := by omega
      rw [stateAt_cons_ge e r i hge]
      rw [get_append_left_none _ _ _ ?_]
      · exact ih'
      · intro kv hkv
        simp only [entriesOf, List.mem_map, List.mem_filter, decide_eq_true_eq] at hkv
        obtain ⟨it, ⟨hit, hks⟩, rfl⟩ := hkv
        intro hk
        exact h e (by simp) hge it hit ⟨hks, hk⟩

theorem commitItems_sub (l : List TEntry) : ∀ e ∈ commitItems l, e ∈ l := by
  induction l with
  | nil => intro e he; simp [commitItems] at he
  | cons a r ih =>
    intro e he
    simp only [commitItems, List.mem_cons, List.mem_filter] at he
    rcases he with rfl | ⟨he, _⟩
    · simp
    · simp [ih e he]

theorem xstep_wkeys_mono (t : OTx) (op : XOp) : ∀ kk ∈ t.wkeys, kk ∈ (xstep t op).1.wkeys := by
  intro kk hk
  cases op <;> simp only [xstep, OTx.markRead, OTx.markWrite] <;> first
    | exact hk
    | (simp only [List.mem_cons]; right; exact hk)
    | (repeat' split) <;> first | exact hk | (simp only [List.mem_cons]; right; exact hk)

/-- a validated transaction replays at its commit point (same argument as `c07_validated_commit_replays`) -/
theorem validated_replays (S S' : KsId → KMap) (i i' : Nat) (prog : List XOp)
    (others : List (List (KsId × Key)))
    (hvalid : ∀ c ∈ others, hasConflict (xrun (fresh i S) prog).1.reads c = false)
    (hdiff : ∀ ks k, (∀ c ∈ others, (ks, k) ∉ c) → (S ks).get k = (S' ks).get k) :
    (xrun (fresh i' S') prog).2 = (xrun (fresh i S) prog).2 ∧
    (xrun (fresh i' S') prog).1.base.commitBatch = (xrun (fresh i S) prog).1.base.commitBatch := by
  have hreads := xrun_reads (fresh i S) prog
  simp only [fresh, List.nil_append] at hreads
  have hagree : AgreeOn (prog.flatMap footOf) S S' := by
    intro ks k ⟨f, hf, hc⟩
    apply hdiff
    intro c hcmem hin
    have := hasConflict_false _ c (hvalid c hcmem) f (by simp only [fresh]; rw [hreads]; exact hf) (ks, k) hin
    rw [hc] at this
    exact Bool.noConfusion this
  obtain ⟨h1, h2, _⟩ := xrun_footprint_sound (fresh i S) (fresh i' S') prog ⟨rfl, rfl⟩ hagree
  exact ⟨h1.symm, by simp only [BaseTx.commitBatch, h2]⟩

end Fjall.Tx

namespace Fjall.Tx
open Fjall Fjall.Spec

theorem xstep_marks (t : OTx) (op : XOp) :
    ∀ e ∈ (xstep t op).1.base.mem, e ∈ t.base.mem ∨ (e.ks, e.key) ∈ (xstep t op).1.wkeys := by
  intro e he
  cases op <;>
    simp only [xstep, OTx.markRead, OTx.markWrite, BaseTx.insert, BaseTx.remove, BaseTx.push,
      BaseTx.fetchUpdate, BaseTx.updateFetch, BaseTx.take] at he ⊢
  all_goals first
    | (left; exact he)
    | (simp only [List.mem_cons] at he ⊢
       rcases he with rfl | he
       · right; left; rfl
       · left; exact he)
    | (repeat' split at he
       all_goals first
         | (left; exact he)
         | (simp only [BaseTx.insert, BaseTx.remove, BaseTx.push, List.mem_cons] at he ⊢
            rcases he with rfl | he
            · right; left; rfl
            · left; exact he))

theorem xstep_instant (t : OTx) (op : XOp) : (xstep t op).1.instant = t.instant := by
  cases op <;> simp only [xstep, OTx.markRead, OTx.markWrite] <;> (repeat' split) <;> rfl

theorem gcWith_seqno (ord : List (Nat × Nat)) (t : Tracker.Tracker) : (Tracker.gcWith ord t).seqno = t.seqno := rfl

theorem close_seqno (t : Tracker.Tracker) (i : Nat) : (Tracker.step t (.close i)).seqno = t.seqno := by
  simp only [Tracker.step]
  split <;> rfl

theorem perm_eraseIdx {α : Type} (l : List α) (n : Nat) (a : α) (h : l[n]? = some a) : l.Perm (a :: l.eraseIdx n) := by
  induction l generalizing n with
  | nil => simp at h
  | cons x r ih =>
    cases n with
    | zero => simp at h; subst h; simp
    | succ m =>
      simp only [List.getElem?_cons_succ] at h
      simp only [List.eraseIdx_cons_succ]
      exact (List.Perm.cons x (ih m h)).trans (List.Perm.swap a x _)

theorem set_same {α : Type} (l : List α) (n : Nat) (a : α) (h : l[n]? = some a) : l.set n a = l := by
  induction l generalizing n with
  | nil => rfl
  | cons x r ih =>
    cases n with
    | zero => simp at h; subst h; rfl
    | succ m => simp only [List.getElem?_cons_succ] at h; simp [List.set, ih m h]

theorem mem_eraseIdx_of {α : Type} (l : List α) (n : Nat) (x : α) (h : x ∈ l.eraseIdx n) : x ∈ l :=
  (List.eraseIdx_sublist l n).subset h

structure OpenOk (db : SsiDb) (T : OpenTx) : Prop where
  instLe : T.tx.instant ≤ db.tr.seqno
  replay : xrun (fresh T.tx.instant (stateAt db.log T.tx.instant)) T.prog = (T.tx, T.outs)
  marked : ∀ e ∈ T.tx.base.mem, (e.ks, e.key) ∈ T.tx.wkeys
  covered : ∀ e ∈ db.log, T.tx.instant ≤ e.seqno →
    ∃ c ∈ db.committed, c.ts = e.seqno + 1 ∧ ∀ it ∈ e.items, (it.ks, it.key) ∈ c.keys

/-- the committed log is exactly what the committed writers produce one after the other -/
inductive Chain : List DoneTx → List LogEntry → Prop
  | nil : Chain [] []
  | snoc (ds : List DoneTx) (L : List LogEntry) (d : DoneTx) (sq : Nat) :
      Chain ds L → d.before = L → Chain (ds ++ [d]) (⟨sq, d.batch⟩ :: L)

theorem fresh_instant_irrelevant (i i' : Nat) (S : KsId → KMap) (prog : List XOp) :
    (xrun (fresh i' S) prog).2 = (xrun (fresh i S) prog).2 := by
  have := xrun_footprint_sound (fresh i' S) (fresh i S) prog ⟨rfl, rfl⟩ (fun _ _ _ => rfl)
  exact this.1

structure HInv (s : HSt) : Prop where
  trk : Tracker.Inv ⟨s.db.tr, s.live⟩
  perm : (s.open_.map (·.tx.instant)).Perm s.live
  seqLe : s.db.tr.seqno ≤ s.db.seqno
  logBelow : ∀ e ∈ s.db.log, e.seqno < s.db.tr.seqno
  openOk : ∀ T ∈ s.open_, OpenOk s.db T
  doneOk : ∀ d ∈ s.done, ∀ i', (xrun (fresh i' (stateTop d.before)) d.prog).2 = d.outs ∧
    (xrun (fresh i' (stateTop d.before)) d.prog).1.base.commitBatch = d.batch
  roOk : ∀ d ∈ s.doneRo, ∀ i', (xrun (fresh i' (stateTop d.before)) d.prog).2 = d.outs
  chain : Chain s.done s.db.log

theorem hinv_init : HInv {} := by
  refine ⟨Tracker.init_inv, by simp, Nat.le_refl _, by simp [SsiDb.log], by simp, by simp, by simp, Chain.nil⟩

/-- closing the nonce of the open transaction at position `n` -/
theorem close_facts (s : HSt) (h : HInv s) (n : Nat) (T : OpenTx) (hT : s.open_[n]? = some T) :
    Tracker.Inv ⟨Tracker.step s.db.tr (.close T.tx.instant), s.live.erase T.tx.instant⟩ ∧
    ((s.open_.eraseIdx n).map (·.tx.instant)).Perm (s.live.erase T.tx.instant) ∧
    (∀ T' ∈ s.open_.eraseIdx n, s.db.tr.wm ≤ T'.tx.instant - 1) := by
  have hmem : T ∈ s.open_ := List.mem_of_getElem? hT
  have hlive : T.tx.instant ∈ s.live := h.perm.subset (List.mem_map.mpr ⟨T, hmem, rfl⟩)
  refine ⟨Tracker.step_inv ⟨s.db.tr, s.live⟩ (.close T.tx.instant) hlive h.trk, ?_, ?_⟩
  · have p1 := (perm_eraseIdx s.open_ n T hT).map (·.tx.instant)
    simp only [List.map_cons] at p1
    have p2 := (p1.symm.trans h.perm).erase T.tx.instant
    simpa using p2
  · intro T' hT'
    have : T'.tx.instant ∈ s.live := h.perm.subset (List.mem_map.mpr ⟨T', mem_eraseIdx_of _ _ _ hT', rfl⟩)
    exact h.trk.safe _ this

theorem hstep_inv (s : HSt) (ev : HEv) (h : HInv s) : HInv (hstep s ev) := by
  cases ev with
  | begin =>
    simp only [hstep, SsiDb.begin]
    refine ⟨Tracker.step_inv ⟨s.db.tr, s.live⟩ .open trivial h.trk, ?_, h.seqLe, h.logBelow, ?_, h.doneOk, h.roOk, h.chain⟩
    · simp only [List.map_cons, SsiDb.visible]; exact List.Perm.cons _ h.perm
    · intro T hT
      simp only [List.mem_cons] at hT
      rcases hT with rfl | hT
      · refine ⟨Nat.le_refl _, rfl, by simp, ?_⟩
        intro e he hle
        have := h.logBelow e he
        simp only [SsiDb.visible] at hle
        omega
      · obtain ⟨a, b, c, d⟩ := h.openOk T hT
        exact ⟨a, b, c, d⟩
  | op n o =>
    simp only [hstep]
    cases hT : s.open_[n]? with
    | none => exact h
    | some T =>
      simp only
      have hmem : T ∈ s.open_ := List.mem_of_getElem? hT
      obtain ⟨a, b, c, d⟩ := h.openOk T hmem
      have hnew : OpenOk s.db { tx := (xstep T.tx o).1, prog := T.prog ++ [o], outs := T.outs ++ [(xstep T.tx o).2] } := by
        refine ⟨by simp only [xstep_instant]; exact a, ?_, ?_, by simp only [xstep_instant]; exact d⟩
        · simp only [xstep_instant]
          rw [xrun_snoc, b]
        · intro e he
          rcases xstep_marks T.tx o e he with h1 | h1
          · exact xstep_wkeys_mono T.tx o _ (c e h1)
          · exact h1
      refine ⟨h.trk, ?_, h.seqLe, h.logBelow, ?_, h.doneOk, h.roOk, h.chain⟩
      · have : (s.open_.set n { tx := (xstep T.tx o).1, prog := T.prog ++ [o], outs := T.outs ++ [(xstep T.tx o).2] }).map (·.tx.instant)
            = s.open_.map (·.tx.instant) := by
          rw [List.map_set]
          simp only [xstep_instant]
          have hn : (s.open_.map (·.tx.instant))[n]? = some T.tx.instant := by simp [hT]
          exact set_same _ _ _ hn
        rw [this]; exact h.perm
      · intro T' hT'
        rcases List.mem_or_eq_of_mem_set hT' with h1 | rfl
        · exact h.openOk T' h1
        · exact hnew
  | gc =>
    simp only [hstep]
    refine ⟨Tracker.step_inv ⟨s.db.tr, s.live⟩ (.gc s.db.tr.data) (List.Perm.refl _) h.trk, h.perm, h.seqLe, h.logBelow, ?_, h.doneOk, h.roOk, h.chain⟩
    intro T hT
    obtain ⟨a, b, c, d⟩ := h.openOk T hT
    exact ⟨a, b, c, d⟩
  | rollback n =>
    simp only [hstep]
    cases hT : s.open_[n]? with
    | none => exact h
    | some T =>
      simp only [SsiDb.rollback]
      obtain ⟨t1, t2, _⟩ := close_facts s h n T hT
      refine ⟨t1, t2, by rw [close_seqno]; exact h.seqLe, by rw [close_seqno]; exact h.logBelow, ?_, h.doneOk, h.roOk, h.chain⟩
      intro T' hT'
      obtain ⟨a, b, c, d⟩ := h.openOk T' (mem_eraseIdx_of _ _ _ hT')
      exact ⟨by rw [close_seqno]; exact a, b, c, d⟩
  | commit n =>
    simp only [hstep]
    cases hT : s.open_[n]? with
    | none => exact h
    | some T =>
      simp only
      have hmem : T ∈ s.open_ := List.mem_of_getElem? hT
      obtain ⟨t1, t2, t3⟩ := close_facts s h n T hT
      obtain ⟨ta, tb, tc, td⟩ := h.openOk T hmem
      -- entries still needed by the remaining open transactions survive the pruning
      have hprune : ∀ T' ∈ s.open_.eraseIdx n, ∀ e ∈ s.db.log, T'.tx.instant ≤ e.seqno →
          ∃ c ∈ s.db.committed.filter (fun c => c.ts > s.db.tr.wm), c.ts = e.seqno + 1 ∧ ∀ it ∈ e.items, (it.ks, it.key) ∈ c.keys := by
        intro T' hT' e he hle
        obtain ⟨c, hc, hts, hk⟩ := (h.openOk T' (mem_eraseIdx_of _ _ _ hT')).covered e he hle
        refine ⟨c, ?_, hts, hk⟩
        simp only [List.mem_filter, decide_eq_true_eq]
        refine ⟨hc, ?_⟩
        have := t3 T' hT'
        omega
      unfold SsiDb.commit
      by_cases hro : T.tx.base.mem.isEmpty = true
      · -- read-only
        simp only [hro, if_true]
        refine ⟨t1, t2, by rw [close_seqno]; exact h.seqLe, by rw [close_seqno]; exact h.logBelow, ?_, ?_, ?_, ?_⟩
        · intro T' hT'
          obtain ⟨a, b, c, d⟩ := h.openOk T' (mem_eraseIdx_of _ _ _ hT')
          exact ⟨by rw [close_seqno]; exact a, b, c, d⟩
        · simpa using h.doneOk
        · intro d hd i'
          simp only [List.mem_append, List.mem_singleton] at hd
          rcases hd with hd | rfl
          · exact h.roOk d hd i'
          · simp only
            rw [fresh_instant_irrelevant T.tx.instant i']
            have : stateTop (s.db.log.filter fun b => b.seqno < T.tx.instant) = stateAt s.db.log T.tx.instant := by
              funext ks; rfl
            rw [this, tb]
        · simpa using h.chain
      · have hro' : T.tx.base.mem.isEmpty = false := by simpa using hro
        simp only [hro', Bool.false_eq_true, if_false]
        by_cases hconf : (s.db.committed.any fun c => decide (c.ts ≥ T.tx.instant + 1) && hasConflict T.tx.reads c.keys) = true
        · -- conflict: nothing is applied
          simp only [hconf, if_true]
          refine ⟨t1, t2, by rw [close_seqno]; exact h.seqLe, by rw [close_seqno]; exact h.logBelow, ?_, ?_, ?_, ?_⟩
          · intro T' hT'
            obtain ⟨a, b, c, _⟩ := h.openOk T' (mem_eraseIdx_of _ _ _ hT')
            exact ⟨by rw [close_seqno]; exact a, b, c, hprune T' hT'⟩
          · simpa using h.doneOk
          · simpa [hro'] using h.roOk
          · simpa using h.chain
        · have hconf' : (s.db.committed.any fun c => decide (c.ts ≥ T.tx.instant + 1) && hasConflict T.tx.reads c.keys) = false := by
            simpa using hconf
          simp only [hconf', Bool.false_eq_true, if_false]
          have hpub : (Tracker.step s.db.tr (.publish s.db.seqno)).seqno = s.db.seqno + 1 := by
            simp only [Tracker.step]
            have := h.seqLe
            omega
          have hinv1 := Tracker.step_inv ⟨s.db.tr, s.live⟩ (.publish s.db.seqno) trivial h.trk
          have hlive : T.tx.instant ∈ s.live := h.perm.subset (List.mem_map.mpr ⟨T, hmem, rfl⟩)
          have hinv2 := Tracker.step_inv ⟨Tracker.step s.db.tr (.publish s.db.seqno), s.live⟩ (.close T.tx.instant) hlive hinv1
          refine ⟨hinv2, t2, ?_, ?_, ?_, ?_, by simpa [hro'] using h.roOk, ?_⟩
          rotate_left 4
          · simp only [true_and, if_true]
            exact Chain.snoc _ _ _ _ h.chain rfl
          · rw [close_seqno, hpub]; exact Nat.le_refl _
          · intro e he
            rw [close_seqno, hpub]
            simp only [List.mem_cons] at he
            rcases he with rfl | he
            · exact Nat.lt_succ_self _
            · have := h.logBelow e he; have := h.seqLe; omega
          · intro T' hT'
            obtain ⟨a, b, c, _⟩ := h.openOk T' (mem_eraseIdx_of _ _ _ hT')
            have hle : T'.tx.instant ≤ s.db.seqno := Nat.le_trans a h.seqLe
            refine ⟨by rw [close_seqno, hpub]; omega, ?_, c, ?_⟩
            · simp only
              rw [stateAt_cons_ge _ _ _ hle]; exact b
            · intro e he hge
              simp only [List.mem_cons] at he
              rcases he with rfl | he
              · refine ⟨⟨(Tracker.step s.db.tr (.publish s.db.seqno)).seqno, T.tx.wkeys⟩, by simp, by simp [hpub], ?_⟩
                intro it hit
                exact tc it (commitItems_sub _ it hit)
              · obtain ⟨c', hc', hts, hk⟩ := hprune T' hT' e he hge
                exact ⟨c', by simp [hc'], hts, hk⟩
          · -- the committed transaction replays at its commit point
            intro d hd i'
            simp only [true_and, if_true, List.mem_append, List.mem_singleton] at hd
            rcases hd with hd | rfl
            · exact h.doneOk d hd i'
            · simp only
              have hv := validated_replays (stateAt s.db.log T.tx.instant) (stateTop s.db.log) T.tx.instant i' T.prog
                ((s.db.committed.filter fun c => decide (c.ts ≥ T.tx.instant + 1)).map (·.keys)) ?_ ?_
              · rw [tb] at hv
                exact hv
              · intro ck hck
                obtain ⟨c, hc, rfl⟩ := List.mem_map.mp hck
                obtain ⟨hc1, hc2⟩ := List.mem_filter.mp hc
                rw [tb]
                simp only [List.any_eq_false, Bool.and_eq_true, not_and, Bool.not_eq_true] at hconf'
                exact hconf' c hc1 hc2
              · intro ks k hno
                symm
                apply stateTop_get_eq_stateAt
                intro e he hge it hit ⟨hks, hkk⟩
                obtain ⟨c, hc, hts, hkeys⟩ := td e he hge
                have hcf : c.keys ∈ (s.db.committed.filter fun c => decide (c.ts ≥ T.tx.instant + 1)).map (·.keys) := by
                  apply List.mem_map.mpr
                  refine ⟨c, ?_, rfl⟩
                  simp only [List.mem_filter, decide_eq_true_eq]
                  exact ⟨hc, by omega⟩
                have := hkeys it hit
                rw [hks, hkk] at this
                exact hno c.keys hcf this

theorem hrun_inv (s : HSt) (evs : List HEv) (h : HInv s) : HInv (hrun s evs) := by
  induction evs generalizing s with
  | nil => exact h
  | cons e es ih => exact ih _ (hstep_inv s e h)

end Fjall.Tx
