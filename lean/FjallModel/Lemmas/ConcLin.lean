import FjallModel.Lemmas.Conc
namespace Fjall.Conc
open Fjall Fjall.Spec

/-! ### the sequential specification the history is checked against -/

/-- newest first -/
abbrev SpecMap := List ((KsId × Key) × Option Val)

def specGet (m : SpecMap) (ks : KsId) (key : Key) : Option Val :=
  match m with
  | [] => none
  | (k, v) :: r => if k = (ks, key) then v else specGet r ks key

/-- replay of the linearization points in history order against a plain map -/
def linStep (acc : SpecMap × Bool) : Ev → SpecMap × Bool
  | .applied _ e => (((e.ks, e.key), e.val) :: acc.1, acc.2)
  | .readTop _ ks key res => (acc.1, acc.2 && (specGet acc.1 ks key == res))
  | _ => acc

def linRun (log : List Ev) : SpecMap × Bool := log.foldl linStep ([], true)

/-- every `Keyspace::get`-style read returned what a sequential map holds at its linearization
    point, the writes taking effect at their memtable apply -/
def Linearizable (log : List Ev) : Prop := (linRun log).2 = true

/-- bracket discipline of the history: calls and returns of a thread alternate, and every
    linearization point of a thread lies between a call and the matching return -/
def wbStep (acc : List Tid × Bool) : Ev → List Tid × Bool
  | .call t _ => (t :: acc.1, acc.2 && !acc.1.contains t)
  | .ret t => (acc.1.erase t, acc.2 && acc.1.contains t)
  | .applied t _ => (acc.1, acc.2 && acc.1.contains t)
  | .readTop t _ _ _ => (acc.1, acc.2 && acc.1.contains t)
  | .opened t _ => (acc.1, acc.2 && acc.1.contains t)

def wbRun (log : List Ev) : List Tid × Bool := log.foldl wbStep ([], true)

def WellBracketed (log : List Ev) : Prop := (wbRun log).2 = true

/-! ### lookups at the top -/

theorem best_mem (ks : KsId) (key : Key) (b : Option Nat) (l : List Entry) (acc : Option Entry) (a : Entry)
    (h : best ks key b l acc = some a) : a ∈ l ∨ acc = some a := by
  induction l generalizing acc with
  | nil => right; exact h
  | cons e r ih =>
    simp only [best] at h
    split at h
    · cases acc with
      | none =>
        rcases ih _ h with h1 | h1
        · left; simp [h1]
        · left; cases h1; simp
      | some x =>
        simp only at h
        split at h
        · rcases ih _ h with h1 | h1
          · left; simp [h1]
          · left; cases h1; simp
        · rcases ih _ h with h1 | h1
          · left; simp [h1]
          · right; exact h1
    · rcases ih _ h with h1 | h1
      · left; simp [h1]
      · right; exact h1

/-- a new entry at least as new as everything stored decides its key at the top -/
theorem lookup_snoc_top (l : List Entry) (e : Entry) (ks : KsId) (key : Key)
    (hle : ∀ x ∈ l, x.seqno ≤ e.seqno) :
    lookup (l ++ [e]) ks key none = if e.ks = ks ∧ e.key = key then e.val else lookup l ks key none := by
  simp only [lookup, best_append, best]
  by_cases hk : e.ks = ks ∧ e.key = key
  · have hhit : e.hit ks key none = true := by simp [Entry.hit, below, hk.1, hk.2]
    simp only [hhit, if_true, hk, and_self]
    cases hb : best ks key none l none with
    | none => rfl
    | some a =>
      simp only
      have ha : a ∈ l := by
        rcases best_mem _ _ _ _ _ _ hb with h1 | h1
        · exact h1
        · cases h1
      simp [hle a ha]
  · have hhit : e.hit ks key none = false := by
      simp only [Entry.hit, below, Bool.and_true, Bool.and_eq_false_iff, decide_eq_false_iff_not]
      by_cases h1 : e.ks = ks
      · right; intro h2; exact hk ⟨h1, h2⟩
      · left; exact h1
    simp [hhit, hk]

theorem specStore_seqno_mem (bs : List (Nat × List Item)) (e : Entry) (he : e ∈ specStore bs) :
    ∃ b ∈ bs, e.seqno = b.1 := by
  simp only [specStore, List.mem_flatMap, List.mem_map] at he
  obtain ⟨b, hb, it, _, rfl⟩ := he
  exact ⟨b, hb, rfl⟩

/-- while a write is being applied, nothing in the memtables is newer than it -/
theorem store_le_inflight (s : State) (h : Inv s) (t : Tid) (sq : Nat) (done rest : List Item)
    (hl : s.lock = some (t, .wDrawn sq done rest)) : ∀ e ∈ s.store, e.seqno ≤ sq := by
  have hsh := h.shape
  simp only [Shape, hl] at hsh
  obtain ⟨bs, hb, hs⟩ := hsh
  intro e he
  rw [hs] at he
  simp only [List.mem_append] at he
  rcases he with he | he
  · obtain ⟨b, hbm, hbe⟩ := specStore_seqno_mem bs e he
    have hsorted := h.batSorted
    rw [hb, List.pairwise_append] at hsorted
    have := hsorted.2.2 b hbm (sq, done ++ rest) (by simp)
    simp only at this
    omega
  · rw [entry_seqno _ _ e he]; exact Nat.le_refl _

/-! ### the history invariant -/

def LPhase.isWrite : LPhase → Bool
  | .rLocked => false
  | _ => true

def lockOp (s : State) (t : Tid) : Bool :=
  match s.lock with
  | some (h, ph) => h == t && ph.isWrite
  | none => false

def InOp (s : State) (t : Tid) : Prop :=
  lockOp s t = true ∨ (∃ th v, s.threads[t]? = some th ∧ th.phase = .sLoaded v)

structure LInv (s : State) : Prop where
  linOk : (linRun s.log).2 = true
  linMap : ∀ ks key, specGet (linRun s.log).1 ks key = lookup s.store ks key none
  wbOk : (wbRun s.log).2 = true
  wbNodup : (wbRun s.log).1.Nodup
  wbOpen : ∀ t, t ∈ (wbRun s.log).1 ↔ InOp s t
  lockIdle : ∀ t ph th, s.lock = some (t, ph) → s.threads[t]? = some th → th.phase = .idle

theorem linRun_append (log : List Ev) (evs : List Ev) : linRun (log ++ evs) = evs.foldl linStep (linRun log) := by
  simp [linRun]

theorem wbRun_append (log : List Ev) (evs : List Ev) : wbRun (log ++ evs) = evs.foldl wbStep (wbRun log) := by
  simp [wbRun]

theorem linv_init (progs : List (List Cmd)) : LInv (init progs) := by
  refine ⟨rfl, fun _ _ => rfl, rfl, List.nodup_nil, ?_, by simp [init]⟩
  intro t
  simp only [init, wbRun, List.foldl_nil, List.not_mem_nil, false_iff]
  intro hin
  rcases hin with hl | ⟨th, v, hth, hph⟩
  · simp [lockOp] at hl
  · simp only [List.getElem?_map] at hth
    cases hp : progs[t]? with
    | none => simp [hp] at hth
    | some p => simp only [hp, Option.map_some, Option.some.injEq] at hth; subst hth; cases hph

end Fjall.Conc

namespace Fjall.Conc
open Fjall Fjall.Spec

theorem get_set_same {α : Type} (l : List α) (t : Nat) (a b : α) (h : l[t]? = some b) : (l.set t a)[t]? = some a := by
  rw [List.getElem?_set]
  simp only [if_true]
  have : t < l.length := by
    rcases Nat.lt_or_ge t l.length with h1 | h1
    · exact h1
    · rw [List.getElem?_eq_none h1] at h; cases h
  simp [this]

theorem get_set_other {α : Type} (l : List α) (t j : Nat) (a : α) (h : j ≠ t) : (l.set t a)[j]? = l[j]? := by
  rw [List.getElem?_set]
  simp [Ne.symm h]

/-- `LoadOp` after updating thread `t` to something that is not loading -/
theorem loadOp_set (s : State) (t : Tid) (th th' : Thread) (hth : s.threads[t]? = some th)
    (hnew : ∀ v, th'.phase ≠ .sLoaded v) (t' : Tid) :
    (∃ x v, (s.threads.set t th')[t']? = some x ∧ x.phase = .sLoaded v) ↔
    (t' ≠ t ∧ ∃ x v, s.threads[t']? = some x ∧ x.phase = .sLoaded v) := by
  constructor
  · rintro ⟨x, v, hx, hp⟩
    rcases get_set_cases _ _ _ _ _ hx with ⟨_, rfl⟩ | ⟨hne, hx'⟩
    · exact absurd hp (hnew v)
    · exact ⟨hne, x, v, hx', hp⟩
  · rintro ⟨hne, x, v, hx, hp⟩
    exact ⟨x, v, by rw [get_set_other _ _ _ _ hne]; exact hx, hp⟩

theorem linRun_applied (t : Tid) (sq : Nat) (items : List Item) (acc : SpecMap × Bool) :
    (items.map (fun it => Ev.applied t (it.entry sq))).foldl linStep acc =
      ((items.map fun it => ((it.ks, it.key), it.val)).reverse ++ acc.1, acc.2) := by
  induction items generalizing acc with
  | nil => rfl
  | cons it rest ih =>
    simp only [List.map_cons, List.foldl_cons, linStep, ih, List.reverse_cons, List.append_assoc]
    rfl

theorem wbRun_applied (t : Tid) (sq : Nat) (items : List Item) (acc : List Tid × Bool) (ht : t ∈ acc.1) :
    (items.map (fun it => Ev.applied t (it.entry sq))).foldl wbStep acc = acc := by
  induction items generalizing acc with
  | nil => rfl
  | cons it rest ih =>
    simp only [List.map_cons, List.foldl_cons, wbStep]
    have : (acc.1, acc.2 && acc.1.contains t) = acc := by
      have hc : acc.1.contains t = true := by simpa using ht
      rw [hc, Bool.and_true]
    rw [this]
    exact ih acc ht

/-- ingested entries, all at one seqno at least as high as everything stored, decide their keys -/
theorem lookup_append_top (sq : Nat) (items : List Item) (store : List Entry) (m : SpecMap)
    (hle : ∀ x ∈ store, x.seqno ≤ sq) (hm : ∀ ks key, specGet m ks key = lookup store ks key none) :
    ∀ ks key, specGet ((items.map fun it => ((it.ks, it.key), it.val)).reverse ++ m) ks key =
      lookup (store ++ items.map (Item.entry sq)) ks key none := by
  induction items generalizing store m with
  | nil => simpa using hm
  | cons it rest ih =>
    intro ks key
    have hstep : ∀ ks key, specGet (((it.ks, it.key), it.val) :: m) ks key = lookup (store ++ [it.entry sq]) ks key none := by
      intro ks key
      rw [lookup_snoc_top _ _ _ _ (by intro x hx; exact hle x hx), ← hm]
      simp only [specGet, Item.entry, Prod.mk.injEq]
      rfl
    have hle' : ∀ x ∈ store ++ [it.entry sq], x.seqno ≤ sq := by
      intro x hx
      simp only [List.mem_append, List.mem_singleton] at hx
      rcases hx with hx | rfl
      · exact hle x hx
      · exact Nat.le_refl _
    have := ih (store ++ [it.entry sq]) (((it.ks, it.key), it.val) :: m) hle' hstep ks key
    simpa [List.reverse_cons, List.append_assoc] using this

theorem store_lt_counter (s : State) (h : Inv s) (hl : ∀ t sq d r, s.lock ≠ some (t, .wDrawn sq d r)) :
    ∀ e ∈ s.store, e.seqno ≤ s.counter := by
  have hsh := h.shape
  unfold Shape at hsh
  split at hsh
  · rename_i t sq d r hl'
    exact absurd hl' (hl t sq d r)
  · intro e he
    rw [hsh] at he
    obtain ⟨b, hb, hbe⟩ := specStore_seqno_mem _ e he
    have := h.batLt b hb
    omega

theorem linv_locked (cfg : Cfg) (s s' : State) (t : Tid) (th : Thread) (ph : LPhase) (hth : s.threads[t]? = some th)
    (hl : s.lock = some (t, ph)) (hstep : lockedStep cfg s t th ph = some s') (hi : Inv s) (h : LInv s) : LInv s' := by
  have hidle := h.lockIdle t ph th hl hth
  have hopen : ph.isWrite = true → t ∈ (wbRun s.log).1 := fun hne => (h.wbOpen t).mpr (Or.inl (by simp [lockOp, hl, hne]))
  have hsame : ∀ (ph' : LPhase) (f : Option Nat) (c v w : Nat) (st : List Entry) (bs : List (Nat × List Item)),
      ph.isWrite = true → ph'.isWrite = true →
      LInv { s with lock := some (t, ph'), floor := f, counter := c, visible := v, wm := w, batches := bs } := by
    intro ph' f c v w st bs h1 h2
    refine ⟨h.linOk, h.linMap, h.wbOk, h.wbNodup, ?_, ?_⟩
    · intro t'; rw [h.wbOpen t']; simp [InOp, lockOp, hl, h1, h2]
    · intro t' ph'' th' hl' ht'
      simp only [Option.some.injEq, Prod.mk.injEq] at hl'
      rw [← hl'.1] at ht'; rw [hth] at ht'; cases ht'; exact hidle
  cases ph with
  | wLocked items =>
    simp only [lockedStep, Option.some.injEq] at hstep; subst hstep
    exact hsame (.wFloored items) (some s.visible) s.counter s.visible s.wm s.store s.batches rfl rfl
  | wFloored items =>
    simp only [lockedStep, Option.some.injEq] at hstep; subst hstep
    exact hsame (.wDrawn s.counter [] items) s.floor (s.counter + 1) s.visible s.wm s.store _ rfl rfl
  | wDrawn sq done rest =>
    cases rest with
    | cons it rest =>
      simp only [lockedStep, Option.some.injEq] at hstep; subst hstep
      have hin := hopen rfl
      refine ⟨?_, ?_, ?_, ?_, ?_, ?_⟩
      · rw [linRun_append]; simp [linStep, h.linOk]
      · intro ks key
        rw [linRun_append]
        simp only [List.foldl_cons, List.foldl_nil, linStep, specGet]
        rw [lookup_snoc_top _ _ _ _ (store_le_inflight s hi t sq done (it :: rest) hl), h.linMap]
        simp only [Item.entry, Prod.mk.injEq]
        rfl
      · rw [wbRun_append]; simp [wbStep, h.wbOk, hin]
      · rw [wbRun_append]; simpa [wbStep] using h.wbNodup
      · intro t'
        rw [wbRun_append]
        simp only [List.foldl_cons, List.foldl_nil, wbStep]
        rw [h.wbOpen t']; simp [InOp, lockOp, hl, LPhase.isWrite]
      · intro t' ph' th' hl' ht'
        simp only [Option.some.injEq, Prod.mk.injEq] at hl'
        rw [← hl'.1] at ht'; rw [hth] at ht'; cases ht'; exact hidle
    | nil =>
      simp only [lockedStep, Option.some.injEq] at hstep; subst hstep
      exact hsame .wPublished none s.counter _ s.wm s.store s.batches rfl rfl
  | wPublished =>
    simp only [lockedStep, Option.some.injEq] at hstep; subst hstep
    have hin := hopen rfl
    refine ⟨?_, ?_, ?_, ?_, ?_, by simp⟩
    · rw [linRun_append]; simp [linStep, h.linOk]
    · intro ks key; rw [linRun_append]; simp only [List.foldl_cons, List.foldl_nil, linStep]; exact h.linMap ks key
    · rw [wbRun_append]; simp [wbStep, h.wbOk, hin]
    · rw [wbRun_append]; simp only [List.foldl_cons, List.foldl_nil, wbStep]; exact h.wbNodup.erase t
    · intro t'
      rw [wbRun_append]
      simp only [List.foldl_cons, List.foldl_nil, wbStep]
      rw [h.wbNodup.mem_erase_iff, h.wbOpen t']
      simp only [InOp, lockOp, setThread_threads, hl]
      rw [loadOp_set s t th _ hth (by intro v; simp [hidle])]
      constructor
      · rintro ⟨hne, h1 | h1⟩
        · simp only [Bool.and_eq_true, beq_iff_eq] at h1; exact absurd h1.1.symm hne
        · right; exact ⟨hne, h1⟩
      · rintro (h1 | ⟨hne, h1⟩)
        · cases h1
        · exact ⟨hne, Or.inr h1⟩
  | rLocked =>
    simp only [lockedStep, Option.some.injEq] at hstep; subst hstep
    refine ⟨h.linOk, h.linMap, h.wbOk, h.wbNodup, ?_, by simp⟩
    intro t'
    simp only [setThread_log]
    rw [h.wbOpen t']
    simp only [InOp, lockOp, setThread_threads, hl]
    rw [loadOp_set s t th _ hth (by simp)]
    constructor
    · rintro (h1 | ⟨x, v, hx, hp⟩)
      · simp [LPhase.isWrite] at h1
      · right
        refine ⟨?_, x, v, hx, hp⟩
        intro he; subst he
        rw [hth] at hx; cases hx; rw [hidle] at hp; cases hp
    · rintro (h1 | ⟨_, h1⟩)
      · cases h1
      · exact Or.inr h1
  | iLocked items =>
    simp only [lockedStep, Option.some.injEq] at hstep; subst hstep
    have hin := hopen rfl
    refine ⟨?_, ?_, ?_, ?_, ?_, ?_⟩
    · rw [linRun_append, linRun_applied]; exact h.linOk
    · intro ks key
      rw [linRun_append, linRun_applied]
      exact lookup_append_top s.counter items s.store (linRun s.log).1
        (store_lt_counter s hi (by intro t' sq d r hc; rw [hl] at hc; cases hc)) h.linMap ks key
    · rw [wbRun_append, wbRun_applied _ _ _ _ hin]; exact h.wbOk
    · rw [wbRun_append, wbRun_applied _ _ _ _ hin]; exact h.wbNodup
    · intro t'
      rw [wbRun_append, wbRun_applied _ _ _ _ hin]
      rw [h.wbOpen t']; simp [InOp, lockOp, hl, LPhase.isWrite]
    · intro t' ph' th' hl' ht'
      simp only [Option.some.injEq, Prod.mk.injEq] at hl'
      rw [← hl'.1] at ht'; rw [hth] at ht'; cases ht'; exact hidle
  | iGc =>
    simp only [lockedStep] at hstep
    split at hstep
    · cases hstep
    · simp only [Option.some.injEq] at hstep; subst hstep
      exact hsame .wPublished s.floor s.counter s.visible _ s.store s.batches rfl rfl

theorem lockIdle_set (s : State) (t : Tid) (th' : Thread) (h : LInv s) (hnh : ∀ ph, s.lock ≠ some (t, ph)) :
    ∀ t' ph x, s.lock = some (t', ph) → (s.threads.set t th')[t']? = some x → x.phase = .idle := by
  intro t' ph x hl hx
  rcases get_set_cases _ _ _ _ _ hx with ⟨rfl, _⟩ | ⟨_, hx'⟩
  · exact absurd hl (hnh ph)
  · exact h.lockIdle t' ph x hl hx'

theorem lockOp_not_holder (s : State) (t : Tid) (hnh : ∀ ph, s.lock ≠ some (t, ph)) : lockOp s t = false := by
  unfold lockOp
  split
  · rename_i h' ph hl
    by_cases he : h' = t
    · subst he; exact absurd hl (hnh ph)
    · simp [he]
  · rfl

theorem linv_free (cfg : Cfg) (s s' : State) (t : Tid) (th : Thread)
    (hth : s.threads[t]? = some th) (hnh : ∀ ph, s.lock ≠ some (t, ph))
    (hstep : freeStep cfg s t th = some s') (hi : Inv s) (h : LInv s) : LInv s' := by
  have hlo := lockOp_not_holder s t hnh
  -- is `t` inside an operation?  only if it is loading
  have hnot : (∀ v, th.phase ≠ .sLoaded v) → t ∉ (wbRun s.log).1 := by
    intro hp hin
    rcases (h.wbOpen t).mp hin with h1 | ⟨x, v, hx, hv⟩
    · rw [hlo] at h1; cases h1
    · rw [hth] at hx; cases hx; exact hp v hv
  unfold freeStep at hstep
  split at hstep
  · -- sLoaded: opened + ret
    rename_i v hph
    simp only [Option.some.injEq] at hstep; subst hstep
    have hin : t ∈ (wbRun s.log).1 := (h.wbOpen t).mpr (Or.inr ⟨th, v, hth, hph⟩)
    refine ⟨?_, ?_, ?_, ?_, ?_, ?_⟩
    · rw [linRun_append]; simp [linStep, h.linOk]
    · intro ks key; rw [linRun_append]; simp only [List.foldl_cons, List.foldl_nil, linStep]; exact h.linMap ks key
    · rw [wbRun_append]; simp [wbStep, h.wbOk, hin]
    · rw [wbRun_append]; simp only [List.foldl_cons, List.foldl_nil, wbStep]; exact h.wbNodup.erase t
    · intro t'
      rw [wbRun_append]
      simp only [List.foldl_cons, List.foldl_nil, wbStep]
      rw [h.wbNodup.mem_erase_iff, h.wbOpen t']
      simp only [InOp, lockOp, setThread_threads, setThread_lock]
      rw [loadOp_set s t th _ hth (by simp)]
      constructor
      · rintro ⟨hne, h1 | h1⟩
        · left; exact h1
        · right; exact ⟨hne, h1⟩
      · rintro (h1 | ⟨hne, h1⟩)
        · refine ⟨?_, Or.inl h1⟩
          intro he; subst he
          have := hlo; simp only [lockOp] at this; rw [this] at h1; cases h1
        · exact ⟨hne, Or.inr h1⟩
    · exact lockIdle_set s t _ h hnh
  · -- gDrawn
    rename_i sq hph
    simp only [Option.some.injEq] at hstep; subst hstep
    refine ⟨h.linOk, h.linMap, h.wbOk, h.wbNodup, ?_, lockIdle_set s t _ h hnh⟩
    intro t'
    simp only [setThread_log]
    rw [h.wbOpen t']
    simp only [InOp, lockOp, setThread_threads, setThread_lock]
    rw [loadOp_set s t th _ hth (by simp)]
    constructor
    · rintro (h1 | ⟨x, v, hx, hv⟩)
      · left; exact h1
      · right
        refine ⟨?_, x, v, hx, hv⟩
        intro he; subst he; rw [hth] at hx; cases hx; rw [hph] at hv; cases hv
    · rintro (h1 | ⟨_, h1⟩)
      · left; exact h1
      · right; exact h1
  · cases hstep
  · -- write: lock acquired, call
    rename_i items hph hprog
    split at hstep
    · cases hstep
    · rename_i hl
      simp only [Option.some.injEq] at hstep; subst hstep
      have hni := hnot (by intro v; rw [hph]; simp)
      refine ⟨?_, ?_, ?_, ?_, ?_, ?_⟩
      · rw [linRun_append]; simp [linStep, h.linOk]
      · intro ks key; rw [linRun_append]; simp only [List.foldl_cons, List.foldl_nil, linStep]; exact h.linMap ks key
      · rw [wbRun_append]; simp [wbStep, h.wbOk, hni]
      · rw [wbRun_append]; simp only [List.foldl_cons, List.foldl_nil, wbStep]; exact List.nodup_cons.mpr ⟨hni, h.wbNodup⟩
      · intro t'
        rw [wbRun_append]
        simp only [List.foldl_cons, List.foldl_nil, wbStep, List.mem_cons]
        rw [h.wbOpen t']
        simp only [InOp, lockOp, hl, LPhase.isWrite, Bool.and_true, beq_iff_eq]
        constructor
        · rintro (h1 | h1 | h1)
          · left; exact h1.symm
          · cases h1
          · right; exact h1
        · rintro (h1 | h1)
          · left; exact h1.symm
          · right; right; exact h1
      · intro t' ph x hl' hx
        simp only [Option.some.injEq, Prod.mk.injEq] at hl'
        rw [← hl'.1, hth] at hx; cases hx; exact hph
  · -- rotate: lock acquired
    rename_i hph hprog
    split at hstep
    · cases hstep
    · rename_i hl
      simp only [Option.some.injEq] at hstep; subst hstep
      refine ⟨h.linOk, h.linMap, h.wbOk, h.wbNodup, ?_, ?_⟩
      · intro t'
        rw [h.wbOpen t']
        simp [InOp, lockOp, hl, LPhase.isWrite]
      · intro t' ph x hl' hx
        simp only [Option.some.injEq, Prod.mk.injEq] at hl'
        rw [← hl'.1, hth] at hx; cases hx; exact hph
  · -- needGc: tracker GC after a rotation
    rename_i hph
    split at hstep
    · cases hstep
    · simp only [Option.some.injEq] at hstep; subst hstep
      refine ⟨h.linOk, h.linMap, h.wbOk, h.wbNodup, ?_, lockIdle_set s t _ h hnh⟩
      intro t'
      simp only [setThread_log]
      rw [h.wbOpen t']
      simp only [InOp, lockOp, setThread_threads, setThread_lock]
      rw [loadOp_set s t th _ hth (by simp)]
      constructor
      · rintro (h1 | ⟨x, v, hx, hv⟩)
        · left; exact h1
        · right
          refine ⟨?_, x, v, hx, hv⟩
          intro he; subst he; rw [hth] at hx; cases hx; rw [hph] at hv; cases hv
      · rintro (h1 | ⟨_, h1⟩)
        · left; exact h1
        · right; exact h1
  · -- ingest: lock acquired, call
    rename_i items _tl hph hprog
    split at hstep
    · cases hstep
    · rename_i hl
      simp only [Option.some.injEq] at hstep; subst hstep
      have hni := hnot (by intro v; rw [hph]; simp)
      refine ⟨?_, ?_, ?_, ?_, ?_, ?_⟩
      · rw [linRun_append]; simp [linStep, h.linOk]
      · intro ks key; rw [linRun_append]; simp only [List.foldl_cons, List.foldl_nil, linStep]; exact h.linMap ks key
      · rw [wbRun_append]; simp [wbStep, h.wbOk, hni]
      · rw [wbRun_append]; simp only [List.foldl_cons, List.foldl_nil, wbStep]; exact List.nodup_cons.mpr ⟨hni, h.wbNodup⟩
      · intro t'
        rw [wbRun_append]
        simp only [List.foldl_cons, List.foldl_nil, wbStep, List.mem_cons]
        rw [h.wbOpen t']
        simp only [InOp, lockOp, hl, LPhase.isWrite, Bool.and_true, beq_iff_eq]
        constructor
        · rintro (h1 | h1 | h1)
          · left; exact h1.symm
          · cases h1
          · right; exact h1
        · rintro (h1 | h1)
          · left; exact h1.symm
          · right; right; exact h1
      · intro t' ph x hl' hx
        simp only [Option.some.injEq, Prod.mk.injEq] at hl'
        rw [← hl'.1, hth] at hx; cases hx; exact hph
  · -- gc
    rename_i hph hprog
    split at hstep
    · cases hstep
    · simp only [Option.some.injEq] at hstep; subst hstep
      refine ⟨h.linOk, h.linMap, h.wbOk, h.wbNodup, ?_, lockIdle_set s t _ h hnh⟩
      intro t'
      simp only [setThread_log]
      rw [h.wbOpen t']
      simp only [InOp, lockOp, setThread_threads, setThread_lock]
      rw [loadOp_set s t th _ hth (by intro v; simp [hph])]
      constructor
      · rintro (h1 | ⟨x, v, hx, hv⟩)
        · left; exact h1
        · right
          refine ⟨?_, x, v, hx, hv⟩
          intro he; subst he; rw [hth] at hx; cases hx; rw [hph] at hv; cases hv
      · rintro (h1 | ⟨_, h1⟩)
        · left; exact h1
        · right; exact h1
  · -- close
    rename_i hph hprog
    simp only [Option.some.injEq] at hstep; subst hstep
    refine ⟨h.linOk, h.linMap, h.wbOk, h.wbNodup, ?_, lockIdle_set s t _ h hnh⟩
    intro t'
    simp only [setThread_log]
    rw [h.wbOpen t']
    simp only [InOp, lockOp, setThread_threads, setThread_lock]
    rw [loadOp_set s t th _ hth (by intro v; simp [hph])]
    constructor
    · rintro (h1 | ⟨x, v, hx, hv⟩)
      · left; exact h1
      · right
        refine ⟨?_, x, v, hx, hv⟩
        intro he; subst he; rw [hth] at hx; cases hx; rw [hph] at hv; cases hv
    · rintro (h1 | ⟨_, h1⟩)
      · left; exact h1
      · right; exact h1
  · -- snap: call
    rename_i hph hprog
    simp only [Option.some.injEq] at hstep; subst hstep
    have hni := hnot (by intro v; rw [hph]; simp)
    refine ⟨?_, ?_, ?_, ?_, ?_, ?_⟩
    · rw [linRun_append]; simp [linStep, h.linOk]
    · intro ks key; rw [linRun_append]; simp only [List.foldl_cons, List.foldl_nil, linStep]; exact h.linMap ks key
    · rw [wbRun_append]; simp [wbStep, h.wbOk, hni]
    · rw [wbRun_append]; simp only [List.foldl_cons, List.foldl_nil, wbStep]; exact List.nodup_cons.mpr ⟨hni, h.wbNodup⟩
    · intro t'
      rw [wbRun_append]
      simp only [List.foldl_cons, List.foldl_nil, wbStep, List.mem_cons]
      rw [h.wbOpen t']
      simp only [InOp, lockOp, setThread_threads, setThread_lock]
      constructor
      · rintro (rfl | h1 | ⟨x, v, hx, hv⟩)
        · right; exact ⟨_, s.visible, get_set_same _ _ _ _ hth, rfl⟩
        · left; exact h1
        · right
          by_cases he : t' = t
          · subst he; exact ⟨_, s.visible, get_set_same _ _ _ _ hth, rfl⟩
          · exact ⟨x, v, by rw [get_set_other _ _ _ _ he]; exact hx, hv⟩
      · rintro (h1 | ⟨x, v, hx, hv⟩)
        · right; left; exact h1
        · by_cases he : t' = t
          · left; exact he
          · right; right; exact ⟨x, v, by rw [get_set_other _ _ _ _ he] at hx; exact hx, hv⟩
    · intro t' ph x hl hx
      rcases get_set_cases _ _ _ _ _ hx with ⟨rfl, _⟩ | ⟨_, hx'⟩
      · exact absurd hl (hnh ph)
      · exact h.lockIdle t' ph x hl hx'
  · -- read
    rename_i ks key hph hprog
    have hkeep : ∀ (s'' : State), s''.log = s.log → s''.store = s.store → s''.lock = s.lock →
        s''.threads = s.threads.set t { th with prog := th.prog.tail } → LInv s'' := by
      intro s'' e1 e2 e3 e4
      refine ⟨by rw [e1]; exact h.linOk, by rw [e1, e2]; exact h.linMap, by rw [e1]; exact h.wbOk,
        by rw [e1]; exact h.wbNodup, ?_, by rw [e3, e4]; exact lockIdle_set s t _ h hnh⟩
      intro t'
      rw [e1, h.wbOpen t']
      simp only [InOp, lockOp, e3, e4]
      rw [loadOp_set s t th _ hth (by intro v; simp [hph])]
      constructor
      · rintro (h1 | ⟨x, v, hx, hv⟩)
        · left; exact h1
        · right
          refine ⟨?_, x, v, hx, hv⟩
          intro he; subst he; rw [hth] at hx; cases hx; rw [hph] at hv; cases hv
      · rintro (h1 | ⟨_, h1⟩)
        · left; exact h1
        · right; exact h1
    split at hstep
    · simp only [Option.some.injEq] at hstep; subst hstep
      exact hkeep _ rfl rfl rfl rfl
    · simp only [Option.some.injEq] at hstep; subst hstep
      exact hkeep _ rfl rfl rfl rfl
  · -- readTop: call, lin, ret
    rename_i ks key _tl hph hprog
    simp only [Option.some.injEq] at hstep; subst hstep
    have hni := hnot (by intro v; rw [hph]; simp)
    refine ⟨?_, ?_, ?_, ?_, ?_, lockIdle_set s t _ h hnh⟩
    · rw [linRun_append]
      simp only [List.foldl_cons, List.foldl_nil, linStep, setThread_log]
      rw [h.linMap ks key]
      simp [h.linOk]
    · intro ks' key'; rw [linRun_append]; simp only [List.foldl_cons, List.foldl_nil, linStep]; exact h.linMap ks' key'
    · rw [wbRun_append]; simp [wbStep, h.wbOk, hni]
    · rw [wbRun_append]
      simp only [List.foldl_cons, List.foldl_nil, wbStep, setThread_log, List.erase_cons_head]
      exact h.wbNodup
    · intro t'
      rw [wbRun_append]
      simp only [List.foldl_cons, List.foldl_nil, wbStep, setThread_log, List.erase_cons_head]
      rw [h.wbOpen t']
      simp only [InOp, lockOp, setThread_threads, setThread_lock]
      rw [loadOp_set s t th _ hth (by intro v; simp [hph])]
      constructor
      · rintro (h1 | ⟨x, v, hx, hv⟩)
        · left; exact h1
        · right
          refine ⟨?_, x, v, hx, hv⟩
          intro he; subst he; rw [hth] at hx; cases hx; rw [hph] at hv; cases hv
      · rintro (h1 | ⟨_, h1⟩)
        · left; exact h1
        · right; exact h1
  · -- register: draw
    rename_i hph hprog
    simp only [Option.some.injEq] at hstep; subst hstep
    refine ⟨h.linOk, h.linMap, h.wbOk, h.wbNodup, ?_, lockIdle_set s t _ h hnh⟩
    intro t'
    simp only [setThread_log]
    rw [h.wbOpen t']
    simp only [InOp, lockOp, setThread_threads, setThread_lock]
    rw [loadOp_set s t th _ hth (by simp)]
    constructor
    · rintro (h1 | ⟨x, v, hx, hv⟩)
      · left; exact h1
      · right
        refine ⟨?_, x, v, hx, hv⟩
        intro he; subst he; rw [hth] at hx; cases hx; rw [hph] at hv; cases hv
    · rintro (h1 | ⟨_, h1⟩)
      · left; exact h1
      · right; exact h1

theorem step_linv (cfg : Cfg) (s : State) (t : Tid) (hi : Inv s) (h : LInv s) : LInv (step cfg s t) := by
  unfold step
  cases hs : stepT cfg s t with
  | none => exact h
  | some s' =>
    simp only [Option.getD_some]
    unfold stepT at hs
    split at hs
    · cases hs
    · rename_i th hth
      split at hs
      · rename_i hh ph hl
        split at hs
        · rename_i heq
          subst heq
          exact linv_locked cfg s s' _ th ph hth hl hs hi h
        · rename_i hne
          refine linv_free cfg s s' t th hth ?_ hs hi h
          intro ph' hc; rw [hl] at hc
          simp only [Option.some.injEq, Prod.mk.injEq] at hc
          exact hne hc.1
      · rename_i hl
        refine linv_free cfg s s' t th hth ?_ hs hi h
        intro ph' hc; rw [hl] at hc; cases hc

theorem run_linv (cfg : Cfg) (hcfg : cfg.useFloor = true) (s : State) (sched : List Tid) (hi : Inv s) (h : LInv s) :
    Inv (run cfg s sched) ∧ LInv (run cfg s sched) := by
  induction sched generalizing s with
  | nil => exact ⟨hi, h⟩
  | cons t ts ih => exact ih _ (step_inv cfg hcfg s t hi) (step_linv cfg s t hi h)

end Fjall.Conc
