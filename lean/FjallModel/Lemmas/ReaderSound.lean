/-
  Soundness of the batch reader on ARBITRARY bytes (C15, alteration direction).
  Whatever the file contains, every batch `readJournal` hands to recovery was delimited in the
  file by a Start marker and an End marker, its item count is the one the Start marker announced,
  its content is exactly the payload entries decoded in between, and the checksum stored in the
  End marker equals the hash of the canonical re-encoding of exactly that payload.
  So a file that differs from what the writer produced can only change a recovered batch if the
  altered payload hashes to the stored value (a collision of the hash function, which is a
  parameter of the model) – there is no other path to an emitted batch.
-/
import FjallModel.Lemmas.Reader
namespace Fjall.Journal
open Fjall

variable (p : Params) (c : Codec) (h : Bytes → Nat) (total : Nat)

/-- `seg` is exactly the concatenation of the byte spans from which `es` were decoded -/
inductive Parses : Bytes → List Entry → Prop
  | nil : Parses [] []
  | cons (cns rest : Bytes) (e : Entry) (es : List Entry) :
      (∀ r', decodeEntry p c (cns ++ r') = some (e, r')) → Parses rest es →
      Parses (cns ++ rest) (e :: es)

theorem Parses.snoc {seg : Bytes} {es : List Entry} (hs : Parses p c seg es) (cns : Bytes) (e : Entry)
    (hd : ∀ r', decodeEntry p c (cns ++ r') = some (e, r')) :
    Parses p c (seg ++ cns) (es ++ [e]) := by
  induction hs with
  | nil =>
    have := Parses.cons (p := p) (c := c) cns [] e [] hd Parses.nil
    simpa using this
  | cons c1 rest e1 es1 h1 _ ih =>
    have := Parses.cons (p := p) (c := c) c1 (rest ++ cns) e1 (es1 ++ [e]) h1 ih
    simpa [List.append_assoc] using this

theorem Parses.single (cns : Bytes) (e : Entry)
    (hd : ∀ r', decodeEntry p c (cns ++ r') = some (e, r')) : Parses p c cns [e] := by
  have := Parses.cons (p := p) (c := c) cns [] e [] hd Parses.nil
  simpa using this

/-- what the reader knows about an emitted batch, stated against the file it read -/
def Emitted (file : Bytes) (b : Batch) : Prop :=
  ∃ (pre seg post : Bytes) (es : List Entry) (sum : Nat),
    file = pre ++ seg ++ post ∧
    Parses p c seg (.start es.length b.seqno :: es ++ [.fin sum]) ∧
    (∀ e ∈ es, e.isPayload = true) ∧
    b.items = itemsOf es ∧ b.clears = clearsOf es ∧
    h (encodeBody p c es) = sum

/-- reader state against the file: inside a batch the accumulated hash input, items and clears
    are those of the payload entries decoded since the batch's Start marker -/
def SInv (file : Bytes) (st : RState) (x : Bytes) : Prop :=
  if st.inBatch then
    ∃ (pre seg : Bytes) (es0 : List Entry),
      file = pre ++ seg ++ x ∧
      Parses p c seg (.start (st.counter + es0.length) st.seqno :: es0) ∧
      (∀ e ∈ es0, e.isPayload = true) ∧
      st.acc = encodeBody p c es0 ∧ st.items = itemsOf es0 ∧ st.clears = clearsOf es0
  else ∃ pre, file = pre ++ x ∧ st.items = [] ∧ st.clears = [] ∧ st.acc = []

theorem encodeBody_snoc (es : List Entry) (e : Entry) :
    encodeBody p c (es ++ [e]) = encodeBody p c es ++ encodeEntry p c e := by
  simp [encodeBody]

theorem readLoop_sound (file : Bytes) (fuel : Nat) (st : RState) (x : Bytes)
    (hi : SInv p c file st x) :
    ∀ b ∈ (readLoop p c h total fuel st x).batches, Emitted p c h file b := by
  induction fuel generalizing st x with
  | zero => intro b hb; simp [readLoop] at hb
  | succ fuel ih =>
    intro b hb
    rw [readLoop] at hb
    cases hd : decodeEntry p c x with
    | none => simp [hd] at hb
    | some er =>
      obtain ⟨e, r⟩ := er
      obtain ⟨cns, hx, hloc⟩ := decodeEntry_local p c x e r hd
      simp only [hd] at hb
      cases e with
      | start n s =>
        simp only at hb
        by_cases hin : st.inBatch = true
        · simp [hin] at hb
        · simp only [hin] at hb
          refine ih _ r ?_ b (by simpa using hb)
          simp only [SInv, hin] at hi
          obtain ⟨pre, hf, h1, h2, h3⟩ := hi
          simp only [SInv, if_true]
          refine ⟨pre, cns, [], ?_, ?_, by simp, by simp [encodeBody, h3], by simp [itemsOf, h1],
            by simp [clearsOf, h2]⟩
          · rw [hf, hx, List.append_assoc]
          · simpa using Parses.single p c cns _ hloc
      | fin sum =>
        simp only at hb
        by_cases hcnt : st.counter > 0
        · simp [hcnt] at hb
        simp only [hcnt, if_false] at hb
        by_cases hin' : ¬ st.inBatch = true
        · simp [hin'] at hb
        have hin : st.inBatch = true := Classical.not_not.mp hin'
        simp only [hin, Bool.not_true, Bool.false_eq_true, if_false] at hb
        by_cases hsum : h st.acc ≠ sum
        · simp [hsum] at hb
        simp only [hsum, if_false] at hb
        simp only [SInv, hin, if_true] at hi
        obtain ⟨pre, seg, es0, hf, hps, hpl, hacc, hit, hcl⟩ := hi
        simp only [ReadResult.cons, List.mem_cons] at hb
        rcases hb with rfl | hb
        · refine ⟨pre, seg ++ cns, r, es0, sum, ?_, ?_, hpl, hit, hcl, ?_⟩
          · rw [hf, hx]; simp [List.append_assoc]
          · have h0 : st.counter = 0 := by omega
            rw [h0, Nat.zero_add] at hps
            have := Parses.snoc p c hps cns _ hloc
            simpa using this
          · rw [← hacc]
            exact Classical.not_not.mp hsum
        · refine ih _ r ?_ b hb
          simp only [SInv, Bool.false_eq_true, if_false]
          exact ⟨pre ++ seg ++ cns, by rw [hf, hx]; simp [List.append_assoc], by simp⟩
      | item i =>
        simp only at hb
        by_cases hin' : ¬ st.inBatch = true
        · simp [hin'] at hb
        have hin : st.inBatch = true := Classical.not_not.mp hin'
        simp only [hin, Bool.not_true, Bool.false_eq_true, if_false] at hb
        by_cases hcnt : st.counter = 0
        · simp [hcnt] at hb
        simp only [hcnt, if_false] at hb
        refine ih _ r ?_ b hb
        simp only [SInv, hin, if_true] at hi ⊢
        obtain ⟨pre, seg, es0, hf, hps, hpl, hacc, hit, hcl⟩ := hi
        refine ⟨pre, seg ++ cns, es0 ++ [.item i], ?_, ?_, ?_, ?_, ?_, ?_⟩
        · rw [hf, hx]; simp [List.append_assoc]
        · have := Parses.snoc p c hps cns _ hloc
          have e : st.counter - 1 + (es0 ++ [Entry.item i]).length = st.counter + es0.length := by
            simp; omega
          rw [e]
          simpa using this
        · intro e he
          rcases List.mem_append.mp he with he | he
          · exact hpl e he
          · simp at he; subst he; rfl
        · rw [encodeBody_snoc, hacc]
        · rw [itemsOf_append, hit]; rfl
        · rw [clearsOf_append, hcl]; simp [clearsOf]
      | clear k =>
        simp only at hb
        by_cases hin' : ¬ st.inBatch = true
        · simp [hin'] at hb
        have hin : st.inBatch = true := Classical.not_not.mp hin'
        simp only [hin, Bool.not_true, Bool.false_eq_true, if_false] at hb
        by_cases hcnt : st.counter = 0
        · simp [hcnt] at hb
        simp only [hcnt, if_false] at hb
        refine ih _ r ?_ b hb
        simp only [SInv, hin, if_true] at hi ⊢
        obtain ⟨pre, seg, es0, hf, hps, hpl, hacc, hit, hcl⟩ := hi
        refine ⟨pre, seg ++ cns, es0 ++ [.clear k], ?_, ?_, ?_, ?_, ?_, ?_⟩
        · rw [hf, hx]; simp [List.append_assoc]
        · have := Parses.snoc p c hps cns _ hloc
          have e : st.counter - 1 + (es0 ++ [Entry.clear k]).length = st.counter + es0.length := by
            simp; omega
          rw [e]
          simpa using this
        · intro e he
          rcases List.mem_append.mp he with he | he
          · exact hpl e he
          · simp at he; subst he; rfl
        · rw [encodeBody_snoc, hacc]
        · rw [itemsOf_append, hit]; simp [itemsOf]
        · rw [clearsOf_append, hcl]; rfl

/-- **Reader soundness on arbitrary bytes.** -/
theorem readJournal_sound (x : Bytes) :
    ∀ b ∈ (readJournal p c h x).batches, Emitted p c h x b := by
  apply readLoop_sound
  refine ⟨[], ?_⟩
  simp

end Fjall.Journal
