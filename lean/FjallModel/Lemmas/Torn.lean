import FjallModel.Lemmas.Reader
namespace Fjall.Journal
open Fjall

variable (p : Params) (c : Codec) (h : Bytes → Nat) (total : Nat)

theorem drop_zeros (k m : Nat) : (zeros m).drop k = zeros (m - k) := by
  simp [zeros]

/-- The entry spanning a cut: either it does not decode, or it decodes to an entry with the
    same tag that consumed all surviving bytes (what is left is zero padding). -/
theorem spanning (hp : p.Valid) (hc : c.Law) (e : Entry) (he : e.WF c) (n m : Nat)
    (hn : n < (encodeEntry p c e).length) :
    decodeEntry p c ((encodeEntry p c e).take n ++ zeros m) = none ∨
    ∃ e' m', decodeEntry p c ((encodeEntry p c e).take n ++ zeros m) = some (e', zeros m') ∧
      e'.tag p = e.tag p := by
  cases hd : decodeEntry p c ((encodeEntry p c e).take n ++ zeros m) with
  | none => left; rfl
  | some res =>
    right
    obtain ⟨e', r'⟩ := res
    obtain ⟨pre, hx, hpre⟩ := decodeEntry_local p c _ e' r' hd
    -- n = 0 is impossible: zeros do not decode
    have hn0 : 0 < n := by
      cases n with
      | zero => simp [decodeEntry_zeros p c hp] at hd
      | succ n => omega
    -- the decoder consumed at least the surviving `n` bytes
    have hlen : n ≤ pre.length := by
      apply Nat.le_of_not_lt
      intro hlt
      have htl : ((encodeEntry p c e).take n).length = n := by simp; omega
      have hpre_eq : pre = (encodeEntry p c e).take pre.length := by
        have h1 : ((encodeEntry p c e).take n ++ zeros m).take pre.length = pre := by
          rw [hx]; simp
        rw [List.take_append_of_le_length (by omega), List.take_take,
          Nat.min_eq_left (by omega)] at h1
        exact h1.symm
      have hE : encodeEntry p c e = pre ++ (encodeEntry p c e).drop pre.length := by
        conv => lhs; rw [← List.take_append_drop pre.length (encodeEntry p c e)]
        rw [← hpre_eq]
      have hd1 := hpre ((encodeEntry p c e).drop pre.length)
      rw [← hE] at hd1
      have hd2 := decode_encode p c hp hc e he []
      rw [List.append_nil] at hd2
      rw [hd2] at hd1
      simp at hd1
      omega
    have htl : ((encodeEntry p c e).take n).length = n := by simp; omega
    have hr' : r' = zeros (m - (pre.length - n)) := by
      have h1 : ((encodeEntry p c e).take n ++ zeros m).drop pre.length = r' := by
        rw [hx]; simp
      rw [List.drop_append, htl] at h1
      rw [← h1, List.drop_eq_nil_of_le (by omega), List.nil_append, drop_zeros]
    refine ⟨e', _, by rw [← hr'], ?_⟩
    obtain ⟨t, ht⟩ := encodeEntry_head p c e
    have hx' : (encodeEntry p c e).take n ++ zeros m
        = e.tag p :: (t.take (n-1) ++ zeros m) := by
      rw [ht]
      cases n with
      | zero => omega
      | succ n => simp
    rw [hx'] at hd
    exact decodeEntry_tag p c _ _ _ _ hd

theorem tag_fin (hp : p.Valid) (e : Entry) (ht : e.tag p = p.tagEnd) : ∃ s, e = .fin s := by
  obtain ⟨h12, h13, h14, h23, h24, h34, _⟩ := hp
  cases e with
  | start => exact absurd ht h13
  | item => exact absurd ht h23
  | fin s => exact ⟨s, rfl⟩
  | clear => exact absurd ht.symm h34

theorem tag_start (hp : p.Valid) (e : Entry) (ht : e.tag p = p.tagStart) : ∃ n s, e = .start n s := by
  obtain ⟨h12, h13, h14, h23, h24, h34, _⟩ := hp
  cases e with
  | start n s => exact ⟨n, s, rfl⟩
  | item => exact absurd ht.symm h12
  | fin s => exact absurd ht.symm h13
  | clear => exact absurd ht.symm h14

theorem tag_payload (hp : p.Valid) (e e' : Entry) (hpl : e.isPayload = true)
    (ht : e'.tag p = e.tag p) : e'.isPayload = true := by
  obtain ⟨h12, h13, h14, h23, h24, h34, _⟩ := hp
  cases e <;> cases e' <;> simp_all [Entry.isPayload, Entry.tag]

/-- An End marker that lost at least its last byte never decodes, whatever zero padding follows. -/
theorem spanning_fin (hp : p.Valid) (hc : c.Law) (s : Nat) (hs : s < 2^64) (n m : Nat)
    (hn : n < (encodeEntry p c (.fin s)).length) :
    decodeEntry p c ((encodeEntry p c (.fin s)).take n ++ zeros m) = none := by
  rcases spanning p c hp hc (.fin s) hs n m hn with hnone | ⟨e', m', hd, ht⟩
  · exact hnone
  · exfalso
    obtain ⟨s', rfl⟩ := tag_fin p hp e' ht
    have hinv := decodeEntry_fin_inv p c _ s' _ hd
    obtain ⟨_, _, _, _, _, _, _, _, _, _, hmne, hlast⟩ := hp
    obtain ⟨init, last, hm⟩ : ∃ init last, p.magic = init ++ [last] :=
      ⟨p.magic.dropLast, p.magic.getLast hmne, (List.dropLast_concat_getLast hmne).symm⟩
    have hlast0 : last ≠ 0 := by
      intro h0; apply hlast; rw [hm, h0]; simp
    have hL : ∀ s, (encodeEntry p c (.fin s)).length = 10 + init.length := by
      intro s; simp [encodeEntry, hm]; omega
    rw [hL] at hn
    have htl : ((encodeEntry p c (.fin s)).take n).length = n := by
      simp [hL]; omega
    have hA : ((encodeEntry p c (.fin s)).take n ++ zeros m).drop (9 + init.length)
        = zeros (m - (9 + init.length - n)) := by
      rw [List.drop_append, htl, List.drop_eq_nil_of_le (by omega), List.nil_append, drop_zeros]
    have hB : (encodeEntry p c (.fin s') ++ zeros m').drop (9 + init.length)
        = last :: zeros m' := by
      have : encodeEntry p c (.fin s') ++ zeros m'
          = ([p.tagEnd] ++ leN 8 s' ++ init) ++ (last :: zeros m') := by
        simp [encodeEntry, hm]
      rw [this, List.drop_append, List.drop_eq_nil_of_le (by simp; omega)]
      simp
      rw [show 9 + init.length - (8 + init.length + 1) = 0 by omega]
      rfl
    rw [hinv, hB] at hA
    cases hz : m - (9 + init.length - n) with
    | zero => rw [hz] at hA; simp [zeros] at hA
    | succ k =>
      rw [hz] at hA
      simp [zeros, List.replicate_succ] at hA
      exact hlast0 hA.1

/-- on pure zero padding the reader stops at once -/
theorem readLoop_zeros (hp : p.Valid) (st : RState) (m fuel : Nat) :
    readLoop p c h total fuel st (zeros m) = ⟨[], st.stopLen, none⟩ := by
  cases fuel with
  | zero => rfl
  | succ f => rw [readLoop, decodeEntry_zeros p c hp]

theorem readLoop_none (st : RState) (x : Bytes) (fuel : Nat) (hd : decodeEntry p c x = none) :
    readLoop p c h total fuel st x = ⟨[], st.stopLen, none⟩ := by
  cases fuel with
  | zero => rfl
  | succ f => rw [readLoop, hd]

theorem stopLen_inBatch (st : RState) (hin : st.inBatch = true) : st.stopLen = st.lastValid := by
  simp [RState.stopLen, hin]

/-- Inside a batch whose remaining payload and End marker are cut anywhere (then zero padded),
    nothing is emitted, no error is raised, and the file is cut back to the batch start. -/
theorem torn_rest (hp : p.Valid) (hc : c.Law) (es : List Entry)
    (hes : ∀ e ∈ es, e.isPayload = true ∧ e.WF c) (sum : Nat) (hs : sum < 2^64)
    (st : RState) (hin : st.inBatch = true) (hcnt : es.length ≤ st.counter) (n m fuel : Nat)
    (hn : n < (encodeBody p c es ++ encodeEntry p c (.fin sum)).length) :
    readLoop p c h total fuel st
      ((encodeBody p c es ++ encodeEntry p c (.fin sum)).take n ++ zeros m)
      = ⟨[], st.lastValid, none⟩ := by
  induction es generalizing st n fuel with
  | nil =>
    simp only [encodeBody, List.flatMap_nil, List.nil_append] at hn ⊢
    rw [readLoop_none p c h total st _ fuel (spanning_fin p c hp hc sum hs n m hn),
      stopLen_inBatch st hin]
  | cons e es ih =>
    have he := hes e (by simp)
    simp only [encodeBody, List.flatMap_cons, List.append_assoc] at hn ⊢
    by_cases hlt : n < (encodeEntry p c e).length
    · -- the cut falls inside `e`
      rw [List.take_append_of_le_length (by omega)]
      rcases spanning p c hp hc e he.2 n m hlt with hnone | ⟨e', m', hd, ht⟩
      · rw [readLoop_none p c h total st _ fuel hnone, stopLen_inBatch st hin]
      · have hpl' := tag_payload p hp e e' he.1 ht
        cases fuel with
        | zero => simp [readLoop, stopLen_inBatch st hin]
        | succ f =>
          simp only [List.length_cons] at hcnt
          rw [readLoop, hd]
          cases e' with
          | start => simp [Entry.isPayload] at hpl'
          | fin => simp [Entry.isPayload] at hpl'
          | item i =>
            simp only [hin, Bool.not_true, Bool.false_eq_true, if_false]
            rw [if_neg (by omega), readLoop_zeros p c h total hp]
            simp [RState.stopLen]
          | clear k =>
            simp only [hin, Bool.not_true, Bool.false_eq_true, if_false]
            rw [if_neg (by omega), readLoop_zeros p c h total hp]
            simp [RState.stopLen]
    · -- `e` is complete
      rw [List.take_append, List.take_of_length_le (by omega), List.append_assoc]
      cases fuel with
      | zero => simp [readLoop, stopLen_inBatch st hin]
      | succ f =>
        simp only [List.length_cons] at hcnt
        rw [readLoop_payload_step p c h total hp hc st e he.1 he.2 hin (by omega)]
        have := ih (fun e' he' => hes e' (by simp [he'])) (st.push p c e)
          (by rw [push_inBatch]; exact hin) (by rw [push_counter]; omega)
          (n - (encodeEntry p c e).length) f
          (by simp only [encodeBody, List.length_append] at hn ⊢; omega)
        simp only [encodeBody] at this
        rw [this, push_lastValid]

/-- A batch cut anywhere before its last byte, with any amount of zero padding behind the cut:
    nothing is emitted, no error, and the reader cuts the file back to where the batch began. -/
theorem torn_batch (hp : p.Valid) (hc : c.Law) (hh : ∀ x, h x < 2^64) (b : WBatch) (hb : b.WF c)
    (st : RState) (hst : st.Clean) (n m fuel : Nat) (hn : n < (encodeBatch p c h b).length) :
    readLoop p c h total fuel st ((encodeBatch p c h b).take n ++ zeros m)
      = ⟨[], st.lastValid, none⟩ := by
  obtain ⟨hlen, hseq, hes⟩ := hb
  obtain ⟨h1, h2, h3, h4, h5, h6⟩ := hst
  have hstop : st.stopLen = st.lastValid := by simp [RState.stopLen, h1, h6]
  simp only [encodeBatch, List.append_assoc] at hn ⊢
  by_cases hlt : n < (encodeEntry p c (.start b.entries.length b.seqno)).length
  · rw [List.take_append_of_le_length (by omega)]
    rcases spanning p c hp hc (.start b.entries.length b.seqno) ⟨hlen, hseq⟩ n m hlt with
      hnone | ⟨e', m', hd, ht⟩
    · rw [readLoop_none p c h total st _ fuel hnone, hstop]
    · obtain ⟨n', s', rfl⟩ := tag_start p hp e' ht
      cases fuel with
      | zero => simp [readLoop, hstop]
      | succ f =>
        rw [readLoop, hd]
        simp only [h1, Bool.false_eq_true, if_false]
        rw [readLoop_zeros p c h total hp]
        simp [RState.stopLen]
  · rw [List.take_append, List.take_of_length_le (by omega), List.append_assoc]
    cases fuel with
    | zero => simp [readLoop, hstop]
    | succ f =>
      rw [readLoop, decode_encode p c hp hc (.start b.entries.length b.seqno) ⟨hlen, hseq⟩]
      simp only [h1, Bool.false_eq_true, if_false]
      rw [torn_rest p c h total hp hc b.entries hes _ (hh _) _ rfl (by simp)]
      simp only [List.length_append] at hn ⊢
      omega

theorem encodeEntry_length_pos (e : Entry) : 0 < (encodeEntry p c e).length := by
  obtain ⟨t, ht⟩ := encodeEntry_head p c e
  rw [ht]; simp

theorem encodeBody_length_ge (es : List Entry) : es.length ≤ (encodeBody p c es).length := by
  induction es with
  | nil => simp
  | cons e es ih =>
    have := encodeEntry_length_pos p c e
    simp only [encodeBody, List.flatMap_cons, List.length_append, List.length_cons] at ih ⊢
    omega

theorem fuelFor_le (bs : List WBatch) : fuelFor bs ≤ (encodeBatches p c h bs).length := by
  induction bs with
  | nil => simp [fuelFor]
  | cons b bs ih =>
    have h1 := encodeEntry_length_pos p c (.start b.entries.length b.seqno)
    have h2 := encodeEntry_length_pos p c (.fin (h (encodeBody p c b.entries)))
    have h3 := encodeBody_length_ge p c b.entries
    simp only [fuelFor, encodeBatches, List.map_cons, List.sum_cons, List.flatMap_cons,
      List.length_append, encodeBatch] at ih ⊢
    omega

end Fjall.Journal
