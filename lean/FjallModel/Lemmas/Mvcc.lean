import FjallModel.Mvcc.Tree
namespace Fjall.Mvcc
open Fjall Fjall.Spec
open Fjall.Tx (TKind)

/-- `e` is a newest visible version of `k` in `r` -/
def IsNewest (inst : Option Nat) (k : Key) (r : Run) (e : VEntry) : Prop :=
  e ∈ r ∧ e.key = k ∧ visible inst e = true ∧
    ∀ d ∈ r, d.key = k → visible inst d = true → d.seqno ≤ e.seqno

def goN (inst : Option Nat) (k : Key) (acc : Option VEntry) (r : Run) : Option VEntry :=
  r.foldl (fun acc e => if e.key = k ∧ visible inst e then newer acc e else acc) acc

theorem newestIn_eq_goN (inst : Option Nat) (k : Key) (r : Run) : newestIn inst k r = goN inst k none r := rfl

theorem goN_spec (inst : Option Nat) (k : Key) (acc : Option VEntry) (r : Run) :
    (goN inst k acc r = none ↔ acc = none ∧ ∀ d ∈ r, ¬ (d.key = k ∧ visible inst d = true)) ∧
    (∀ e, goN inst k acc r = some e →
      (acc = some e ∨ (e ∈ r ∧ e.key = k ∧ visible inst e = true)) ∧
      (∀ a, acc = some a → a.seqno ≤ e.seqno) ∧
      (∀ d ∈ r, d.key = k → visible inst d = true → d.seqno ≤ e.seqno)) := by
  induction r generalizing acc with
  | nil =>
    simp only [goN, List.foldl_nil]
    refine ⟨by simp, fun e he => ⟨Or.inl he, fun a ha => ?_, by simp⟩⟩
    rw [he] at ha; cases ha; exact Nat.le_refl _
  | cons x r ih =>
    simp only [goN, List.foldl_cons]
    by_cases hx : x.key = k ∧ visible inst x = true
    · simp only [hx, and_self, if_true]
      obtain ⟨ih1, ih2⟩ := ih (newer acc x)
      have hnew : ∃ y, newer acc x = some y ∧ x.seqno ≤ y.seqno ∧ (∀ a, acc = some a → a.seqno ≤ y.seqno) ∧
          (y = x ∨ acc = some y) := by
        cases acc with
        | none => exact ⟨x, rfl, Nat.le_refl _, by simp, Or.inl rfl⟩
        | some a =>
          simp only [newer]
          by_cases hlt : a.seqno < x.seqno
          · exact ⟨x, by simp [hlt], Nat.le_refl _, fun b hb => by cases hb; omega, Or.inl rfl⟩
          · exact ⟨a, by simp [hlt], by omega, fun b hb => by cases hb; omega, Or.inr rfl⟩
      obtain ⟨y, hy, hxy, hacc, hyo⟩ := hnew
      constructor
      · constructor
        · intro h
          have := (ih1.mp h).1
          rw [hy] at this; cases this
        · rintro ⟨_, h⟩
          exact absurd hx (h x (by simp))
      · intro e he
        obtain ⟨h1, h2, h3⟩ := ih2 e he
        have hye : y.seqno ≤ e.seqno := h2 y hy
        refine ⟨?_, fun a ha => Nat.le_trans (hacc a ha) hye, ?_⟩
        · rcases h1 with h1 | ⟨hm, hk, hv⟩
          · rw [hy] at h1; cases h1
            rcases hyo with rfl | hyo
            · right; exact ⟨by simp, hx.1, hx.2⟩
            · left; exact hyo
          · right; exact ⟨by simp [hm], hk, hv⟩
        · intro d hd hdk hdv
          simp at hd
          rcases hd with rfl | hd
          · omega
          · exact h3 d hd hdk hdv
    · simp only [hx, if_false]
      obtain ⟨ih1, ih2⟩ := ih acc
      constructor
      · rw [show (List.foldl _ acc r) = goN inst k acc r from rfl, ih1]
        constructor
        · rintro ⟨h1, h2⟩
          refine ⟨h1, fun d hd => ?_⟩
          simp at hd
          rcases hd with rfl | hd
          · exact hx
          · exact h2 d hd
        · rintro ⟨h1, h2⟩
          exact ⟨h1, fun d hd => h2 d (by simp [hd])⟩
      · intro e he
        obtain ⟨h1, h2, h3⟩ := ih2 e he
        refine ⟨?_, h2, ?_⟩
        · rcases h1 with h1 | ⟨hm, hk, hv⟩
          · left; exact h1
          · right; exact ⟨by simp [hm], hk, hv⟩
        · intro d hd hdk hdv
          simp at hd
          rcases hd with rfl | hd
          · exact absurd ⟨hdk, hdv⟩ hx
          · exact h3 d hd hdk hdv

theorem newestIn_none (inst : Option Nat) (k : Key) (r : Run) :
    newestIn inst k r = none ↔ ∀ d ∈ r, ¬ (d.key = k ∧ visible inst d = true) := by
  rw [newestIn_eq_goN, (goN_spec inst k none r).1]
  simp

theorem newestIn_some (inst : Option Nat) (k : Key) (r : Run) (e : VEntry)
    (h : newestIn inst k r = some e) : IsNewest inst k r e := by
  obtain ⟨h1, _, h3⟩ := (goN_spec inst k none r).2 e h
  rcases h1 with h1 | ⟨hm, hk, hv⟩
  · cases h1
  · exact ⟨hm, hk, hv, h3⟩

theorem distinct_unique {l : Run} (hd : Distinct l) {a b : VEntry} (ha : a ∈ l) (hb : b ∈ l)
    (hk : a.key = b.key) (hs : a.seqno = b.seqno) : a = b := by
  induction l with
  | nil => simp at ha
  | cons x r ih =>
    rw [Distinct, List.pairwise_cons] at hd
    simp at ha hb
    rcases ha with rfl | ha
    · rcases hb with rfl | hb
      · rfl
      · exact absurd hs (hd.1 b hb hk)
    · rcases hb with rfl | hb
      · exact absurd hs.symm (hd.1 a ha hk.symm)
      · exact ih hd.2 ha hb

/-- under `Distinct`, `newestIn` is *the* newest visible version -/
theorem newestIn_iff (inst : Option Nat) (k : Key) (r : Run) (hd : Distinct r) (e : VEntry) :
    newestIn inst k r = some e ↔ IsNewest inst k r e := by
  constructor
  · exact newestIn_some inst k r e
  · intro ⟨hm, hk, hv, hmax⟩
    cases h : newestIn inst k r with
    | none =>
      exact absurd ⟨hk, hv⟩ ((newestIn_none inst k r).mp h e hm)
    | some e' =>
      obtain ⟨hm', hk', hv', hmax'⟩ := newestIn_some inst k r e' h
      have h1 := hmax e' hm' hk' hv'
      have h2 := hmax' e hm hk hv
      rw [distinct_unique hd hm' hm (hk'.trans hk.symm) (by omega)]

/-- **Point reads see what scans see.** Under `Ordered` and `Distinct`, the first-hit lookup
    returns the globally newest visible version. -/
theorem firstHit_eq_newest (inst : Option Nat) (k : Key) (cs : List Run) (ho : Ordered cs)
    (hd : Distinct cs.flatten) : firstHit inst k cs = newestIn inst k cs.flatten := by
  induction cs with
  | nil => rfl
  | cons c cs ih =>
    obtain ⟨ho1, ho2⟩ := ho
    have hdc : Distinct cs.flatten := by
      simp only [List.flatten_cons, Distinct] at hd
      exact (List.pairwise_append.mp hd).2.1
    simp only [firstHit]
    cases hc : newestIn inst k c with
    | some e =>
      simp only
      symm
      rw [newestIn_iff inst k _ hd]
      obtain ⟨hm, hk, hv, hmax⟩ := newestIn_some inst k c e hc
      refine ⟨by simp [hm], hk, hv, fun d hdm hdk hdv => ?_⟩
      simp only [List.flatten_cons, List.mem_append] at hdm
      rcases hdm with hdm | hdm
      · exact hmax d hdm hdk hdv
      · obtain ⟨c', hc', hdc'⟩ := List.mem_flatten.mp hdm
        have := ho1 e hm c' hc' d hdc' (hdk.trans hk.symm)
        omega
    | none =>
      simp only
      rw [ih ho2 hdc]
      have hnone := (newestIn_none inst k c).mp hc
      cases hr : newestIn inst k cs.flatten with
      | none =>
        symm
        rw [newestIn_none]
        intro d hdm
        simp only [List.flatten_cons, List.mem_append] at hdm
        rcases hdm with hdm | hdm
        · exact hnone d hdm
        · exact (newestIn_none inst k _).mp hr d hdm
      | some e =>
        symm
        rw [newestIn_iff inst k _ hd]
        obtain ⟨hm, hk, hv, hmax⟩ := newestIn_some inst k _ e hr
        refine ⟨by simp [hm], hk, hv, fun d hdm hdk hdv => ?_⟩
        simp only [List.flatten_cons, List.mem_append] at hdm
        rcases hdm with hdm | hdm
        · exact absurd ⟨hdk, hdv⟩ (hnone d hdm)
        · exact hmax d hdm hdk hdv

theorem pointGet_eq_abs (t : Tree) (inst : Option Nat) (k : Key) (ho : Ordered t.comps)
    (hd : Distinct t.comps.flatten) : t.pointGet inst k = t.absGet inst k := by
  simp only [Tree.pointGet, Tree.absGet, firstHit_eq_newest inst k t.comps ho hd]

end Fjall.Mvcc

namespace Fjall.Mvcc
open Fjall Fjall.Spec
open Fjall.Tx (TKind)

/-! ### invariants and the effect of every operation on the logical content -/

structure Inv (t : Tree) : Prop where
  ordered : Ordered t.comps
  distinct : Distinct t.comps.flatten

theorem comps_flatten (t : Tree) :
    t.comps.flatten = t.active ++ (t.sealed.flatten ++ t.tables.flatten) := by
  simp [Tree.comps, List.flatten_append]

theorem ordered_append_flat (cs : List Run) (c : Run) :
    (∀ e ∈ c, ∀ d ∈ cs, ∀ e' ∈ d, e'.key = e.key → e'.seqno < e.seqno) ↔
    (∀ e ∈ c, ∀ e' ∈ cs.flatten, e'.key = e.key → e'.seqno < e.seqno) := by
  constructor
  · intro h e he e' he' hk
    obtain ⟨d, hd, hed⟩ := List.mem_flatten.mp he'
    exact h e he d hd e' hed hk
  · intro h e he d hd e' hed hk
    exact h e he e' (List.mem_flatten.mpr ⟨d, hd, hed⟩) hk

/-- replacing the contents by a sub-collection that still holds the newest version of `k`
    does not change what reads of `k` see -/
theorem newestIn_sub (inst : Option Nat) (k : Key) (L L' : Run) (hd : Distinct L) (hd' : Distinct L')
    (hsub : ∀ x ∈ L', x ∈ L) (hkeep : ∀ e, IsNewest inst k L e → e ∈ L') :
    newestIn inst k L' = newestIn inst k L := by
  cases h : newestIn inst k L with
  | none =>
    rw [newestIn_none] at h ⊢
    exact fun d hdm => h d (hsub d hdm)
  | some e =>
    have hn := newestIn_some inst k L e h
    rw [newestIn_iff inst k L' hd']
    obtain ⟨hm, hk, hv, hmax⟩ := hn
    exact ⟨hkeep e ⟨hm, hk, hv, hmax⟩, hk, hv, fun d hdm => hmax d (hsub d hdm)⟩

theorem distinct_sublist {L L' : Run} (h : L'.Sublist L) (hd : Distinct L) : Distinct L' :=
  List.Pairwise.sublist h hd

/-- the compaction stream keeps the newest version of every key unless it evicts -/
theorem gcRun_sub (w : Nat) (evict : Bool) (r : Run) : ∀ x ∈ gcRun w evict r, x ∈ r := by
  intro x hx
  exact (List.mem_filter.mp hx).1

theorem gcRun_sublist (w : Nat) (evict : Bool) (r : Run) : (gcRun w evict r).Sublist r :=
  List.filter_sublist

theorem isNewest_of (r : Run) (k : Key) (e : VEntry) (h : IsNewest none k r e) : isNewest r e = true := by
  obtain ⟨_, hk, _, hmax⟩ := h
  simp only [isNewest, List.all_eq_true, Bool.or_eq_true, bne_iff_ne, ne_eq, decide_eq_true_eq]
  intro d hd
  by_cases hdk : d.key = e.key
  · right; exact hmax d hd (hdk.trans hk) rfl
  · left; simpa using hdk

theorem gcRun_keeps_newest (w : Nat) (r : Run) (k : Key) (e : VEntry) (h : IsNewest none k r e) :
    e ∈ gcRun w false r := by
  refine List.mem_filter.mpr ⟨h.1, ?_⟩
  simp [keptBase, isNewest_of r k e h]

/-! #### write path -/

theorem apply_comps (t : Tree) (e : VEntry) :
    (t.apply e).comps.flatten = e :: t.comps.flatten := by
  simp [Tree.apply, Tree.comps]

/-- a write whose seqno is above every existing version of its key -/
def FreshFor (t : Tree) (e : VEntry) : Prop :=
  ∀ d ∈ t.comps.flatten, d.key = e.key → d.seqno < e.seqno

theorem apply_inv (t : Tree) (e : VEntry) (h : Inv t) (hf : FreshFor t e) : Inv (t.apply e) := by
  obtain ⟨ho, hd⟩ := h
  constructor
  · simp only [Tree.apply, Tree.comps, Ordered] at ho ⊢
    refine ⟨?_, ho.2⟩
    intro x hx d hdm e' he' hk
    simp at hx
    rcases hx with rfl | hx
    · apply hf e' _ hk
      rw [comps_flatten]
      exact List.mem_append_right _ (by
        rw [← List.flatten_append]; exact List.mem_flatten.mpr ⟨d, hdm, he'⟩)
    · exact ho.1 x hx d hdm e' he' hk
  · rw [apply_comps, Distinct, List.pairwise_cons]
    refine ⟨?_, hd⟩
    intro d hdm hk hs
    have := hf d hdm hk.symm
    omega

theorem apply_abs (t : Tree) (e : VEntry) (h : Inv t) (hf : FreshFor t e) (k : Key) :
    (t.apply e).absGet none k = if k = e.key then e.toVal else t.absGet none k := by
  have hi := apply_inv t e h hf
  simp only [Tree.absGet, apply_comps]
  by_cases hk : k = e.key
  · subst hk
    simp only [if_true]
    have : newestIn none e.key (e :: t.comps.flatten) = some e := by
      rw [newestIn_iff _ _ _ (by rw [← apply_comps]; exact hi.distinct)]
      refine ⟨by simp, rfl, rfl, fun d hdm hdk _ => ?_⟩
      rw [List.mem_cons] at hdm
      rcases hdm with rfl | hdm
      · exact Nat.le_refl _
      · exact Nat.le_of_lt (hf d hdm hdk)
    rw [this]; rfl
  · simp only [hk, if_false]
    congr 1
    symm
    apply newestIn_sub none k (e :: t.comps.flatten) t.comps.flatten
      (by rw [← apply_comps]; exact hi.distinct) h.distinct (fun x hx => by simp [hx])
    intro e' he'
    have := he'.1
    rw [List.mem_cons] at this
    rcases this with rfl | hm
    · exact absurd he'.2.1.symm hk
    · exact hm

/-! #### maintenance never changes what `SeqNo::MAX` reads see -/

theorem rotate_flatten (t : Tree) : t.rotate.comps.flatten = t.comps.flatten := by
  simp only [Tree.rotate]
  split
  · rfl
  · simp [Tree.comps]

theorem rotate_inv (t : Tree) (h : Inv t) : Inv t.rotate := by
  refine ⟨?_, by rw [rotate_flatten]; exact h.distinct⟩
  have ho := h.ordered
  simp only [Tree.rotate]
  split
  · exact ho
  · simp only [Tree.comps, Ordered, List.cons_append] at ho ⊢
    exact ⟨by simp, ho⟩

theorem rotate_abs (t : Tree) (k : Key) (inst : Option Nat) : t.rotate.absGet inst k = t.absGet inst k := by
  simp only [Tree.absGet, rotate_flatten]

/-- `Ordered` of `a :: (ss ++ ts)` in terms of flattened blocks -/
theorem ordered_blocks (a : Run) (ss ts : List Run) (h : Ordered (a :: (ss ++ ts))) :
    (∀ e ∈ a, ∀ e' ∈ ss.flatten ++ ts.flatten, e'.key = e.key → e'.seqno < e.seqno) ∧
    (∀ e ∈ ss.flatten, ∀ e' ∈ ts.flatten, e'.key = e.key → e'.seqno < e.seqno) ∧ Ordered ts := by
  obtain ⟨h1, h2⟩ := h
  refine ⟨?_, ?_, ?_⟩
  · rw [← List.flatten_append]
    exact (ordered_append_flat _ _).mp h1
  · clear h1
    induction ss with
    | nil => simp
    | cons s ss ih =>
      simp only [List.cons_append, Ordered] at h2
      intro e he e' he' hk
      simp only [List.flatten_cons, List.mem_append] at he
      rcases he with he | he
      · obtain ⟨d, hd, hed⟩ := List.mem_flatten.mp he'
        exact h2.1 e he d (List.mem_append_right _ hd) e' hed hk
      · exact ih h2.2 e he e' he' hk
  · clear h1
    induction ss with
    | nil => exact h2
    | cons s ss ih => exact ih h2.2

theorem flush_flatten (t : Tree) (w : Nat) (hs : t.sealed ≠ []) :
    (t.flush w).comps.flatten = t.active ++ (gcRun w false t.sealed.flatten ++ t.tables.flatten) := by
  simp [Tree.flush, Tree.comps, hs]

theorem flush_inv (t : Tree) (w : Nat) (h : Inv t) : Inv (t.flush w) := by
  by_cases hs : t.sealed = []
  · simp [Tree.flush, hs]; exact h
  · obtain ⟨ho, hd⟩ := h
    obtain ⟨b1, b2, b3⟩ := ordered_blocks _ _ _ ho
    constructor
    · simp only [Tree.flush, hs, List.isEmpty_eq_false_iff, ne_eq, not_false_eq_true, if_false,
        List.isEmpty_iff, Tree.comps, List.nil_append, Ordered]
      refine ⟨?_, ?_, b3⟩
      · intro e he d hdm e' he' hk
        simp at hdm
        rcases hdm with rfl | hdm
        · exact b1 e he e' (List.mem_append_left _ (gcRun_sub _ _ _ e' he')) hk
        · exact b1 e he e' (List.mem_append_right _ (List.mem_flatten.mpr ⟨d, hdm, he'⟩)) hk
      · rw [ordered_append_flat]
        intro e he e' he' hk
        exact b2 e (gcRun_sub _ _ _ e he) e' he' hk
    · rw [flush_flatten t w hs]
      rw [comps_flatten] at hd
      exact distinct_sublist (List.Sublist.append (List.Sublist.refl _)
        (List.Sublist.append (gcRun_sublist _ _ _) (List.Sublist.refl _))) hd

theorem flush_abs (t : Tree) (w : Nat) (h : Inv t) (k : Key) :
    (t.flush w).absGet none k = t.absGet none k := by
  by_cases hs : t.sealed = []
  · simp [Tree.flush, hs]
  · have hi := flush_inv t w h
    simp only [Tree.absGet]
    congr 1
    have hd := h.distinct
    have hd' := hi.distinct
    rw [flush_flatten t w hs] at hd' ⊢
    rw [comps_flatten] at hd ⊢
    apply newestIn_sub none k _ _ hd hd'
    · intro x hx
      simp only [List.mem_append] at hx ⊢
      rcases hx with hx | hx | hx
      · left; exact hx
      · right; left; exact gcRun_sub _ _ _ x hx
      · right; right; exact hx
    · intro e he
      obtain ⟨hm, hk, hv, hmax⟩ := he
      simp only [List.mem_append] at hm ⊢
      rcases hm with hm | hm | hm
      · left; exact hm
      · right; left
        apply gcRun_keeps_newest w _ k e
        exact ⟨hm, hk, hv, fun d hdm hdk hdv => hmax d (by simp [hdm]) hdk hdv⟩
      · right; right; exact hm

end Fjall.Mvcc

namespace Fjall.Mvcc
open Fjall Fjall.Spec
open Fjall.Tx (TKind)

def Cross (A B : Run) : Prop := ∀ e ∈ A, ∀ e' ∈ B, e'.key = e.key → e'.seqno < e.seqno

theorem ordered_append (A B : List Run) :
    Ordered (A ++ B) ↔ Ordered A ∧ Ordered B ∧ Cross A.flatten B.flatten := by
  induction A with
  | nil => simp [Ordered, Cross]
  | cons a A ih =>
    simp only [List.cons_append, Ordered, ih, List.flatten_cons]
    constructor
    · rintro ⟨h1, h2, h3, h4⟩
      refine ⟨⟨fun e he d hd => h1 e he d (List.mem_append_left _ hd), h2⟩, h3, ?_⟩
      intro e he e' he' hk
      simp only [List.mem_append] at he
      rcases he with he | he
      · obtain ⟨d, hd, hed⟩ := List.mem_flatten.mp he'
        exact h1 e he d (List.mem_append_right _ hd) e' hed hk
      · exact h4 e he e' he' hk
    · rintro ⟨⟨h1, h2⟩, h3, h4⟩
      refine ⟨?_, h2, h3, fun e he => h4 e (List.mem_append_right _ he)⟩
      intro e he d hd e' hed hk
      simp only [List.mem_append] at hd
      rcases hd with hd | hd
      · exact h1 e he d hd e' hed hk
      · exact h4 e (List.mem_append_left _ he) e' (List.mem_flatten.mpr ⟨d, hd, hed⟩) hk

/-- replacing a contiguous block of components by one run made of (some of) its entries -/
theorem ordered_replace_block (Pre S Q : List Run) (g : Run) (h : Ordered (Pre ++ (S ++ Q)))
    (hg : ∀ x ∈ g, x ∈ S.flatten) : Ordered (Pre ++ ([g] ++ Q)) := by
  rw [ordered_append] at h ⊢
  obtain ⟨h1, h2, h3⟩ := h
  rw [ordered_append] at h2
  obtain ⟨_, h5, h6⟩ := h2
  refine ⟨h1, ?_, ?_⟩
  · rw [ordered_append]
    refine ⟨by simp [Ordered], h5, ?_⟩
    intro e he e' he' hk
    simp at he
    exact h6 e (hg e he) e' he' hk
  · intro e he e' he' hk
    simp only [List.flatten_append, List.flatten_cons, List.flatten_nil, List.append_nil,
      List.mem_append] at he'
    rcases he' with he' | he'
    · exact h3 e he e' (by simp [hg e' he']) hk
    · exact h3 e he e' (by simp [he']) hk

theorem tables_split (t : Tree) (i n : Nat) :
    t.tables = t.tables.take i ++ ((t.tables.drop i).take n ++ t.tables.drop (i + n)) := by
  rw [← List.drop_drop, List.take_append_drop, List.take_append_drop]

theorem compact_valid_flatten (t : Tree) (i n w : Nat) (hv : ¬ (n = 0 ∨ i + n > t.tables.length)) :
    (t.compact i n w).comps.flatten =
      (t.active ++ (t.sealed.flatten ++ (t.tables.take i).flatten)) ++
        (gcRun w (i + n = t.tables.length) ((t.tables.drop i).take n).flatten ++
          (t.tables.drop (i + n)).flatten) := by
  simp [Tree.compact, hv, Tree.comps, List.flatten_append]

theorem comps_split (t : Tree) (i n : Nat) :
    t.comps = (t.active :: (t.sealed ++ t.tables.take i)) ++
      ((t.tables.drop i).take n ++ t.tables.drop (i + n)) := by
  simp only [Tree.comps, List.cons_append, List.append_assoc]
  rw [← tables_split]

theorem compact_inv (t : Tree) (i n w : Nat) (h : Inv t) : Inv (t.compact i n w) := by
  by_cases hv : n = 0 ∨ i + n > t.tables.length
  · simp [Tree.compact, hv]; exact h
  · obtain ⟨ho, hd⟩ := h
    constructor
    · have hc : (t.compact i n w).comps = (t.active :: (t.sealed ++ t.tables.take i)) ++
          ([gcRun w (i + n = t.tables.length) ((t.tables.drop i).take n).flatten] ++
            t.tables.drop (i + n)) := by
        simp [Tree.compact, hv, Tree.comps]
      rw [hc]
      rw [comps_split t i n] at ho
      exact ordered_replace_block _ _ _ _ ho (gcRun_sub _ _ _)
    · rw [compact_valid_flatten t i n w hv]
      rw [comps_split t i n] at hd
      simp only [List.flatten_append, List.flatten_cons] at hd
      refine distinct_sublist ?_ hd
      simp only [List.append_assoc]
      exact List.Sublist.append (List.Sublist.refl _) (List.Sublist.append (List.Sublist.refl _)
        (List.Sublist.append (List.Sublist.refl _)
          (List.Sublist.append (gcRun_sublist _ _ _) (List.Sublist.refl _))))

theorem toVal_none_of_not_value (e : VEntry) (h : e.kind ≠ .value) : e.toVal = none := by
  simp [VEntry.toVal, h]

/-- **Compaction is invisible** to `SeqNo::MAX` reads, for every segment and every watermark,
    including tombstone eviction when the segment reaches the last run. -/
theorem compact_abs (t : Tree) (i n w : Nat) (h : Inv t) (k : Key) :
    (t.compact i n w).absGet none k = t.absGet none k := by
  by_cases hv : n = 0 ∨ i + n > t.tables.length
  · simp [Tree.compact, hv]
  · have hi := compact_inv t i n w h
    have hd := h.distinct
    have hd' := hi.distinct
    have ho := h.ordered
    simp only [Tree.absGet]
    rw [compact_valid_flatten t i n w hv] at hd' ⊢
    have hsplit : t.comps.flatten = (t.active ++ (t.sealed.flatten ++ (t.tables.take i).flatten)) ++
        (((t.tables.drop i).take n).flatten ++ (t.tables.drop (i + n)).flatten) := by
      rw [comps_split t i n]; simp [List.flatten_append]
    rw [hsplit] at hd ⊢
    -- abbreviations
    generalize hX : t.active ++ (t.sealed.flatten ++ (t.tables.take i).flatten) = X at *
    generalize hM : ((t.tables.drop i).take n).flatten = M at *
    generalize hY : (t.tables.drop (i + n)).flatten = Y at *
    have hsub : ∀ x ∈ X ++ (gcRun w (i + n = t.tables.length) M ++ Y), x ∈ X ++ (M ++ Y) := by
      intro x hx
      simp only [List.mem_append] at hx ⊢
      rcases hx with hx | hx | hx
      · left; exact hx
      · right; left; exact gcRun_sub _ _ _ x hx
      · right; right; exact hx
    -- order facts between the blocks
    have hcross : Cross X M := by
      rw [comps_split t i n, ordered_append] at ho
      intro e he e' he' hk
      apply ho.2.2 e _ e' _ hk
      · simpa [← hX, List.flatten_append] using he
      · simp [List.flatten_append, hM, he']
    cases hN : newestIn none k (X ++ (M ++ Y)) with
    | none =>
      have : newestIn none k (X ++ (gcRun w (i + n = t.tables.length) M ++ Y)) = none := by
        rw [newestIn_none] at hN ⊢
        exact fun d hdm => hN d (hsub d hdm)
      rw [this]
    | some e =>
      have hn := newestIn_some none k _ e hN
      obtain ⟨hm, hk, hv', hmax⟩ := hn
      by_cases hkept : e ∈ X ++ (gcRun w (i + n = t.tables.length) M ++ Y)
      · have : newestIn none k (X ++ (gcRun w (i + n = t.tables.length) M ++ Y)) = some e := by
          rw [newestIn_iff none k _ hd']
          exact ⟨hkept, hk, hv', fun d hdm => hmax d (hsub d hdm)⟩
        rw [this]
      · -- the newest version was evicted: it is a tombstone of the last level and nothing of the
        -- key survives
        have heM : e ∈ M := by
          simp only [List.mem_append] at hm hkept
          rcases hm with hm | hm | hm
          · exact absurd (Or.inl hm) hkept
          · exact hm
          · exact absurd (Or.inr (Or.inr hm)) hkept
        have hnotg : e ∉ gcRun w (i + n = t.tables.length) M := fun hg =>
          hkept (by simp [hg])
        have hnewM : IsNewest none k M e :=
          ⟨heM, hk, hv', fun d hdm => hmax d (by simp [hdm])⟩
        have hflt : (keptBase w M e && !(decide (i + n = t.tables.length) && e.kind != .value && lastKept w M e)) = false := by
          cases hc : (keptBase w M e && !(decide (i + n = t.tables.length) && e.kind != .value && lastKept w M e)) with
          | false => rfl
          | true => exact absurd (List.mem_filter.mpr ⟨heM, hc⟩) hnotg
        have hkb : keptBase w M e = true := by simp [keptBase, isNewest_of M k e hnewM]
        simp only [hkb, Bool.true_and, Bool.not_eq_false', Bool.and_eq_true, decide_eq_true_eq,
          bne_iff_ne, ne_eq] at hflt
        obtain ⟨⟨hlast, hkind⟩, hlk⟩ := hflt
        have hnone : newestIn none k (X ++ (gcRun w (i + n = t.tables.length) M ++ Y)) = none := by
          rw [newestIn_none]
          rintro d hdm ⟨hdk, _⟩
          simp only [List.mem_append] at hdm
          rcases hdm with hdm | hdm | hdm
          · -- a version in an earlier component would be newer than the newest
            have h1 := hcross d hdm e heM (hk.trans hdk.symm)
            have h2 := hmax d (by simp [hdm]) hdk rfl
            omega
          · have hdM := gcRun_sub _ _ _ d hdm
            have hdkept : keptBase w M d = true := by
              have := (List.mem_filter.mp hdm).2
              simp only [Bool.and_eq_true] at this
              exact this.1
            simp only [lastKept, List.all_eq_true, Bool.or_eq_true, bne_iff_ne, ne_eq,
              decide_eq_true_eq, Bool.not_eq_true'] at hlk
            have := hlk d hdM
            have h2 := hmax d (by simp [hdM]) hdk rfl
            rcases this with (h3 | h3) | h3
            · exact h3 (hdk.trans hk.symm)
            · have : d = e := distinct_unique hd (by simp [hdM]) (by simp [heM]) (hdk.trans hk.symm) (by omega)
              subst this
              exact hnotg hdm
            · rw [hdkept] at h3; exact Bool.noConfusion h3
          · -- the segment reaches the last run: nothing below
            have : Y = [] := by
              rw [← hY, List.drop_eq_nil_of_le (by omega)]; rfl
            rw [this] at hdm; simp at hdm
        rw [hnone]
        simp [toVal_none_of_not_value e hkind]

end Fjall.Mvcc
