/-
  Helper lemmas for the commit-mutex thread model (Tx/CommitMutex.lean); the property theorems
  are in Props/C07.lean.
-/
import FjallModel.Tx.CommitMutex
namespace Fjall.CommitMutex

variable {D T : Type}

theorem runAtomic_append (m : Sem D T) (d : D) (ts : List T) (t : T) :
    runAtomic m d (ts ++ [t]) = atomicStep m (runAtomic m d ts) t := by
  simp [runAtomic, List.foldl_append]

/-- `base` = the state after the finished commits executed one after the other -/
structure Inv (m : Sem D T) (d0 : D) (s : State D T) : Prop where
  excl : ∀ i, (s.threads i).phase ≠ .idle → s.mutex = some i
  job : ∀ i, (s.threads i).phase ≠ .idle → (s.threads i).todo ≠ []
  base : (∀ i, (s.threads i).phase ≠ .validated) → s.db = (runAtomic m d0 (s.done.map (·.1))).1
  mid : ∀ i t rest, (s.threads i).phase = .validated → (s.threads i).todo = t :: rest →
      m.validate (runAtomic m d0 (s.done.map (·.1))).1 t = (s.db, true)
  verdicts : (runAtomic m d0 (s.done.map (·.1))).2 = s.done.map (·.2)

theorem init_inv (m : Sem D T) (d0 : D) (jobs : List (List T)) : Inv m d0 (init d0 jobs) where
  excl := by intro i h; exact absurd rfl h
  job := by intro i h; exact absurd rfl h
  base := by intro _; rfl
  mid := by intro i t rest h; cases h
  verdicts := rfl

theorem others_idle (m : Sem D T) (d0 : D) (s : State D T) (h : Inv m d0 s) (i : Nat)
    (hi : s.mutex = some i) (j : Nat) (hj : j ≠ i) : (s.threads j).phase = .idle := by
  by_cases hp : (s.threads j).phase = .idle
  · exact hp
  · have := h.excl j hp
    rw [hi] at this
    exact absurd (Option.some.inj this).symm hj

theorem stepJ_inv (m : Sem D T) (d0 : D) (s : State D T) (h : Inv m d0 s) (i : Nat) (t : T) (rest : List T)
    (htodo : (s.threads i).todo = t :: rest) : Inv m d0 (stepJ {} m s i (s.threads i) t) := by
  unfold stepJ
  cases hph : (s.threads i).phase with
  | idle =>
    simp only
    by_cases hm : s.mutex.isNone = true
    · simp only [hm, if_true]
      have hnone : s.mutex = none := by simpa using hm
      have hall : ∀ j, (s.threads j).phase = .idle := by
        intro j
        by_cases hp : (s.threads j).phase = .idle
        · exact hp
        · have := h.excl j hp; rw [hnone] at this; cases this
      refine ⟨?_, ?_, ?_, ?_, h.verdicts⟩
      · intro j hj
        by_cases hji : j = i
        · simp [State.setThread, hji]
        · simp [State.setThread, hji, hall j] at hj
      · intro j hj
        by_cases hji : j = i
        · subst hji; simp [State.setThread, htodo]
        · simp [State.setThread, hji, hall j] at hj
      · intro _
        exact h.base (fun j => by rw [hall j]; simp)
      · intro j t' rest' hj
        by_cases hji : j = i
        · simp [State.setThread, hji] at hj
        · simp [State.setThread, hji, hall j] at hj
    · simp only [hm]
      exact h
  | locked =>
    simp only
    have hmx : s.mutex = some i := h.excl i (by rw [hph]; simp)
    have hoth := others_idle m d0 s h i hmx
    have hbase : s.db = (runAtomic m d0 (s.done.map (·.1))).1 := by
      apply h.base
      intro j
      by_cases hji : j = i
      · rw [hji, hph]; simp
      · rw [hoth j hji]; simp
    by_cases hv : (m.validate s.db t).2 = true
    · simp only [hv, if_true]
      refine ⟨?_, ?_, ?_, ?_, h.verdicts⟩
      · intro j hj
        by_cases hji : j = i
        · simp [State.setThread, hji, hmx]
        · simp [State.setThread, hji, hoth j hji] at hj
      · intro j hj
        by_cases hji : j = i
        · subst hji; simp [State.setThread, htodo]
        · simp [State.setThread, hji, hoth j hji] at hj
      · intro hall
        have := hall i
        simp [State.setThread] at this
      · intro j t' rest' hj htd
        by_cases hji : j = i
        · subst hji
          simp [State.setThread, htodo] at htd
          simp only [State.setThread]
          rw [← htd.1, ← hbase, ← hv]
        · simp [State.setThread, hji, hoth j hji] at hj
    · have hv' : (m.validate s.db t).2 = false := by simpa using hv
      simp only [hv', Bool.false_eq_true, if_false]
      have hat : m.atomic s.db t = ((m.validate s.db t).1, false) := by simp [Sem.atomic, hv']
      refine ⟨?_, ?_, ?_, ?_, ?_⟩
      · intro j hj
        by_cases hji : j = i
        · simp [State.setThread, hji] at hj
        · simp [State.setThread, hji, hoth j hji] at hj
      · intro j hj
        by_cases hji : j = i
        · simp [State.setThread, hji] at hj
        · simp [State.setThread, hji, hoth j hji] at hj
      · intro _
        simp only [State.setThread, List.map_append, List.map_cons, List.map_nil]
        rw [runAtomic_append, atomicStep, ← hbase, hat]
      · intro j t' rest' hj
        by_cases hji : j = i
        · simp [State.setThread, hji] at hj
        · simp [State.setThread, hji, hoth j hji] at hj
      · simp only [State.setThread, List.map_append, List.map_cons, List.map_nil]
        rw [runAtomic_append, atomicStep, ← hbase, hat, h.verdicts]
  | validated =>
    simp only
    have hmx : s.mutex = some i := h.excl i (by rw [hph]; simp)
    have hoth := others_idle m d0 s h i hmx
    have hmid := h.mid i t rest hph htodo
    have hat : m.atomic (runAtomic m d0 (s.done.map (·.1))).1 t = (m.apply s.db t, true) := by
      simp [Sem.atomic, hmid]
    refine ⟨?_, ?_, ?_, ?_, ?_⟩
    · intro j hj
      by_cases hji : j = i
      · simp [State.setThread, hji] at hj
      · simp [State.setThread, hji, hoth j hji] at hj
    · intro j hj
      by_cases hji : j = i
      · simp [State.setThread, hji] at hj
      · simp [State.setThread, hji, hoth j hji] at hj
    · intro _
      simp only [State.setThread, List.map_append, List.map_cons, List.map_nil]
      rw [runAtomic_append, atomicStep, hat]
    · intro j t' rest' hj
      by_cases hji : j = i
      · simp [State.setThread, hji] at hj
      · simp [State.setThread, hji, hoth j hji] at hj
    · simp only [State.setThread, List.map_append, List.map_cons, List.map_nil]
      rw [runAtomic_append, atomicStep, hat, h.verdicts]

theorem stepT_inv (m : Sem D T) (d0 : D) (s : State D T) (h : Inv m d0 s) (i : Nat) :
    Inv m d0 (stepT {} m s i) := by
  unfold stepT
  cases htodo : (s.threads i).todo with
  | nil => exact h
  | cons t rest => exact stepJ_inv m d0 s h i t rest htodo

theorem run_inv (m : Sem D T) (d0 : D) (s : State D T) (h : Inv m d0 s) (sched : List Nat) :
    Inv m d0 (run {} m s sched) := by
  induction sched generalizing s with
  | nil => exact h
  | cons i is ih => exact ih _ (stepT_inv m d0 s h i)

end Fjall.CommitMutex
