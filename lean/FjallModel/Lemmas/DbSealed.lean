import FjallModel.Lemmas.DbBasics
namespace Fjall.Db
open Fjall Fjall.Spec

/-! ### recovery with sealed journals, one keyspace at a time -/

/-- two keyspace states that differ only in how the unflushed records are split between sealed and
    active memtables -/
structure Rel (a b : KsL) : Prop where
  id : a.id = b.id
  name : a.name = b.name
  tables : a.tables = b.tables
  persisted : a.persisted = b.persisted
  memory : a.sealedMem ++ a.mem = b.sealedMem ++ b.mem

theorem Rel.refl (a : KsL) : Rel a a := ⟨rfl, rfl, rfl, rfl, rfl⟩

theorem stepKs_rel (r : Rec) (a b : KsL) (h : Rel a b) : Rel (stepKs r a) (stepKs r b) := by
  unfold stepKs
  rw [h.id]
  split
  · unfold applyRec
    cases r.op with
    | clear => exact ⟨h.id, h.name, rfl, rfl, rfl⟩
    | put _ _ => exact ⟨h.id, h.name, h.tables, h.persisted, by simp only [← List.append_assoc, h.memory]⟩
    | del _ => exact ⟨h.id, h.name, h.tables, h.persisted, by simp only [← List.append_assoc, h.memory]⟩
  · exact h

theorem replayKs_rel (recs : List Rec) (a b : KsL) (h : Rel a b) : Rel (replayKs a recs) (replayKs b recs) := by
  induction recs generalizing a b with
  | nil => exact h
  | cons r rs ih =>
    simp only [replayKs, List.foldl_cons] at ih ⊢
    exact ih _ _ (stepKs_rel r a b h)

theorem sealMem_rel (a : KsL) : Rel (sealMem a) a := by
  unfold sealMem
  split
  · exact Rel.refl a
  · exact ⟨rfl, rfl, rfl, rfl, by simp⟩

theorem Rel.trans {a b c : KsL} (h1 : Rel a b) (h2 : Rel b c) : Rel a c :=
  ⟨h1.id.trans h2.id, h1.name.trans h2.name, h1.tables.trans h2.tables, h1.persisted.trans h2.persisted,
   h1.memory.trans h2.memory⟩

theorem rel_eq (a b : KsL) (h : Rel a b) : a = { b with sealedMem := a.sealedMem, mem := a.mem } := by
  cases a; cases b
  obtain ⟨h1, h2, h3, h4, _⟩ := h
  simp only at h1 h2 h3 h4
  simp [h1, h2, h3, h4]

/-- what recovery does to one keyspace for one sealed journal: replay the records that pass the
    skip rule, then (if the keyspace had any) drop or seal its memtables -/
def journalKs (pb : List (KsId × Nat)) (k : KsL) (j : JournalL) : KsL :=
  let recs := j.recs.filter (needsReplay pb)
  let k' := replayKs k recs
  let mine := recs.filter (fun r => r.ks = k.id)
  if mine.isEmpty then k' else
    match k'.persisted with
    | some p => if mine.foldl (fun a r => max a r.seqno) 0 ≤ p then { k' with sealedMem := [], mem := [] } else sealMem k'
    | none => sealMem k'

theorem lookup_wms_none (l : List KsL) (recs : List Rec) (id : KsId) (h : id ∉ l.map (·.id)) :
    (replayWatermarks l recs).lookup id = none := by
  induction l with
  | nil => rfl
  | cons a r ih =>
    simp only [List.map_cons, List.mem_cons, not_or] at h
    simp only [replayWatermarks, List.filterMap_cons]
    split
    · exact ih h.2
    · rename_i b hb
      split at hb
      · cases hb
      · cases hb
        simp only [List.lookup_cons]
        have : (id == a.id) = false := by simp [h.1]
        rw [this]; exact ih h.2

/-- the recomputed watermark of a keyspace in the list of all recomputed watermarks -/
theorem lookup_wms (l : List KsL) (recs : List Rec) (hnd : (l.map (·.id)).Nodup) (k : KsL) (hk : k ∈ l) :
    (replayWatermarks l recs).lookup k.id =
      (if (recs.filter fun r => r.ks = k.id).isEmpty then none
       else some ((recs.filter fun r => r.ks = k.id).foldl (fun a r => max a r.seqno) 0)) := by
  induction l with
  | nil => simp at hk
  | cons a r ih =>
    simp only [List.map_cons, List.nodup_cons] at hnd
    simp only [List.mem_cons] at hk
    simp only [replayWatermarks, List.filterMap_cons]
    rcases hk with rfl | hk
    · split
      · rename_i hb
        split at hb
        · rename_i he
          simp only [he, if_true]
          exact lookup_wms_none r recs k.id hnd.1
        · cases hb
      · rename_i b hb
        split at hb
        · cases hb
        · rename_i he
          cases hb
          simp [List.lookup_cons, he]
    · have hne : (k.id == a.id) = false := by
        simp only [beq_eq_false_iff_ne, ne_eq]
        intro he
        exact hnd.1 (by rw [← he]; exact List.mem_map.mpr ⟨k, hk, rfl⟩)
      split
      · exact ih hnd.2 hk
      · rename_i b hb
        split at hb
        · cases hb
        · cases hb
          simp only [List.lookup_cons, hne]
          exact ih hnd.2 hk

theorem replay_ids (kss : List KsL) (recs : List Rec) :
    (recs.foldl replayRec kss).map (·.id) = kss.map (·.id) := by
  rw [foldl_replayRec, List.map_map]
  apply List.map_congr_left
  intro k _
  simp [replayKs_id]

theorem sealAfterReplay_ids (kss : List KsL) (wms : List (KsId × Nat)) :
    (sealAfterReplay kss wms).map (·.id) = kss.map (·.id) := by
  simp only [sealAfterReplay, List.map_map]
  apply List.map_congr_left
  intro k _
  simp only [Function.comp]
  split
  · rfl
  · split
    · split
      · rfl
      · unfold sealMem; split <;> rfl
    · unfold sealMem; split <;> rfl

/-- one sealed journal, all keyspaces at once = each keyspace on its own -/
theorem journal_step_map (pb : List (KsId × Nat)) (kss : List KsL) (hnd : (kss.map (·.id)).Nodup) (j : JournalL) :
    sealAfterReplay ((j.recs.filter (needsReplay pb)).foldl replayRec kss)
      (replayWatermarks ((j.recs.filter (needsReplay pb)).foldl replayRec kss) (j.recs.filter (needsReplay pb)))
    = kss.map fun k => journalKs pb k j := by
  generalize hrecs : j.recs.filter (needsReplay pb) = recs
  have hids := replay_ids kss recs
  have hnd' : ((recs.foldl replayRec kss).map (·.id)).Nodup := by rw [hids]; exact hnd
  simp only [sealAfterReplay]
  rw [foldl_replayRec] at hnd' ⊢
  rw [List.map_map]
  apply List.map_congr_left
  intro k hk
  simp only [Function.comp, journalKs, hrecs]
  have hmem : replayKs k recs ∈ kss.map (fun k => replayKs k recs) := List.mem_map.mpr ⟨k, hk, rfl⟩
  rw [lookup_wms _ recs hnd' _ hmem, replayKs_id]
  by_cases he : (recs.filter fun r => r.ks = k.id).isEmpty = true
  · simp only [he, if_true]
  · simp only [he, if_false]
    rename_i _
    cases (replayKs k recs).persisted <;> rfl

end Fjall.Db

namespace Fjall.Db
open Fjall Fjall.Spec

/-! ### the fold over the sealed journals -/

def kssAfter (pb : List (KsId × Nat)) (kss : List KsL) : List JournalL → List KsL
  | [] => kss
  | j :: js =>
    let recs := j.recs.filter (needsReplay pb)
    let kss' := recs.foldl replayRec kss
    kssAfter pb (sealAfterReplay kss' (replayWatermarks kss' recs)) js

def sealedAfter (pb : List (KsId × Nat)) (kss : List KsL) : List JournalL → List JournalL
  | [] => []
  | j :: js =>
    let recs := j.recs.filter (needsReplay pb)
    let kss' := recs.foldl replayRec kss
    let wms := replayWatermarks kss' recs
    { j with watermarks := wms } :: sealedAfter pb (sealAfterReplay kss' wms) js

theorem recover_fold (pb : List (KsId × Nat)) (js : List JournalL) (kss : List KsL) (out : List JournalL) :
    js.foldl (fun (acc : List KsL × List JournalL) j =>
      let (kss, out) := acc
      let recs := j.recs.filter (needsReplay pb)
      let kss' := recs.foldl replayRec kss
      let wms := replayWatermarks kss' recs
      (sealAfterReplay kss' wms, out ++ [{ j with watermarks := wms }])) (kss, out)
    = (kssAfter pb kss js, out ++ sealedAfter pb kss js) := by
  induction js generalizing kss out with
  | nil => simp [kssAfter, sealedAfter]
  | cons j js ih =>
    simp only [List.foldl_cons, kssAfter, sealedAfter]
    rw [ih]
    simp

theorem kssAfter_map (pb : List (KsId × Nat)) (js : List JournalL) (kss : List KsL) (hnd : (kss.map (·.id)).Nodup) :
    kssAfter pb kss js = kss.map fun k => js.foldl (journalKs pb) k := by
  induction js generalizing kss with
  | nil => simp [kssAfter]
  | cons j js ih =>
    simp only [kssAfter, List.foldl_cons]
    rw [journal_step_map pb kss hnd j]
    rw [ih]
    · rw [List.map_map]; rfl
    · rw [List.map_map]
      have : ((fun (x : KsL) => x.id) ∘ fun k => journalKs pb k j) = fun k => k.id := by
        funext k
        simp only [Function.comp, journalKs]
        split
        · rw [replayKs_id]
        · split
          · split
            · simp [replayKs_id]
            · unfold sealMem; split <;> rw [replayKs_id]
          · unfold sealMem; split <;> rw [replayKs_id]
      rw [this]; exact hnd

/-- all keyspaces after `recover`, each on its own -/
theorem recover_kss_eq (db : DbL) (hnd : (db.kss.map (·.id)).Nodup) :
    db.recover.kss = db.kss.map fun k =>
      replayKs (db.sealed.foldl (journalKs (pbOf db)) { k with sealedMem := [], mem := [] })
        (db.active.recs.filter (needsReplay (pbOf db))) := by
  have hpb : (List.filterMap (fun k => Option.map (fun p => (k.id, p)) k.persisted)
      (db.kss.map fun k => ({ k with sealedMem := [], mem := [] } : KsL))) = pbOf db := by
    simp only [pbOf, List.filterMap_map]; rfl
  simp only [DbL.recover, hpb]
  rw [recover_fold]
  simp only
  rw [kssAfter_map _ _ _ (by rw [List.map_map]; exact hnd), foldl_replayRec, List.map_map, List.map_map]
  rfl

theorem recover_sealed_eq (db : DbL) :
    db.recover.sealed = sealedAfter (pbOf db) (db.kss.map fun k => ({ k with sealedMem := [], mem := [] } : KsL)) db.sealed := by
  have hpb : (List.filterMap (fun k => Option.map (fun p => (k.id, p)) k.persisted)
      (db.kss.map fun k => ({ k with sealedMem := [], mem := [] } : KsL))) = pbOf db := by
    simp only [pbOf, List.filterMap_map]; rfl
  simp only [DbL.recover, hpb]
  rw [recover_fold]
  simp

end Fjall.Db

namespace Fjall.Db
open Fjall Fjall.Spec

theorem stepKs_facts (r : Rec) (s : KsL) :
    ((stepKs r s).persisted = none ∨ (stepKs r s).persisted = s.persisted) ∧
    (∀ x ∈ (stepKs r s).sealedMem, x ∈ s.sealedMem) ∧
    (∀ x ∈ (stepKs r s).mem, x ∈ s.mem ∨ x = r) := by
  unfold stepKs applyRec
  split
  · cases r.op with
    | clear => exact ⟨Or.inl rfl, by simp, by simp⟩
    | put _ _ => exact ⟨Or.inr rfl, fun x hx => hx, by intro x hx; simpa using hx⟩
    | del _ => exact ⟨Or.inr rfl, fun x hx => hx, by intro x hx; simpa using hx⟩
  · exact ⟨Or.inr rfl, fun x hx => hx, fun x hx => Or.inl hx⟩

theorem replayKs_facts (R : List Rec) (s : KsL) :
    ((replayKs s R).persisted = none ∨ (replayKs s R).persisted = s.persisted) ∧
    (∀ x ∈ (replayKs s R).sealedMem, x ∈ s.sealedMem) ∧
    (∀ x ∈ (replayKs s R).mem, x ∈ s.mem ∨ x ∈ R) := by
  induction R generalizing s with
  | nil => exact ⟨Or.inr rfl, fun x hx => hx, fun x hx => Or.inl hx⟩
  | cons r rs ih =>
    simp only [replayKs, List.foldl_cons] at ih ⊢
    obtain ⟨h1, h2, h3⟩ := ih (stepKs r s)
    obtain ⟨g1, g2, g3⟩ := stepKs_facts r s
    refine ⟨?_, fun x hx => g2 x (h2 x hx), ?_⟩
    · rcases h1 with h1 | h1
      · left; exact h1
      · rw [h1]; exact g1
    · intro x hx
      rcases h3 x hx with h | h
      · rcases g3 x h with h' | rfl
        · left; exact h'
        · right; simp
      · right; simp [h]

theorem foldl_max_seq (L : List Rec) (a : Nat) :
    a ≤ L.foldl (fun a r => max a r.seqno) a ∧ ∀ r ∈ L, r.seqno ≤ L.foldl (fun a r => max a r.seqno) a := by
  induction L generalizing a with
  | nil => simp
  | cons y r ih =>
    obtain ⟨h1, h2⟩ := ih (max a y.seqno)
    simp only [List.foldl_cons]
    refine ⟨by omega, fun x hx => ?_⟩
    simp at hx
    rcases hx with rfl | hx
    · omega
    · exact h2 x hx

/-- for the records of a keyspace the skip rule is "above the seqno its tables held before replay" -/
theorem filter_needsReplay_ks (pb : List (KsId × Nat)) (k : KsL) (hpb : pb.lookup k.id = k.persisted) (recs : List Rec) :
    (recs.filter (needsReplay pb)).filter (fun r => r.ks = k.id) =
      (recs.filter fun r => r.ks = k.id).filter (above k.persisted) := by
  simp only [List.filter_filter]
  apply List.filter_congr
  intro r _
  by_cases hr : r.ks = k.id
  · simp only [hr, decide_true, Bool.true_and, Bool.and_true, needsReplay, hpb]
  · simp [hr]

/-- the invariant of the fold over the sealed journals, for one keyspace -/
structure Good (k0 : KsL) (kc : KsL) (seen : List Rec) : Prop where
  rel : Rel kc (replayKs k0 seen)
  memEmpty : kc.mem = []
  pers : kc.persisted = none ∨ kc.persisted = k0.persisted
  sealedSeen : ∀ x ∈ kc.sealedMem, x ∈ seen

theorem sealMem_mem (s : KsL) : (sealMem s).mem = [] ∧ ∀ x ∈ (sealMem s).sealedMem, x ∈ s.sealedMem ∨ x ∈ s.mem := by
  unfold sealMem
  split
  · rename_i he
    exact ⟨by simpa using he, fun x hx => Or.inl hx⟩
  · exact ⟨rfl, by intro x hx; simpa using hx⟩

theorem good_step (pb : List (KsId × Nat)) (k : KsL) (hpb : pb.lookup k.id = k.persisted) (kc : KsL) (seen : List Rec)
    (j : JournalL) (h : Good { k with sealedMem := [], mem := [] } kc seen) :
    Good { k with sealedMem := [], mem := [] } (journalKs pb kc j)
      (seen ++ (j.recs.filter fun r => r.ks = k.id).filter (above k.persisted)) := by
  have hid : kc.id = k.id := by rw [h.rel.id, replayKs_id]
  have hmine := filter_needsReplay_ks pb k hpb j.recs
  generalize hM : (j.recs.filter fun r => r.ks = k.id).filter (above k.persisted) = mine at hmine ⊢
  -- replaying the journal = replaying the keyspace's own records
  have hrep : replayKs kc (j.recs.filter (needsReplay pb)) = replayKs kc mine := by
    rw [replayKs_filter, hid, hmine]
  have hrel : Rel (replayKs kc mine) (replayKs { k with sealedMem := [], mem := [] } (seen ++ mine)) := by
    rw [replayKs_append]; exact replayKs_rel mine _ _ h.rel
  obtain ⟨f1, f2, f3⟩ := replayKs_facts mine kc
  have hpers : (replayKs kc mine).persisted = none ∨ (replayKs kc mine).persisted = k.persisted := by
    rcases f1 with f1 | f1
    · left; exact f1
    · rw [f1]; exact h.pers
  simp only [journalKs, hrep, hid, hmine]
  by_cases he : mine.isEmpty = true
  · simp only [he, if_true]
    have : mine = [] := by simpa using he
    subst this
    refine ⟨by simpa using hrel, ?_, by simpa [replayKs] using h.pers, ?_⟩
    · simpa [replayKs] using h.memEmpty
    · intro x hx; simp only [List.append_nil]; exact h.sealedSeen x (by simpa [replayKs] using hx)
  · have he' : mine.isEmpty = false := by simpa using he
    simp only [he', Bool.false_eq_true, if_false]
    have hne : mine ≠ [] := by intro hc; rw [hc] at he; simp at he
    -- the drop branch is dead: everything replayed is above the persisted seqno
    have hseal : (match (replayKs kc mine).persisted with
        | some p => if mine.foldl (fun a r => max a r.seqno) 0 ≤ p then { replayKs kc mine with sealedMem := [], mem := [] } else sealMem (replayKs kc mine)
        | none => sealMem (replayKs kc mine)) = sealMem (replayKs kc mine) := by
      cases hp : (replayKs kc mine).persisted with
      | none => rfl
      | some p =>
        simp only
        have hpk : k.persisted = some p := by
          rcases hpers with h1 | h1
          · rw [hp] at h1; cases h1
          · rw [← h1, hp]
        obtain ⟨r0, hr0⟩ := List.exists_mem_of_ne_nil mine hne
        have hab : above k.persisted r0 = true := by
          rw [← hM] at hr0; exact (List.mem_filter.mp hr0).2
        rw [hpk] at hab
        simp only [above, decide_eq_true_eq] at hab
        have := (foldl_max_seq mine 0).2 r0 hr0
        rw [if_neg (by omega)]
    rw [hseal]
    obtain ⟨s1, s2⟩ := sealMem_mem (replayKs kc mine)
    refine ⟨(sealMem_rel _).trans hrel, s1, ?_, ?_⟩
    · have : (sealMem (replayKs kc mine)).persisted = (replayKs kc mine).persisted := (sealMem_rel _).persisted
      rw [this]; exact hpers
    · intro x hx
      simp only [List.mem_append]
      rcases s2 x hx with h1 | h1
      · left; exact h.sealedSeen x (f2 x h1)
      · rcases f3 x h1 with h2 | h2
        · rw [h.memEmpty] at h2; cases h2
        · right; exact h2

theorem good_fold (pb : List (KsId × Nat)) (k : KsL) (hpb : pb.lookup k.id = k.persisted) (js : List JournalL)
    (kc : KsL) (seen : List Rec) (h : Good { k with sealedMem := [], mem := [] } kc seen) :
    Good { k with sealedMem := [], mem := [] } (js.foldl (journalKs pb) kc)
      (seen ++ ((js.flatMap (·.recs)).filter fun r => r.ks = k.id).filter (above k.persisted)) := by
  induction js generalizing kc seen with
  | nil => simpa using h
  | cons j js ih =>
    simp only [List.foldl_cons, List.flatMap_cons, List.filter_append]
    have := ih _ _ (good_step pb k hpb kc seen j h)
    simpa [List.append_assoc] using this

/-- **recovery of one keyspace over sealed journals and the active journal**: up to the split of the
    unflushed records into sealed / active memtables it is the replay of all surviving journal
    records above the persisted seqno; what ends up sealed comes from sealed journals, what ends
    up in the active memtable from the active journal -/
theorem recover_ks_general (pb : List (KsId × Nat)) (k : KsL) (hpb : pb.lookup k.id = k.persisted)
    (js : List JournalL) (act : List Rec) (kfin : KsL)
    (hkfin : kfin = replayKs (js.foldl (journalKs pb) { k with sealedMem := [], mem := [] }) (act.filter (needsReplay pb))) :
    Rel kfin (replayKs { k with sealedMem := [], mem := [] }
      (((js.flatMap (·.recs) ++ act).filter fun r => r.ks = k.id).filter (above k.persisted))) ∧
    (∀ x ∈ kfin.sealedMem, x ∈ js.flatMap (·.recs)) ∧ (∀ y ∈ kfin.mem, y ∈ act) := by
  have h0 : Good { k with sealedMem := [], mem := [] } { k with sealedMem := [], mem := [] } [] :=
    ⟨by simpa [replayKs] using Rel.refl _, rfl, Or.inr rfl, by simp⟩
  have hg := good_fold pb k hpb js _ [] h0
  simp only [List.nil_append] at hg
  generalize hkc : js.foldl (journalKs pb) { k with sealedMem := [], mem := [] } = kc at hg hkfin
  subst hkfin
  have hid : kc.id = k.id := by rw [hg.rel.id, replayKs_id]
  have hact : replayKs kc (act.filter (needsReplay pb)) = replayKs kc ((act.filter fun r => r.ks = k.id).filter (above k.persisted)) := by
    rw [replayKs_filter, hid, filter_needsReplay_ks pb k hpb act]
  obtain ⟨_, f2, f3⟩ := replayKs_facts ((act.filter fun r => r.ks = k.id).filter (above k.persisted)) kc
  refine ⟨?_, ?_, ?_⟩
  · rw [hact]
    simp only [List.filter_append]
    rw [replayKs_append]
    exact replayKs_rel _ _ _ hg.rel
  · intro x hx
    have hx' : x ∈ (replayKs kc ((act.filter fun r => r.ks = k.id).filter (above k.persisted))).sealedMem := by
      rw [← hact]; exact hx
    have := hg.sealedSeen x (f2 x hx')
    exact (List.mem_filter.mp (List.mem_filter.mp this).1).1
  · intro y hy
    have hy' : y ∈ (replayKs kc ((act.filter fun r => r.ks = k.id).filter (above k.persisted))).mem := by
      rw [← hact]; exact hy
    rcases f3 y hy' with h1 | h1
    · rw [hg.memEmpty] at h1; cases h1
    · exact (List.mem_filter.mp (List.mem_filter.mp h1).1).1

end Fjall.Db
