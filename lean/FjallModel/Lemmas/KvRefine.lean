import FjallModel.Lemmas.Kv
namespace Fjall.Mvcc
open Fjall Fjall.Spec
open Fjall.Tx (TKind)

theorem specItems_single (m : KsId → KMap) (ks : KsId) (items : List (Key × Option Val)) :
    specItems m (items.map fun (k, v) => (ks, k, v)) =
      fun x => if x = ks then putAll (m ks) items else m x := by
  induction items generalizing m with
  | nil => funext x; simp only [List.map_nil, specItems, putAll]; split <;> simp_all
  | cons it r ih =>
    obtain ⟨k, v⟩ := it
    simp only [List.map_cons, specItems]
    rw [ih]
    funext x
    by_cases hx : x = ks
    · subst hx; simp [putAll]
    · simp [hx]

theorem rel_upd (s : Kv) (m : KsId → KMap) (h : Rel s m) (ks : KsId) (f : Tree → Tree) (s' : Nat)
    (hs : s.seqno ≤ s') (m' : KMap) (hks : TRel (f (s.trees ks)) s' m') :
    Rel { trees := s.upd ks f, seqno := s' } (fun x => if x = ks then m' else m x) := by
  intro x
  by_cases hx : x = ks
  · subst hx; simpa [Kv.upd] using hks
  · simpa [Kv.upd, hx] using (h x).mono hs

theorem absMap_equiv {t : Tree} {s : Nat} {m : KMap} (h : TRel t s m) : (t.absMap none).Equiv m := by
  intro k
  rw [absMap_get]; exact h.abs k

/-- one step of the implementation model against one step of the reference -/
theorem kv_step_refines (s : Kv) (m : KsId → KMap) (h : Rel s m) (op : KvOp) (hwf : op.WF) :
    (kvStep s op).2 = (specStep m op).2 ∧ Rel (kvStep s op).1 (specStep m op).1 := by
  have hpt : ∀ ks k, (s.trees ks).pointGet none k = (m ks).get k := fun ks k => by
    rw [pointGet_eq_abs _ _ _ (h ks).inv.ordered (h ks).inv.distinct]; exact (h ks).abs k
  cases op with
  | insert ks k v =>
    refine ⟨rfl, ?_⟩
    exact rel_upd s m h ks _ (s.seqno + 1) (Nat.le_succ _) _ (trel_apply _ _ _ (h ks) k (some v))
  | remove ks k =>
    refine ⟨rfl, ?_⟩
    exact rel_upd s m h ks _ (s.seqno + 1) (Nat.le_succ _) _ (trel_apply _ _ _ (h ks) k none)
  | batch items =>
    simp only [kvStep, specStep]
    by_cases he : items = []
    · subst he; exact ⟨rfl, by simpa [specItems] using h⟩
    · have hne : items.isEmpty = false := by simpa using he
      simp only [hne, Bool.false_eq_true, if_false]
      refine ⟨trivial, ?_⟩
      intro ks
      obtain ⟨d, hb⟩ := applyItems_rel items s.seqno s.trees m (fun _ => [])
        (fun ks => trel_to_brel (h ks)) ks
      exact brel_to_trel hb
  | clear ks =>
    refine ⟨rfl, ?_⟩
    exact rel_upd s m h ks _ (s.seqno + 2) (by omega) [] (by simpa [Tree.clear] using trel_clear (s.seqno + 2))
  | ingest ks items =>
    simp only [kvStep, specStep]
    by_cases he : items = []
    · subst he; exact ⟨rfl, by simpa [specItems] using h⟩
    · have hne : items.isEmpty = false := by simpa using he
      simp only [hne, Bool.false_eq_true, if_false]
      refine ⟨trivial, ?_⟩
      rw [specItems_single]
      apply rel_upd s m h ks _ _ (by split <;> omega)
      exact ingest_trel (h ks) _ (by split <;> omega) items he hwf
  | rotate ks =>
    refine ⟨rfl, ?_⟩
    have := rel_upd s m h ks (·.rotate) s.seqno (Nat.le_refl _) (m ks) (trel_rotate (h ks))
    have hm : (fun x => if x = ks then m ks else m x) = m := by funext x; split <;> simp_all
    rw [hm] at this
    exact this
  | flush ks w =>
    simp only [kvStep, specStep]
    split
    · exact ⟨rfl, h⟩
    · refine ⟨rfl, ?_⟩
      have := rel_upd s m h ks (·.flush w) (s.seqno + 1) (Nat.le_succ _) (m ks)
        (trel_flush (h ks) w (Nat.le_succ _))
      have hm : (fun x => if x = ks then m ks else m x) = m := by funext x; split <;> simp_all
      rw [hm] at this
      exact this
  | compact ks i n w =>
    simp only [kvStep, specStep]
    split
    · exact ⟨rfl, h⟩
    · refine ⟨rfl, ?_⟩
      have := rel_upd s m h ks (·.compact i n w) (s.seqno + 1) (Nat.le_succ _) (m ks)
        (trel_compact (h ks) i n w (Nat.le_succ _))
      have hm : (fun x => if x = ks then m ks else m x) = m := by funext x; split <;> simp_all
      rw [hm] at this
      exact this
  | get ks k => exact ⟨by simp [kvStep, specStep, hpt], h⟩
  | contains ks k => exact ⟨by simp [kvStep, specStep, hpt], h⟩
  | sizeOf ks k => exact ⟨by simp [kvStep, specStep, hpt], h⟩
  | scan ks lo hi => exact ⟨by simp [kvStep, specStep, range_congr (absMap_equiv (h ks))], h⟩
  | len ks => exact ⟨by simp [kvStep, specStep, toList_congr (absMap_equiv (h ks))], h⟩
  | isEmpty ks => exact ⟨by simp [kvStep, specStep, toList_congr (absMap_equiv (h ks))], h⟩
  | first ks => exact ⟨by simp [kvStep, specStep, toList_congr (absMap_equiv (h ks))], h⟩
  | last ks => exact ⟨by simp [kvStep, specStep, toList_congr (absMap_equiv (h ks))], h⟩

theorem kv_run_refines (s : Kv) (m : KsId → KMap) (h : Rel s m) (prog : List KvOp)
    (hwf : ∀ op ∈ prog, op.WF) :
    (kvRun s prog).2 = (specRun m prog).2 ∧ Rel (kvRun s prog).1 (specRun m prog).1 := by
  induction prog generalizing s m with
  | nil => exact ⟨rfl, h⟩
  | cons o os ih =>
    obtain ⟨h1, h2⟩ := kv_step_refines s m h o (hwf o (by simp))
    obtain ⟨h3, h4⟩ := ih _ _ h2 (fun op hop => hwf op (by simp [hop]))
    simp only [kvRun, specRun]
    exact ⟨by rw [h1, h3], h4⟩

theorem rel_init : Rel {} (fun _ => []) := fun _ =>
  ⟨empty_inv, by simp [Tree.comps], fun k => by simp [empty_abs, KMap.get]⟩

end Fjall.Mvcc
