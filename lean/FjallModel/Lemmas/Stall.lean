import FjallModel.Conc.Stall
namespace Fjall.Stall

/-! ### list bookkeeping -/

theorem sum_map_set {α : Type} (f : α → Nat) (l : List α) (i : Nat) (a x : α) (h : l[i]? = some x) :
    ((l.set i a).map f).sum + f x = (l.map f).sum + f a := by
  induction l generalizing i with
  | nil => simp at h
  | cons y r ih =>
    cases i with
    | zero =>
      simp only [List.getElem?_cons_zero, Option.some.injEq] at h
      subst h
      simp only [List.set_cons_zero, List.map_cons, List.sum_cons]
      omega
    | succ i =>
      simp only [List.getElem?_cons_succ] at h
      have := ih i h
      simp only [List.set_cons_succ, List.map_cons, List.sum_cons]
      omega

theorem countP_set {α : Type} (p : α → Bool) (l : List α) (i : Nat) (a x : α) (h : l[i]? = some x) :
    (l.set i a).countP p + (if p x then 1 else 0) = l.countP p + (if p a then 1 else 0) := by
  induction l generalizing i with
  | nil => simp at h
  | cons y r ih =>
    cases i with
    | zero =>
      simp only [List.getElem?_cons_zero, Option.some.injEq] at h
      subst h
      simp only [List.set_cons_zero, List.countP_cons]
      omega
    | succ i =>
      simp only [List.getElem?_cons_succ] at h
      have := ih i h
      simp only [List.set_cons_succ, List.countP_cons]
      omega

theorem getElem?_set_eq' {α : Type} (l : List α) (i j : Nat) (a : α) :
    (l.set i a)[j]? = if i = j then (if j < l.length then some a else none) else l[j]? := by
  by_cases h : i = j
  · subst h
    by_cases hl : i < l.length
    · simp [hl]
    · simp [hl]
  · simp [h, List.getElem?_set_ne h]

/-! ### phases -/

def WkPhase.flushy : WkPhase → Bool
  | .flushWait | .flushLocked | .flushing => true
  | _ => false

def WrPhase.holds : WrPhase → Bool
  | .locked | .stallingLocked => true
  | _ => false

def WkPhase.holds : WkPhase → Bool
  | .rotLocked _ | .flushLocked => true
  | _ => false

/-- remaining work of a writer, in steps: a write = lock, apply, leave the stall check, plus
    the rotation request it may queue (`8 + K` worker steps, `K = 2 · fanout` for the compactions) -/
def wrank (K : Nat) (w : Writer) : Nat :=
  match w.phase with
  | .idle => (11 + K) * w.todo.length
  | .locked => (11 + K) * w.todo.tail.length + (10 + K)
  | .stalling => (11 + K) * w.todo.tail.length + 1
  | .stallingLocked => (11 + K) * w.todo.tail.length + 1

def krank (K : Nat) : WkPhase → Nat
  | .idle => 0 | .rotWait _ => 7 + K | .rotLocked _ => 6 + K | .sendFlush => 5 + K
  | .flushWait => 3 + K | .flushLocked => 2 + K | .flushing => 1 + K | .compacting => 1

/-- work left in the whole system: every effective step lowers it -/
def rank (cfg : Cfg) (s : State) : Nat :=
  (s.writers.map (wrank (2 * cfg.fanout))).sum + (s.workers.map (krank (2 * cfg.fanout))).sum +
    (8 + 2 * cfg.fanout) * s.rotq.length + (4 + 2 * cfg.fanout) * s.fl + 2 * s.cp

/-- the code as it is (after fix F24): workers never wait for room, writers unlock before the stall check -/
def Cfg.Live (cfg : Cfg) : Prop :=
  cfg.workerBlockingSend = false ∧ cfg.unlockBeforeStall = true ∧ 1 ≤ cfg.limit

/-- per-writer facts; they depend on the rest of the state only through the lock -/
structure WOk (jl : Option Holder) (i : Nat) (w : Writer) : Prop where
  lock : w.phase.holds = true → jl = some (.w i)
  noSL : w.phase ≠ .stallingLocked
  busy : w.phase ≠ .idle → w.todo ≠ []

structure KOk (jl : Option Holder) (j : Nat) (p : WkPhase) : Prop where
  lock : p.holds = true → jl = some (.k j)
  noSend : p ≠ .sendFlush

def Holds (s : State) : Holder → Prop
  | .w i => ∃ w, s.writers[i]? = some w ∧ w.phase.holds = true
  | .k j => ∃ p, s.workers[j]? = some p ∧ p.holds = true

structure Inv (s : State) : Prop where
  wOk : ∀ (i : Nat) (w : Writer), s.writers[i]? = some w → WOk s.jlock i w
  kOk : ∀ (j : Nat) (p : WkPhase), s.workers[j]? = some p → KOk s.jlock j p
  held : ∀ y, s.jlock = some y → Holds s y
  sealedLe : s.sealed ≤ s.tasks + s.workers.countP WkPhase.flushy
  tasksLe : s.tasks ≤ s.fl

theorem init_inv (progs : List (List Bool)) (n : Nat) : Inv (init progs n) := by
  refine ⟨?_, ?_, ?_, ?_, ?_⟩
  · intro i w h
    simp only [init, List.getElem?_map] at h
    cases hp : progs[i]? with
    | none => simp [hp] at h
    | some p =>
      simp [hp] at h; subst h
      exact ⟨by simp [WrPhase.holds], by simp, by simp⟩
  · intro j p h
    simp only [init] at h
    have : p = .idle := (List.mem_replicate.mp (List.mem_of_getElem? h)).2
    subst this
    exact ⟨by simp [WkPhase.holds], by simp⟩
  · intro y h; simp [init] at h
  · simp only [init]
    have : (List.replicate n WkPhase.idle).countP WkPhase.flushy = 0 := by
      rw [List.countP_eq_zero]
      intro p hp
      have := (List.mem_replicate.mp hp).2
      subst this; simp [WkPhase.flushy]
    omega
  · simp [init]

theorem lt_of_getElem? {α : Type} {l : List α} {i : Nat} {x : α} (h : l[i]? = some x) : i < l.length :=
  (List.getElem?_eq_some_iff.mp h).1

/-- a step of writer `i` -/
theorem upd_writer (s s' : State) (i : Nat) (w w' : Writer) (h : Inv s) (hw : s.writers[i]? = some w)
    (hws : s'.writers = s.writers.set i w') (hwk : s'.workers = s.workers)
    (hse : s'.sealed = s.sealed) (hta : s'.tasks = s.tasks) (hfl : s'.fl = s.fl)
    (hok : WOk s'.jlock i w')
    (hothers : ∀ y, y ≠ Holder.w i → (s.jlock = some y ↔ s'.jlock = some y))
    (hself : s'.jlock = some (.w i) → w'.phase.holds = true) : Inv s' := by
  have hlen := lt_of_getElem? hw
  refine ⟨?_, ?_, ?_, by rw [hse, hta, hwk]; exact h.sealedLe, by rw [hta, hfl]; exact h.tasksLe⟩
  · intro i' w'' hw''
    rw [hws, getElem?_set_eq'] at hw''
    by_cases e : i = i'
    · subst e; simp [hlen] at hw''; subst hw''; exact hok
    · simp only [e, if_false] at hw''
      have ho := h.wOk i' w'' hw''
      exact ⟨fun hh => (hothers (.w i') (by simp; exact fun x => e x.symm)).mp (ho.lock hh), ho.noSL, ho.busy⟩
  · intro j p hp
    rw [hwk] at hp
    have ho := h.kOk j p hp
    exact ⟨fun hh => (hothers (.k j) (by simp)).mp (ho.lock hh), ho.noSend⟩
  · intro y hy
    by_cases e : y = .w i
    · subst e
      exact ⟨w', by rw [hws]; simp [getElem?_set_eq', hlen], hself hy⟩
    · have := h.held y ((hothers y e).mpr hy)
      cases y with
      | w i' =>
        obtain ⟨w'', h1, h2⟩ := this
        have ne : i ≠ i' := fun x => e (by rw [x])
        exact ⟨w'', by rw [hws, getElem?_set_eq']; simp [ne, h1], h2⟩
      | k j =>
        obtain ⟨p, h1, h2⟩ := this
        exact ⟨p, by rw [hwk]; exact h1, h2⟩

/-- a step of worker `j` -/
theorem upd_worker (s s' : State) (j : Nat) (p p' : WkPhase) (h : Inv s) (hp : s.workers[j]? = some p)
    (hws : s'.writers = s.writers) (hwk : s'.workers = s.workers.set j p')
    (hse : s'.sealed + (if p.flushy then 1 else 0) + s.tasks ≤ s.sealed + (if p'.flushy then 1 else 0) + s'.tasks ∨ s'.sealed = 0)
    (hta : s'.tasks ≤ s'.fl)
    (hok : KOk s'.jlock j p')
    (hothers : ∀ y, y ≠ Holder.k j → (s.jlock = some y ↔ s'.jlock = some y))
    (hself : s'.jlock = some (.k j) → p'.holds = true) : Inv s' := by
  have hlen := lt_of_getElem? hp
  refine ⟨?_, ?_, ?_, ?_, hta⟩
  · intro i w hw
    rw [hws] at hw
    have ho := h.wOk i w hw
    exact ⟨fun hh => (hothers (.w i) (by simp)).mp (ho.lock hh), ho.noSL, ho.busy⟩
  · intro j' p'' hp''
    rw [hwk, getElem?_set_eq'] at hp''
    by_cases e : j = j'
    · subst e; simp [hlen] at hp''; subst hp''; exact hok
    · simp only [e, if_false] at hp''
      have ho := h.kOk j' p'' hp''
      exact ⟨fun hh => (hothers (.k j') (by simp; exact fun x => e x.symm)).mp (ho.lock hh), ho.noSend⟩
  · intro y hy
    by_cases e : y = .k j
    · subst e
      exact ⟨p', by rw [hwk]; simp [getElem?_set_eq', hlen], hself hy⟩
    · have := h.held y ((hothers y e).mpr hy)
      cases y with
      | w i =>
        obtain ⟨w, h1, h2⟩ := this
        exact ⟨w, by rw [hws]; exact h1, h2⟩
      | k j' =>
        obtain ⟨p'', h1, h2⟩ := this
        have ne : j ≠ j' := fun x => e (by rw [x])
        exact ⟨p'', by rw [hwk, getElem?_set_eq']; simp [ne, h1], h2⟩
  · have hc := countP_set WkPhase.flushy s.workers j p' p hp
    have := h.sealedLe
    rw [hwk]
    rcases hse with hse | hse <;> omega

end Fjall.Stall

namespace Fjall.Stall

/-! ### `sendCompacts` only touches the `Compact` counter -/

theorem sendCompacts_fields (cfg : Cfg) (n : Nat) (s : State) :
    (s.sendCompacts cfg n).jlock = s.jlock ∧ (s.sendCompacts cfg n).sealed = s.sealed ∧
    (s.sendCompacts cfg n).tasks = s.tasks ∧ (s.sendCompacts cfg n).rotq = s.rotq ∧
    (s.sendCompacts cfg n).fl = s.fl ∧ (s.sendCompacts cfg n).gen = s.gen ∧
    (s.sendCompacts cfg n).over = s.over ∧ (s.sendCompacts cfg n).writers = s.writers ∧
    (s.sendCompacts cfg n).workers = s.workers ∧
    s.cp ≤ (s.sendCompacts cfg n).cp ∧ (s.sendCompacts cfg n).cp ≤ s.cp + n := by
  induction n generalizing s with
  | zero => simp [State.sendCompacts]
  | succ n ih =>
    simp only [State.sendCompacts]
    split
    · have := ih { s with cp := s.cp + 1 }
      simp only at this
      obtain ⟨h1, h2, h3, h4, h5, h6, h7, h8, h9, h10, h11⟩ := this
      exact ⟨h1, h2, h3, h4, h5, h6, h7, h8, h9, by omega, by omega⟩
    · obtain ⟨h1, h2, h3, h4, h5, h6, h7, h8, h9, h10, h11⟩ := ih s
      exact ⟨h1, h2, h3, h4, h5, h6, h7, h8, h9, h10, by omega⟩

theorem inv_sendCompacts (cfg : Cfg) (n : Nat) (s : State) (h : Inv s) : Inv (s.sendCompacts cfg n) := by
  obtain ⟨h1, h2, h3, h4, h5, _, _, h8, h9, _, _⟩ := sendCompacts_fields cfg n s
  refine ⟨?_, ?_, ?_, ?_, ?_⟩
  · intro i w hw; rw [h8] at hw; rw [h1]; exact h.wOk i w hw
  · intro j p hp; rw [h9] at hp; rw [h1]; exact h.kOk j p hp
  · intro y hy
    rw [h1] at hy
    have := h.held y hy
    cases y with
    | w i => obtain ⟨w, a, b⟩ := this; exact ⟨w, by rw [h8]; exact a, b⟩
    | k j => obtain ⟨p, a, b⟩ := this; exact ⟨p, by rw [h9]; exact a, b⟩
  · rw [h2, h3, h9]; exact h.sealedLe
  · rw [h3, h5]; exact h.tasksLe

theorem step_inv (cfg : Cfg) (hc : cfg.Live) (s : State) (tid : Tid) (h : Inv s) :
    Inv (stepT cfg s tid) := by
  obtain ⟨hbs, hub, hlim⟩ := hc
  cases tid with
  | writer i =>
    simp only [stepT]
    cases hw : s.writers[i]? with
    | none => exact h
    | some w =>
      simp only
      have hWo := h.wOk i w hw
      unfold stepWriter
      split
      · -- idle, work to do
        rename_i hph htodo
        by_cases hl : s.jlock.isNone = true
        · simp only [hl, if_true]
          have hln : s.jlock = none := by simpa using hl
          refine upd_writer s _ i w _ h hw rfl rfl rfl rfl rfl
            ⟨fun _ => rfl, by simp, by simp [htodo]⟩ ?_ (fun _ => by simp [WrPhase.holds])
          intro y hy
          simp only [hln]
          constructor
          · intro e; cases e
          · intro e; simp only [Option.some.injEq] at e; exact absurd e.symm hy
        · simp only [hl, Bool.false_eq_true, if_false]; exact h
      · exact h
      · -- locked: write, unlock, maintenance
        rename_i big tl hph htodo
        simp only [hub, if_true]
        have hlk : s.jlock = some (.w i) := hWo.lock (by rw [hph]; rfl)
        refine upd_writer s _ i w _ h hw rfl rfl rfl rfl rfl
          ⟨fun hh => by simp [WrPhase.holds] at hh, by simp, by simp [htodo]⟩ ?_ (fun e => by simp at e)
        intro y hy
        simp only [hlk, Option.some.injEq]
        constructor
        · intro e; exact absurd e.symm hy
        · intro e; cases e
      · exact h
      · -- stalling
        rename_i hph
        by_cases hs : s.sealed ≥ cfg.limit
        · simp only [hs, if_true]; exact h
        · simp only [hs, if_false]
          refine upd_writer s _ i w _ h hw rfl rfl rfl rfl rfl
            ⟨fun hh => by simp [WrPhase.holds] at hh, by simp, by simp⟩ (fun y _ => Iff.rfl) ?_
          intro e
          have := h.held _ e
          obtain ⟨w2, h1, h2⟩ := this
          rw [hw] at h1; cases h1
          rw [hph] at h2; simp [WrPhase.holds] at h2
      · rename_i hph
        exact absurd hph hWo.noSL
  | worker j pick =>
    simp only [stepT]
    cases hp : s.workers[j]? with
    | none => exact h
    | some p =>
      simp only
      have hKo := h.kOk j p hp
      have notHeld : ∀ (q : WkPhase), q.holds = false → p = q → ¬ s.jlock = some (.k j) := by
        intro q hq e hl
        obtain ⟨p2, h1, h2⟩ := h.held _ hl
        rw [hp] at h1; cases h1
        rw [e, hq] at h2; cases h2
      have releaseOthers : s.jlock = some (.k j) →
          ∀ y, y ≠ Holder.k j → (s.jlock = some y ↔ (none : Option Holder) = some y) := by
        intro hlk y hy
        simp only [hlk, Option.some.injEq]
        constructor
        · intro e; exact absurd e.symm hy
        · intro e; cases e
      have acquireOthers : s.jlock = none →
          ∀ y, y ≠ Holder.k j → (s.jlock = some y ↔ some (Holder.k j) = some y) := by
        intro hln y hy
        simp only [hln]
        constructor
        · intro e; cases e
        · intro e; simp only [Option.some.injEq] at e; exact absurd e.symm hy
      unfold stepWorker
      cases p with
      | idle =>
        simp only
        cases pick with
        | rot =>
          simp only
          cases hq : s.rotq with
          | nil => exact h
          | cons g r =>
            simp only
            refine upd_worker s _ j .idle _ h hp rfl rfl (Or.inl (by simp [WkPhase.flushy])) h.tasksLe
              ⟨fun hh => by simp [WkPhase.holds] at hh, by simp⟩ (fun y _ => Iff.rfl) ?_
            intro e; exact absurd e (notHeld .idle rfl rfl)
        | flush =>
          simp only
          by_cases h0 : s.fl > 0
          · simp only [h0, if_true]
            by_cases ht : s.tasks > 0
            · simp only [ht, if_true]
              have := h.tasksLe
              refine upd_worker s _ j .idle _ h hp rfl rfl (Or.inl (by simp [WkPhase.flushy] <;> omega)) (by simp; omega)
                ⟨fun hh => by simp [WkPhase.holds] at hh, by simp⟩ (fun y _ => Iff.rfl) ?_
              intro e; exact absurd e (notHeld .idle rfl rfl)
            · simp only [ht, if_false]
              have := h.tasksLe
              exact ⟨h.wOk, h.kOk, h.held, h.sealedLe, by simp; omega⟩
          · simp only [h0, if_false]; exact h
        | compact =>
          simp only
          by_cases h0 : s.cp > 0
          · simp only [h0, if_true]
            refine upd_worker s _ j .idle _ h hp rfl rfl (Or.inl (by simp [WkPhase.flushy])) h.tasksLe
              ⟨fun hh => by simp [WkPhase.holds] at hh, by simp⟩ (fun y _ => Iff.rfl) ?_
            intro e; exact absurd e (notHeld .idle rfl rfl)
          · simp only [h0, if_false]; exact h
      | rotWait g =>
        simp only
        by_cases hl : s.jlock.isNone = true
        · simp only [hl, if_true]
          have hln : s.jlock = none := by simpa using hl
          exact upd_worker s _ j (.rotWait g) _ h hp rfl rfl (Or.inl (by simp [WkPhase.flushy])) h.tasksLe
            ⟨fun _ => rfl, by simp⟩ (acquireOthers hln) (fun _ => by simp [WkPhase.holds])
        · simp only [hl, Bool.false_eq_true, if_false]; exact h
      | rotLocked g =>
        simp only
        have hlk : s.jlock = some (.k j) := hKo.lock rfl
        have hoth := releaseOthers hlk
        by_cases ho : g = s.gen
        · simp only [ho, if_true, hbs, Bool.false_eq_true, if_false]
          have := h.tasksLe
          by_cases hroom : State.room cfg { s with jlock := none, over := false, gen := s.gen + 1, sealed := s.sealed + 1, tasks := s.tasks + 1 } = true
          · simp only [hroom, if_true]
            refine upd_worker s _ j (.rotLocked s.gen) _ h (by rw [← ho]; exact hp) rfl rfl (Or.inl (by simp [WkPhase.flushy] <;> omega)) (by simp; omega)
              ⟨fun hh => by simp [WkPhase.holds] at hh, by simp⟩ hoth (fun e => by simp at e)
          · simp only [hroom, Bool.false_eq_true, if_false]
            refine upd_worker s _ j (.rotLocked s.gen) _ h (by rw [← ho]; exact hp) rfl rfl (Or.inl (by simp [WkPhase.flushy] <;> omega)) (by simp; omega)
              ⟨fun hh => by simp [WkPhase.holds] at hh, by simp⟩ hoth (fun e => by simp at e)
        · simp only [ho, if_false]
          exact upd_worker s _ j (.rotLocked g) _ h hp rfl rfl (Or.inl (by simp [WkPhase.flushy])) h.tasksLe
            ⟨fun hh => by simp [WkPhase.holds] at hh, by simp⟩ hoth (fun e => by simp at e)
      | sendFlush => exact absurd rfl hKo.noSend
      | flushWait =>
        simp only
        by_cases hl : s.jlock.isNone = true
        · simp only [hl, if_true]
          have hln : s.jlock = none := by simpa using hl
          exact upd_worker s _ j .flushWait _ h hp rfl rfl (Or.inl (by simp [WkPhase.flushy])) h.tasksLe
            ⟨fun _ => rfl, by simp⟩ (acquireOthers hln) (fun _ => by simp [WkPhase.holds])
        · simp only [hl, Bool.false_eq_true, if_false]; exact h
      | flushLocked =>
        simp only
        have hlk : s.jlock = some (.k j) := hKo.lock rfl
        exact upd_worker s _ j .flushLocked _ h hp rfl rfl (Or.inl (by simp [WkPhase.flushy])) h.tasksLe
          ⟨fun hh => by simp [WkPhase.holds] at hh, by simp⟩ (releaseOthers hlk) (fun e => by simp at e)
      | flushing =>
        simp only
        apply inv_sendCompacts
        refine upd_worker s _ j .flushing _ h hp rfl rfl (Or.inr rfl) h.tasksLe
          ⟨fun hh => by simp [WkPhase.holds] at hh, by simp⟩ (fun y _ => Iff.rfl) ?_
        intro e; exact absurd e (notHeld .flushing rfl rfl)
      | compacting =>
        simp only
        refine upd_worker s _ j .compacting _ h hp rfl rfl (Or.inl (by simp [WkPhase.flushy])) h.tasksLe
          ⟨fun hh => by simp [WkPhase.holds] at hh, by simp⟩ (fun y _ => Iff.rfl) ?_
        intro e; exact absurd e (notHeld .compacting rfl rfl)

theorem run_inv (cfg : Cfg) (hc : cfg.Live) (s : State) (sched : List Tid) (h : Inv s) :
    Inv (run cfg s sched) := by
  induction sched generalizing s with
  | nil => exact h
  | cons t ts ih => exact ih _ (step_inv cfg hc s t h)

end Fjall.Stall
