import FjallModel.Lemmas.Stall
namespace Fjall.Stall

/-! ### enabledness, and the rank every enabled step lowers -/

def wEnabled (cfg : Cfg) (s : State) (w : Writer) : Bool :=
  match w.phase, w.todo with
  | .idle, _ :: _ => s.jlock.isNone
  | .idle, [] => false
  | .locked, _ :: _ => true
  | .locked, [] => false
  | .stalling, _ => decide (s.sealed < cfg.limit)
  | .stallingLocked, _ => decide (s.sealed < cfg.limit)

def kEnabled (cfg : Cfg) (s : State) (pick : Pick) : WkPhase → Bool
  | .idle => match pick with
    | .rot => !s.rotq.isEmpty
    | .flush => decide (s.fl > 0)
    | .compact => decide (s.cp > 0)
  | .rotWait _ => s.jlock.isNone
  | .flushWait => s.jlock.isNone
  | .sendFlush => s.room cfg
  | _ => true

/-- the thread's next step changes the state (it is not waiting for a lock, a message, room in
    the channel, or a flush) -/
def enabled (cfg : Cfg) (s : State) : Tid → Bool
  | .writer i => match s.writers[i]? with
    | some w => wEnabled cfg s w
    | none => false
  | .worker j pick => match s.workers[j]? with
    | some p => kEnabled cfg s pick p
    | none => false

theorem step_noop (cfg : Cfg) (s : State) (tid : Tid) (h : enabled cfg s tid = false) :
    stepT cfg s tid = s := by
  cases tid with
  | writer i =>
    simp only [stepT, enabled] at *
    cases hw : s.writers[i]? with
    | none => rfl
    | some w =>
      simp only [hw] at h ⊢
      unfold wEnabled at h
      unfold stepWriter
      split
      · rename_i hph htodo
        rw [hph, htodo] at h; simp only at h
        simp [h]
      · rfl
      · rename_i hph htodo
        rw [hph, htodo] at h; simp at h
      · rfl
      · rename_i hph
        rw [hph] at h
        simp only [decide_eq_false_iff_not, Nat.not_lt] at h
        simp [h]
      · rename_i hph
        rw [hph] at h
        simp only [decide_eq_false_iff_not, Nat.not_lt] at h
        simp [h]
  | worker j pick =>
    simp only [stepT, enabled] at *
    cases hp : s.workers[j]? with
    | none => rfl
    | some p =>
      simp only [hp] at h ⊢
      unfold stepWorker
      cases p with
      | idle =>
        simp only [kEnabled] at h
        simp only
        cases pick with
        | rot =>
          simp only at h ⊢
          cases hq : s.rotq with
          | nil => rfl
          | cons g r => rw [hq] at h; simp at h
        | flush =>
          simp only [decide_eq_false_iff_not] at h ⊢
          simp [h]
        | compact =>
          simp only [decide_eq_false_iff_not] at h ⊢
          simp [h]
      | rotWait g => simp only [kEnabled] at h; simp [h]
      | rotLocked g => simp [kEnabled] at h
      | sendFlush => simp only [kEnabled] at h; simp [h]
      | flushWait => simp only [kEnabled] at h; simp [h]
      | flushLocked => simp [kEnabled] at h
      | flushing => simp [kEnabled] at h
      | compacting => simp [kEnabled] at h

theorem rank_sendCompacts (cfg : Cfg) (n : Nat) (s : State) :
    rank cfg (s.sendCompacts cfg n) ≤ rank cfg s + 2 * n := by
  obtain ⟨_, _, _, h4, h5, _, _, h8, h9, _, h11⟩ := sendCompacts_fields cfg n s
  simp only [rank, h4, h5, h8, h9]
  omega

theorem step_rank (cfg : Cfg) (hc : cfg.Live) (s : State) (tid : Tid) (h : Inv s)
    (he : enabled cfg s tid = true) : rank cfg (stepT cfg s tid) < rank cfg s := by
  obtain ⟨hbs, hub, hlim⟩ := hc
  generalize hK : 2 * cfg.fanout = K
  have hrank : ∀ st : State, rank cfg st = (st.writers.map (wrank K)).sum + (st.workers.map (krank K)).sum +
      (8 + K) * st.rotq.length + (4 + K) * st.fl + 2 * st.cp := by
    intro st; simp only [rank, hK]
  cases tid with
  | writer i =>
    simp only [stepT, enabled] at *
    cases hw : s.writers[i]? with
    | none => simp [hw] at he
    | some w =>
      simp only [hw] at he ⊢
      have hWo := h.wOk i w hw
      unfold wEnabled at he
      unfold stepWriter
      split
      · rename_i b tl hph htodo
        rw [hph, htodo] at he
        simp only at he
        simp only [he, if_true, hrank]
        have := sum_map_set (wrank K) s.writers i { w with phase := .locked } w hw
        have e1 : wrank K w = (11 + K) * tl.length + (11 + K) := by
          simp [wrank, hph, htodo, Nat.mul_succ]
        have e2 : wrank K { w with phase := .locked } = (11 + K) * tl.length + (10 + K) := by simp [wrank, htodo]
        rw [e1, e2] at this
        omega
      · rename_i hph htodo
        rw [hph, htodo] at he; simp at he
      · rename_i big tl hph htodo
        simp only [hub, if_true, hrank]
        have := sum_map_set (wrank K) s.writers i { w with phase := .stalling } w hw
        have e1 : wrank K w = (11 + K) * tl.length + (10 + K) := by simp [wrank, hph, htodo]
        have e2 : wrank K { w with phase := .stalling } = (11 + K) * tl.length + 1 := by simp [wrank, htodo]
        rw [e1, e2] at this
        split
        · simp only [List.length_append, List.length_singleton, Nat.mul_succ]; omega
        · omega
      · rename_i hph htodo
        rw [hph, htodo] at he; simp at he
      · rename_i hph
        rw [hph] at he
        simp only [decide_eq_true_eq] at he
        have hs : ¬ s.sealed ≥ cfg.limit := by omega
        simp only [hs, if_false, hrank]
        have := sum_map_set (wrank K) s.writers i { todo := w.todo.tail, phase := .idle } w hw
        have e1 : wrank K w = (11 + K) * w.todo.tail.length + 1 := by simp [wrank, hph]
        have e2 : wrank K { todo := w.todo.tail, phase := .idle } = (11 + K) * w.todo.tail.length := by simp [wrank]
        rw [e1, e2] at this
        omega
      · rename_i hph
        exact absurd hph hWo.noSL
  | worker j pick =>
    simp only [stepT, enabled] at *
    cases hp : s.workers[j]? with
    | none => simp [hp] at he
    | some p =>
      simp only [hp] at he ⊢
      have hKo := h.kOk j p hp
      unfold stepWorker
      cases p with
      | idle =>
        simp only [kEnabled] at he
        simp only
        cases pick with
        | rot =>
          simp only at he ⊢
          cases hq : s.rotq with
          | nil => rw [hq] at he; simp at he
          | cons g r =>
            simp only [hrank, hq, List.length_cons, Nat.mul_succ]
            have := sum_map_set (krank K) s.workers j (.rotWait g) .idle hp
            simp only [krank] at this
            omega
        | flush =>
          simp only [decide_eq_true_eq] at he ⊢
          simp only [he, if_true]
          obtain ⟨f', hf'⟩ : ∃ f', s.fl = f' + 1 := ⟨s.fl - 1, by omega⟩
          split
          · simp only [hrank, hf', Nat.add_sub_cancel, Nat.mul_succ]
            have := sum_map_set (krank K) s.workers j .flushWait .idle hp
            simp only [krank] at this
            omega
          · simp only [hrank, hf', Nat.add_sub_cancel, Nat.mul_succ]; omega
        | compact =>
          simp only [decide_eq_true_eq] at he ⊢
          simp only [he, if_true, hrank]
          have := sum_map_set (krank K) s.workers j .compacting .idle hp
          simp only [krank] at this
          omega
      | rotWait g =>
        simp only [kEnabled] at he
        simp only [he, if_true, hrank]
        have := sum_map_set (krank K) s.workers j (.rotLocked g) (.rotWait g) hp
        simp only [krank] at this
        omega
      | rotLocked g =>
        simp only
        split
        · simp only [hbs, Bool.false_eq_true, if_false]
          split
          · simp only [hrank, Nat.mul_succ]
            have := sum_map_set (krank K) s.workers j .idle (.rotLocked g) hp
            simp only [krank] at this
            omega
          · simp only [hrank]
            have := sum_map_set (krank K) s.workers j .flushWait (.rotLocked g) hp
            simp only [krank] at this
            omega
        · simp only [hrank]
          have := sum_map_set (krank K) s.workers j .idle (.rotLocked g) hp
          simp only [krank] at this
          omega
      | sendFlush => exact absurd rfl hKo.noSend
      | flushWait =>
        simp only [kEnabled] at he
        simp only [he, if_true, hrank]
        have := sum_map_set (krank K) s.workers j .flushLocked .flushWait hp
        simp only [krank] at this
        omega
      | flushLocked =>
        simp only [hrank]
        have := sum_map_set (krank K) s.workers j .flushing .flushLocked hp
        simp only [krank] at this
        omega
      | flushing =>
        simp only
        have hle := rank_sendCompacts cfg cfg.fanout { s with sealed := 0, workers := s.workers.set j .idle }
        have hin : rank cfg { s with sealed := 0, workers := s.workers.set j .idle } + (1 + K) = rank cfg s := by
          simp only [hrank]
          have := sum_map_set (krank K) s.workers j .idle .flushing hp
          simp only [krank] at this
          omega
        omega
      | compacting =>
        simp only [hrank]
        have := sum_map_set (krank K) s.workers j .idle .compacting hp
        simp only [krank] at this
        omega

/-- number of steps of the schedule that changed the state -/
def effSteps (cfg : Cfg) (s : State) : List Tid → Nat
  | [] => 0
  | t :: ts => (if enabled cfg s t then 1 else 0) + effSteps cfg (stepT cfg s t) ts

theorem effSteps_le (cfg : Cfg) (hc : cfg.Live) (s : State) (sched : List Tid) (h : Inv s) :
    effSteps cfg s sched + rank cfg (run cfg s sched) ≤ rank cfg s := by
  induction sched generalizing s with
  | nil => simp [effSteps, run]
  | cons t ts ih =>
    simp only [effSteps, run, List.foldl_cons]
    have ih' := ih (stepT cfg s t) (step_inv cfg hc s t h)
    simp only [run] at ih'
    by_cases he : enabled cfg s t = true
    · have := step_rank cfg hc s t h he
      simp only [he, if_true]
      omega
    · have he' : enabled cfg s t = false := by simpa using he
      have hs := step_noop cfg s t he'
      simp only [he', Bool.false_eq_true, if_false]
      rw [hs] at ih' ⊢
      omega

/-- **No deadlock**: while some writer still has work, some thread's next step is effective. -/
theorem progress (cfg : Cfg) (hc : cfg.Live) (s : State) (h : Inv s) (hwk : s.workers ≠ [])
    (hnd : s.done = false) : ∃ tid, enabled cfg s tid = true := by
  obtain ⟨hbs, hub, hlim⟩ := hc
  cases hj : s.jlock with
  | some y =>
    cases y with
    | w i =>
      obtain ⟨w, hw, hh⟩ := h.held _ hj
      have hWo := h.wOk i w hw
      refine ⟨.writer i, ?_⟩
      simp only [enabled, hw, wEnabled]
      cases hph : w.phase with
      | idle => rw [hph] at hh; simp [WrPhase.holds] at hh
      | stalling => rw [hph] at hh; simp [WrPhase.holds] at hh
      | stallingLocked => exact absurd hph hWo.noSL
      | locked =>
        have := hWo.busy (by rw [hph]; simp)
        cases htd : w.todo with
        | nil => exact absurd htd this
        | cons b tl => rfl
    | k j =>
      obtain ⟨p, hp, hh⟩ := h.held _ hj
      refine ⟨.worker j .flush, ?_⟩
      simp only [enabled, hp]
      cases p <;> simp_all [WkPhase.holds, kEnabled]
  | none =>
    by_cases hA : ∃ (i : Nat) (w : Writer), s.writers[i]? = some w ∧ w.phase = .idle ∧ w.todo ≠ []
    · obtain ⟨i, w, hw, hph, htd⟩ := hA
      refine ⟨.writer i, ?_⟩
      simp only [enabled, hw, wEnabled, hph]
      cases htd' : w.todo with
      | nil => exact absurd htd' htd
      | cons b tl => simp [hj]
    by_cases hB : ∃ (j : Nat) (p : WkPhase), s.workers[j]? = some p ∧ p ≠ .idle
    · obtain ⟨j, p, hp, hne⟩ := hB
      have hKo := h.kOk j p hp
      refine ⟨.worker j .flush, ?_⟩
      simp only [enabled, hp]
      cases p with
      | idle => exact absurd rfl hne
      | rotWait g => simp [kEnabled, hj]
      | rotLocked g => have := hKo.lock rfl; rw [hj] at this; cases this
      | sendFlush => exact absurd rfl hKo.noSend
      | flushWait => simp [kEnabled, hj]
      | flushLocked => have := hKo.lock rfl; rw [hj] at this; cases this
      | flushing => rfl
      | compacting => rfl
    -- nobody holds the lock, no idle writer has work, all workers are idle
    have hex : ∃ w ∈ s.writers, w.todo.isEmpty = false := by
      simp only [State.done, List.all_eq_false] at hnd
      obtain ⟨w, hw, hh⟩ := hnd
      exact ⟨w, hw, by simpa using hh⟩
    obtain ⟨w, hwm, hte⟩ := hex
    obtain ⟨i, hi, hwi⟩ := List.getElem_of_mem hwm
    have hw : s.writers[i]? = some w := by rw [List.getElem?_eq_getElem hi, hwi]
    have hWo := h.wOk i w hw
    have htd : w.todo ≠ [] := by intro e; rw [e] at hte; simp at hte
    have hst : w.phase = .stalling := by
      cases hph : w.phase with
      | idle => exact absurd ⟨i, w, hw, hph, htd⟩ hA
      | locked => have := hWo.lock (by rw [hph]; rfl); rw [hj] at this; cases this
      | stalling => rfl
      | stallingLocked => exact absurd hph hWo.noSL
    by_cases hs : s.sealed < cfg.limit
    · exact ⟨.writer i, by simp [enabled, hw, wEnabled, hst, hs]⟩
    · -- halted: a flush must be pending, and an idle worker can take it
      have hall : ∀ p ∈ s.workers, p = WkPhase.idle := by
        intro p hp
        obtain ⟨j, hjl, hjp⟩ := List.getElem_of_mem hp
        by_cases e : p = .idle
        · exact e
        · exact absurd ⟨j, p, by rw [List.getElem?_eq_getElem hjl, hjp], e⟩ hB
      have hc0 : s.workers.countP WkPhase.flushy = 0 := by
        rw [List.countP_eq_zero]
        intro p hp
        rw [hall p hp]; simp [WkPhase.flushy]
      have hse := h.sealedLe
      have htl := h.tasksLe
      have hfl : s.fl > 0 := by omega
      cases hws : s.workers with
      | nil => exact absurd hws hwk
      | cons p0 rest =>
        have hp0 : p0 = .idle := hall p0 (by rw [hws]; simp)
        refine ⟨.worker 0 .flush, ?_⟩
        simp [enabled, hws, hp0, kEnabled, hfl]

end Fjall.Stall
