import FjallModel.Lemmas.Stall
namespace Fjall.Stall

/-! ### enabledness, and the rank every enabled step lowers -/

def wEnabled (cfg : Cfg) (s : State) (w : Writer) : Bool :=
  match w.phase, w.todo with
  | .idle, _ :: _ => s.jlock.isNone
  | .idle, [] => false
  | .locked, _ :: _ => true
  | .locked, [] => false
  | .stalling, _ => decide (s.sealed < cfg.limit)
  | .stallingLocked, _ => decide (s.sealed < cfg.limit)

def kEnabled (cfg : Cfg) (s : State) (pickRot : Bool) : WkPhase → Bool
  | .idle => if pickRot then decide (s.rot > 0) else decide (s.fl > 0)
  | .rotWait => s.jlock.isNone
  | .flushWait => s.jlock.isNone
  | .sendFlush => s.room cfg
  | _ => true

/-- the thread's next step changes the state (it is not waiting for a lock, a message, room in
    the channel, or a flush) -/
def enabled (cfg : Cfg) (s : State) : Tid → Bool
  | .writer i => match s.writers[i]? with
    | some w => wEnabled cfg s w
    | none => false
  | .worker j pickRot => match s.workers[j]? with
    | some p => kEnabled cfg s pickRot p
    | none => false

theorem step_noop (cfg : Cfg) (s : State) (tid : Tid) (h : enabled cfg s tid = false) :
    stepT cfg s tid = s := by
  cases tid with
  | writer i =>
    simp only [stepT, enabled] at *
    cases hw : s.writers[i]? with
    | none => rfl
    | some w =>
      simp only [hw] at h ⊢
      unfold wEnabled at h
      unfold stepWriter
      split
      · rename_i hph htodo
        rw [hph, htodo] at h; simp only at h
        simp [h]
      · rfl
      · rename_i hph htodo
        rw [hph, htodo] at h; simp at h
      · rfl
      · rename_i hph
        rw [hph] at h
        simp only [decide_eq_false_iff_not, Nat.not_lt] at h
        simp [h]
      · rename_i hph
        rw [hph] at h
        simp only [decide_eq_false_iff_not, Nat.not_lt] at h
        simp [h]
  | worker j pickRot =>
    simp only [stepT, enabled] at *
    cases hp : s.workers[j]? with
    | none => rfl
    | some p =>
      simp only [hp] at h ⊢
      unfold stepWorker
      cases p with
      | idle =>
        simp only [kEnabled] at h
        simp only
        by_cases hr : pickRot = true
        · simp only [hr, if_true, decide_eq_false_iff_not] at h ⊢
          simp [h]
        · simp only [hr, Bool.false_eq_true, if_false, decide_eq_false_iff_not] at h ⊢
          simp [h]
      | rotWait => simp only [kEnabled] at h; simp [h]
      | rotLocked => simp [kEnabled] at h
      | sendFlush => simp only [kEnabled] at h; simp [h]
      | flushWait => simp only [kEnabled] at h; simp [h]
      | flushLocked => simp [kEnabled] at h
      | flushing => simp [kEnabled] at h

theorem step_rank (cfg : Cfg) (hc : cfg.Live) (s : State) (tid : Tid) (h : Inv s)
    (he : enabled cfg s tid = true) : rank (stepT cfg s tid) < rank s := by
  obtain ⟨hbs, hub, hlim⟩ := hc
  cases tid with
  | writer i =>
    simp only [stepT, enabled] at *
    cases hw : s.writers[i]? with
    | none => simp [hw] at he
    | some w =>
      simp only [hw] at he ⊢
      have hWo := h.wOk i w hw
      unfold wEnabled at he
      unfold stepWriter
      split
      · rename_i b tl hph htodo
        rw [hph, htodo] at he
        simp only at he
        simp only [he, if_true, rank]
        have := sum_map_set wrank s.writers i { w with phase := .locked } w hw
        have e1 : wrank w = 11 * (tl.length + 1) := by simp [wrank, hph, htodo]
        have e2 : wrank { w with phase := .locked } = 11 * tl.length + 10 := by simp [wrank, htodo]
        rw [e1, e2] at this
        omega
      · rename_i hph htodo
        rw [hph, htodo] at he; simp at he
      · rename_i big tl hph htodo
        simp only [hub, if_true, rank]
        have := sum_map_set wrank s.writers i { w with phase := .stalling } w hw
        have e1 : wrank w = 11 * tl.length + 10 := by simp [wrank, hph, htodo]
        have e2 : wrank { w with phase := .stalling } = 11 * tl.length + 1 := by simp [wrank, htodo]
        rw [e1, e2] at this
        split <;> omega
      · rename_i hph htodo
        rw [hph, htodo] at he; simp at he
      · rename_i hph
        rw [hph] at he
        simp only [decide_eq_true_eq] at he
        have hs : ¬ s.sealed ≥ cfg.limit := by omega
        simp only [hs, if_false, rank]
        have hne := hWo.busy (by rw [hph]; simp)
        have := sum_map_set wrank s.writers i { todo := w.todo.tail, phase := .idle } w hw
        have e1 : wrank w = 11 * w.todo.tail.length + 1 := by simp [wrank, hph]
        have e2 : wrank { todo := w.todo.tail, phase := .idle } = 11 * w.todo.tail.length := by simp [wrank]
        rw [e1, e2] at this
        omega
      · rename_i hph
        exact absurd hph hWo.noSL
  | worker j pickRot =>
    simp only [stepT, enabled] at *
    cases hp : s.workers[j]? with
    | none => simp [hp] at he
    | some p =>
      simp only [hp] at he ⊢
      have hKo := h.kOk j p hp
      unfold stepWorker
      cases p with
      | idle =>
        simp only [kEnabled] at he
        simp only
        by_cases hr : pickRot = true
        · simp only [hr, if_true, decide_eq_true_eq] at he ⊢
          simp only [he, if_true, rank]
          have := sum_map_set krank s.workers j .rotWait .idle hp
          simp only [krank] at this
          omega
        · simp only [hr, Bool.false_eq_true, if_false, decide_eq_true_eq] at he ⊢
          simp only [he, if_true]
          split
          · simp only [rank]
            have := sum_map_set krank s.workers j .flushWait .idle hp
            simp only [krank] at this
            omega
          · simp only [rank]; omega
      | rotWait =>
        simp only [kEnabled] at he
        simp only [he, if_true, rank]
        have := sum_map_set krank s.workers j .rotLocked .rotWait hp
        simp only [krank] at this
        omega
      | rotLocked =>
        simp only
        split
        · simp only [hbs, Bool.false_eq_true, if_false]
          split
          · simp only [rank]
            have := sum_map_set krank s.workers j .idle .rotLocked hp
            simp only [krank] at this
            omega
          · simp only [rank]
            have := sum_map_set krank s.workers j .flushWait .rotLocked hp
            simp only [krank] at this
            omega
        · simp only [rank]
          have := sum_map_set krank s.workers j .idle .rotLocked hp
          simp only [krank] at this
          omega
      | sendFlush => exact absurd rfl hKo.noSend
      | flushWait =>
        simp only [kEnabled] at he
        simp only [he, if_true, rank]
        have := sum_map_set krank s.workers j .flushLocked .flushWait hp
        simp only [krank] at this
        omega
      | flushLocked =>
        simp only [rank]
        have := sum_map_set krank s.workers j .flushing .flushLocked hp
        simp only [krank] at this
        omega
      | flushing =>
        simp only [rank]
        have := sum_map_set krank s.workers j .idle .flushing hp
        simp only [krank] at this
        omega

end Fjall.Stall

namespace Fjall.Stall

/-- number of steps of the schedule that changed the state -/
def effSteps (cfg : Cfg) (s : State) : List Tid → Nat
  | [] => 0
  | t :: ts => (if enabled cfg s t then 1 else 0) + effSteps cfg (stepT cfg s t) ts

theorem effSteps_le (cfg : Cfg) (hc : cfg.Live) (s : State) (sched : List Tid) (h : Inv s) :
    effSteps cfg s sched + rank (run cfg s sched) ≤ rank s := by
  induction sched generalizing s with
  | nil => simp [effSteps, run]
  | cons t ts ih =>
    simp only [effSteps, run, List.foldl_cons]
    have ih' := ih (stepT cfg s t) (step_inv cfg hc s t h)
    simp only [run] at ih'
    by_cases he : enabled cfg s t = true
    · have := step_rank cfg hc s t h he
      simp only [he, if_true]
      omega
    · have he' : enabled cfg s t = false := by simpa using he
      have hs := step_noop cfg s t he'
      simp only [he', Bool.false_eq_true, if_false]
      rw [hs] at ih' ⊢
      omega

/-- **No deadlock**: while some writer still has work, some thread's next step is effective. -/
theorem progress (cfg : Cfg) (hc : cfg.Live) (s : State) (h : Inv s) (hwk : s.workers ≠ [])
    (hnd : s.done = false) : ∃ tid, enabled cfg s tid = true := by
  obtain ⟨hbs, hub, hlim⟩ := hc
  cases hj : s.jlock with
  | some y =>
    cases y with
    | w i =>
      obtain ⟨w, hw, hh⟩ := h.held _ hj
      have hWo := h.wOk i w hw
      refine ⟨.writer i, ?_⟩
      simp only [enabled, hw, wEnabled]
      cases hph : w.phase with
      | idle => rw [hph] at hh; simp [WrPhase.holds] at hh
      | stalling => rw [hph] at hh; simp [WrPhase.holds] at hh
      | stallingLocked => exact absurd hph hWo.noSL
      | locked =>
        have := hWo.busy (by rw [hph]; simp)
        cases htd : w.todo with
        | nil => exact absurd htd this
        | cons b tl => rfl
    | k j =>
      obtain ⟨p, hp, hh⟩ := h.held _ hj
      refine ⟨.worker j false, ?_⟩
      simp only [enabled, hp]
      cases p <;> simp_all [WkPhase.holds, kEnabled]
  | none =>
    by_cases hA : ∃ (i : Nat) (w : Writer), s.writers[i]? = some w ∧ w.phase = .idle ∧ w.todo ≠ []
    · obtain ⟨i, w, hw, hph, htd⟩ := hA
      refine ⟨.writer i, ?_⟩
      simp only [enabled, hw, wEnabled, hph]
      cases htd' : w.todo with
      | nil => exact absurd htd' htd
      | cons b tl => simp [hj]
    by_cases hB : ∃ (j : Nat) (p : WkPhase), s.workers[j]? = some p ∧ p ≠ .idle
    · obtain ⟨j, p, hp, hne⟩ := hB
      have hKo := h.kOk j p hp
      refine ⟨.worker j false, ?_⟩
      simp only [enabled, hp]
      cases p with
      | idle => exact absurd rfl hne
      | rotWait => simp [kEnabled, hj]
      | rotLocked => have := hKo.lock rfl; rw [hj] at this; cases this
      | sendFlush => exact absurd rfl hKo.noSend
      | flushWait => simp [kEnabled, hj]
      | flushLocked => have := hKo.lock rfl; rw [hj] at this; cases this
      | flushing => rfl
    -- nobody holds the lock, no idle writer has work, all workers are idle
    have hex : ∃ w ∈ s.writers, w.todo.isEmpty = false := by
      simp only [State.done, List.all_eq_false] at hnd
      obtain ⟨w, hw, hh⟩ := hnd
      exact ⟨w, hw, by simpa using hh⟩
    obtain ⟨w, hwm, hte⟩ := hex
    obtain ⟨i, hi, hwi⟩ := List.getElem_of_mem hwm
    have hw : s.writers[i]? = some w := by rw [List.getElem?_eq_getElem hi, hwi]
    have hWo := h.wOk i w hw
    have htd : w.todo ≠ [] := by intro e; rw [e] at hte; simp at hte
    have hst : w.phase = .stalling := by
      cases hph : w.phase with
      | idle => exact absurd ⟨i, w, hw, hph, htd⟩ hA
      | locked => have := hWo.lock (by rw [hph]; rfl); rw [hj] at this; cases this
      | stalling => rfl
      | stallingLocked => exact absurd hph hWo.noSL
    by_cases hs : s.sealed < cfg.limit
    · exact ⟨.writer i, by simp [enabled, hw, wEnabled, hst, hs]⟩
    · -- halted: a flush must be pending, and an idle worker can take it
      have hall : ∀ p ∈ s.workers, p = WkPhase.idle := by
        intro p hp
        obtain ⟨j, hjl, hjp⟩ := List.getElem_of_mem hp
        by_cases e : p = .idle
        · exact e
        · exact absurd ⟨j, p, by rw [List.getElem?_eq_getElem hjl, hjp], e⟩ hB
      have hc0 : s.workers.countP WkPhase.flushy = 0 := by
        rw [List.countP_eq_zero]
        intro p hp
        rw [hall p hp]; simp [WkPhase.flushy]
      have hse := h.sealedEq
      have htl := h.tasksLe
      have hfl : s.fl > 0 := by omega
      cases hws : s.workers with
      | nil => exact absurd hws hwk
      | cons p0 rest =>
        have hp0 : p0 = .idle := hall p0 (by rw [hws]; simp)
        refine ⟨.worker 0 false, ?_⟩
        simp [enabled, hws, hp0, kEnabled, hfl]

end Fjall.Stall
