import FjallModel.Lemmas.DbLog
namespace Fjall.Db
open Fjall Fjall.Spec

theorem find_map_id (kss : List KsL) (f : KsL → KsL) (hf : ∀ k, (f k).id = k.id) (id : KsId) :
    (kss.map f).find? (·.id = id) = (kss.find? (·.id = id)).map f := by
  induction kss with
  | nil => rfl
  | cons k r ih =>
    simp only [List.map_cons, List.find?_cons, hf]
    split
    · rfl
    · exact ih

theorem updKs_kss (db : DbL) (id : KsId) (f : KsL → KsL) :
    (db.updKs id f).kss = db.kss.map fun k => if k.id = id then f k else k := rfl

theorem write_kss (db : DbL) (items : List (KsId × LOp)) :
    (db.write items).kss = db.kss.map fun k =>
      replayKs k (items.map fun (ks, op) => (⟨db.seqno, ks, op, false⟩ : Rec)) := by
  simp only [DbL.write, foldl_replayRec]

theorem write_active (db : DbL) (items : List (KsId × LOp)) :
    (db.write items).active.recs = db.active.recs ++ items.map fun (ks, op) => (⟨db.seqno, ks, op, false⟩ : Rec) := rfl

theorem write_misc (db : DbL) (items : List (KsId × LOp)) :
    (db.write items).sealed = db.sealed ∧ (db.write items).nextKsId = db.nextKsId := ⟨rfl, rfl⟩

theorem lookup_none (l : List KsL) (id : KsId) (h : id ∉ l.map (·.id)) :
    (l.filterMap fun k => k.persisted.map fun p => (k.id, p)).lookup id = none := by
  induction l with
  | nil => rfl
  | cons a r ih =>
    simp only [List.map_cons, List.mem_cons, not_or] at h
    simp only [List.filterMap_cons]
    cases hp : a.persisted with
    | none => simp only [Option.map_none]; exact ih h.2
    | some p =>
      simp only [Option.map_some, List.lookup_cons]
      have : (id == a.id) = false := by simp [h.1]
      rw [this]; exact ih h.2

/-- the table of highest persisted seqnos taken before replay, looked up for a live keyspace -/
theorem lookup_pb (l : List KsL) (hnd : (l.map (·.id)).Nodup) (k : KsL) (hk : k ∈ l) :
    (l.filterMap fun k => k.persisted.map fun p => (k.id, p)).lookup k.id = k.persisted := by
  induction l with
  | nil => simp at hk
  | cons a r ih =>
    simp only [List.map_cons, List.nodup_cons] at hnd
    simp only [List.filterMap_cons]
    simp only [List.mem_cons] at hk
    rcases hk with rfl | hk
    · cases hp : k.persisted with
      | none => simp only [Option.map_none]; exact lookup_none r k.id hnd.1
      | some p => simp [List.lookup_cons]
    · have hne : (k.id == a.id) = false := by
        simp only [beq_eq_false_iff_ne, ne_eq]
        intro he
        exact hnd.1 (by rw [← he]; exact List.mem_map.mpr ⟨k, hk, rfl⟩)
      cases hp : a.persisted with
      | none => simp only [Option.map_none]; exact ih hnd.2 hk
      | some p => simp only [Option.map_some, List.lookup_cons, hne]; exact ih hnd.2 hk

def pbOf (db : DbL) : List (KsId × Nat) := db.kss.filterMap fun k => k.persisted.map fun p => (k.id, p)

theorem foldl_max_ge (l : List Nat) (a : Nat) : a ≤ l.foldl max a ∧ ∀ x ∈ l, x ≤ l.foldl max a := by
  induction l generalizing a with
  | nil => simp
  | cons y r ih =>
    obtain ⟨h1, h2⟩ := ih (max a y)
    simp only [List.foldl_cons]
    refine ⟨by omega, fun x hx => ?_⟩
    simp at hx
    rcases hx with rfl | hx
    · omega
    · exact h2 x hx

theorem recover_nextKsId (db : DbL) :
    (∀ k ∈ db.kss, k.id < db.recover.nextKsId) ∧ (∀ r ∈ db.active.recs, r.ks < db.recover.nextKsId) ∧
    (∀ j ∈ db.sealed, ∀ r ∈ j.recs, r.ks < db.recover.nextKsId) := by
  simp only [DbL.recover]
  have := foldl_max_ge ((db.kss.map (·.id)) ++ (db.sealed.flatMap fun j => j.recs.map (·.ks)) ++ db.active.recs.map (·.ks)) 1
  refine ⟨fun k hk => ?_, fun r hr => ?_, fun j hj r hr => ?_⟩
  · have := this.2 k.id (by simp; left; exact ⟨k, hk, rfl⟩)
    exact Nat.lt_succ_of_le this
  · have := this.2 r.ks (by simp; right; right; exact ⟨r, hr, rfl⟩)
    exact Nat.lt_succ_of_le this
  · have := this.2 r.ks (by simp; right; left; exact ⟨j, hj, r, hr, rfl⟩)
    exact Nat.lt_succ_of_le this


end Fjall.Db
