import FjallModel.Lemmas.Torn
namespace Fjall.Journal
open Fjall

variable (p : Params) (c : Codec) (h : Bytes → Nat)

/-- the reader state after `bs` complete batches, starting from a fresh reader -/
def afterBatches (bs : List WBatch) : RState :=
  if bs = [] then {} else cleanAt (lastSeqno 0 bs) (encodeBatches p c h bs).length

theorem afterBatches_clean (bs : List WBatch) : (afterBatches p c h bs).Clean := by
  unfold afterBatches
  split
  · simp [RState.Clean]
  · exact cleanAt_clean _ _

theorem afterBatches_pos (bs : List WBatch) :
    (afterBatches p c h bs).pos = (encodeBatches p c h bs).length := by
  unfold afterBatches
  split
  · rename_i hb; subst hb; simp [encodeBatches]
  · rfl

/-- reading a journal that starts with complete batches `bs`: they come out first, then the
    reader continues on the tail from a clean state -/
theorem readJournal_prefix (hp : p.Valid) (hc : c.Law) (hh : ∀ x, h x < 2^64) (bs : List WBatch)
    (hbs : ∀ b ∈ bs, b.WF c) (tail : Bytes) :
    ∃ fuel, readJournal p c h (encodeBatches p c h bs ++ tail) =
      (readLoop p c h (encodeBatches p c h bs ++ tail).length fuel (afterBatches p c h bs) tail).prepend
        (bs.map WBatch.toBatch) := by
  have hf := fuelFor_le p c h bs
  obtain ⟨f, hfeq⟩ : ∃ f, (encodeBatches p c h bs ++ tail).length + 1 = f + fuelFor bs :=
    ⟨(encodeBatches p c h bs ++ tail).length + 1 - fuelFor bs, by
      simp only [List.length_append]; omega⟩
  refine ⟨f, ?_⟩
  unfold readJournal
  rw [hfeq, readLoop_batches p c h _ hp hc hh bs hbs {} (by simp [RState.Clean])]
  simp only [afterBatches, Nat.zero_add]

end Fjall.Journal
