/-
  The journal folder across rotations (C09): which journal files exist after a power loss.
  Helper lemmas; the property theorems are in Props/C09.lean.
-/
import FjallModel.Lemmas.Writer
namespace Fjall.Journal
open Fjall

/-- at an operation boundary: every journal file created so far has a durable directory entry, the
    sealed files are synced as a whole, and (unless an error stopped the database) the writer holds
    no buffered bytes while it believes it is clean -/
structure JDb.FilesOk (db : JDb) : Prop where
  winv : db.poisoned = false → (db.w.dirty = false → db.w.buf = [])
  dir : db.dirDurable = db.created
  count : db.created = db.sealed.length + 1
  whole : ∀ p ∈ db.sealed, p.2 = p.1.length
  cfg : db.rotateSyncsFolder = true

theorem filesOk_of_w (db : JDb) (h : db.FilesOk) (w : Writer) (p : Bool)
    (hw : p = false → (w.dirty = false → w.buf = [])) :
    ({ db with w := w, poisoned := p } : JDb).FilesOk :=
  ⟨hw, h.dir, h.count, h.whole, h.cfg⟩

theorem writePieces_inv (w : Writer) (ps : List Bytes) :
    (w.writePieces ps).1.dirty = false → (w.writePieces ps).1.buf = [] := by
  intro hd
  rw [writePieces_dirty] at hd
  exact absurd hd (by simp)

theorem persist_inv (w : Writer) (m : PersistMode) (hinv : w.dirty = false → w.buf = [])
    (h : (w.persist m).2 = .ok) : (w.persist m).1.dirty = false → (w.persist m).1.buf = [] := by
  intro _
  cases m with
  | buffer => exact persist_buffer_ok w hinv h
  | syncData => exact (persist_sync_ok w .syncData (by simp) hinv h).1
  | syncAll => exact (persist_sync_ok w .syncAll (by simp) hinv h).1

theorem jstep_filesOk (db : JDb) (op : JOp) (h : db.FilesOk) : (jstep db op).1.FilesOk := by
  by_cases hp : db.poisoned = true
  · by_cases he : op.isEmptyBatch = true
    · cases op with
      | batch pieces dur =>
        have : pieces.isEmpty = true := by simpa [JOp.isEmptyBatch] using he
        simpa [jstep, this] using h
      | single _ => simp [JOp.isEmptyBatch] at he
      | clear _ => simp [JOp.isEmptyBatch] at he
      | persist _ => simp [JOp.isEmptyBatch] at he
      | rotate => simp [JOp.isEmptyBatch] at he
    · rw [jstep_poisoned db op hp (by simpa using he)]; exact h
  · have hp' : db.poisoned = false := by simpa using hp
    cases op with
    | single pieces =>
      cases hw : db.w.writePieces pieces with
      | mk w rw =>
        have hwi : w.dirty = false → w.buf = [] := by
          have := writePieces_inv db.w pieces
          rw [hw] at this; exact this
        cases rw with
        | err => simpa [jstep, hp', hw] using filesOk_of_w db h w true (by simp)
        | ok =>
          by_cases hm : db.manual = true
          · simpa [jstep, hp', hw, hm] using filesOk_of_w db h w db.poisoned (fun _ => hwi)
          · cases hq : w.persist .buffer with
            | mk w' rq =>
              cases rq with
              | err => simpa [jstep, hp', hw, hm, hq] using filesOk_of_w db h w' true (by simp)
              | ok =>
                have := persist_inv w .buffer hwi (by rw [hq])
                rw [hq] at this
                simpa [jstep, hp', hw, hm, hq] using filesOk_of_w db h w' db.poisoned (fun _ => this)
    | clear pieces =>
      cases hw : db.w.writePieces pieces with
      | mk w rw =>
        have hwi : w.dirty = false → w.buf = [] := by
          have := writePieces_inv db.w pieces
          rw [hw] at this; exact this
        cases rw with
        | err => simpa [jstep, hp', hw] using filesOk_of_w db h w true (by simp)
        | ok =>
          by_cases hm : db.manual = true
          · simpa [jstep, hp', hw, hm] using filesOk_of_w db h w db.poisoned (fun _ => hwi)
          · cases hq : w.persist .buffer with
            | mk w' rq =>
              cases rq with
              | err => simpa [jstep, hp', hw, hm, hq] using filesOk_of_w db h w' true (by simp)
              | ok =>
                have := persist_inv w .buffer hwi (by rw [hq])
                rw [hq] at this
                simpa [jstep, hp', hw, hm, hq] using filesOk_of_w db h w' db.poisoned (fun _ => this)
    | batch pieces dur =>
      by_cases he : pieces.isEmpty = true
      · simpa [jstep, he] using h
      · cases hw : db.w.writePieces pieces with
        | mk w rw =>
          have hwi : w.dirty = false → w.buf = [] := by
            have := writePieces_inv db.w pieces
            rw [hw] at this; exact this
          cases rw with
          | err => simpa [jstep, hp', he, hw] using filesOk_of_w db h w true (by simp)
          | ok =>
            cases dur with
            | none => simpa [jstep, hp', he, hw] using filesOk_of_w db h w db.poisoned (fun _ => hwi)
            | some m =>
              cases hq : w.persist m with
              | mk w' rq =>
                cases rq with
                | err => simpa [jstep, hp', he, hw, hq] using filesOk_of_w db h w' true (by simp)
                | ok =>
                  have := persist_inv w m hwi (by rw [hq])
                  rw [hq] at this
                  simpa [jstep, hp', he, hw, hq] using filesOk_of_w db h w' db.poisoned (fun _ => this)
    | persist m =>
      have hwi := h.winv hp'
      cases hq : db.w.persist m with
      | mk w' rq =>
        cases rq with
        | err => simpa [jstep, hp', hq] using filesOk_of_w db h w' true (by simp)
        | ok =>
          have := persist_inv db.w m hwi (by rw [hq])
          rw [hq] at this
          simpa [jstep, hp', hq] using filesOk_of_w db h w' db.poisoned (fun _ => this)
    | rotate =>
      have hwi := h.winv hp'
      cases hq : db.w.persist .syncAll with
      | mk w' rq =>
        cases rq with
        | err => simpa [jstep, hp', hq] using filesOk_of_w db h w' true (by simp)
        | ok =>
          have hok := persist_sync_ok db.w .syncAll (by simp) hwi (by rw [hq])
          rw [hq] at hok
          simp only at hok
          have hc := h.cfg
          refine ⟨?_, ?_, ?_, ?_, ?_⟩
          · intro _ hd
            simp [jstep, hp', hq] at hd ⊢
            exact hok.1
          · simp [jstep, hp', hq, hc]
          · simp [jstep, hp', hq, h.count]
          · intro p hpm
            simp [jstep, hp', hq] at hpm
            rcases hpm with hpm | hpm
            · exact h.whole p hpm
            · rw [hpm]; exact hok.2.1
          · simp [jstep, hp', hq, hc]

theorem jrun_filesOk (db : JDb) (ops : List JOp) (h : db.FilesOk) : (jrun db ops).1.FilesOk := by
  induction ops generalizing db with
  | nil => simpa [jrun] using h
  | cons o os ih =>
    simp only [jrun]
    exact ih _ (jstep_filesOk db o h)

/-- under `FilesOk` a power loss leaves every journal file: the sealed ones whole -/
theorem powerLossFiles_of_filesOk (db : JDb) (h : db.FilesOk) :
    db.powerLossFiles = db.sealed.map (·.1) ++ [db.w.os.take db.w.synced] := by
  unfold JDb.powerLossFiles
  have hlen : ((db.sealed.map fun p => p.1.take p.2) ++ [db.w.os.take db.w.synced]).length = db.dirDurable := by
    simp [h.dir, h.count]
  rw [← hlen, List.take_length]
  congr 1
  apply List.map_congr_left
  intro p hp
  rw [h.whole p hp, List.take_length]

end Fjall.Journal
