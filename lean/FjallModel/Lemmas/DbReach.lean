import FjallModel.Lemmas.DbLog
namespace Fjall.Db
open Fjall Fjall.Spec

/-- operations of a database whose journal has not been rotated (no sealed journals) -/
inductive DOp
  | createKs (name : String)
  | deleteKs (id : KsId)
  | write (items : List (KsId × LOp))
  | rotate (id : KsId)
  | flushSealed (id : KsId)
  | lowerPersisted (id : KsId) (v : Option Nat)
  /-- clean close + open, or process crash + open: with the default journal persist mode the
      files are the same in both cases -/
  | reopen
  deriving Repr, DecidableEq

def dstep (db : DbL) : DOp → DbL
  | .createKs n => (db.createKs n).1
  | .deleteKs id => db.deleteKs id
  | .write items => db.write items
  | .rotate id => db.rotate id
  | .flushSealed id => db.flushSealed id
  | .lowerPersisted id v => db.lowerPersisted id v
  | .reopen => db.recover

/-- writes go through live handles only (deleted handles refuse writes) -/
def DOp.WF (db : DbL) : DOp → Prop
  | .write items => ∀ it ∈ items, ∃ k ∈ db.kss, k.id = it.1
  | _ => True

instance (db : DbL) (op : DOp) : Decidable (op.WF db) := by
  cases op <;> simp only [DOp.WF] <;> infer_instance

def recsOf (db : DbL) (id : KsId) : List Rec := db.active.recs.filter fun r => r.ks = id

structure DInv (db : DbL) : Prop where
  noSealed : db.sealed = []
  nodup : (db.kss.map (·.id)).Nodup
  idsBelow : ∀ k ∈ db.kss, k.id < db.nextKsId
  recsBelow : ∀ r ∈ db.active.recs, r.ks < db.nextKsId
  cov : ∀ k ∈ db.kss, Cov k (recsOf db k.id)

theorem find_map_id (kss : List KsL) (f : KsL → KsL) (hf : ∀ k, (f k).id = k.id) (id : KsId) :
    (kss.map f).find? (·.id = id) = (kss.find? (·.id = id)).map f := by
  induction kss with
  | nil => rfl
  | cons k r ih =>
    simp only [List.map_cons, List.find?_cons, hf]
    split
    · rfl
    · exact ih

theorem updKs_kss (db : DbL) (id : KsId) (f : KsL → KsL) :
    (db.updKs id f).kss = db.kss.map fun k => if k.id = id then f k else k := rfl

theorem write_kss (db : DbL) (items : List (KsId × LOp)) :
    (db.write items).kss = db.kss.map fun k =>
      replayKs k (items.map fun (ks, op) => (⟨db.seqno, ks, op⟩ : Rec)) := by
  simp only [DbL.write, foldl_replayRec]

theorem write_active (db : DbL) (items : List (KsId × LOp)) :
    (db.write items).active.recs = db.active.recs ++ items.map fun (ks, op) => (⟨db.seqno, ks, op⟩ : Rec) := rfl

theorem write_misc (db : DbL) (items : List (KsId × LOp)) :
    (db.write items).sealed = db.sealed ∧ (db.write items).nextKsId = db.nextKsId := ⟨rfl, rfl⟩

theorem recover_kss_noSealed (db : DbL) (h : db.sealed = []) :
    db.recover.kss = db.kss.map fun k => replayKs { k with sealedMem := [], mem := [] } db.active.recs := by
  simp only [DbL.recover, h, List.foldl_nil, foldl_replayRec, List.map_map]
  rfl

theorem recover_misc_noSealed (db : DbL) (h : db.sealed = []) :
    db.recover.sealed = [] ∧ db.recover.active = db.active := by
  simp [DbL.recover, h]

theorem foldl_max_ge (l : List Nat) (a : Nat) : a ≤ l.foldl max a ∧ ∀ x ∈ l, x ≤ l.foldl max a := by
  induction l generalizing a with
  | nil => simp
  | cons y r ih =>
    obtain ⟨h1, h2⟩ := ih (max a y)
    simp only [List.foldl_cons]
    refine ⟨by omega, fun x hx => ?_⟩
    simp at hx
    rcases hx with rfl | hx
    · omega
    · exact h2 x hx

theorem recover_nextKsId (db : DbL) :
    (∀ k ∈ db.kss, k.id < db.recover.nextKsId) ∧ (∀ r ∈ db.active.recs, r.ks < db.recover.nextKsId) ∧
    (∀ j ∈ db.sealed, ∀ r ∈ j.recs, r.ks < db.recover.nextKsId) := by
  simp only [DbL.recover]
  have := foldl_max_ge ((db.kss.map (·.id)) ++ (db.sealed.flatMap fun j => j.recs.map (·.ks)) ++ db.active.recs.map (·.ks)) 1
  refine ⟨fun k hk => ?_, fun r hr => ?_, fun j hj r hr => ?_⟩
  · have := this.2 k.id (by simp; left; exact ⟨k, hk, rfl⟩)
    exact Nat.lt_succ_of_le this
  · have := this.2 r.ks (by simp; right; right; exact ⟨r, hr, rfl⟩)
    exact Nat.lt_succ_of_le this
  · have := this.2 r.ks (by simp; right; left; exact ⟨j, hj, r, hr, rfl⟩)
    exact Nat.lt_succ_of_le this

theorem dinv_init : DInv {} := by
  refine ⟨rfl, by simp, by simp, by simp, by simp⟩

theorem filter_append_recs (a b : List Rec) (id : KsId) :
    (a ++ b).filter (fun r => r.ks = id) = a.filter (fun r => r.ks = id) ++ b.filter (fun r => r.ks = id) := by
  simp

theorem upd_inv (db : DbL) (id : KsId) (f : KsL → KsL) (h : DInv db) (hid : ∀ k, (f k).id = k.id)
    (hc : ∀ k rk, Cov k rk → Cov (f k) rk) : DInv (db.updKs id f) := by
  obtain ⟨hs, hnd, hib, hrb, hcov⟩ := h
  refine ⟨hs, ?_, ?_, hrb, ?_⟩
  · simp only [updKs_kss, List.map_map]
    have : ((fun (x : KsL) => x.id) ∘ fun k => if k.id = id then f k else k) = fun k => k.id := by
      funext k; simp only [Function.comp]; split
      · exact hid k
      · rfl
    rw [this]; exact hnd
  · intro k hk
    simp only [updKs_kss] at hk
    obtain ⟨k0, hk0, rfl⟩ := List.mem_map.mp hk
    have := hib k0 hk0
    simp only [DbL.updKs]
    split
    · rw [hid]; exact this
    · exact this
  · intro k hk
    simp only [updKs_kss] at hk
    obtain ⟨k0, hk0, rfl⟩ := List.mem_map.mp hk
    have hc0 := hcov k0 hk0
    simp only [recsOf, DbL.updKs]
    split
    · rw [hid]; exact hc _ _ hc0
    · exact hc0

theorem dstep_inv (db : DbL) (op : DOp) (h : DInv db) (hwf : op.WF db) : DInv (dstep db op) := by
  obtain ⟨hs, hnd, hib, hrb, hcov⟩ := h
  cases op with
  | createKs n =>
    simp only [dstep, DbL.createKs]
    split
    · exact ⟨hs, hnd, hib, hrb, hcov⟩
    · refine ⟨hs, ?_, ?_, ?_, ?_⟩
      · simp only [List.map_append, List.map_cons, List.map_nil]
        rw [List.nodup_append]
        refine ⟨hnd, by simp, ?_⟩
        intro a ha b hb
        simp at hb ha
        obtain ⟨k, hk, rfl⟩ := ha
        have := hib k hk
        rw [hb]
        exact Nat.ne_of_lt this
      · intro k hk
        simp at hk
        rcases hk with hk | rfl
        · exact Nat.lt_succ_of_lt (hib k hk)
        · exact Nat.lt_succ_self _
      · intro r hr; exact Nat.lt_succ_of_lt (hrb r hr)
      · intro k hk
        simp at hk
        rcases hk with hk | rfl
        · exact hcov k hk
        · -- a fresh id has no journal records
          have : recsOf db db.nextKsId = [] := by
            simp only [recsOf, List.filter_eq_nil_iff]
            intro r hr
            have := hrb r hr
            simp only [decide_eq_true_eq]
            intro heq
            rw [heq] at this
            exact Nat.lt_irrefl _ this
          simp only [recsOf] at this ⊢
          rw [this]
          exact ⟨by simp, Or.inr ⟨by simp, [], [], by simp, by simp⟩⟩
  | deleteKs id =>
    simp only [dstep, DbL.deleteKs]
    refine ⟨hs, ?_, ?_, hrb, ?_⟩
    · exact List.Nodup.sublist (List.Sublist.map _ List.filter_sublist) hnd
    · intro k hk; exact hib k (List.mem_filter.mp hk).1
    · intro k hk; exact hcov k (List.mem_filter.mp hk).1
  | write items =>
    have hk := write_kss db items
    have ha := write_active db items
    obtain ⟨hsl, hni⟩ := write_misc db items
    simp only [dstep]
    refine ⟨by rw [hsl]; exact hs, ?_, ?_, ?_, ?_⟩
    · rw [hk, List.map_map]
      have : ((fun (x : KsL) => x.id) ∘ fun k => replayKs k (items.map fun (ks, op) => (⟨db.seqno, ks, op⟩ : Rec)))
          = fun k => k.id := by funext k; simp [replayKs_id]
      rw [this]; exact hnd
    · intro k hkm
      rw [hk] at hkm
      obtain ⟨k0, hk0, rfl⟩ := List.mem_map.mp hkm
      rw [replayKs_id, hni]; exact hib k0 hk0
    · intro r hr
      rw [ha] at hr
      rw [hni]
      simp only [List.mem_append, List.mem_map] at hr
      rcases hr with hr | ⟨it, hit, rfl⟩
      · exact hrb r hr
      · obtain ⟨k, hkk, hid⟩ := hwf it hit
        simp only
        rw [← hid]; exact hib k hkk
    · intro k hkm
      rw [hk] at hkm
      obtain ⟨k0, hk0, rfl⟩ := List.mem_map.mp hkm
      simp only [recsOf, ha, replayKs_id, filter_append_recs]
      exact cov_replay k0 _ _ (hcov k0 hk0)
  | rotate id =>
    exact upd_inv db id sealMem ⟨hs, hnd, hib, hrb, hcov⟩ (by intro k; unfold sealMem; split <;> rfl)
      (fun k rk hc => cov_rotate k rk hc)
  | flushSealed id =>
    simp only [dstep, DbL.flushSealed]
    split
    · exact ⟨hs, hnd, hib, hrb, hcov⟩
    · split
      · exact ⟨hs, hnd, hib, hrb, hcov⟩
      · have := upd_inv db id KsL.flushSealed ⟨hs, hnd, hib, hrb, hcov⟩ (fun k => rfl)
          (fun k rk hc => cov_flushSealed k rk none hc)
        exact ⟨this.noSealed, this.nodup, this.idsBelow, this.recsBelow, this.cov⟩
  | lowerPersisted id v =>
    exact upd_inv db id (·.lowerPersisted v) ⟨hs, hnd, hib, hrb, hcov⟩
      (by intro k; simp only [KsL.lowerPersisted]; split <;> (try split) <;> rfl)
      (by intro k rk hc; simp only [KsL.lowerPersisted]; split <;> (try split) <;> exact hc)
  | reopen =>
    simp only [dstep]
    have hk := recover_kss_noSealed db hs
    obtain ⟨hsl, hact⟩ := recover_misc_noSealed db hs
    obtain ⟨n1, n2, _⟩ := recover_nextKsId db
    refine ⟨hsl, ?_, ?_, ?_, ?_⟩
    · rw [hk, List.map_map]
      have : ((fun (x : KsL) => x.id) ∘ fun (k : KsL) => replayKs { k with sealedMem := [], mem := [] } db.active.recs)
          = fun k => k.id := by funext k; simp [replayKs_id]
      rw [this]; exact hnd
    · intro k hkm
      rw [hk] at hkm
      obtain ⟨k0, hk0, rfl⟩ := List.mem_map.mp hkm
      rw [replayKs_id]; exact n1 k0 hk0
    · intro r hr; rw [hact] at hr; exact n2 r hr
    · intro k hkm
      rw [hk] at hkm
      obtain ⟨k0, hk0, rfl⟩ := List.mem_map.mp hkm
      simp only [recsOf, hact, replayKs_id]
      exact cov_recovered k0 _ (hcov k0 hk0)

def drun (db : DbL) : List DOp → DbL
  | [] => db
  | o :: os => drun (dstep db o) os

/-- every operation sequence whose writes go through live handles -/
def ProgWF (db : DbL) : List DOp → Prop
  | [] => True
  | o :: os => o.WF db ∧ ProgWF (dstep db o) os

instance progWFDec : (db : DbL) → (ops : List DOp) → Decidable (ProgWF db ops)
  | _, [] => isTrue trivial
  | db, o :: os =>
    match (inferInstance : Decidable (o.WF db)), progWFDec (dstep db o) os with
    | isTrue h1, isTrue h2 => isTrue ⟨h1, h2⟩
    | isFalse h1, _ => isFalse fun h => h1 h.1
    | _, isFalse h2 => isFalse fun h => h2 h.2

theorem drun_inv (db : DbL) (ops : List DOp) (h : DInv db) (hwf : ProgWF db ops) : DInv (drun db ops) := by
  induction ops generalizing db with
  | nil => exact h
  | cons o os ih => exact ih _ (dstep_inv db o h hwf.1) hwf.2

/-- reopening reproduces the content of every keyspace -/
theorem recover_abs (db : DbL) (h : DInv db) (id : KsId) : (db.recover.absOf id).Equiv (db.absOf id) := by
  simp only [DbL.absOf, DbL.find]
  rw [recover_kss_noSealed db h.noSealed]
  rw [find_map_id _ _ (fun k => by simp [replayKs_id])]
  cases hf : db.kss.find? (·.id = id) with
  | none => exact KMap.Equiv.refl _
  | some k =>
    simp only [Option.map_some]
    have hk := List.mem_of_find?_eq_some hf
    exact recover_ks_abs k db.active.recs (h.cov k hk)

end Fjall.Db
