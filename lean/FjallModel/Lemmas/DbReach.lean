import FjallModel.Lemmas.DbLog
namespace Fjall.Db
open Fjall Fjall.Spec

/-- operations of a database whose journal has not been rotated (no sealed journals) -/
inductive DOp
  | createKs (name : String)
  | deleteKs (id : KsId)
  | write (items : List (KsId × LOp))
  | rotate (id : KsId)
  | flushSealed (id : KsId)
  | lowerPersisted (id : KsId) (v : Option Nat)
  | ingest (id : KsId) (items : List (Key × Option Val))
  /-- clean close + open, or process crash + open: with the default journal persist mode the
      files are the same in both cases -/
  | reopen
  deriving Repr, DecidableEq

def dstep (db : DbL) : DOp → DbL
  | .createKs n => (db.createKs n).1
  | .deleteKs id => db.deleteKs id
  | .write items => db.write items
  | .rotate id => db.rotate id
  | .flushSealed id => db.flushSealed id
  | .lowerPersisted id v => db.lowerPersisted id v
  | .ingest id items => db.ingest id items
  | .reopen => db.recover

/-- writes go through live handles only (deleted handles refuse writes); the observed highest
    persisted seqno respects what the table files physically guarantee (`KsL.physOk`);
    bulk ingestion carries values only (ingested tombstones: known finding F13) -/
def DOp.WF (db : DbL) : DOp → Prop
  | .write items => ∀ it ∈ items, ∃ k ∈ db.kss, k.id = it.1
  | .lowerPersisted id v => ∀ k ∈ db.kss, k.id = id → (k.lowerPersisted v).physOk = true
  | .ingest _ items => ∀ it ∈ items, it.2.isSome = true
  | _ => True

instance (db : DbL) (op : DOp) : Decidable (op.WF db) := by
  cases op <;> simp only [DOp.WF] <;> infer_instance

def recsOf (db : DbL) (id : KsId) : List Rec := db.active.recs.filter fun r => r.ks = id

structure DInv (db : DbL) : Prop where
  noSealed : db.sealed = []
  nodup : (db.kss.map (·.id)).Nodup
  idsBelow : ∀ k ∈ db.kss, k.id < db.nextKsId
  recsBelow : ∀ r ∈ db.active.recs, r.ks < db.nextKsId
  seqJ : ∀ r ∈ db.active.recs, r.seqno < db.seqno
  seqT : ∀ k ∈ db.kss, ∀ t ∈ k.tables, t.seqno < db.seqno
  cov : ∀ k ∈ db.kss, Cov k (recsOf db k.id)

theorem find_map_id (kss : List KsL) (f : KsL → KsL) (hf : ∀ k, (f k).id = k.id) (id : KsId) :
    (kss.map f).find? (·.id = id) = (kss.find? (·.id = id)).map f := by
  induction kss with
  | nil => rfl
  | cons k r ih =>
    simp only [List.map_cons, List.find?_cons, hf]
    split
    · rfl
    · exact ih

theorem updKs_kss (db : DbL) (id : KsId) (f : KsL → KsL) :
    (db.updKs id f).kss = db.kss.map fun k => if k.id = id then f k else k := rfl

theorem write_kss (db : DbL) (items : List (KsId × LOp)) :
    (db.write items).kss = db.kss.map fun k =>
      replayKs k (items.map fun (ks, op) => (⟨db.seqno, ks, op, false⟩ : Rec)) := by
  simp only [DbL.write, foldl_replayRec]

theorem write_active (db : DbL) (items : List (KsId × LOp)) :
    (db.write items).active.recs = db.active.recs ++ items.map fun (ks, op) => (⟨db.seqno, ks, op, false⟩ : Rec) := rfl

theorem write_misc (db : DbL) (items : List (KsId × LOp)) :
    (db.write items).sealed = db.sealed ∧ (db.write items).nextKsId = db.nextKsId := ⟨rfl, rfl⟩

theorem lookup_none (l : List KsL) (id : KsId) (h : id ∉ l.map (·.id)) :
    (l.filterMap fun k => k.persisted.map fun p => (k.id, p)).lookup id = none := by
  induction l with
  | nil => rfl
  | cons a r ih =>
    simp only [List.map_cons, List.mem_cons, not_or] at h
    simp only [List.filterMap_cons]
    cases hp : a.persisted with
    | none => simp only [Option.map_none]; exact ih h.2
    | some p =>
      simp only [Option.map_some, List.lookup_cons]
      have : (id == a.id) = false := by simp [h.1]
      rw [this]; exact ih h.2

/-- the table of highest persisted seqnos taken before replay, looked up for a live keyspace -/
theorem lookup_pb (l : List KsL) (hnd : (l.map (·.id)).Nodup) (k : KsL) (hk : k ∈ l) :
    (l.filterMap fun k => k.persisted.map fun p => (k.id, p)).lookup k.id = k.persisted := by
  induction l with
  | nil => simp at hk
  | cons a r ih =>
    simp only [List.map_cons, List.nodup_cons] at hnd
    simp only [List.filterMap_cons]
    simp only [List.mem_cons] at hk
    rcases hk with rfl | hk
    · cases hp : k.persisted with
      | none => simp only [Option.map_none]; exact lookup_none r k.id hnd.1
      | some p => simp [List.lookup_cons]
    · have hne : (k.id == a.id) = false := by
        simp only [beq_eq_false_iff_ne, ne_eq]
        intro he
        exact hnd.1 (by rw [← he]; exact List.mem_map.mpr ⟨k, hk, rfl⟩)
      cases hp : a.persisted with
      | none => simp only [Option.map_none]; exact ih hnd.2 hk
      | some p => simp only [Option.map_some, List.lookup_cons, hne]; exact ih hnd.2 hk

def pbOf (db : DbL) : List (KsId × Nat) := db.kss.filterMap fun k => k.persisted.map fun p => (k.id, p)

theorem recover_kss_noSealed (db : DbL) (h : db.sealed = []) :
    db.recover.kss = db.kss.map fun k =>
      replayKs { k with sealedMem := [], mem := [] } (db.active.recs.filter (needsReplay (pbOf db))) := by
  simp only [DbL.recover, h, List.foldl_nil, foldl_replayRec, List.map_map, pbOf, List.filterMap_map]
  rfl

/-- for a live keyspace the skip rule keeps exactly the records above its highest persisted seqno -/
theorem replay_filter_ks (db : DbL) (hnd : (db.kss.map (·.id)).Nodup) (k : KsL) (hk : k ∈ db.kss) :
    (db.active.recs.filter (needsReplay (pbOf db))).filter (fun r => r.ks = k.id)
      = (recsOf db k.id).filter (above k.persisted) := by
  simp only [recsOf, List.filter_filter]
  apply List.filter_congr
  intro r _
  by_cases hr : r.ks = k.id
  · simp only [hr, decide_true, Bool.true_and, Bool.and_true, needsReplay, pbOf]
    rw [lookup_pb db.kss hnd k hk]
  · simp [hr]

theorem recover_ks_eq (db : DbL) (hnd : (db.kss.map (·.id)).Nodup) (k : KsL) (hk : k ∈ db.kss) :
    replayKs { k with sealedMem := [], mem := [] } (db.active.recs.filter (needsReplay (pbOf db)))
      = replayKs { k with sealedMem := [], mem := [] } ((recsOf db k.id).filter (above k.persisted)) := by
  rw [replayKs_filter]
  simp only
  rw [replay_filter_ks db hnd k hk]

theorem recover_misc_noSealed (db : DbL) (h : db.sealed = []) :
    db.recover.sealed = [] ∧ db.recover.active = db.active := by
  simp [DbL.recover, h]

theorem foldl_max_ge (l : List Nat) (a : Nat) : a ≤ l.foldl max a ∧ ∀ x ∈ l, x ≤ l.foldl max a := by
  induction l generalizing a with
  | nil => simp
  | cons y r ih =>
    obtain ⟨h1, h2⟩ := ih (max a y)
    simp only [List.foldl_cons]
    refine ⟨by omega, fun x hx => ?_⟩
    simp at hx
    rcases hx with rfl | hx
    · omega
    · exact h2 x hx

theorem recover_nextKsId (db : DbL) :
    (∀ k ∈ db.kss, k.id < db.recover.nextKsId) ∧ (∀ r ∈ db.active.recs, r.ks < db.recover.nextKsId) ∧
    (∀ j ∈ db.sealed, ∀ r ∈ j.recs, r.ks < db.recover.nextKsId) := by
  simp only [DbL.recover]
  have := foldl_max_ge ((db.kss.map (·.id)) ++ (db.sealed.flatMap fun j => j.recs.map (·.ks)) ++ db.active.recs.map (·.ks)) 1
  refine ⟨fun k hk => ?_, fun r hr => ?_, fun j hj r hr => ?_⟩
  · have := this.2 k.id (by simp; left; exact ⟨k, hk, rfl⟩)
    exact Nat.lt_succ_of_le this
  · have := this.2 r.ks (by simp; right; right; exact ⟨r, hr, rfl⟩)
    exact Nat.lt_succ_of_le this
  · have := this.2 r.ks (by simp; right; left; exact ⟨j, hj, r, hr, rfl⟩)
    exact Nat.lt_succ_of_le this

/-- the seqno counter after recovery is above every seqno in the recovered trees and in every
    journal record -/
theorem recover_seqno (db : DbL) :
    (∀ k ∈ db.recover.kss, ∀ t ∈ k.tables ++ k.sealedMem ++ k.mem, t.seqno < db.recover.seqno) ∧
    (∀ r ∈ db.active.recs, r.seqno < db.recover.seqno) := by
  simp only [DbL.recover]
  generalize hk2 : List.foldl replayRec _ _ = kss2
  generalize hall : ((kss2.flatMap fun k => (k.tables ++ k.sealedMem ++ k.mem).map (·.seqno)) ++
    (db.sealed.flatMap fun j => j.recs.map (·.seqno)) ++ db.active.recs.map (·.seqno)) = all
  have hge := foldl_max_ge all 0
  have key : ∀ x ∈ all, x < (if (!all.isEmpty) = true then all.foldl max 0 + 1 else 0) := by
    intro x hx
    have hne : all.isEmpty = false := by cases all <;> simp_all
    simp only [hne, Bool.not_false, if_true]
    exact Nat.lt_succ_of_le (hge.2 x hx)
  refine ⟨fun k hk t ht => key _ ?_, fun r hr => key _ ?_⟩
  · rw [← hall]; simp only [List.mem_append, List.mem_flatMap, List.mem_map]
    left; left; exact ⟨k, hk, t, by simp only [List.mem_append] at ht ⊢; exact ht, rfl⟩
  · rw [← hall]; simp only [List.mem_append, List.mem_map]
    right; exact ⟨r, hr, rfl⟩

theorem dinv_init : DInv {} := by
  refine ⟨rfl, by simp, by simp, by simp, by simp, by simp, by simp⟩

theorem filter_append_recs (a b : List Rec) (id : KsId) :
    (a ++ b).filter (fun r => r.ks = id) = a.filter (fun r => r.ks = id) ++ b.filter (fun r => r.ks = id) := by
  simp

theorem recsOf_ks (db : DbL) (id : KsId) : ∀ r ∈ recsOf db id, r.ks = id := by
  intro r hr; simpa using (List.mem_filter.mp hr).2

theorem cov_mem_sub (k : KsL) (rk : List Rec) (h : Cov k rk) : ∀ x ∈ k.sealedMem ++ k.mem, x ∈ rk := by
  obtain ⟨A, F1, Y, N, hrk, _, hmem, _⟩ := h.struct
  intro x hx
  rw [hmem] at hx; rw [hrk]
  simp only [List.mem_append] at hx ⊢
  rcases hx with hx | hx
  · right; left; right; exact hx
  · right; right; exact hx

/-- a per-keyspace update that keeps coverage; the seqno counter may move up to `n'` -/
theorem upd_inv (db : DbL) (id : KsId) (f : KsL → KsL) (n' : Nat) (h : DInv db) (hn : db.seqno ≤ n')
    (hid : ∀ k, (f k).id = k.id)
    (hc : ∀ k ∈ db.kss, k.id = id → Cov (f k) (recsOf db k.id))
    (hT : ∀ k ∈ db.kss, k.id = id → ∀ t ∈ (f k).tables, t.seqno < n') :
    DInv { (db.updKs id f) with seqno := n' } := by
  obtain ⟨hs, hnd, hib, hrb, hsj, hst, hcov⟩ := h
  refine ⟨hs, ?_, ?_, hrb, ?_, ?_, ?_⟩
  · simp only [updKs_kss, List.map_map]
    have : ((fun (x : KsL) => x.id) ∘ fun k => if k.id = id then f k else k) = fun k => k.id := by
      funext k; simp only [Function.comp]; split
      · exact hid k
      · rfl
    rw [this]; exact hnd
  · intro k hk
    simp only [updKs_kss] at hk
    obtain ⟨k0, hk0, rfl⟩ := List.mem_map.mp hk
    have := hib k0 hk0
    simp only [DbL.updKs]
    split
    · rw [hid]; exact this
    · exact this
  · intro r hr; exact Nat.lt_of_lt_of_le (hsj r hr) hn
  · intro k hk t ht
    simp only [updKs_kss] at hk
    obtain ⟨k0, hk0, rfl⟩ := List.mem_map.mp hk
    split at ht
    · rename_i hi; exact hT k0 hk0 hi t ht
    · exact Nat.lt_of_lt_of_le (hst k0 hk0 t ht) hn
  · intro k hk
    simp only [updKs_kss] at hk
    obtain ⟨k0, hk0, rfl⟩ := List.mem_map.mp hk
    have hc0 := hcov k0 hk0
    simp only [recsOf, DbL.updKs]
    split
    · rename_i hi; rw [hid]; exact hc k0 hk0 hi
    · exact hc0

theorem upd_eta (db : DbL) (id : KsId) (f : KsL → KsL) : { (db.updKs id f) with seqno := db.seqno } = db.updKs id f := rfl

theorem rotate_inv (db : DbL) (id : KsId) (h : DInv db) : DInv (db.rotate id) := by
  have := upd_inv db id sealMem db.seqno h (Nat.le_refl _) (by intro k; unfold sealMem; split <;> rfl)
    (fun k hk _ => cov_rotate k _ (h.cov k hk))
    (fun k hk _ t ht => h.seqT k hk t (by unfold sealMem at ht; split at ht <;> exact ht))
  exact this

theorem flushSealed_tables_sub (k : KsL) : ∀ t ∈ k.flushSealed.tables, t ∈ k.tables ∨ t ∈ k.sealedMem := by
  intro t ht
  simp only [KsL.flushSealed, List.mem_append, List.mem_filter] at ht
  rcases ht with ht | ⟨ht, _⟩
  · left; exact ht
  · right; exact ht

theorem flushSealed_inv (db : DbL) (id : KsId) (h : DInv db) : DInv (db.flushSealed id) := by
  unfold DbL.flushSealed
  split
  · exact upd_inv db id KsL.flushSealed (db.seqno + 1) h (Nat.le_succ _) (fun k => rfl)
      (fun k hk _ => cov_flushSealed k _ (h.cov k hk))
      (fun k hk _ t ht => by
        rcases flushSealed_tables_sub k t ht with h1 | h1
        · exact Nat.lt_succ_of_lt (h.seqT k hk t h1)
        · have := cov_mem_sub k _ (h.cov k hk) t (by simp [h1])
          exact Nat.lt_succ_of_lt (h.seqJ t (List.mem_filter.mp this).1))
  · exact h

/-- after `flush` the keyspace holds nothing in memory -/
theorem flush_mem_empty (db : DbL) (id : KsId) :
    ∀ k ∈ (db.flush id).kss, k.id = id → k.sealedMem = [] ∧ k.mem = [] := by
  have hrot : ∀ k ∈ (db.rotate id).kss, k.id = id → k.mem = [] := by
    intro k hk hid
    simp only [DbL.rotate, updKs_kss] at hk
    obtain ⟨k0, hk0, rfl⟩ := List.mem_map.mp hk
    split
    · unfold sealMem; split
      · rename_i _ he; simpa using he
      · rfl
    · rename_i hne
      split at hid
      · rename_i h1; exact absurd h1 hne
      · exact absurd hid hne
  intro k hk hid
  simp only [DbL.flush, DbL.flushSealed] at hk
  split at hk
  · simp only [updKs_kss] at hk
    obtain ⟨k0, hk0, rfl⟩ := List.mem_map.mp hk
    split
    · rename_i hi; exact ⟨rfl, hrot k0 hk0 hi⟩
    · rename_i hne
      split at hid
      · rename_i h1; exact absurd h1 hne
      · exact absurd hid hne
  · rename_i hany
    refine ⟨?_, hrot k hk hid⟩
    simp only [List.any_eq_true, not_exists, not_and] at hany
    have := hany k hk
    simp only [hid, decide_true, Bool.true_and, Bool.not_eq_true', Bool.not_eq_false] at this
    simpa using this

theorem replayKs_tables_sub (k : KsL) (recs : List Rec) : ∀ t ∈ (replayKs k recs).tables, t ∈ k.tables := by
  induction recs generalizing k with
  | nil => intro t ht; exact ht
  | cons r rs ih =>
    intro t ht
    simp only [replayKs, List.foldl_cons] at ht ih
    have := ih (stepKs r k) t ht
    have h2 := stepKs_shrinks r k t (by simp [this])
    unfold stepKs applyRec at this
    split at this
    · cases hop : r.op <;> simp [hop] at this <;> exact this
    · exact this

theorem dstep_inv (db : DbL) (op : DOp) (h : DInv db) (hwf : op.WF db) : DInv (dstep db op) := by
  obtain ⟨hs, hnd, hib, hrb, hsj, hst, hcov⟩ := h
  cases op with
  | createKs n =>
    simp only [dstep, DbL.createKs]
    split
    · exact ⟨hs, hnd, hib, hrb, hsj, hst, hcov⟩
    · refine ⟨hs, ?_, ?_, ?_, ?_, ?_, ?_⟩
      · simp only [List.map_append, List.map_cons, List.map_nil]
        rw [List.nodup_append]
        refine ⟨hnd, by simp, ?_⟩
        intro a ha b hb
        simp at hb ha
        obtain ⟨k, hk, rfl⟩ := ha
        have := hib k hk
        rw [hb]
        exact Nat.ne_of_lt this
      · intro k hk
        simp at hk
        rcases hk with hk | rfl
        · exact Nat.lt_succ_of_lt (hib k hk)
        · exact Nat.lt_succ_self _
      · intro r hr; exact Nat.lt_succ_of_lt (hrb r hr)
      · intro r hr; exact Nat.lt_succ_of_lt (hsj r hr)
      · intro k hk t ht
        simp at hk
        rcases hk with hk | rfl
        · exact Nat.lt_succ_of_lt (hst k hk t ht)
        · simp at ht
      · intro k hk
        simp at hk
        rcases hk with hk | rfl
        · exact hcov k hk
        · -- a fresh id has no journal records
          have : recsOf db db.nextKsId = [] := by
            simp only [recsOf, List.filter_eq_nil_iff]
            intro r hr
            have := hrb r hr
            simp only [decide_eq_true_eq]
            intro heq
            rw [heq] at this
            exact Nat.lt_irrefl _ this
          simp only [recsOf] at this ⊢
          rw [this]
          exact cov_fresh _ _
  | deleteKs id =>
    simp only [dstep, DbL.deleteKs]
    refine ⟨hs, ?_, ?_, hrb, ?_, ?_, ?_⟩
    · exact List.Nodup.sublist (List.Sublist.map _ List.filter_sublist) hnd
    · intro k hk; exact hib k (List.mem_filter.mp hk).1
    · intro r hr; exact Nat.lt_of_lt_of_le (hsj r hr) (Nat.le_add_right _ 2)
    · intro k hk t ht; exact Nat.lt_of_lt_of_le (hst k (List.mem_filter.mp hk).1 t ht) (Nat.le_add_right _ 2)
    · intro k hk; exact hcov k (List.mem_filter.mp hk).1
  | write items =>
    have hk := write_kss db items
    have ha := write_active db items
    obtain ⟨hsl, hni⟩ := write_misc db items
    have hsq : db.seqno < (db.write items).seqno := by simp only [DbL.write]; split <;> omega
    simp only [dstep]
    refine ⟨by rw [hsl]; exact hs, ?_, ?_, ?_, ?_, ?_, ?_⟩
    · rw [hk, List.map_map]
      have : ((fun (x : KsL) => x.id) ∘ fun k => replayKs k (items.map fun (ks, op) => (⟨db.seqno, ks, op, false⟩ : Rec)))
          = fun k => k.id := by funext k; simp [replayKs_id]
      rw [this]; exact hnd
    · intro k hkm
      rw [hk] at hkm
      obtain ⟨k0, hk0, rfl⟩ := List.mem_map.mp hkm
      rw [replayKs_id, hni]; exact hib k0 hk0
    · intro r hr
      rw [ha] at hr
      rw [hni]
      simp only [List.mem_append, List.mem_map] at hr
      rcases hr with hr | ⟨it, hit, rfl⟩
      · exact hrb r hr
      · obtain ⟨k, hkk, hid⟩ := hwf it hit
        simp only
        rw [← hid]; exact hib k hkk
    · intro r hr
      rw [ha] at hr
      simp only [List.mem_append, List.mem_map] at hr
      rcases hr with hr | ⟨it, hit, rfl⟩
      · exact Nat.lt_trans (hsj r hr) hsq
      · exact hsq
    · intro k hkm t ht
      rw [hk] at hkm
      obtain ⟨k0, hk0, rfl⟩ := List.mem_map.mp hkm
      exact Nat.lt_trans (hst k0 hk0 t (replayKs_tables_sub k0 _ t ht)) hsq
    · intro k hkm
      rw [hk] at hkm
      obtain ⟨k0, hk0, rfl⟩ := List.mem_map.mp hkm
      simp only [recsOf, ha, replayKs_id, filter_append_recs]
      refine cov_replay k0 _ _ db.seqno ?_ ?_ ?_ (hcov k0 hk0)
      · intro r hr
        obtain ⟨it, _, rfl⟩ := List.mem_map.mp hr
        exact ⟨rfl, rfl⟩
      · intro x hx; exact Nat.le_of_lt (hsj x (List.mem_filter.mp hx).1)
      · intro x hx
        simp only [List.mem_append] at hx
        rcases hx with hx | hx
        · have := cov_mem_sub k0 _ (hcov k0 hk0) x (by simp [hx])
          exact hsj x (List.mem_filter.mp this).1
        · exact hst k0 hk0 x hx
  | rotate id => exact rotate_inv db id ⟨hs, hnd, hib, hrb, hsj, hst, hcov⟩
  | flushSealed id => exact flushSealed_inv db id ⟨hs, hnd, hib, hrb, hsj, hst, hcov⟩
  | lowerPersisted id v =>
    have hlid : ∀ k : KsL, (k.lowerPersisted v).id = k.id := by
      intro k; simp only [KsL.lowerPersisted]; split <;> (try split) <;> rfl
    have hlt : ∀ k : KsL, (k.lowerPersisted v).tables = k.tables := by
      intro k; simp only [KsL.lowerPersisted]; split <;> (try split) <;> rfl
    exact upd_inv db id (·.lowerPersisted v) db.seqno ⟨hs, hnd, hib, hrb, hsj, hst, hcov⟩ (Nat.le_refl _) hlid
      (fun k hk hi => cov_lower k _ v (hcov k hk) (hwf k hk hi))
      (fun k hk _ t ht => hst k hk t (by rw [hlt] at ht; exact ht))
  | ingest id items =>
    simp only [dstep, DbL.ingest]
    split
    · exact ⟨hs, hnd, hib, hrb, hsj, hst, hcov⟩
    · rename_i hne
      have h1 : DInv (db.flush id) := flushSealed_inv _ id (rotate_inv db id ⟨hs, hnd, hib, hrb, hsj, hst, hcov⟩)
      have hemp := flush_mem_empty db id
      have hne' : items.map (fun (x : Key × Option Val) => (⟨(db.flush id).seqno, id,
          match x.2 with | some v => LOp.put x.1 v | none => LOp.del x.1, true⟩ : Rec)) ≠ [] := by
        cases items with
        | nil => simp at hne
        | cons _ _ => simp
      refine upd_inv (db.flush id) id _ ((db.flush id).seqno + 1) h1 (Nat.le_succ _) (fun k => rfl) ?_ ?_
      · intro k hk hi
        obtain ⟨e1, e2⟩ := hemp k hk hi
        refine cov_ingest k _ _ (db.flush id).seqno (h1.cov k hk) e1 e2 hne' ?_ (h1.seqT k hk) ?_
        · intro r hr
          obtain ⟨it, hit, rfl⟩ := List.mem_map.mp hr
          have := hwf it hit
          cases hv : it.2 with
          | none => rw [hv] at this; simp at this
          | some v => exact ⟨rfl, rfl, rfl, rfl⟩
        · intro r hr; exact Nat.le_of_lt (h1.seqJ r (List.mem_filter.mp hr).1)
      · intro k hk _ t ht
        simp only [List.mem_append, List.mem_map] at ht
        rcases ht with ht | ⟨it, _, rfl⟩
        · exact Nat.lt_succ_of_lt (h1.seqT k hk t ht)
        · exact Nat.lt_succ_self _
  | reopen =>
    simp only [dstep]
    have hk := recover_kss_noSealed db hs
    obtain ⟨hsl, hact⟩ := recover_misc_noSealed db hs
    obtain ⟨n1, n2, _⟩ := recover_nextKsId db
    obtain ⟨q1, q2⟩ := recover_seqno db
    refine ⟨hsl, ?_, ?_, ?_, ?_, ?_, ?_⟩
    · rw [hk, List.map_map]
      have : ((fun (x : KsL) => x.id) ∘ fun (k : KsL) => replayKs { k with sealedMem := [], mem := [] }
          (db.active.recs.filter (needsReplay (pbOf db)))) = fun k => k.id := by funext k; simp [replayKs_id]
      rw [this]; exact hnd
    · intro k hkm
      rw [hk] at hkm
      obtain ⟨k0, hk0, rfl⟩ := List.mem_map.mp hkm
      rw [replayKs_id]; exact n1 k0 hk0
    · intro r hr; rw [hact] at hr; exact n2 r hr
    · intro r hr; rw [hact] at hr; exact q2 r hr
    · intro k hkm t ht; exact q1 k hkm t (by simp [ht])
    · intro k hkm
      rw [hk] at hkm
      obtain ⟨k0, hk0, rfl⟩ := List.mem_map.mp hkm
      simp only [recsOf, hact, replayKs_id]
      rw [recover_ks_eq db hnd k0 hk0]
      exact cov_recovered k0 _ (recsOf_ks db k0.id) (hcov k0 hk0)

def drun (db : DbL) : List DOp → DbL
  | [] => db
  | o :: os => drun (dstep db o) os

/-- every operation sequence whose writes go through live handles -/
def ProgWF (db : DbL) : List DOp → Prop
  | [] => True
  | o :: os => o.WF db ∧ ProgWF (dstep db o) os

instance progWFDec : (db : DbL) → (ops : List DOp) → Decidable (ProgWF db ops)
  | _, [] => isTrue trivial
  | db, o :: os =>
    match (inferInstance : Decidable (o.WF db)), progWFDec (dstep db o) os with
    | isTrue h1, isTrue h2 => isTrue ⟨h1, h2⟩
    | isFalse h1, _ => isFalse fun h => h1 h.1
    | _, isFalse h2 => isFalse fun h => h2 h.2

theorem drun_inv (db : DbL) (ops : List DOp) (h : DInv db) (hwf : ProgWF db ops) : DInv (drun db ops) := by
  induction ops generalizing db with
  | nil => exact h
  | cons o os ih => exact ih _ (dstep_inv db o h hwf.1) hwf.2

/-- reopening reproduces the content of every keyspace -/
theorem recover_abs (db : DbL) (h : DInv db) (id : KsId) : (db.recover.absOf id).Equiv (db.absOf id) := by
  simp only [DbL.absOf, DbL.find]
  rw [recover_kss_noSealed db h.noSealed]
  rw [find_map_id _ _ (fun k => by simp [replayKs_id])]
  cases hf : db.kss.find? (·.id = id) with
  | none => exact KMap.Equiv.refl _
  | some k =>
    simp only [Option.map_some]
    have hk := List.mem_of_find?_eq_some hf
    rw [recover_ks_eq db h.nodup k hk]
    exact recover_ks_abs k _ (recsOf_ks db k.id) (h.cov k hk)

end Fjall.Db
