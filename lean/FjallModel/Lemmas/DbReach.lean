import FjallModel.Lemmas.DbSealed
namespace Fjall.Db
open Fjall Fjall.Spec

/-- operations of a database: keyspace creation / deletion, writes, memtable rotation, flush,
    observed lowering of the persisted seqno, bulk ingestion, journal rotation, journal
    maintenance (eviction), and reopen -/
inductive DOp
  | createKs (name : String)
  | deleteKs (id : KsId)
  | write (items : List (KsId × LOp))
  | rotate (id : KsId)
  | flushSealed (id : KsId)
  | lowerPersisted (id : KsId) (v : Option Nat)
  | ingest (id : KsId) (items : List (Key × Option Val))
  | rotateJournal
  | maintenance
  /-- clean close + open, or process crash + open: with the default journal persist mode the
      files are the same in both cases -/
  | reopen
  deriving Repr, DecidableEq

def dstep (db : DbL) : DOp → DbL
  | .createKs n => (db.createKs n).1
  | .deleteKs id => db.deleteKs id
  | .write items => db.write items
  | .rotate id => db.rotate id
  | .flushSealed id => db.flushSealed id
  | .lowerPersisted id v => db.lowerPersisted id v
  | .ingest id items => db.ingest id items
  | .rotateJournal => db.rotateJournal
  | .maintenance => db.maintenance
  | .reopen => db.recover

/-- writes go through live handles only (deleted handles refuse writes); the observed highest
    persisted seqno respects what the table files physically guarantee (`KsL.physOk`);
    bulk ingestion carries values only (ingested tombstones: known finding F13) -/
def DOp.WF (db : DbL) : DOp → Prop
  | .write items => ∀ it ∈ items, ∃ k ∈ db.kss, k.id = it.1
  | .lowerPersisted id v => ∀ k ∈ db.kss, k.id = id → (k.lowerPersisted v).physOk = true
  | .ingest _ items => ∀ it ∈ items, it.2.isSome = true
  | _ => True

instance (db : DbL) (op : DOp) : Decidable (op.WF db) := by
  cases op <;> simp only [DOp.WF] <;> infer_instance

/-- every record in a journal file that still exists, oldest journal first -/
def allRecs (db : DbL) : List Rec := db.sealed.flatMap (·.recs) ++ db.active.recs

def recsOf (db : DbL) (id : KsId) : List Rec := (allRecs db).filter fun r => r.ks = id

/-- the journal files in order, as lists of records -/
def journalsOf (db : DbL) : List (List Rec) := db.sealed.map (·.recs) ++ [db.active.recs]

/-- seqnos strictly increase from one journal file to the next (a batch never spans two files:
    rotation and writes both hold the journal lock) -/
def JOrdered (l : List (List Rec)) : Prop := l.Pairwise fun a b => ∀ x ∈ a, ∀ y ∈ b, x.seqno < y.seqno

structure DInv (db : DbL) : Prop where
  nodup : (db.kss.map (·.id)).Nodup
  idsBelow : ∀ k ∈ db.kss, k.id < db.nextKsId
  recsBelow : ∀ r ∈ allRecs db, r.ks < db.nextKsId
  seqJ : ∀ r ∈ allRecs db, r.seqno < db.seqno
  seqT : ∀ k ∈ db.kss, ∀ t ∈ k.tables, t.seqno < db.seqno
  cov : ∀ k ∈ db.kss, Cov k (recsOf db k.id)
  order : JOrdered (journalsOf db)
  /-- the eviction watermarks of a sealed journal cover every record of it that is still only in
      memory -/
  wmOk : ∀ j ∈ db.sealed, ∀ k ∈ db.kss, ∀ r ∈ j.recs, r.ks = k.id → r ∈ k.sealedMem ++ k.mem →
    ∃ lsn, (k.id, lsn) ∈ j.watermarks ∧ r.seqno ≤ lsn

theorem dinv_init : DInv {} := by
  refine ⟨by simp, by simp, by simp [allRecs], by simp [allRecs], by simp, by simp, ?_, by simp⟩
  simp [JOrdered, journalsOf]

theorem filter_append_recs (a b : List Rec) (id : KsId) :
    (a ++ b).filter (fun r => r.ks = id) = a.filter (fun r => r.ks = id) ++ b.filter (fun r => r.ks = id) := by
  simp

theorem recsOf_ks (db : DbL) (id : KsId) : ∀ r ∈ recsOf db id, r.ks = id := by
  intro r hr; simpa using (List.mem_filter.mp hr).2

theorem cov_mem_sub (k : KsL) (rk : List Rec) (h : Cov k rk) : ∀ x ∈ k.sealedMem ++ k.mem, x ∈ rk := by
  obtain ⟨A, Z, F1, Y, N, hrk, _, hmem, _⟩ := h.struct
  intro x hx
  rw [hmem] at hx; rw [hrk]
  simp only [List.mem_append] at hx ⊢
  rcases hx with hx | hx
  · right; left; right; exact hx
  · right; right; exact hx

/-- a per-keyspace update that keeps coverage and does not add to what is in memory; the seqno
    counter may move up to `n'` -/
theorem upd_inv (db : DbL) (id : KsId) (f : KsL → KsL) (n' : Nat) (h : DInv db) (hn : db.seqno ≤ n')
    (hid : ∀ k, (f k).id = k.id)
    (hc : ∀ k ∈ db.kss, k.id = id → Cov (f k) (recsOf db k.id))
    (hT : ∀ k ∈ db.kss, k.id = id → ∀ t ∈ (f k).tables, t.seqno < n')
    (hmem : ∀ k ∈ db.kss, k.id = id → ∀ x ∈ (f k).sealedMem ++ (f k).mem, x ∈ k.sealedMem ++ k.mem) :
    DInv { (db.updKs id f) with seqno := n' } := by
  obtain ⟨hnd, hib, hrb, hsj, hst, hcov, hord, hwm⟩ := h
  refine ⟨?_, ?_, hrb, ?_, ?_, ?_, hord, ?_⟩
  · simp only [updKs_kss, List.map_map]
    have : ((fun (x : KsL) => x.id) ∘ fun k => if k.id = id then f k else k) = fun k => k.id := by
      funext k; simp only [Function.comp]; split
      · exact hid k
      · rfl
    rw [this]; exact hnd
  · intro k hk
    simp only [updKs_kss] at hk
    obtain ⟨k0, hk0, rfl⟩ := List.mem_map.mp hk
    have := hib k0 hk0
    simp only [DbL.updKs]
    split
    · rw [hid]; exact this
    · exact this
  · intro r hr; exact Nat.lt_of_lt_of_le (hsj r hr) hn
  · intro k hk t ht
    simp only [updKs_kss] at hk
    obtain ⟨k0, hk0, rfl⟩ := List.mem_map.mp hk
    split at ht
    · rename_i hi; exact hT k0 hk0 hi t ht
    · exact Nat.lt_of_lt_of_le (hst k0 hk0 t ht) hn
  · intro k hk
    simp only [updKs_kss] at hk
    obtain ⟨k0, hk0, rfl⟩ := List.mem_map.mp hk
    have hc0 := hcov k0 hk0
    show Cov _ (recsOf db _)
    split
    · rename_i hi; rw [hid]; exact hc k0 hk0 hi
    · exact hc0
  · intro j hj k hk r hr hrk hrm
    simp only [updKs_kss] at hk
    obtain ⟨k0, hk0, rfl⟩ := List.mem_map.mp hk
    split at hrk
    · rename_i hi
      simp only [hi, if_true] at hrm ⊢
      rw [hid] at hrk ⊢
      exact hwm j hj k0 hk0 r hr hrk (hmem k0 hk0 hi r hrm)
    · rename_i hi
      simp only [hi, if_false] at hrm ⊢
      exact hwm j hj k0 hk0 r hr hrk hrm

theorem rotate_inv (db : DbL) (id : KsId) (h : DInv db) : DInv (db.rotate id) := by
  have := upd_inv db id sealMem db.seqno h (Nat.le_refl _) (by intro k; unfold sealMem; split <;> rfl)
    (fun k hk _ => cov_rotate k _ (h.cov k hk))
    (fun k hk _ t ht => h.seqT k hk t (by unfold sealMem at ht; split at ht <;> exact ht))
    (fun k _ _ x hx => by
      unfold sealMem at hx
      split at hx
      · exact hx
      · simpa using hx)
  exact this

theorem flushSealed_tables_sub (k : KsL) : ∀ t ∈ k.flushSealed.tables, t ∈ k.tables ∨ t ∈ k.sealedMem := by
  intro t ht
  simp only [KsL.flushSealed, List.mem_append, List.mem_filter] at ht
  rcases ht with ht | ⟨ht, _⟩
  · left; exact ht
  · right; exact ht

theorem recsOf_mem (db : DbL) (id : KsId) (r : Rec) (h : r ∈ recsOf db id) : r ∈ allRecs db :=
  (List.mem_filter.mp h).1

theorem flushSealed_inv (db : DbL) (id : KsId) (h : DInv db) : DInv (db.flushSealed id) := by
  unfold DbL.flushSealed
  split
  · exact upd_inv db id KsL.flushSealed (db.seqno + 1) h (Nat.le_succ _) (fun k => rfl)
      (fun k hk _ => cov_flushSealed k _ (h.cov k hk))
      (fun k hk _ t ht => by
        rcases flushSealed_tables_sub k t ht with h1 | h1
        · exact Nat.lt_succ_of_lt (h.seqT k hk t h1)
        · have := cov_mem_sub k _ (h.cov k hk) t (by simp [h1])
          exact Nat.lt_succ_of_lt (h.seqJ t (recsOf_mem db _ t this)))
      (fun k _ _ x hx => by simp only [KsL.flushSealed, List.nil_append] at hx; simp [hx])
  · exact h

/-- after `flush` the keyspace holds nothing in memory -/
theorem flush_mem_empty (db : DbL) (id : KsId) :
    ∀ k ∈ (db.flush id).kss, k.id = id → k.sealedMem = [] ∧ k.mem = [] := by
  have hrot : ∀ k ∈ (db.rotate id).kss, k.id = id → k.mem = [] := by
    intro k hk hid
    simp only [DbL.rotate, updKs_kss] at hk
    obtain ⟨k0, hk0, rfl⟩ := List.mem_map.mp hk
    split
    · unfold sealMem; split
      · rename_i _ he; simpa using he
      · rfl
    · rename_i hne
      split at hid
      · rename_i h1; exact absurd h1 hne
      · exact absurd hid hne
  intro k hk hid
  simp only [DbL.flush, DbL.flushSealed] at hk
  split at hk
  · simp only [updKs_kss] at hk
    obtain ⟨k0, hk0, rfl⟩ := List.mem_map.mp hk
    split
    · rename_i hi; exact ⟨rfl, hrot k0 hk0 hi⟩
    · rename_i hne
      split at hid
      · rename_i h1; exact absurd h1 hne
      · exact absurd hid hne
  · rename_i hany
    refine ⟨?_, hrot k hk hid⟩
    simp only [List.any_eq_true, not_exists, not_and] at hany
    have := hany k hk
    simp only [hid, decide_true, Bool.true_and, Bool.not_eq_true', Bool.not_eq_false] at this
    simpa using this

theorem replayKs_tables_sub (k : KsL) (recs : List Rec) : ∀ t ∈ (replayKs k recs).tables, t ∈ k.tables := by
  induction recs generalizing k with
  | nil => intro t ht; exact ht
  | cons r rs ih =>
    intro t ht
    simp only [replayKs, List.foldl_cons] at ht ih
    have := ih (stepKs r k) t ht
    unfold stepKs applyRec at this
    split at this
    · cases hop : r.op <;> simp [hop] at this <;> exact this
    · exact this

theorem find_of_mem (kss : List KsL) (hnd : (kss.map (·.id)).Nodup) (k : KsL) (hk : k ∈ kss) :
    kss.find? (·.id = k.id) = some k := by
  induction kss with
  | nil => simp at hk
  | cons a r ih =>
    simp only [List.map_cons, List.nodup_cons] at hnd
    simp only [List.mem_cons] at hk
    simp only [List.find?_cons]
    rcases hk with rfl | hk
    · simp
    · have : a.id ≠ k.id := by
        intro he
        exact hnd.1 (by rw [he]; exact List.mem_map.mpr ⟨k, hk, rfl⟩)
      simp only [this, decide_false]
      exact ih hnd.2 hk

theorem allRecs_write (db : DbL) (items : List (KsId × LOp)) :
    allRecs (db.write items) = allRecs db ++ items.map fun (ks, op) => (⟨db.seqno, ks, op, false⟩ : Rec) := by
  simp [allRecs, DbL.write]

theorem evictPrefix_drop (db : DbL) (l : List JournalL) :
    ∃ n, evictPrefix db l = l.drop n ∧ ∀ j ∈ l.take n, db.evictable j = true := by
  induction l with
  | nil => exact ⟨0, rfl, by simp⟩
  | cons j rest ih =>
    by_cases he : db.evictable j = true
    · obtain ⟨n, h1, h2⟩ := ih
      refine ⟨n + 1, by simp [evictPrefix, he, h1], ?_⟩
      intro j' hj'
      simp only [List.take_succ_cons, List.mem_cons] at hj'
      rcases hj' with rfl | hj'
      · exact he
      · exact h2 j' hj'
    · exact ⟨0, by simp [evictPrefix, he], by simp⟩

end Fjall.Db

namespace Fjall.Db
open Fjall Fjall.Spec

theorem jordered_snoc_grow (l : List (List Rec)) (a new : List Rec) (h : JOrdered (l ++ [a]))
    (hnew : ∀ x ∈ l.flatten, ∀ y ∈ new, x.seqno < y.seqno) : JOrdered (l ++ [a ++ new]) := by
  unfold JOrdered at h ⊢
  rw [List.pairwise_append] at h ⊢
  refine ⟨h.1, List.pairwise_singleton _ _, ?_⟩
  intro b hb c hc x hx y hy
  simp only [List.mem_singleton] at hc
  subst hc
  simp only [List.mem_append] at hy
  rcases hy with hy | hy
  · exact h.2.2 b hb a (by simp) x hx y hy
  · exact hnew x (List.mem_flatten.mpr ⟨b, hb, hx⟩) y hy

theorem create_inv (db : DbL) (n : String) (h : DInv db) : DInv (db.createKs n).1 := by
  obtain ⟨hnd, hib, hrb, hsj, hst, hcov, hord, hwm⟩ := h
  simp only [DbL.createKs]
  split
  · exact ⟨hnd, hib, hrb, hsj, hst, hcov, hord, hwm⟩
  · refine ⟨?_, ?_, ?_, ?_, ?_, ?_, hord, ?_⟩
    · simp only [List.map_append, List.map_cons, List.map_nil]
      rw [List.nodup_append]
      refine ⟨hnd, by simp, ?_⟩
      intro a ha b hb
      simp at hb ha
      obtain ⟨k, hk, rfl⟩ := ha
      have := hib k hk
      rw [hb]
      exact Nat.ne_of_lt this
    · intro k hk
      simp at hk
      rcases hk with hk | rfl
      · exact Nat.lt_succ_of_lt (hib k hk)
      · exact Nat.lt_succ_self _
    · intro r hr; exact Nat.lt_succ_of_lt (hrb r hr)
    · intro r hr; exact Nat.lt_succ_of_lt (hsj r hr)
    · intro k hk t ht
      simp at hk
      rcases hk with hk | rfl
      · exact Nat.lt_succ_of_lt (hst k hk t ht)
      · simp at ht
    · intro k hk
      simp at hk
      rcases hk with hk | rfl
      · exact hcov k hk
      · -- a fresh id has no journal records
        have : recsOf db db.nextKsId = [] := by
          simp only [recsOf, List.filter_eq_nil_iff]
          intro r hr
          have := hrb r hr
          simp only [decide_eq_true_eq]
          intro heq
          rw [heq] at this
          exact Nat.lt_irrefl _ this
        show Cov _ (recsOf db db.nextKsId)
        rw [this]
        exact cov_fresh _ _
    · intro j hj k hk r hr hrk hrm
      simp at hk
      rcases hk with hk | rfl
      · exact hwm j hj k hk r hr hrk hrm
      · simp at hrm

theorem delete_inv (db : DbL) (id : KsId) (h : DInv db) : DInv (db.deleteKs id) := by
  obtain ⟨hnd, hib, hrb, hsj, hst, hcov, hord, hwm⟩ := h
  simp only [DbL.deleteKs]
  refine ⟨?_, ?_, hrb, ?_, ?_, ?_, hord, ?_⟩
  · exact List.Nodup.sublist (List.Sublist.map _ List.filter_sublist) hnd
  · intro k hk; exact hib k (List.mem_filter.mp hk).1
  · intro r hr; exact Nat.lt_of_lt_of_le (hsj r hr) (Nat.le_add_right _ 2)
  · intro k hk t ht; exact Nat.lt_of_lt_of_le (hst k (List.mem_filter.mp hk).1 t ht) (Nat.le_add_right _ 2)
  · intro k hk; exact hcov k (List.mem_filter.mp hk).1
  · intro j hj k hk; exact hwm j hj k (List.mem_filter.mp hk).1

theorem write_inv (db : DbL) (items : List (KsId × LOp)) (h : DInv db)
    (hwf : ∀ it ∈ items, ∃ k ∈ db.kss, k.id = it.1) : DInv (db.write items) := by
  obtain ⟨hnd, hib, hrb, hsj, hst, hcov, hord, hwm⟩ := h
  have hk := write_kss db items
  have ha := allRecs_write db items
  obtain ⟨hsl, hni⟩ := write_misc db items
  have hsq : db.seqno < (db.write items).seqno := by simp only [DbL.write]; split <;> omega
  generalize hrecs : (items.map fun (ks, op) => (⟨db.seqno, ks, op, false⟩ : Rec)) = recs at hk ha
  have hrs : ∀ r ∈ recs, r.seqno = db.seqno ∧ r.ing = false := by
    intro r hr; rw [← hrecs] at hr
    obtain ⟨it, _, rfl⟩ := List.mem_map.mp hr
    exact ⟨rfl, rfl⟩
  refine ⟨?_, ?_, ?_, ?_, ?_, ?_, ?_, ?_⟩
  · rw [hk, List.map_map]
    have : ((fun (x : KsL) => x.id) ∘ fun k => replayKs k recs) = fun k => k.id := by funext k; simp [replayKs_id]
    rw [this]; exact hnd
  · intro k hkm
    rw [hk] at hkm
    obtain ⟨k0, hk0, rfl⟩ := List.mem_map.mp hkm
    rw [replayKs_id, hni]; exact hib k0 hk0
  · intro r hr
    rw [ha] at hr
    rw [hni]
    simp only [List.mem_append] at hr
    rcases hr with hr | hr
    · exact hrb r hr
    · rw [← hrecs] at hr
      obtain ⟨it, hit, rfl⟩ := List.mem_map.mp hr
      obtain ⟨k, hkk, hid⟩ := hwf it hit
      simp only
      rw [← hid]; exact hib k hkk
  · intro r hr
    rw [ha] at hr
    simp only [List.mem_append] at hr
    rcases hr with hr | hr
    · exact Nat.lt_trans (hsj r hr) hsq
    · rw [(hrs r hr).1]; exact hsq
  · intro k hkm t ht
    rw [hk] at hkm
    obtain ⟨k0, hk0, rfl⟩ := List.mem_map.mp hkm
    exact Nat.lt_trans (hst k0 hk0 t (replayKs_tables_sub k0 _ t ht)) hsq
  · intro k hkm
    rw [hk] at hkm
    obtain ⟨k0, hk0, rfl⟩ := List.mem_map.mp hkm
    simp only [recsOf, ha, replayKs_id, filter_append_recs]
    refine cov_replay k0 _ _ db.seqno hrs ?_ ?_ (hcov k0 hk0)
    · intro x hx; exact Nat.le_of_lt (hsj x (List.mem_filter.mp hx).1)
    · intro x hx
      simp only [List.mem_append] at hx
      rcases hx with hx | hx
      · have := cov_mem_sub k0 _ (hcov k0 hk0) x (by simp [hx])
        exact hsj x (recsOf_mem db _ x this)
      · exact hst k0 hk0 x hx
  · have e : journalsOf (db.write items) = db.sealed.map (·.recs) ++ [db.active.recs ++ recs] := by
      simp only [journalsOf, DbL.write, hrecs]
    rw [e]
    apply jordered_snoc_grow _ _ _ hord
    intro x hx y hy
    rw [(hrs y hy).1]
    apply hsj x
    simp only [allRecs, List.mem_append, List.mem_flatMap]
    left
    obtain ⟨l, hl, hxl⟩ := List.mem_flatten.mp hx
    obtain ⟨j, hj, rfl⟩ := List.mem_map.mp hl
    exact ⟨j, hj, hxl⟩
  · intro j hj k hkm r hr hrk hrm
    rw [hsl] at hj
    rw [hk] at hkm
    obtain ⟨k0, hk0, rfl⟩ := List.mem_map.mp hkm
    rw [replayKs_id] at hrk ⊢
    obtain ⟨_, f2, f3⟩ := replayKs_facts recs k0
    have hrold : r ∈ k0.sealedMem ++ k0.mem := by
      simp only [List.mem_append] at hrm ⊢
      rcases hrm with hrm | hrm
      · left; exact f2 r hrm
      · rcases f3 r hrm with h1 | h1
        · right; exact h1
        · exfalso
          have h2 : r.seqno < db.seqno := hsj r (by
            simp only [allRecs, List.mem_append, List.mem_flatMap]; left; exact ⟨j, hj, hr⟩)
          rw [(hrs r h1).1] at h2
          exact Nat.lt_irrefl _ h2
    have hws : (db.write items).sealed = db.sealed := hsl
    exact hwm j hj k0 hk0 r hr hrk hrold

theorem rotateJournal_inv (db : DbL) (h : DInv db) : DInv db.rotateJournal := by
  obtain ⟨hnd, hib, hrb, hsj, hst, hcov, hord, hwm⟩ := h
  have ha : allRecs db.rotateJournal = allRecs db := by simp [allRecs, DbL.rotateJournal]
  refine ⟨hnd, hib, by rw [ha]; exact hrb, by rw [ha]; exact hsj, hst, ?_, ?_, ?_⟩
  · intro k hk
    show Cov k ((allRecs db.rotateJournal).filter _)
    rw [ha]; exact hcov k hk
  · have e : journalsOf db.rotateJournal = journalsOf db ++ [[]] := by
      simp [journalsOf, DbL.rotateJournal]
    rw [e]
    unfold JOrdered
    rw [List.pairwise_append]
    exact ⟨hord, List.pairwise_singleton _ _, by intro a _ b hb; simp at hb; subst hb; simp⟩
  · intro j hj k hk r hr hrk hrm
    simp only [DbL.rotateJournal, List.mem_append, List.mem_singleton] at hj
    rcases hj with hj | rfl
    · exact hwm j hj k hk r hr hrk hrm
    · -- the journal sealed just now: its watermarks are the highest memtable seqnos
      simp only
      rcases maxSeqno_spec (k.sealedMem ++ k.mem) with ⟨he, _⟩ | ⟨m, hm, hall, _⟩
      · rw [he] at hrm; cases hrm
      · refine ⟨m, ?_, hall r hrm⟩
        simp only [List.mem_filterMap]
        exact ⟨k, hk, by simp [KsL.memHighest, hm]⟩

theorem maintenance_inv (db : DbL) (h : DInv db) : DInv db.maintenance := by
  obtain ⟨hnd, hib, hrb, hsj, hst, hcov, hord, hwm⟩ := h
  obtain ⟨n, hdrop, hev⟩ := evictPrefix_drop db db.sealed
  have hsealed : db.maintenance.sealed = db.sealed.drop n := hdrop
  have hsplit : allRecs db = (db.sealed.take n).flatMap (·.recs) ++ allRecs db.maintenance := by
    simp only [allRecs, DbL.maintenance, hdrop]
    rw [← List.append_assoc, ← List.flatMap_append, List.take_append_drop]
  have hsub : ∀ r ∈ allRecs db.maintenance, r ∈ allRecs db := by
    intro r hr; rw [hsplit]; simp [hr]
  refine ⟨hnd, hib, fun r hr => hrb r (hsub r hr), fun r hr => hsj r (hsub r hr), hst, ?_, ?_, ?_⟩
  · intro k hk
    have hc := hcov k hk
    have e : recsOf db k.id = ((db.sealed.take n).flatMap (·.recs)).filter (fun r => r.ks = k.id) ++ recsOf db.maintenance k.id := by
      simp only [recsOf]; rw [hsplit, List.filter_append]
    refine cov_evict k _ _ _ hc e ?_
    intro d hd hdm
    obtain ⟨hd1, hd2⟩ := List.mem_filter.mp hd
    obtain ⟨j, hj, hdj⟩ := List.mem_flatMap.mp hd1
    have hjs : j ∈ db.sealed := List.mem_of_mem_take hj
    have hdk : d.ks = k.id := by simpa using hd2
    obtain ⟨lsn, hw, hle⟩ := hwm j hjs k hk d hdj hdk hdm
    have hevj := hev j hj
    simp only [DbL.evictable, List.all_eq_true] at hevj
    have := hevj (k.id, lsn) hw
    simp only [DbL.find, find_of_mem db.kss hnd k hk, KsL.flushedUpTo, Bool.or_eq_true, Bool.and_eq_true,
      List.isEmpty_iff] at this
    rcases this with h1 | ⟨h1, h2⟩
    · cases hp : k.persisted with
      | none => rw [hp] at h1; simp at h1
      | some p =>
        rw [hp] at h1
        have hab := hc.persMem d hdm
        rw [hp] at hab
        simp only [above, decide_eq_true_eq] at hab h1
        omega
    · rw [h1, h2] at hdm; cases hdm
  · have e : journalsOf db.maintenance = (db.sealed.drop n).map (·.recs) ++ [db.active.recs] := by
      simp only [journalsOf, hsealed]; rfl
    rw [e]
    refine List.Pairwise.sublist ?_ hord
    simp only [journalsOf]
    exact List.Sublist.append (List.Sublist.map _ (List.drop_sublist n _)) (List.Sublist.refl _)
  · intro j hj k hk
    rw [hsealed] at hj
    exact hwm j (List.mem_of_mem_drop hj) k hk

end Fjall.Db

namespace Fjall.Db
open Fjall Fjall.Spec

theorem sealedAfter_mem (pb : List (KsId × Nat)) (js : List JournalL) (kss : List KsL) :
    ∀ j' ∈ sealedAfter pb kss js, ∃ j ∈ js, ∃ kssx : List KsL, kssx.map (·.id) = kss.map (·.id) ∧
      j' = { j with watermarks := replayWatermarks kssx (j.recs.filter (needsReplay pb)) } := by
  induction js generalizing kss with
  | nil => intro j' hj'; simp [sealedAfter] at hj'
  | cons j js ih =>
    intro j' hj'
    simp only [sealedAfter, List.mem_cons] at hj'
    rcases hj' with rfl | hj'
    · exact ⟨j, by simp, _, replay_ids kss _, rfl⟩
    · obtain ⟨j0, hj0, kssx, hx, he⟩ := ih _ j' hj'
      refine ⟨j0, by simp [hj0], kssx, ?_, he⟩
      rw [hx, sealAfterReplay_ids, replay_ids]

theorem sealedAfter_recs (pb : List (KsId × Nat)) (js : List JournalL) (kss : List KsL) :
    (sealedAfter pb kss js).map (·.recs) = js.map (·.recs) := by
  induction js generalizing kss with
  | nil => rfl
  | cons j js ih => simp only [sealedAfter, List.map_cons]; rw [ih]

theorem flatMap_recs_eq (a b : List JournalL) (h : a.map (·.recs) = b.map (·.recs)) :
    a.flatMap (·.recs) = b.flatMap (·.recs) := by
  have e : ∀ l : List JournalL, l.flatMap (·.recs) = (l.map (·.recs)).flatten := by
    intro l; induction l with
    | nil => rfl
    | cons x xs ih => simp [List.flatMap_cons, ih]
  rw [e, e, h]

theorem recover_allRecs (db : DbL) : allRecs db.recover = allRecs db := by
  have h1 : db.recover.active = db.active := by simp [DbL.recover]
  simp only [allRecs, h1]
  rw [flatMap_recs_eq db.recover.sealed db.sealed (by rw [recover_sealed_eq, sealedAfter_recs])]

theorem recover_journalsOf (db : DbL) : journalsOf db.recover = journalsOf db := by
  have h1 : db.recover.active = db.active := by simp [DbL.recover]
  simp only [journalsOf, h1]
  rw [recover_sealed_eq, sealedAfter_recs]

/-- the seqno counter after recovery is above every seqno in the recovered trees and in every
    journal record -/
theorem recover_seqno (db : DbL) :
    (∀ k ∈ db.recover.kss, ∀ t ∈ k.tables ++ k.sealedMem ++ k.mem, t.seqno < db.recover.seqno) ∧
    (∀ r ∈ allRecs db, r.seqno < db.recover.seqno) := by
  simp only [DbL.recover, allRecs]
  generalize hk2 : List.foldl replayRec _ _ = kss2
  generalize hall : ((kss2.flatMap fun k => (k.tables ++ k.sealedMem ++ k.mem).map (·.seqno)) ++
    (db.sealed.flatMap fun j => j.recs.map (·.seqno)) ++ db.active.recs.map (·.seqno)) = all
  have hge := foldl_max_ge all 0
  have key : ∀ x ∈ all, x < (if (!all.isEmpty) = true then all.foldl max 0 + 1 else 0) := by
    intro x hx
    have hne : all.isEmpty = false := by cases all <;> simp_all
    simp only [hne, Bool.not_false, if_true]
    exact Nat.lt_succ_of_le (hge.2 x hx)
  refine ⟨fun k hk t ht => key _ ?_, fun r hr => key _ ?_⟩
  · rw [← hall]; simp only [List.mem_append, List.mem_flatMap, List.mem_map]
    left; left; exact ⟨k, hk, t, by simp only [List.mem_append] at ht ⊢; exact ht, rfl⟩
  · rw [← hall]; simp only [List.mem_append, List.mem_flatMap, List.mem_map] at hr ⊢
    rcases hr with ⟨j, hj, hr⟩ | hr
    · left; right; exact ⟨j, hj, r, hr, rfl⟩
    · right; exact ⟨r, hr, rfl⟩

theorem recover_inv (db : DbL) (h : DInv db) : DInv db.recover := by
  obtain ⟨hnd, hib, hrb, hsj, hst, hcov, hord, hwm⟩ := h
  have hk := recover_kss_eq db hnd
  have ha := recover_allRecs db
  obtain ⟨n1, n2, n3⟩ := recover_nextKsId db
  obtain ⟨q1, q2⟩ := recover_seqno db
  -- per keyspace
  have hper : ∀ k ∈ db.kss,
      let kfin := replayKs (db.sealed.foldl (journalKs (pbOf db)) { k with sealedMem := [], mem := [] })
        (db.active.recs.filter (needsReplay (pbOf db)))
      let flat := replayKs { k with sealedMem := [], mem := [] } ((recsOf db k.id).filter (above k.persisted))
      Rel kfin flat ∧ (∀ x ∈ kfin.sealedMem, x ∈ db.sealed.flatMap (·.recs)) ∧ (∀ y ∈ kfin.mem, y ∈ db.active.recs) := by
    intro k hkm
    exact recover_ks_general (pbOf db) k (lookup_pb db.kss hnd k hkm) db.sealed db.active.recs _ rfl
  refine ⟨?_, ?_, ?_, ?_, ?_, ?_, ?_, ?_⟩
  · rw [hk, List.map_map]
    have : ((fun (x : KsL) => x.id) ∘ fun (k : KsL) => replayKs (db.sealed.foldl (journalKs (pbOf db)) { k with sealedMem := [], mem := [] })
        (db.active.recs.filter (needsReplay (pbOf db)))) = fun k => k.id := by
      funext k
      simp only [Function.comp]
      have := (hper k)
      rw [replayKs_id]
      -- the fold keeps the id
      have hf : ∀ (js : List JournalL) (s : KsL), (js.foldl (journalKs (pbOf db)) s).id = s.id := by
        intro js
        induction js with
        | nil => intro s; rfl
        | cons j js ih =>
          intro s
          simp only [List.foldl_cons]
          rw [ih]
          simp only [journalKs]
          split
          · rw [replayKs_id]
          · split
            · split
              · simp [replayKs_id]
              · unfold sealMem; split <;> rw [replayKs_id]
            · unfold sealMem; split <;> rw [replayKs_id]
      rw [hf]
    rw [this]; exact hnd
  · intro k hkm
    rw [hk] at hkm
    obtain ⟨k0, hk0, rfl⟩ := List.mem_map.mp hkm
    rw [(hper k0 hk0).1.id, replayKs_id]; exact n1 k0 hk0
  · intro r hr
    rw [ha] at hr
    simp only [allRecs, List.mem_append, List.mem_flatMap] at hr
    rcases hr with ⟨j, hj, hr⟩ | hr
    · exact n3 j hj r hr
    · exact n2 r hr
  · intro r hr; rw [ha] at hr; exact q2 r hr
  · intro k hkm t ht; exact q1 k hkm t (by simp [ht])
  · intro k hkm
    rw [hk] at hkm
    obtain ⟨k0, hk0, rfl⟩ := List.mem_map.mp hkm
    obtain ⟨hrel, hS, hM⟩ := hper k0 hk0
    show Cov _ (recsOf db.recover _)
    have hrec : recsOf db.recover (replayKs (db.sealed.foldl (journalKs (pbOf db)) { k0 with sealedMem := [], mem := [] })
        (db.active.recs.filter (needsReplay (pbOf db)))).id = recsOf db k0.id := by
      rw [hrel.id, replayKs_id]; simp only [recsOf, ha]
    rw [hrec]
    have hflat := cov_recovered k0 _ (recsOf_ks db k0.id) (hcov k0 hk0)
    rw [rel_eq _ _ hrel]
    refine cov_repartition _ _ _ _ hflat hrel.memory ?_
    intro x hx y hy
    obtain ⟨j, hj, hxj⟩ := List.mem_flatMap.mp (hS x hx)
    have hyA := hM y hy
    have := hord
    simp only [JOrdered, journalsOf, List.pairwise_append] at this
    exact this.2.2 j.recs (List.mem_map.mpr ⟨j, hj, rfl⟩) db.active.recs (by simp) x hxj y hyA
  · rw [recover_journalsOf]; exact hord
  · intro j' hj' kf hkf r hr hrk hrm
    rw [recover_sealed_eq] at hj'
    obtain ⟨j, hj, kssx, hx, rfl⟩ := sealedAfter_mem _ _ _ j' hj'
    rw [hk] at hkf
    obtain ⟨k0, hk0, rfl⟩ := List.mem_map.mp hkf
    obtain ⟨hrel, _, _⟩ := hper k0 hk0
    have hidf : (replayKs (db.sealed.foldl (journalKs (pbOf db)) { k0 with sealedMem := [], mem := [] })
        (db.active.recs.filter (needsReplay (pbOf db)))).id = k0.id := by rw [hrel.id, replayKs_id]
    rw [hidf] at hrk ⊢
    simp only at hr ⊢
    -- `r` is in memory after recovery, so it passed the skip rule
    have hab : above k0.persisted r = true := by
      rw [hrel.memory] at hrm
      obtain ⟨_, f2, f3⟩ := replayKs_facts ((recsOf db k0.id).filter (above k0.persisted)) { k0 with sealedMem := [], mem := [] }
      simp only [List.mem_append] at hrm
      rcases hrm with h1 | h1
      · have := f2 r h1; simp at this
      · rcases f3 r h1 with h2 | h2
        · simp at h2
        · exact (List.mem_filter.mp h2).2
    have hneed : needsReplay (pbOf db) r = true := by
      have hl : (pbOf db).lookup k0.id = k0.persisted := lookup_pb db.kss hnd k0 hk0
      simp only [needsReplay, hrk, hl]; exact hab
    have hmine : r ∈ (j.recs.filter (needsReplay (pbOf db))).filter (fun r => r.ks = k0.id) := by
      simp only [List.mem_filter, decide_eq_true_eq]; exact ⟨⟨hr, hneed⟩, hrk⟩
    -- some keyspace state with this id is in the list the watermarks were computed from
    have hidin : k0.id ∈ kssx.map (·.id) := by
      rw [hx, List.map_map]
      exact List.mem_map.mpr ⟨k0, hk0, rfl⟩
    obtain ⟨k1, hk1, hk1id⟩ := List.mem_map.mp hidin
    refine ⟨((j.recs.filter (needsReplay (pbOf db))).filter (fun r => r.ks = k0.id)).foldl (fun a r => max a r.seqno) 0, ?_,
      (foldl_max_seq _ 0).2 r hmine⟩
    simp only [replayWatermarks, List.mem_filterMap]
    refine ⟨k1, hk1, ?_⟩
    have hne : ((j.recs.filter (needsReplay (pbOf db))).filter (fun r => r.ks = k0.id)).isEmpty = false := by
      cases hl : (j.recs.filter (needsReplay (pbOf db))).filter (fun r => r.ks = k0.id) with
      | nil => rw [hl] at hmine; cases hmine
      | cons _ _ => rfl
    simp only [hk1id]
    rw [if_neg (by rw [hne]; simp)]

theorem dstep_inv (db : DbL) (op : DOp) (h : DInv db) (hwf : op.WF db) : DInv (dstep db op) := by
  cases op with
  | createKs n => exact create_inv db n h
  | deleteKs id => exact delete_inv db id h
  | write items => exact write_inv db items h hwf
  | rotate id => exact rotate_inv db id h
  | flushSealed id => exact flushSealed_inv db id h
  | lowerPersisted id v =>
    have hlid : ∀ k : KsL, (k.lowerPersisted v).id = k.id := by
      intro k; simp only [KsL.lowerPersisted]; split <;> (try split) <;> rfl
    have hlt : ∀ k : KsL, (k.lowerPersisted v).tables = k.tables := by
      intro k; simp only [KsL.lowerPersisted]; split <;> (try split) <;> rfl
    have hlm : ∀ k : KsL, (k.lowerPersisted v).sealedMem ++ (k.lowerPersisted v).mem = k.sealedMem ++ k.mem := by
      intro k; simp only [KsL.lowerPersisted]; split <;> (try split) <;> rfl
    exact upd_inv db id (·.lowerPersisted v) db.seqno h (Nat.le_refl _) hlid
      (fun k hk hi => cov_lower k _ v (h.cov k hk) (hwf k hk hi))
      (fun k hk _ t ht => h.seqT k hk t (by rw [hlt] at ht; exact ht))
      (fun k _ _ x hx => by rw [hlm] at hx; exact hx)
  | ingest id items =>
    simp only [dstep, DbL.ingest]
    split
    · exact h
    · rename_i hne
      have h1 : DInv (db.flush id) := flushSealed_inv _ id (rotate_inv db id h)
      have hemp := flush_mem_empty db id
      have hne' : items.map (fun (x : Key × Option Val) => (⟨(db.flush id).seqno, id,
          match x.2 with | some v => LOp.put x.1 v | none => LOp.del x.1, true⟩ : Rec)) ≠ [] := by
        cases items with
        | nil => simp at hne
        | cons _ _ => simp
      refine upd_inv (db.flush id) id _ ((db.flush id).seqno + 1) h1 (Nat.le_succ _) (fun k => rfl) ?_ ?_ (fun k _ _ x hx => hx)
      · intro k hk hi
        obtain ⟨e1, e2⟩ := hemp k hk hi
        refine cov_ingest k _ _ (db.flush id).seqno (h1.cov k hk) e1 e2 hne' ?_ (h1.seqT k hk) ?_
        · intro r hr
          obtain ⟨it, hit, rfl⟩ := List.mem_map.mp hr
          have := hwf it hit
          cases hv : it.2 with
          | none => rw [hv] at this; simp at this
          | some v => exact ⟨rfl, rfl, rfl, rfl⟩
        · intro r hr; exact Nat.le_of_lt (h1.seqJ r (recsOf_mem _ _ r hr))
      · intro k hk _ t ht
        simp only [List.mem_append, List.mem_map] at ht
        rcases ht with ht | ⟨it, _, rfl⟩
        · exact Nat.lt_succ_of_lt (h1.seqT k hk t ht)
        · exact Nat.lt_succ_self _
  | rotateJournal => exact rotateJournal_inv db h
  | maintenance => exact maintenance_inv db h
  | reopen => exact recover_inv db h

def drun (db : DbL) : List DOp → DbL
  | [] => db
  | o :: os => drun (dstep db o) os

/-- every operation sequence whose writes go through live handles -/
def ProgWF (db : DbL) : List DOp → Prop
  | [] => True
  | o :: os => o.WF db ∧ ProgWF (dstep db o) os

instance progWFDec : (db : DbL) → (ops : List DOp) → Decidable (ProgWF db ops)
  | _, [] => isTrue trivial
  | db, o :: os =>
    match (inferInstance : Decidable (o.WF db)), progWFDec (dstep db o) os with
    | isTrue h1, isTrue h2 => isTrue ⟨h1, h2⟩
    | isFalse h1, _ => isFalse fun h => h1 h.1
    | _, isFalse h2 => isFalse fun h => h2 h.2

theorem drun_inv (db : DbL) (ops : List DOp) (h : DInv db) (hwf : ProgWF db ops) : DInv (drun db ops) := by
  induction ops generalizing db with
  | nil => exact h
  | cons o os ih => exact ih _ (dstep_inv db o h hwf.1) hwf.2

/-- **reopening reproduces the content of every keyspace**, with any number of sealed journals,
    some of them already evicted -/
theorem recover_abs (db : DbL) (h : DInv db) (id : KsId) : (db.recover.absOf id).Equiv (db.absOf id) := by
  simp only [DbL.absOf, DbL.find]
  rw [recover_kss_eq db h.nodup]
  have hidf : ∀ (k : KsL), (replayKs (db.sealed.foldl (journalKs (pbOf db)) { k with sealedMem := [], mem := [] })
      (db.active.recs.filter (needsReplay (pbOf db)))).id = k.id := by
    intro k
    rw [replayKs_id]
    have hf : ∀ (js : List JournalL) (s : KsL), (js.foldl (journalKs (pbOf db)) s).id = s.id := by
      intro js
      induction js with
      | nil => intro s; rfl
      | cons j js ih =>
        intro s
        simp only [List.foldl_cons]
        rw [ih]
        simp only [journalKs]
        split
        · rw [replayKs_id]
        · split
          · split
            · simp [replayKs_id]
            · unfold sealMem; split <;> rw [replayKs_id]
          · unfold sealMem; split <;> rw [replayKs_id]
    rw [hf]
  rw [find_map_id _ _ hidf]
  cases hf : db.kss.find? (·.id = id) with
  | none => exact KMap.Equiv.refl _
  | some k =>
    simp only [Option.map_some]
    have hk := List.mem_of_find?_eq_some hf
    obtain ⟨hrel, _, _⟩ := recover_ks_general (pbOf db) k (lookup_pb db.kss h.nodup k hk) db.sealed db.active.recs _ rfl
    have hflat := recover_ks_abs k _ (recsOf_ks db k.id) (h.cov k hk)
    rw [rel_eq _ _ hrel, abs_repartition _ _ _ hrel.memory]
    exact hflat

end Fjall.Db
