import FjallModel.Journal.Reader
import FjallModel.Lemmas.Entry
namespace Fjall.Journal
open Fjall

variable (p : Params) (c : Codec) (h : Bytes → Nat) (total : Nat)

theorem encodeEntry_head (e : Entry) : ∃ t, encodeEntry p c e = e.tag p :: t := by
  cases e <;> simp [encodeEntry, encodeItem, Entry.tag]

def RState.push (st : RState) (e : Entry) : RState :=
  { st with counter := st.counter - 1, items := st.items ++ itemsOf [e],
            clears := st.clears ++ clearsOf [e], acc := st.acc ++ encodeEntry p c e,
            pos := st.pos + (encodeEntry p c e).length }

def RState.pushAll (st : RState) (es : List Entry) : RState :=
  { st with counter := st.counter - es.length, items := st.items ++ itemsOf es,
            clears := st.clears ++ clearsOf es, acc := st.acc ++ encodeBody p c es,
            pos := st.pos + (encodeBody p c es).length }

theorem itemsOf_append (a b : List Entry) : itemsOf (a ++ b) = itemsOf a ++ itemsOf b := by
  induction a with
  | nil => rfl
  | cons e a ih => cases e <;> simp [itemsOf, ih]

theorem clearsOf_append (a b : List Entry) : clearsOf (a ++ b) = clearsOf a ++ clearsOf b := by
  induction a with
  | nil => rfl
  | cons e a ih => cases e <;> simp [clearsOf, ih]

theorem pushAll_nil (st : RState) : st.pushAll p c [] = st := by
  simp [RState.pushAll, itemsOf, clearsOf, encodeBody]

theorem pushAll_cons (st : RState) (e : Entry) (es : List Entry) :
    st.pushAll p c (e :: es) = (st.push p c e).pushAll p c es := by
  have h1 : itemsOf (e :: es) = itemsOf [e] ++ itemsOf es := itemsOf_append [e] es
  have h2 : clearsOf (e :: es) = clearsOf [e] ++ clearsOf es := clearsOf_append [e] es
  simp only [RState.pushAll, RState.push, h1, h2, encodeBody, List.flatMap_cons, List.length_cons,
    List.append_assoc, List.length_append]
  congr 1 <;> omega

/-- one complete, well-formed payload entry inside a batch is consumed and recorded -/
theorem readLoop_payload_step (hp : p.Valid) (hc : c.Law) (st : RState) (e : Entry)
    (hpl : e.isPayload = true) (hwf : e.WF c) (hin : st.inBatch = true) (hcnt : 0 < st.counter)
    (tail : Bytes) (fuel : Nat) :
    readLoop p c h total (fuel+1) st (encodeEntry p c e ++ tail) =
      readLoop p c h total fuel (st.push p c e) tail := by
  have hd := decode_encode p c hp hc e hwf tail
  have hpos : st.pos + ((encodeEntry p c e ++ tail).length - tail.length)
      = st.pos + (encodeEntry p c e).length := by simp
  cases e with
  | start n s => simp [Entry.isPayload] at hpl
  | fin s => simp [Entry.isPayload] at hpl
  | item i =>
    rw [readLoop, hd]
    simp only [hin, Bool.not_true, Bool.false_eq_true, if_false]
    rw [if_neg (by omega)]
    simp only [hpos, RState.push, itemsOf, clearsOf, List.append_nil, hin]
  | clear k =>
    rw [readLoop, hd]
    simp only [hin, Bool.not_true, Bool.false_eq_true, if_false]
    rw [if_neg (by omega)]
    simp only [hpos, RState.push, itemsOf, clearsOf, List.append_nil, hin]

theorem push_inBatch (st : RState) (e : Entry) : (st.push p c e).inBatch = st.inBatch := rfl
theorem push_counter (st : RState) (e : Entry) : (st.push p c e).counter = st.counter - 1 := rfl
theorem push_lastValid (st : RState) (e : Entry) : (st.push p c e).lastValid = st.lastValid := rfl

/-- all payload entries of a batch are consumed -/
theorem readLoop_payload (hp : p.Valid) (hc : c.Law) (es : List Entry)
    (hes : ∀ e ∈ es, e.isPayload = true ∧ e.WF c) (st : RState) (hin : st.inBatch = true)
    (hcnt : es.length ≤ st.counter) (tail : Bytes) (fuel : Nat) :
    readLoop p c h total (fuel + es.length) st (encodeBody p c es ++ tail) =
      readLoop p c h total fuel (st.pushAll p c es) tail := by
  induction es generalizing st with
  | nil => simp [encodeBody, pushAll_nil]
  | cons e es ih =>
    have he := hes e (by simp)
    simp only [encodeBody, List.flatMap_cons, List.append_assoc, List.length_cons]
    rw [show fuel + (es.length + 1) = (fuel + es.length) + 1 by omega]
    simp only [List.length_cons] at hcnt
    rw [readLoop_payload_step p c h total hp hc st e he.1 he.2 hin (by omega)]
    rw [pushAll_cons]
    exact ih (fun e' he' => hes e' (by simp [he'])) _ (by rw [push_inBatch]; exact hin)
      (by rw [push_counter]; omega)

def RState.Clean (st : RState) : Prop :=
  st.inBatch = false ∧ st.counter = 0 ∧ st.items = [] ∧ st.clears = [] ∧ st.acc = [] ∧
    st.lastValid = st.pos

/-- the state after a complete batch ending at file offset `q` -/
def cleanAt (seqno q : Nat) : RState :=
  { inBatch := false, counter := 0, seqno := seqno, items := [], clears := [], acc := [],
    lastValid := q, pos := q }

theorem cleanAt_clean (s q : Nat) : (cleanAt s q).Clean := by simp [cleanAt, RState.Clean]

/-- a complete well-formed batch is emitted and the reader is clean again behind it -/
theorem readLoop_batch (hp : p.Valid) (hc : c.Law) (hh : ∀ x, h x < 2^64) (b : WBatch)
    (hb : b.WF c) (st : RState) (hst : st.Clean) (tail : Bytes) (fuel : Nat) :
    readLoop p c h total (fuel + b.entries.length + 2) st (encodeBatch p c h b ++ tail) =
      (readLoop p c h total fuel (cleanAt b.seqno (st.pos + (encodeBatch p c h b).length)) tail).cons
        b.toBatch := by
  obtain ⟨hlen, hseq, hes⟩ := hb
  obtain ⟨h1, h2, h3, h4, h5, h6⟩ := hst
  simp only [encodeBatch, List.append_assoc]
  -- start marker
  rw [show fuel + b.entries.length + 2 = (fuel + 1 + b.entries.length) + 1 by omega]
  rw [readLoop, decode_encode p c hp hc (.start b.entries.length b.seqno) ⟨hlen, hseq⟩]
  simp only [h1, Bool.false_eq_true, if_false]
  -- payload
  rw [readLoop_payload p c h total hp hc b.entries hes _ rfl (by simp)]
  -- end marker
  rw [readLoop, decode_encode p c hp hc (.fin _) (hh _)]
  simp only [RState.pushAll, h2, h3, h4, h5, List.nil_append, Nat.sub_self, Nat.lt_irrefl,
    if_false, Bool.not_true, Bool.false_eq_true, ne_eq, not_true_eq_false, gt_iff_lt]
  simp only [WBatch.toBatch, cleanAt]
  congr 3 <;> simp <;> omega

theorem cons_cons_eq (b : Batch) (r : ReadResult) : (r.cons b).batches = b :: r.batches := rfl

def ReadResult.prepend (bs : List Batch) (r : ReadResult) : ReadResult :=
  { r with batches := bs ++ r.batches }

theorem prepend_cons (b : Batch) (bs : List Batch) (r : ReadResult) :
    (r.prepend bs).cons b = r.prepend (b :: bs) := rfl

theorem prepend_nil (r : ReadResult) : r.prepend [] = r := rfl

def fuelFor (bs : List WBatch) : Nat := (bs.map fun b => b.entries.length + 2).sum

def lastSeqno (s0 : Nat) : List WBatch → Nat
  | [] => s0
  | b :: bs => lastSeqno b.seqno bs

/-- a sequence of complete well-formed batches is read back in order -/
theorem readLoop_batches (hp : p.Valid) (hc : c.Law) (hh : ∀ x, h x < 2^64) (bs : List WBatch)
    (hbs : ∀ b ∈ bs, b.WF c) (st : RState) (hst : st.Clean) (tail : Bytes) (fuel : Nat) :
    readLoop p c h total (fuel + fuelFor bs) st (encodeBatches p c h bs ++ tail) =
      (readLoop p c h total fuel
        (if bs = [] then st else
          cleanAt (lastSeqno st.seqno bs) (st.pos + (encodeBatches p c h bs).length)) tail).prepend
        (bs.map WBatch.toBatch) := by
  induction bs generalizing st with
  | nil => simp [encodeBatches, fuelFor, prepend_nil]
  | cons b bs ih =>
    simp only [encodeBatches, List.flatMap_cons, List.append_assoc, fuelFor, List.map_cons,
      List.sum_cons]
    rw [show fuel + (b.entries.length + 2 + (bs.map fun b => b.entries.length + 2).sum)
        = (fuel + fuelFor bs) + b.entries.length + 2 by simp [fuelFor]; omega]
    rw [readLoop_batch p c h total hp hc hh b (hbs b (by simp)) st hst]
    have := ih (fun b' hb' => hbs b' (by simp [hb'])) (cleanAt b.seqno (st.pos + (encodeBatch p c h b).length))
      (cleanAt_clean _ _)
    simp only [encodeBatches] at this
    rw [this, prepend_cons]
    congr 2
    by_cases hbs' : bs = []
    · subst hbs'; simp [lastSeqno]
    · simp [hbs', lastSeqno, cleanAt, Nat.add_assoc]

end Fjall.Journal
