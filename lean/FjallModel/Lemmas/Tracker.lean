import FjallModel.Tracker
namespace Fjall.Tracker

theorem cnt_bump_same (i : Nat) (d : List (Nat × Nat)) : cnt i (bump i d) = cnt i d + 1 := by
  induction d with
  | nil => simp [bump, cnt]
  | cons kc r ih =>
    obtain ⟨k, c⟩ := kc
    by_cases h : k = i <;> simp [bump, cnt, h, ih]

theorem cnt_bump_other (i j : Nat) (h : j ≠ i) (d : List (Nat × Nat)) :
    cnt j (bump i d) = cnt j d := by
  induction d with
  | nil => simp [bump, cnt, Ne.symm h]
  | cons kc r ih =>
    obtain ⟨k, c⟩ := kc
    by_cases hk : k = i
    · subst hk; simp [bump, cnt, Ne.symm h]
    · by_cases hj : k = j
      · subst hj; simp [bump, cnt, hk]
      · simp [bump, cnt, hk, hj, ih]

theorem cnt_decr_same (i : Nat) (d : List (Nat × Nat)) : cnt i (decr i d) = cnt i d - 1 := by
  induction d with
  | nil => simp [decr, cnt]
  | cons kc r ih =>
    obtain ⟨k, c⟩ := kc
    by_cases h : k = i <;> simp [decr, cnt, h, ih]

theorem cnt_decr_other (i j : Nat) (h : j ≠ i) (d : List (Nat × Nat)) :
    cnt j (decr i d) = cnt j d := by
  induction d with
  | nil => simp [decr, cnt]
  | cons kc r ih =>
    obtain ⟨k, c⟩ := kc
    by_cases hk : k = i
    · subst hk; simp [decr, cnt, Ne.symm h]
    · by_cases hj : k = j
      · subst hj; simp [decr, cnt, hk]
      · simp [decr, cnt, hk, hj, ih]

theorem cnt_pos_mem (i : Nat) (d : List (Nat × Nat)) (h : 0 < cnt i d) : (i, cnt i d) ∈ d := by
  induction d with
  | nil => simp [cnt] at h
  | cons kc r ih =>
    obtain ⟨k, c⟩ := kc
    by_cases hk : k = i
    · subst hk; simp [cnt]
    · simp only [cnt, hk, if_false] at h ⊢
      exact List.mem_cons_of_mem _ (ih h)

theorem cnt_filter_keep (thr i : Nat) (d : List (Nat × Nat)) (h : 0 < cnt i d) :
    cnt i (d.filter (keep thr)) = cnt i d := by
  induction d with
  | nil => simp [cnt] at h
  | cons kc r ih =>
    obtain ⟨k, c⟩ := kc
    by_cases hk : k = i
    · subst hk
      simp only [cnt, if_true] at h
      have : keep thr (k, c) = true := by simp [keep, h]
      simp [List.filter, this, cnt]
    · simp only [cnt, hk, if_false] at h ⊢
      by_cases hkeep : keep thr (k, c) = true
      · simp [List.filter, hkeep, cnt, hk, ih h]
      · simp [List.filter, hkeep, ih h]

theorem keys_bump (i s : Nat) (d : List (Nat × Nat)) (hi : i ≤ s) (h : ∀ kc ∈ d, kc.1 ≤ s) :
    ∀ kc ∈ bump i d, kc.1 ≤ s := by
  induction d with
  | nil => intro kc hkc; simp [bump] at hkc; subst hkc; exact hi
  | cons x r ih =>
    obtain ⟨k, c⟩ := x
    intro kc hkc
    by_cases hk : k = i
    · simp [bump, hk] at hkc
      rcases hkc with rfl | hkc
      · exact hi
      · exact h kc (by simp [hkc])
    · simp [bump, hk] at hkc
      rcases hkc with rfl | hkc
      · exact h _ (by simp)
      · exact ih (fun kc hkc => h kc (by simp [hkc])) kc hkc

theorem keys_decr (i s : Nat) (d : List (Nat × Nat)) (h : ∀ kc ∈ d, kc.1 ≤ s) :
    ∀ kc ∈ decr i d, kc.1 ≤ s := by
  induction d with
  | nil => intro kc hkc; simp [decr] at hkc
  | cons x r ih =>
    obtain ⟨k, c⟩ := x
    intro kc hkc
    by_cases hk : k = i
    · simp [decr, hk] at hkc
      rcases hkc with rfl | hkc
      · have := h (k, c) (by simp); simpa [hk] using this
      · exact h kc (by simp [hkc])
    · simp [decr, hk] at hkc
      rcases hkc with rfl | hkc
      · exact h _ (by simp)
      · exact ih (fun kc hkc => h kc (by simp [hkc])) kc hkc

/-! the running minimum -/

theorem lowestL_some (a : Nat) (l : List (Nat × Nat)) :
    ∃ lo, lowestL (some a) l = some lo ∧ lo ≤ a ∧ (∀ kc ∈ l, lo ≤ kc.1) ∧
      (lo = a ∨ ∃ kc ∈ l, lo = kc.1) := by
  induction l generalizing a with
  | nil => exact ⟨a, rfl, Nat.le_refl _, by simp, Or.inl rfl⟩
  | cons x r ih =>
    obtain ⟨k, c⟩ := x
    obtain ⟨lo, h1, h2, h3, h4⟩ := ih (min a k)
    refine ⟨lo, by simpa [lowestL] using h1, Nat.le_trans h2 (Nat.min_le_left _ _), ?_, ?_⟩
    · intro kc hkc
      simp at hkc
      rcases hkc with rfl | hkc
      · exact Nat.le_trans h2 (Nat.min_le_right _ _)
      · exact h3 kc hkc
    · rcases h4 with h4 | ⟨kc, hkc, h4⟩
      · by_cases hak : a ≤ k
        · left; rw [h4, Nat.min_eq_left hak]
        · right; exact ⟨(k, c), by simp, by rw [h4, Nat.min_eq_right (by omega)]⟩
      · right; exact ⟨kc, by simp [hkc], h4⟩

theorem lowestL_none (l : List (Nat × Nat)) (hl : l ≠ []) :
    ∃ lo, lowestL none l = some lo ∧ (∀ kc ∈ l, lo ≤ kc.1) ∧ ∃ kc ∈ l, lo = kc.1 := by
  cases l with
  | nil => exact absurd rfl hl
  | cons x r =>
    obtain ⟨k, c⟩ := x
    obtain ⟨lo, h1, h2, h3, h4⟩ := lowestL_some k r
    refine ⟨lo, by simpa [lowestL] using h1, ?_, ?_⟩
    · intro kc hkc
      simp at hkc
      rcases hkc with rfl | hkc
      · exact h2
      · exact h3 kc hkc
    · rcases h4 with h4 | ⟨kc, hkc, h4⟩
      · exact ⟨(k, c), by simp, h4⟩
      · exact ⟨kc, by simp [hkc], h4⟩

theorem lowestL_none_nil : lowestL none [] = none := rfl

/-- value of `lo` in `gcWith`, characterised independently of the visiting order -/
theorem gc_lo_spec (thr : Nat) (ord : List (Nat × Nat)) :
    let lo := (lowestL none (ord.filter (keep thr))).getD thr
    (∀ kc ∈ ord, keep thr kc = true → lo ≤ kc.1) ∧
    (lo = thr ∨ ∃ kc ∈ ord, keep thr kc = true ∧ lo = kc.1) := by
  intro lo
  by_cases hnil : ord.filter (keep thr) = []
  · have : lo = thr := by simp [lo, hnil, lowestL_none_nil]
    refine ⟨?_, Or.inl this⟩
    intro kc hkc hk
    have : kc ∈ ord.filter (keep thr) := List.mem_filter.mpr ⟨hkc, hk⟩
    rw [hnil] at this
    simp at this
  · obtain ⟨l, h1, h2, kc, hkc, h3⟩ := lowestL_none _ hnil
    have : lo = l := by simp [lo, h1]
    rw [this]
    refine ⟨fun kc hkc hk => h2 kc (List.mem_filter.mpr ⟨hkc, hk⟩), Or.inr ⟨kc, ?_, ?_, h3⟩⟩
    · exact (List.mem_filter.mp hkc).1
    · exact (List.mem_filter.mp hkc).2

theorem gcWith_inv (g : G) (ord : List (Nat × Nat)) (hp : ord.Perm g.t.data) (h : Inv g) :
    Inv { g with t := gcWith ord g.t } := by
  obtain ⟨hA, hB, hC, hD⟩ := h
  have hspec := gc_lo_spec g.t.seqno ord
  simp only at hspec
  obtain ⟨hlo1, hlo2⟩ := hspec
  refine ⟨?_, ?_, ?_, ?_⟩
  · intro i
    by_cases hpos : 0 < g.live.count i
    · have := hA i
      simp only [gcWith]
      rw [cnt_filter_keep _ _ _ (by omega)]
      exact this
    · simp only [gcWith]; omega
  · intro i hi
    have hc : 0 < g.live.count i := List.count_pos_iff.mpr hi
    have hcd : 0 < cnt i g.t.data := Nat.lt_of_lt_of_le hc (hA i)
    have hmem := cnt_pos_mem i _ hcd
    have hmem' : (i, cnt i g.t.data) ∈ ord := hp.symm.subset hmem
    have hk : keep g.t.seqno (i, cnt i g.t.data) = true := by simp [keep, hcd]
    have := hlo1 _ hmem' hk
    have hB' := hB i hi
    simp only [gcWith]
    simp only at this
    omega
  · simp only [gcWith]
    rcases hlo2 with h | ⟨kc, hkc, _, h⟩
    · rw [h]; omega
    · have := hD kc (hp.subset hkc)
      rw [h]; omega
  · intro kc hkc
    simp only [gcWith] at hkc
    exact hD kc (List.mem_filter.mp hkc).1

theorem step_inv (g : G) (o : Op) (hd : Disciplined g o) (h : Inv g) : Inv (stepG g o) := by
  have h0 := h
  obtain ⟨hA, hB, hC, hD⟩ := h
  cases o with
  | «open» =>
    refine ⟨?_, ?_, hC, ?_⟩
    · intro i
      simp only [stepG, step]
      by_cases hi : i = g.t.seqno
      · subst hi; rw [cnt_bump_same]; simp; exact hA _
      · rw [cnt_bump_other _ _ hi]
        rw [List.count_cons_of_ne (Ne.symm hi)]
        exact hA i
    · intro i hi
      simp only [stepG, step] at hi ⊢
      simp at hi
      rcases hi with rfl | hi
      · exact hC
      · exact hB i hi
    · exact keys_bump _ _ _ (Nat.le_refl _) hD
  | clone j =>
    have hj : j ∈ g.live := hd
    have hc : 0 < g.live.count j := List.count_pos_iff.mpr hj
    have hmem := cnt_pos_mem j _ (Nat.lt_of_lt_of_le hc (hA j))
    refine ⟨?_, ?_, hC, ?_⟩
    · intro i
      simp only [stepG, step]
      by_cases hi : i = j
      · subst hi; rw [cnt_bump_same]; simp; exact hA _
      · rw [cnt_bump_other _ _ hi, List.count_cons_of_ne (Ne.symm hi)]
        exact hA i
    · intro i hi
      simp only [stepG, step] at hi ⊢
      simp at hi
      rcases hi with rfl | hi
      · exact hB _ hj
      · exact hB i hi
    · exact keys_bump _ _ _ (hD _ hmem) hD
  | close j =>
    have hj : j ∈ g.live := hd
    have hc : 0 < g.live.count j := List.count_pos_iff.mpr hj
    -- the state after the decrement, before a possible gc
    have hmid : Inv { t := { g.t with data := decr j g.t.data, freed := g.t.freed + 1 },
                      live := g.live.erase j } := by
      refine ⟨?_, ?_, hC, keys_decr _ _ _ hD⟩
      · intro i
        by_cases hi : i = j
        · subst hi
          simp only
          rw [cnt_decr_same, List.count_erase_self]
          have := hA i
          omega
        · simp only
          rw [cnt_decr_other _ _ hi, List.count_erase_of_ne hi]
          exact hA i
      · intro i hi
        exact hB i (List.mem_of_mem_erase hi)
    simp only [stepG, step]
    split
    · exact gcWith_inv _ _ (List.Perm.refl _) hmid
    · exact hmid
  | publish s =>
    refine ⟨hA, hB, ?_, ?_⟩
    · simp only [stepG, step]; omega
    · intro kc hkc; have := hD kc hkc; simp only [stepG, step]; omega
  | set v =>
    refine ⟨hA, hB, ?_, ?_⟩
    · simp only [stepG, step]; omega
    · intro kc hkc; have := hD kc hkc; simp only [stepG, step]; omega
  | gc ord => exact gcWith_inv g ord hd h0
  | pullup =>
    simp only [stepG, step]
    split
    · rename_i hempty
      have hnil : g.t.data = [] := by simpa using hempty
      have hlive : g.live = [] := by
        apply List.eq_nil_iff_forall_not_mem.mpr
        intro i hi
        have hc : 0 < g.live.count i := List.count_pos_iff.mpr hi
        have := hA i
        rw [hnil] at this
        simp [cnt] at this
        omega
      refine ⟨hA, ?_, Nat.le_refl _, hD⟩
      intro i hi
      rw [hlive] at hi
      simp at hi
    · exact h0

theorem init_inv : Inv {} := by
  refine ⟨?_, ?_, ?_, ?_⟩ <;> simp [cnt]

theorem reach_inv (g : G) (h : Reach g) : Inv g := by
  induction h with
  | init => exact init_inv
  | step g o _ hd ih => exact step_inv g o hd ih

/-- the watermark never decreases (needs the invariant: `pullup` *stores* `visible - 1`) -/
theorem wm_mono (g : G) (o : Op) (h : Inv g) : g.t.wm ≤ (stepG g o).t.wm := by
  obtain ⟨hA, hB, hC, hD⟩ := h
  cases o with
  | «open» => simp [stepG, step]
  | clone j => simp [stepG, step]
  | close j =>
    simp only [stepG, step]
    split
    · simp only [gcWith]; omega
    · simp
  | publish s => simp [stepG, step]
  | set v => simp [stepG, step]
  | gc ord => simp only [stepG, step, gcWith]; omega
  | pullup =>
    simp only [stepG, step]
    split
    · exact hC
    · exact Nat.le_refl _

end Fjall.Tracker
