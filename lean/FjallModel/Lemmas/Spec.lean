import FjallModel.Spec
namespace Fjall.Spec
open Fjall

/-! ### the key order is a strict total order -/

theorem bytesLt_irrefl (a : Bytes) : bytesLt a a = false := by
  induction a with
  | nil => rfl
  | cons x r ih => simp [bytesLt, ih]

theorem bytesLt_trans {a b c : Bytes} (h1 : bytesLt a b = true) (h2 : bytesLt b c = true) :
    bytesLt a c = true := by
  induction a generalizing b c with
  | nil =>
    cases b with
    | nil => simp [bytesLt] at h1
    | cons y bs =>
      cases c with
      | nil => simp [bytesLt] at h2
      | cons z cs => simp [bytesLt]
  | cons x as ih =>
    cases b with
    | nil => simp [bytesLt] at h1
    | cons y bs =>
      cases c with
      | nil => simp [bytesLt] at h2
      | cons z cs =>
        simp only [bytesLt] at h1 h2 ⊢
        by_cases hxy : x < y
        · by_cases hyz : y < z
          · have : x < z := UInt8.lt_trans hxy hyz
            simp [this]
          · simp only [hyz, if_false] at h2
            by_cases hzy : z < y
            · simp [hzy] at h2
            · have : y = z := UInt8.le_antisymm (UInt8.not_lt.mp hzy) (UInt8.not_lt.mp hyz)
              subst this
              simp [hxy]
        · simp only [hxy, if_false] at h1
          by_cases hyx : y < x
          · simp [hyx] at h1
          · simp only [hyx, if_false] at h1
            have : x = y := UInt8.le_antisymm (UInt8.not_lt.mp hyx) (UInt8.not_lt.mp hxy)
            subst this
            by_cases hxz : x < z
            · simp [hxz]
            · simp only [hxz, if_false] at h2 ⊢
              by_cases hzx : z < x
              · simp [hzx] at h2
              · simp only [hzx, if_false] at h2 ⊢
                exact ih h1 h2

theorem bytesLt_total (a b : Bytes) : a = b ∨ bytesLt a b = true ∨ bytesLt b a = true := by
  induction a generalizing b with
  | nil =>
    cases b with
    | nil => left; rfl
    | cons y bs => right; left; rfl
  | cons x as ih =>
    cases b with
    | nil => right; right; rfl
    | cons y bs =>
      simp only [bytesLt]
      by_cases hxy : x < y
      · right; left; simp [hxy]
      · by_cases hyx : y < x
        · right; right; simp [hyx]
        · have : x = y := UInt8.le_antisymm (UInt8.not_lt.mp hyx) (UInt8.not_lt.mp hxy)
          subst this
          simp only [hxy, if_false]
          rcases ih bs with h | h | h
          · left; rw [h]
          · right; left; exact h
          · right; right; exact h

theorem bytesLt_asymm {a b : Bytes} (h1 : bytesLt a b = true) (h2 : bytesLt b a = true) : False := by
  have := bytesLt_trans h1 h2
  rw [bytesLt_irrefl] at this
  exact Bool.false_ne_true this

/-- a strictly sorted list is determined by its members -/
theorem sorted_ext {l₁ l₂ : List Key} (h1 : l₁.Pairwise (fun a b => bytesLt a b = true))
    (h2 : l₂.Pairwise (fun a b => bytesLt a b = true)) (hm : ∀ x, x ∈ l₁ ↔ x ∈ l₂) : l₁ = l₂ := by
  induction l₁ generalizing l₂ with
  | nil =>
    cases l₂ with
    | nil => rfl
    | cons b r => exact absurd ((hm b).mpr (by simp)) (by simp)
  | cons a r₁ ih =>
    cases l₂ with
    | nil => exact absurd ((hm a).mp (by simp)) (by simp)
    | cons b r₂ =>
      rw [List.pairwise_cons] at h1 h2
      have hab : a = b := by
        have ha : a ∈ b :: r₂ := (hm a).mp (by simp)
        have hb : b ∈ a :: r₁ := (hm b).mpr (by simp)
        simp at ha hb
        rcases ha with ha | ha
        · exact ha
        · rcases hb with hb | hb
          · exact hb.symm
          · exact absurd (bytesLt_asymm (h1.1 b hb) (h2.1 a ha)) id
      subst hab
      have ha1 : a ∉ r₁ := fun h => by
        have := h1.1 a h; rw [bytesLt_irrefl] at this; exact Bool.false_ne_true this
      have ha2 : a ∉ r₂ := fun h => by
        have := h2.1 a h; rw [bytesLt_irrefl] at this; exact Bool.false_ne_true this
      congr 1
      apply ih h1.2 h2.2
      intro x
      constructor
      · intro hx
        have := (hm x).mp (by simp [hx])
        simp at this
        rcases this with rfl | h
        · exact absurd hx ha1
        · exact h
      · intro hx
        have := (hm x).mpr (by simp [hx])
        simp at this
        rcases this with rfl | h
        · exact absurd hx ha2
        · exact h

theorem mem_insertSorted (k x : Key) (l : List Key) : x ∈ insertSorted k l ↔ x = k ∨ x ∈ l := by
  induction l with
  | nil => simp [insertSorted]
  | cons y r ih =>
    simp only [insertSorted]
    split
    · rename_i h; subst h; simp
    · split
      · simp
      · simp [ih]; constructor
        · rintro (h | h | h) <;> simp [h]
        · rintro (h | h | h) <;> simp [h]

theorem sorted_insertSorted (k : Key) (l : List Key)
    (h : l.Pairwise (fun a b => bytesLt a b = true)) :
    (insertSorted k l).Pairwise (fun a b => bytesLt a b = true) := by
  induction l with
  | nil => simp [insertSorted]
  | cons y r ih =>
    rw [List.pairwise_cons] at h
    simp only [insertSorted]
    split
    · exact List.pairwise_cons.mpr h
    · rename_i hne
      split
      · rename_i hlt
        refine List.pairwise_cons.mpr ⟨?_, List.pairwise_cons.mpr h⟩
        intro z hz
        simp at hz
        rcases hz with rfl | hz
        · exact hlt
        · exact bytesLt_trans hlt (h.1 z hz)
      · rename_i hnlt
        have hyk : bytesLt y k = true := by
          rcases bytesLt_total k y with h' | h' | h'
          · exact absurd h' hne
          · exact absurd h' hnlt
          · exact h'
        refine List.pairwise_cons.mpr ⟨?_, ih h.2⟩
        intro z hz
        rw [mem_insertSorted] at hz
        rcases hz with rfl | hz
        · exact hyk
        · exact h.1 z hz

theorem keys_aux (m : KMap) (acc : List Key) (hs : acc.Pairwise (fun a b => bytesLt a b = true)) :
    (m.foldl (fun acc kv => insertSorted kv.1 acc) acc).Pairwise (fun a b => bytesLt a b = true) ∧
    ∀ x, x ∈ m.foldl (fun acc kv => insertSorted kv.1 acc) acc ↔ x ∈ acc ∨ ∃ v, (x, v) ∈ m := by
  induction m generalizing acc with
  | nil => simp [hs]
  | cons kv r ih =>
    obtain ⟨h1, h2⟩ := ih (insertSorted kv.1 acc) (sorted_insertSorted _ _ hs)
    refine ⟨h1, fun x => ?_⟩
    simp only [List.foldl_cons]
    rw [h2, mem_insertSorted]
    obtain ⟨k, v⟩ := kv
    simp only [List.mem_cons, Prod.mk.injEq]
    constructor
    · rintro ((rfl | h) | ⟨v', h⟩)
      · right; exact ⟨v, Or.inl ⟨rfl, rfl⟩⟩
      · left; exact h
      · right; exact ⟨v', Or.inr h⟩
    · rintro (h | ⟨v', (⟨rfl, rfl⟩ | h)⟩)
      · left; right; exact h
      · left; left; rfl
      · right; exact ⟨v', h⟩

theorem keys_sorted (m : KMap) : m.keys.Pairwise (fun a b => bytesLt a b = true) :=
  (keys_aux m [] List.Pairwise.nil).1

theorem mem_keys (m : KMap) (x : Key) : x ∈ m.keys ↔ ∃ v, (x, v) ∈ m := by
  have := (keys_aux m [] List.Pairwise.nil).2 x
  simpa [KMap.keys] using this

theorem get_some_mem (m : KMap) (k : Key) (v : Val) (h : m.get k = some v) : ∃ v', (k, v') ∈ m := by
  induction m with
  | nil => simp [KMap.get] at h
  | cons kv r ih =>
    obtain ⟨k', v'⟩ := kv
    simp only [KMap.get] at h
    split at h
    · rename_i hk; subst hk; exact ⟨v', by simp⟩
    · obtain ⟨w, hw⟩ := ih h
      exact ⟨w, by simp [hw]⟩

theorem filterMap_congr' {α β : Type} {f g : α → Option β} {l : List α}
    (h : ∀ x ∈ l, f x = g x) : l.filterMap f = l.filterMap g := by
  induction l with
  | nil => rfl
  | cons a r ih =>
    simp only [List.filterMap_cons]
    rw [h a (by simp), ih (fun x hx => h x (by simp [hx]))]

/-- the live keys, sorted -/
def KMap.liveKeys (m : KMap) : List Key := m.keys.filter fun k => (m.get k).isSome

theorem toList_eq (m : KMap) : m.toList = m.liveKeys.filterMap fun k => (m.get k).map fun v => (k, v) := by
  simp only [KMap.toList, KMap.liveKeys, List.filterMap_filter]
  apply filterMap_congr'
  intro k _
  cases h : m.get k <;> simp [h]

theorem liveKeys_sorted (m : KMap) : m.liveKeys.Pairwise (fun a b => bytesLt a b = true) :=
  List.Pairwise.filter _ (keys_sorted m)

theorem mem_liveKeys (m : KMap) (k : Key) : k ∈ m.liveKeys ↔ (m.get k).isSome := by
  simp only [KMap.liveKeys, List.mem_filter, mem_keys]
  constructor
  · exact fun h => h.2
  · intro h
    refine ⟨?_, h⟩
    obtain ⟨v, hv⟩ := Option.isSome_iff_exists.mp h
    exact get_some_mem m k v hv

/-- **Scans depend only on the contents**: extensionally equal maps list identically. -/
theorem toList_congr {a b : KMap} (h : a.Equiv b) : a.toList = b.toList := by
  have hk : a.liveKeys = b.liveKeys := by
    apply sorted_ext (liveKeys_sorted a) (liveKeys_sorted b)
    intro x
    rw [mem_liveKeys, mem_liveKeys, h x]
  rw [toList_eq, toList_eq, hk]
  apply filterMap_congr'
  intro k _
  rw [h k]

theorem range_congr {a b : KMap} (h : a.Equiv b) (lo hi : Bound) : a.range lo hi = b.range lo hi := by
  simp [KMap.range, toList_congr h]

end Fjall.Spec

namespace Fjall.Spec

/-- scans over a range depend only on the contents inside the range -/
theorem range_congr_on {a b : KMap} (lo hi : Bound)
    (h : ∀ k, inRange lo hi k = true → a.get k = b.get k) : a.range lo hi = b.range lo hi := by
  -- both sides are `filterMap` over the sorted live keys inside the range
  have key : ∀ m : KMap, m.range lo hi =
      ((m.liveKeys.filter fun k => inRange lo hi k).filterMap fun k => (m.get k).map fun v => (k, v)) := by
    intro m
    simp only [KMap.range, toList_eq, List.filterMap_filter]
    rw [List.filter_filterMap]
    apply filterMap_congr'
    intro k _
    cases hg : m.get k with
    | none => simp
    | some v => simp [Option.filter]
  rw [key a, key b]
  have hk : (a.liveKeys.filter fun k => inRange lo hi k) = (b.liveKeys.filter fun k => inRange lo hi k) := by
    apply sorted_ext (List.Pairwise.filter _ (liveKeys_sorted a)) (List.Pairwise.filter _ (liveKeys_sorted b))
    intro x
    simp only [List.mem_filter, mem_liveKeys]
    constructor
    · rintro ⟨h1, h2⟩; exact ⟨by rw [← h x h2]; exact h1, h2⟩
    · rintro ⟨h1, h2⟩; exact ⟨by rw [h x h2]; exact h1, h2⟩
  rw [hk]
  apply filterMap_congr'
  intro k hkm
  rw [h k (List.mem_filter.mp hkm).2]

theorem not_lt_of_lt {a b : Bytes} (h : bytesLt a b = true) : bytesLt b a = false := by
  cases hb : bytesLt b a with
  | false => rfl
  | true => exact absurd (bytesLt_asymm h hb) id

/-- a range whose bounds cross (or touch without both being inclusive) contains no key -/
theorem inRange_false_of_crossed (lo hi : Bound) (k : Key)
    (h : (match lo, hi with
      | .incl a, .incl b => bytesLt b a
      | .incl a, .excl b => bytesLt b a || a = b
      | .excl a, .incl b => bytesLt b a || a = b
      | .excl a, .excl b => bytesLt b a || a = b
      | _, _ => false) = true) : inRange lo hi k = false := by
  cases lo <;> cases hi <;> simp only [Bool.false_eq_true] at h
  all_goals
    rename_i a b
    simp only [inRange, Bound.lowerOk, Bound.upperOk]
    apply Bool.eq_false_iff.mpr
    intro hc
    simp only [Bool.and_eq_true, Bool.not_eq_true', Bool.or_eq_true, decide_eq_true_eq] at hc h
  · -- incl a, incl b, b < a, ¬ k < a, ¬ b < k
    obtain ⟨h1, h2⟩ := hc
    rcases bytesLt_total k b with rfl | hkb | hbk
    · rw [h] at h1; exact Bool.noConfusion h1
    · have := bytesLt_trans hkb h; rw [this] at h1; exact Bool.noConfusion h1
    · rw [hbk] at h2; exact Bool.noConfusion h2
  · -- incl a, excl b: ¬ k < a, k < b; b < a or a = b
    obtain ⟨h1, h2⟩ := hc
    rcases h with h | rfl
    · have := bytesLt_trans h2 h; rw [this] at h1; exact Bool.noConfusion h1
    · rw [h2] at h1; exact Bool.noConfusion h1
  · -- excl a, incl b: a < k, ¬ b < k
    obtain ⟨h1, h2⟩ := hc
    rcases h with h | rfl
    · have := bytesLt_trans h h1; rw [this] at h2; exact Bool.noConfusion h2
    · rw [h1] at h2; exact Bool.noConfusion h2
  · -- excl a, excl b: a < k, k < b
    obtain ⟨h1, h2⟩ := hc
    rcases h with h | rfl
    · exact bytesLt_asymm (bytesLt_trans h1 h2) h
    · exact bytesLt_asymm h1 h2

end Fjall.Spec
