import FjallModel.Tx.Ssi
import FjallModel.Lemmas.TxBase
namespace Fjall.Tx
open Fjall Fjall.Spec

/-- what `xstep` records for an operation -/
def footOf : XOp → List Foot
  | .get ks k => [.point ks k]
  | .contains ks k => [.point ks k]
  | .sizeOf ks k => [.point ks k]
  | .range ks lo hi => markRange ks lo hi
  | .pfx ks p => markRange ks (prefixRange p).1 (prefixRange p).2
  | .iter ks => [.all ks]
  | .first ks => [.all ks]
  | .last ks => [.all ks]
  | .len ks => [.all ks]
  | .isEmpty ks => [.all ks]
  | .insert .. => []
  | .remove .. => []
  | .fetchUpdate ks k _ => [.point ks k]
  | .updateFetch ks k _ => [.point ks k]
  | .take ks k => [.point ks k]

theorem xstep_reads (t : OTx) (op : XOp) : (xstep t op).1.reads = t.reads ++ footOf op := by
  cases op <;> simp [xstep, footOf, OTx.markRead, OTx.markWrite]

/-- two snapshots agree wherever one of the footprints looks -/
def AgreeOn (fs : List Foot) (s s' : KsId → KMap) : Prop :=
  ∀ ks k, (∃ f ∈ fs, f.covers ks k = true) → (s ks).get k = (s' ks).get k

def SameOwn (t t' : OTx) : Prop := t.base.mem = t'.base.mem ∧ t.base.seqno = t'.base.seqno

theorem base_get_congr (b b' : BaseTx) (hm : b.mem = b'.mem) (ks : KsId) (k : Key)
    (h : (b.snap ks).get k = (b'.snap ks).get k) : b.get ks k = b'.get ks k := by
  simp only [BaseTx.get, BaseTx.newestOwn, hm]
  split
  · rfl
  · exact h

theorem view_get_congr (b b' : BaseTx) (hm : b.mem = b'.mem) (ks : KsId) (k : Key)
    (h : (b.snap ks).get k = (b'.snap ks).get k) : (b.view ks).get k = (b'.view ks).get k := by
  rw [← get_eq_view, ← get_eq_view]
  exact base_get_congr b b' hm ks k h

theorem markRange_covers (ks : KsId) (lo hi : Bound) (k : Key) (hr : inRange lo hi k = true) :
    ∃ f ∈ markRange ks lo hi, f.covers ks k = true := by
  unfold markRange
  split
  · rename_i he
    have := inRange_false_of_crossed lo hi k (by
      cases lo <;> cases hi <;> simpa [rangeEmpty] using he)
    rw [this] at hr
    exact Bool.noConfusion hr
  · split
    · exact ⟨.all ks, by simp, by simp [Foot.covers]⟩
    · exact ⟨.range ks lo hi, by simp, by simp [Foot.covers, hr]⟩

theorem range_out_congr (b b' : BaseTx) (hm : b.mem = b'.mem) (ks : KsId) (lo hi : Bound)
    (h : AgreeOn (markRange ks lo hi) b.snap b'.snap) :
    (b.view ks).range lo hi = (b'.view ks).range lo hi := by
  apply range_congr_on
  intro k hr
  exact view_get_congr b b' hm ks k (h ks k (markRange_covers ks lo hi k hr))

theorem all_out_congr (b b' : BaseTx) (hm : b.mem = b'.mem) (ks : KsId)
    (h : AgreeOn [.all ks] b.snap b'.snap) : (b.view ks).toList = (b'.view ks).toList := by
  apply toList_congr
  intro k
  exact view_get_congr b b' hm ks k (h ks k ⟨.all ks, by simp, by simp [Foot.covers]⟩)

theorem point_agree {ks : KsId} {k : Key} {s s' : KsId → KMap} (h : AgreeOn [.point ks k] s s') :
    (s ks).get k = (s' ks).get k :=
  h ks k ⟨.point ks k, by simp, by simp [Foot.covers]⟩

/-- **Footprint soundness.** The result of every transaction operation, and the write set it
    leaves, depend on the snapshot only through the keys covered by the footprint the operation
    records. -/
theorem xstep_footprint_sound (t t' : OTx) (op : XOp) (hs : SameOwn t t')
    (ha : AgreeOn (footOf op) t.base.snap t'.base.snap) :
    (xstep t op).2 = (xstep t' op).2 ∧ SameOwn (xstep t op).1 (xstep t' op).1 := by
  obtain ⟨hm, hq⟩ := hs
  cases op with
  | get ks k =>
    exact ⟨by simp [xstep, base_get_congr _ _ hm ks k (point_agree ha)], hm, hq⟩
  | contains ks k =>
    exact ⟨by simp [xstep, BaseTx.containsKey, base_get_congr _ _ hm ks k (point_agree ha)], hm, hq⟩
  | sizeOf ks k =>
    exact ⟨by simp [xstep, BaseTx.sizeOf, base_get_congr _ _ hm ks k (point_agree ha)], hm, hq⟩
  | range ks lo hi =>
    exact ⟨by simp [xstep, range_out_congr _ _ hm ks lo hi ha], hm, hq⟩
  | pfx ks p =>
    refine ⟨?_, hm, hq⟩
    simp only [xstep]
    rw [range_out_congr _ _ hm ks _ _ ha]
  | iter ks => exact ⟨by simp [xstep, all_out_congr _ _ hm ks ha], hm, hq⟩
  | first ks => exact ⟨by simp [xstep, all_out_congr _ _ hm ks ha], hm, hq⟩
  | last ks => exact ⟨by simp [xstep, all_out_congr _ _ hm ks ha], hm, hq⟩
  | len ks => exact ⟨by simp [xstep, all_out_congr _ _ hm ks ha], hm, hq⟩
  | isEmpty ks => exact ⟨by simp [xstep, all_out_congr _ _ hm ks ha], hm, hq⟩
  | insert ks k v =>
    exact ⟨rfl, by simp [xstep, OTx.markWrite, BaseTx.insert, BaseTx.push, hm, hq], by
      simp [xstep, OTx.markWrite, BaseTx.insert, BaseTx.push, hq]⟩
  | remove ks k =>
    exact ⟨rfl, by simp [xstep, OTx.markWrite, BaseTx.remove, BaseTx.push, hm, hq], by
      simp [xstep, OTx.markWrite, BaseTx.remove, BaseTx.push, hq]⟩
  | fetchUpdate ks k f =>
    have hg := base_get_congr _ _ hm ks k (point_agree ha)
    simp only [xstep, BaseTx.fetchUpdate, hg, OTx.markRead, OTx.markWrite]
    cases f (t'.base.get ks k) with
    | some v =>
      by_cases hp : t'.base.get ks k = some v
      · simp only [hp, if_true]
        exact ⟨trivial, hm, hq⟩
      · simp only [hp, if_false]
        exact ⟨trivial, by simp [BaseTx.insert, BaseTx.push, hm, hq], by simp [BaseTx.insert, BaseTx.push, hq]⟩
    | none =>
      by_cases hp : (t'.base.get ks k).isSome = true
      · simp only [hp, if_true]
        exact ⟨trivial, by simp [BaseTx.remove, BaseTx.push, hm, hq], by simp [BaseTx.remove, BaseTx.push, hq]⟩
      · simp only [hp, if_false]
        exact ⟨trivial, hm, hq⟩
  | updateFetch ks k f =>
    have hg := base_get_congr _ _ hm ks k (point_agree ha)
    simp only [xstep, BaseTx.updateFetch, BaseTx.fetchUpdate, hg, OTx.markRead, OTx.markWrite]
    cases f (t'.base.get ks k) with
    | some v =>
      by_cases hp : t'.base.get ks k = some v
      · simp only [hp, if_true]
        exact ⟨trivial, hm, hq⟩
      · simp only [hp, if_false]
        exact ⟨trivial, by simp [BaseTx.insert, BaseTx.push, hm, hq], by simp [BaseTx.insert, BaseTx.push, hq]⟩
    | none =>
      by_cases hp : (t'.base.get ks k).isSome = true
      · simp only [hp, if_true]
        exact ⟨trivial, by simp [BaseTx.remove, BaseTx.push, hm, hq], by simp [BaseTx.remove, BaseTx.push, hq]⟩
      · simp only [hp, if_false]
        exact ⟨trivial, hm, hq⟩
  | take ks k =>
    have hg := base_get_congr _ _ hm ks k (point_agree ha)
    simp only [xstep, BaseTx.take, BaseTx.fetchUpdate, hg, OTx.markRead, OTx.markWrite]
    by_cases hp : (t'.base.get ks k).isSome = true
    · simp only [hp, if_true]
      exact ⟨trivial, by simp [BaseTx.remove, BaseTx.push, hm, hq], by simp [BaseTx.remove, BaseTx.push, hq]⟩
    · simp only [hp, if_false]
      exact ⟨trivial, hm, hq⟩

theorem xstep_snap (t : OTx) (op : XOp) : (xstep t op).1.base.snap = t.base.snap := by
  cases op <;> simp [xstep, OTx.markRead, OTx.markWrite, BaseTx.insert, BaseTx.remove, BaseTx.push,
    BaseTx.fetchUpdate, BaseTx.updateFetch, BaseTx.take]
  all_goals (repeat' split) <;> simp [BaseTx.insert, BaseTx.remove, BaseTx.push]

theorem xrun_reads (t : OTx) (ops : List XOp) :
    (xrun t ops).1.reads = t.reads ++ ops.flatMap footOf := by
  induction ops generalizing t with
  | nil => simp [xrun]
  | cons o os ih =>
    simp only [xrun, List.flatMap_cons]
    rw [ih, xstep_reads, List.append_assoc]

/-- program-level footprint soundness -/
theorem xrun_footprint_sound (t t' : OTx) (ops : List XOp) (hs : SameOwn t t')
    (ha : AgreeOn (ops.flatMap footOf) t.base.snap t'.base.snap) :
    (xrun t ops).2 = (xrun t' ops).2 ∧ SameOwn (xrun t ops).1 (xrun t' ops).1 := by
  induction ops generalizing t t' with
  | nil => exact ⟨rfl, hs⟩
  | cons o os ih =>
    have ha1 : AgreeOn (footOf o) t.base.snap t'.base.snap := by
      intro ks k ⟨f, hf, hc⟩
      exact ha ks k ⟨f, by simp [hf], hc⟩
    obtain ⟨h1, h2⟩ := xstep_footprint_sound t t' o hs ha1
    have ha2 : AgreeOn (os.flatMap footOf) (xstep t o).1.base.snap (xstep t' o).1.base.snap := by
      rw [xstep_snap, xstep_snap]
      intro ks k ⟨f, hf, hc⟩
      exact ha ks k ⟨f, by simp [hf], hc⟩
    obtain ⟨h3, h4⟩ := ih _ _ h2 ha2
    simp only [xrun]
    exact ⟨by rw [h1, h3], h4⟩

/-- validation: no conflict means no recorded footprint covers a key the other transaction wrote -/
theorem hasConflict_false (reads : List Foot) (keys : List (KsId × Key))
    (h : hasConflict reads keys = false) :
    ∀ f ∈ reads, ∀ kk ∈ keys, f.covers kk.1 kk.2 = false := by
  intro f hf kk hk
  simp only [hasConflict, List.any_eq_false, Foot.hits] at h
  have := h f hf
  simp only [Bool.not_eq_true, List.any_eq_false] at this
  have := this kk hk
  simpa using this

end Fjall.Tx
