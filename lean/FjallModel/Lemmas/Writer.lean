import FjallModel.Journal.Writer
namespace Fjall.Journal
open Fjall

/-! ### BufWriter facts -/

theorem flushBuf_ok_empty (w : Writer) (fuel : Nat) (h : (w.flushBuf fuel).2 = .ok) :
    (w.flushBuf fuel).1.buf = [] := by
  induction fuel generalizing w with
  | zero => simp [Writer.flushBuf] at h
  | succ f ih =>
    unfold Writer.flushBuf at h ⊢
    by_cases he : w.buf.isEmpty = true
    · simp only [he, if_true]; simpa using he
    · simp only [he, Bool.false_eq_true, if_false] at h ⊢
      cases hs : w.sysWrite w.buf with
      | mk w' r =>
        rw [hs] at h
        cases r with
        | none => simp at h
        | some k =>
          cases k with
          | zero => simp at h
          | succ k' => exact ih _ h

/-- **`persist(SyncData | SyncAll)` returning Ok means: nothing is left in user space and the whole
    file content is durable** — whatever fault plan is in force. -/
theorem persist_sync_ok (w : Writer) (m : PersistMode) (hm : m ≠ .buffer)
    (hinv : w.dirty = false → w.buf = []) (h : (w.persist m).2 = .ok) :
    (w.persist m).1.buf = [] ∧ (w.persist m).1.synced = (w.persist m).1.os.length ∧
      (w.persist m).1.dirty = false := by
  unfold Writer.persist at h ⊢
  by_cases hd : w.dirty = true
  · simp only [hd, if_true] at h ⊢
    cases hf : w.flushBuf (w.buf.length + 1) with
    | mk w1 r1 =>
      rw [hf] at h
      simp only at h ⊢
      cases r1 with
      | err => simp at h
      | ok =>
        have hb : w1.buf = [] := by
          have := flushBuf_ok_empty w (w.buf.length + 1) (by rw [hf])
          rw [hf] at this; exact this
        simp only at h ⊢
        cases m with
        | buffer => exact absurd rfl hm
        | syncData =>
          simp only [Writer.sysSync] at h ⊢
          split
          · rename_i hfail; simp [hfail] at h
          · simp [hb]
        | syncAll =>
          simp only [Writer.sysSync] at h ⊢
          split
          · rename_i hfail; simp [hfail] at h
          · simp [hb]
  · have hd' : w.dirty = false := by simpa using hd
    have hb := hinv hd'
    simp only [hd', Bool.false_eq_true, if_false] at h ⊢
    cases m with
    | buffer => exact absurd rfl hm
    | syncData =>
      simp only [Writer.sysSync] at h ⊢
      split
      · rename_i hfail; simp [hfail] at h
      · simp [hb, hd']
    | syncAll =>
      simp only [Writer.sysSync] at h ⊢
      split
      · rename_i hfail; simp [hfail] at h
      · simp [hb, hd']

/-- `persist(Buffer)` returning Ok empties the user-space buffer -/
theorem persist_buffer_ok (w : Writer) (hinv : w.dirty = false → w.buf = [])
    (h : (w.persist .buffer).2 = .ok) : (w.persist .buffer).1.buf = [] := by
  unfold Writer.persist at h ⊢
  by_cases hd : w.dirty = true
  · simp only [hd, if_true] at h ⊢
    cases hf : w.flushBuf (w.buf.length + 1) with
    | mk w1 r1 =>
      rw [hf] at h
      cases r1 with
      | err => simp at h
      | ok =>
        have := flushBuf_ok_empty w (w.buf.length + 1) (by rw [hf])
        rw [hf] at this
        simpa using this
  · have hd' : w.dirty = false := by simpa using hd
    simp [hd', hinv hd']

/-! ### the dirty flag is only set by appends and cleared by a successful flush -/

theorem sysWrite_dirty (w : Writer) (d : Bytes) : (w.sysWrite d).1.dirty = w.dirty := by
  simp only [Writer.sysWrite]
  by_cases hf : w.failing = true
  · simp only [hf, if_true]
    cases w.failAt with
    | none => rfl
    | some n =>
      cases w.shortK with
      | none => rfl
      | some k =>
        simp only
        by_cases hc : n = w.calls + 1 ∧ 0 < k ∧ k < d.length
        · simp only [hc, and_self, if_true]
        · simp only [hc, if_false]
  · simp [hf]

theorem flushBuf_dirty (fuel : Nat) (w : Writer) : (w.flushBuf fuel).1.dirty = w.dirty := by
  induction fuel generalizing w with
  | zero => rfl
  | succ f ih =>
    unfold Writer.flushBuf
    split
    · rfl
    · have hs := sysWrite_dirty w w.buf
      cases hsw : w.sysWrite w.buf with
      | mk w' r =>
        rw [hsw] at hs
        cases r with
        | none => exact hs
        | some k =>
          cases k with
          | zero => exact hs
          | succ k' => simp only; rw [ih]; exact hs

theorem rawWriteAll_dirty (fuel : Nat) (w : Writer) (d : Bytes) : (w.rawWriteAll d fuel).1.dirty = w.dirty := by
  induction fuel generalizing w d with
  | zero => rfl
  | succ f ih =>
    unfold Writer.rawWriteAll
    split
    · rfl
    · have hs := sysWrite_dirty w d
      cases hsw : w.sysWrite d with
      | mk w' r =>
        rw [hsw] at hs
        cases r with
        | none => exact hs
        | some k =>
          cases k with
          | zero => exact hs
          | succ k' => simp only; rw [ih]; exact hs

theorem writeAll_dirty (w : Writer) (d : Bytes) : (w.writeAll d).1.dirty = w.dirty := by
  unfold Writer.writeAll
  by_cases hgt : w.buf.length + d.length > w.cap
  · simp only [hgt, if_true]
    have h1 := flushBuf_dirty (w.buf.length + 1) w
    cases hfb : w.flushBuf (w.buf.length + 1) with
    | mk w1 r1 =>
      rw [hfb] at h1
      cases r1 with
      | err => exact h1
      | ok =>
        simp only
        split
        · rw [rawWriteAll_dirty]; exact h1
        · exact h1
  · simp only [hgt, if_false]
    split
    · rw [rawWriteAll_dirty]
    · rfl

theorem writePieces_dirty (w : Writer) (ps : List Bytes) : (w.writePieces ps).1.dirty = true := by
  unfold Writer.writePieces
  have : ∀ (acc : Writer × IoRes), acc.1.dirty = true →
      (ps.foldl (fun (acc : Writer × IoRes) p => match acc.2 with
        | .err => acc
        | .ok => acc.1.writeAll p) acc).1.dirty = true := by
    induction ps with
    | nil => intro acc h; exact h
    | cons p ps ih =>
      intro acc h
      simp only [List.foldl_cons]
      apply ih
      split
      · exact h
      · rw [writeAll_dirty]; exact h
  exact this _ rfl

/-! ### fail-stop -/

def JOp.isEmptyBatch : JOp → Bool
  | .batch pieces _ => pieces.isEmpty
  | _ => false

theorem jstep_err_poisons (db : JDb) (op : JOp) (h : (jstep db op).2 ≠ .ok) :
    (jstep db op).1.poisoned = true := by
  by_cases hp : db.poisoned = true
  · cases op with
    | single pieces => simp [jstep, hp]
    | clear pieces => simp [jstep, hp]
    | batch pieces dur =>
      by_cases he : pieces.isEmpty = true
      · simp [jstep, he] at h
      · simp [jstep, he, hp]
    | persist m => simp [jstep, hp]
    | rotate => simp [jstep, hp]
  · have hp' : db.poisoned = false := by simpa using hp
    cases op with
    | single pieces =>
      cases hw : db.w.writePieces pieces with
      | mk w r =>
        cases r with
        | err => simp [jstep, hp', hw]
        | ok =>
          by_cases hm : db.manual = true
          · simp [jstep, hp', hw, hm] at h
          · cases hq : w.persist .buffer with
            | mk w' r' =>
              cases r' with
              | err => simp [jstep, hp', hw, hm, hq]
              | ok => simp [jstep, hp', hw, hm, hq] at h
    | clear pieces =>
      cases hw : db.w.writePieces pieces with
      | mk w r =>
        cases r with
        | err => simp [jstep, hp', hw]
        | ok =>
          by_cases hm : db.manual = true
          · simp [jstep, hp', hw, hm] at h
          · cases hq : w.persist .buffer with
            | mk w' r' =>
              cases r' with
              | err => simp [jstep, hp', hw, hm, hq]
              | ok => simp [jstep, hp', hw, hm, hq] at h
    | batch pieces dur =>
      by_cases he : pieces.isEmpty = true
      · simp [jstep, he] at h
      · cases hw : db.w.writePieces pieces with
        | mk w r =>
          cases r with
          | err => simp [jstep, he, hp', hw]
          | ok =>
            cases dur with
            | none => simp [jstep, he, hp', hw] at h
            | some m =>
              cases hq : w.persist m with
              | mk w' r' =>
                cases r' with
                | err => simp [jstep, he, hp', hw, hq]
                | ok => simp [jstep, he, hp', hw, hq] at h
    | persist m =>
      cases hq : db.w.persist m with
      | mk w' r' =>
        cases r' with
        | err => simp [jstep, hp', hq]
        | ok => simp [jstep, hp', hq] at h
    | rotate =>
      cases hq : db.w.persist .syncAll with
      | mk w' r' =>
        cases r' with
        | err => simp [jstep, hp', hq]
        | ok => simp [jstep, hp', hq] at h

theorem jstep_poisoned (db : JDb) (op : JOp) (hp : db.poisoned = true) (he : op.isEmptyBatch = false) :
    jstep db op = (db, .poisoned) := by
  cases op with
  | single pieces => simp [jstep, hp]
  | clear pieces => simp [jstep, hp]
  | batch pieces dur =>
    have : pieces.isEmpty = false := by simpa [JOp.isEmptyBatch] using he
    simp [jstep, hp, this]
  | persist m => simp [jstep, hp]
  | rotate => simp [jstep, hp]

theorem jrun_poisoned (db : JDb) (ops : List JOp) (hp : db.poisoned = true) :
    ∀ i (hi : i < ops.length), (ops[i]).isEmptyBatch = false →
      (jrun db ops).2[i]? = some .poisoned := by
  induction ops generalizing db with
  | nil => intro i hi; simp at hi
  | cons o os ih =>
    intro i hi he
    have hstay : (jstep db o).1.poisoned = true := by
      by_cases heo : o.isEmptyBatch = false
      · rw [jstep_poisoned db o hp heo]; exact hp
      · cases o with
        | batch pieces dur =>
          have : pieces.isEmpty = true := by simpa [JOp.isEmptyBatch] using heo
          simp [jstep, this, hp]
        | single _ => simp [JOp.isEmptyBatch] at heo
        | clear _ => simp [JOp.isEmptyBatch] at heo
        | persist _ => simp [JOp.isEmptyBatch] at heo
        | rotate => simp [JOp.isEmptyBatch] at heo
    cases i with
    | zero =>
      simp only [List.getElem_cons_zero] at he
      simp only [jrun, List.getElem?_cons_zero]
      rw [jstep_poisoned db o hp he]
    | succ j =>
      simp only [jrun, List.getElem?_cons_succ]
      simp only [List.getElem_cons_succ] at he
      exact ih (jstep db o).1 hstay j (by simpa using hi) he

end Fjall.Journal
