import FjallModel.Mvcc.Kv
import FjallModel.Lemmas.Mvcc
import FjallModel.Lemmas.Spec
namespace Fjall.Mvcc
open Fjall Fjall.Spec
open Fjall.Tx (TKind)

theorem empty_inv : Inv ({} : Tree) := by
  constructor
  · simp [Tree.comps, Ordered]
  · simp [Tree.comps, Distinct]

theorem empty_abs (k : Key) (inst : Option Nat) : ({} : Tree).absGet inst k = none := by
  simp [Tree.absGet, Tree.comps, newestIn]

theorem absMap_get (t : Tree) (inst : Option Nat) (k : Key) :
    (t.absMap inst).get k = t.absGet inst k := by
  simp only [Tree.absMap]
  have : ∀ l : Run, (∀ e ∈ l, e ∈ t.comps.flatten) →
      KMap.get (l.map fun e => (e.key, t.absGet inst e.key)) k =
        if (∃ e ∈ l, e.key = k) then t.absGet inst k else none := by
    intro l
    induction l with
    | nil => simp [KMap.get]
    | cons x r ih =>
      intro hsub
      simp only [List.map_cons, KMap.get]
      by_cases hx : x.key = k
      · simp [hx]
      · rw [if_neg hx, ih (fun e he => hsub e (by simp [he]))]
        simp [hx]
  rw [this _ (fun e he => he)]
  split
  · rfl
  · rename_i hne
    symm
    simp only [Tree.absGet]
    have : newestIn inst k t.comps.flatten = none := by
      rw [newestIn_none]
      rintro d hd ⟨hk, _⟩
      exact hne ⟨d, hd, hk⟩
    rw [this]; rfl

/-- a keyspace's tree against its reference map -/
structure TRel (t : Tree) (s : Nat) (m : KMap) : Prop where
  inv : Inv t
  below : ∀ e ∈ t.comps.flatten, e.seqno < s
  abs : ∀ k, t.absGet none k = m.get k

def Rel (s : Kv) (m : KsId → KMap) : Prop := ∀ ks, TRel (s.trees ks) s.seqno (m ks)

theorem TRel.mono {t : Tree} {s s' : Nat} {m : KMap} (h : TRel t s m) (hs : s ≤ s') : TRel t s' m :=
  ⟨h.inv, fun e he => Nat.lt_of_lt_of_le (h.below e he) hs, h.abs⟩

theorem itemEntry_toVal (s : Nat) (k : Key) (v : Option Val) : (itemEntry s k v).toVal = v := by
  cases v <;> simp [itemEntry, VEntry.toVal]

theorem itemEntry_key (s : Nat) (k : Key) (v : Option Val) : (itemEntry s k v).key = k := by
  cases v <;> rfl

theorem itemEntry_seqno (s : Nat) (k : Key) (v : Option Val) : (itemEntry s k v).seqno = s := by
  cases v <;> rfl

theorem trel_apply (t : Tree) (s : Nat) (m : KMap) (h : TRel t s m) (k : Key) (v : Option Val) :
    TRel (t.apply (itemEntry s k v)) (s + 1) ((k, v) :: m) := by
  have hf : FreshFor t (itemEntry s k v) := by
    intro d hd _
    rw [itemEntry_seqno]; exact h.below d hd
  refine ⟨apply_inv t _ h.inv hf, ?_, ?_⟩
  · intro e he
    rw [apply_comps, List.mem_cons] at he
    rcases he with rfl | he
    · rw [itemEntry_seqno]; omega
    · have := h.below e he; omega
  · intro k'
    rw [apply_abs t _ h.inv hf, itemEntry_key, itemEntry_toVal]
    simp only [KMap.get]
    by_cases hk : k' = k
    · subst hk; simp
    · rw [if_neg hk, if_neg (Ne.symm hk)]
      exact h.abs k'

/-! batches: all items carry the same seqno; distinct keys keep every write fresh for its key -/

structure BRel (t : Tree) (s : Nat) (m : KMap) (done : List Key) : Prop where
  inv : Inv t
  below : ∀ e ∈ t.comps.flatten, e.seqno < s ∨ (e.seqno = s ∧ e.key ∈ done)
  abs : ∀ k, t.absGet none k = m.get k

theorem brel_apply (t : Tree) (s : Nat) (m : KMap) (done : List Key) (h : BRel t s m done)
    (k : Key) (hk : k ∉ done) (v : Option Val) :
    BRel (t.apply (itemEntry s k v)) s ((k, v) :: m) (k :: done) := by
  have hf : FreshFor t (itemEntry s k v) := by
    intro d hd hdk
    rw [itemEntry_seqno]
    rcases h.below d hd with hlt | ⟨_, hmem⟩
    · exact hlt
    · rw [itemEntry_key] at hdk; rw [hdk] at hmem; exact absurd hmem hk
  refine ⟨apply_inv t _ h.inv hf, ?_, ?_⟩
  · intro e he
    rw [apply_comps, List.mem_cons] at he
    rcases he with rfl | he
    · right; exact ⟨itemEntry_seqno _ _ _, by rw [itemEntry_key]; simp⟩
    · rcases h.below e he with hlt | ⟨h1, h2⟩
      · left; exact hlt
      · right; exact ⟨h1, by simp [h2]⟩
  · intro k'
    rw [apply_abs t _ h.inv hf, itemEntry_key, itemEntry_toVal]
    simp only [KMap.get]
    by_cases hk' : k' = k
    · subst hk'; simp
    · rw [if_neg hk', if_neg (Ne.symm hk')]
      exact h.abs k'

theorem applyItems_rel (items : List (KsId × Key × Option Val)) (s : Nat)
    (trees : KsId → Tree) (m : KsId → KMap) (done : List (KsId × Key))
    (hnd : (items.map fun (ks, k, _) => (ks, k)).Nodup)
    (hdisj : ∀ it ∈ items, (it.1, it.2.1) ∉ done)
    (h : ∀ ks, BRel (trees ks) s (m ks) ((done.filter fun p => p.1 = ks).map (·.2))) :
    ∀ ks, ∃ d, BRel (applyItems trees s items ks) s (specItems m items ks) d := by
  induction items generalizing trees m done with
  | nil => intro ks; exact ⟨_, h ks⟩
  | cons it r ih =>
    obtain ⟨ks0, k0, v0⟩ := it
    simp only [applyItems, specItems]
    simp only [List.map_cons, List.nodup_cons] at hnd
    apply ih _ _ ((ks0, k0) :: done) hnd.2
    · intro it hit
      simp only [List.mem_cons, not_or]
      refine ⟨?_, hdisj it (by simp [hit])⟩
      intro heq
      apply hnd.1
      rw [← heq]
      exact List.mem_map.mpr ⟨it, hit, rfl⟩
    · intro ks
      by_cases hks : ks = ks0
      · subst hks
        simp only [if_true]
        have hk0 : k0 ∉ (done.filter fun p => p.1 = ks).map (·.2) := by
          intro hmem
          obtain ⟨p, hp, hpk⟩ := List.mem_map.mp hmem
          have := List.mem_filter.mp hp
          apply hdisj (ks, k0, v0) (by simp)
          obtain ⟨p1, p2⟩ := p
          simp at this hpk
          simp [← hpk, ← this.2, this.1]
        have := brel_apply _ s _ _ (h ks) k0 hk0 v0
        simpa [List.filter] using this
      · simp only [if_neg hks]
        have := h ks
        simpa [List.filter, Ne.symm hks] using this

theorem brel_to_trel {t : Tree} {s : Nat} {m : KMap} {d : List Key} (h : BRel t s m d) :
    TRel t (s + 1) m :=
  ⟨h.inv, fun e he => by rcases h.below e he with h1 | ⟨h1, _⟩ <;> omega, h.abs⟩

theorem trel_to_brel {t : Tree} {s : Nat} {m : KMap} (h : TRel t s m) : BRel t s m [] :=
  ⟨h.inv, fun e he => Or.inl (h.below e he), h.abs⟩

end Fjall.Mvcc

namespace Fjall.Mvcc
open Fjall Fjall.Spec
open Fjall.Tx (TKind)

theorem trel_rotate {t : Tree} {s : Nat} {m : KMap} (h : TRel t s m) : TRel t.rotate s m :=
  ⟨rotate_inv t h.inv, fun e he => h.below e (by rw [rotate_flatten] at he; exact he),
   fun k => by rw [rotate_abs]; exact h.abs k⟩

theorem flush_sub (t : Tree) (w : Nat) : ∀ e ∈ (t.flush w).comps.flatten, e ∈ t.comps.flatten := by
  intro e he
  by_cases hs : t.sealed = []
  · simpa [Tree.flush, hs] using he
  · rw [flush_flatten t w hs] at he
    rw [comps_flatten]
    simp only [List.mem_append] at he ⊢
    rcases he with he | he | he
    · left; exact he
    · right; left; exact gcRun_sub _ _ _ e he
    · right; right; exact he

theorem trel_flush {t : Tree} {s s' : Nat} {m : KMap} (h : TRel t s m) (w : Nat) (hs : s ≤ s') :
    TRel (t.flush w) s' m :=
  ⟨flush_inv t w h.inv, fun e he => Nat.lt_of_lt_of_le (h.below e (flush_sub t w e he)) hs,
   fun k => by rw [flush_abs t w h.inv]; exact h.abs k⟩

theorem compact_sub (t : Tree) (i n w : Nat) :
    ∀ e ∈ (t.compact i n w).comps.flatten, e ∈ t.comps.flatten := by
  intro e he
  by_cases hv : n = 0 ∨ i + n > t.tables.length
  · simpa [Tree.compact, hv] using he
  · rw [compact_valid_flatten t i n w hv] at he
    rw [comps_split t i n]
    simp only [List.flatten_append, List.flatten_cons, List.mem_append] at he ⊢
    rcases he with (he | he | he) | he | he
    · left; left; exact he
    · left; right; left; exact he
    · left; right; right; exact he
    · right; left; exact gcRun_sub _ _ _ e he
    · right; right; exact he

theorem trel_compact {t : Tree} {s s' : Nat} {m : KMap} (h : TRel t s m) (i n w : Nat) (hs : s ≤ s') :
    TRel (t.compact i n w) s' m :=
  ⟨compact_inv t i n w h.inv, fun e he => Nat.lt_of_lt_of_le (h.below e (compact_sub t i n w e he)) hs,
   fun k => by rw [compact_abs t i n w h.inv]; exact h.abs k⟩

theorem trel_clear (s : Nat) : TRel ({} : Tree).clear s [] :=
  ⟨empty_inv, by simp [Tree.clear, Tree.comps], fun k => by simp [Tree.clear, empty_abs, KMap.get]⟩

/-! ingestion -/

def putAll (m : KMap) : List (Key × Option Val) → KMap
  | [] => m
  | (k, v) :: r => putAll ((k, v) :: m) r

theorem putAll_get (m : KMap) (items : List (Key × Option Val)) (hnd : (items.map (·.1)).Nodup) (k : Key) :
    (putAll m items).get k = match items.lookup k with
      | some v => v
      | none => m.get k := by
  induction items generalizing m with
  | nil => rfl
  | cons it r ih =>
    obtain ⟨k0, v0⟩ := it
    simp only [List.map_cons, List.nodup_cons] at hnd
    simp only [putAll]
    rw [ih _ hnd.2]
    by_cases hk : k = k0
    · subst hk
      have : r.lookup k = none := by
        rw [List.lookup_eq_none_iff]
        intro p hp
        simp only [bne_iff_ne, ne_eq]
        intro heq
        apply hnd.1
        rw [heq]
        exact List.mem_map.mpr ⟨p, hp, rfl⟩
      simp [this, List.lookup, KMap.get]
    · have hne : (k == k0) = false := by simpa using hk
      simp only [List.lookup, hne]
      cases r.lookup k with
      | some v => rfl
      | none => simp [KMap.get, Ne.symm hk]

theorem rotate_flush_shape (t : Tree) (w : Nat) :
    (t.rotate.flush w).active = [] ∧ (t.rotate.flush w).sealed = [] := by
  simp only [Tree.rotate, Tree.flush]
  split <;> split <;> simp_all

theorem lookup_some_mem (items : List (Key × Option Val)) (k : Key) (v : Option Val)
    (h : items.lookup k = some v) : (k, v) ∈ items := by
  induction items with
  | nil => simp [List.lookup] at h
  | cons it r ih =>
    obtain ⟨k0, v0⟩ := it
    by_cases hk : k = k0
    · subst hk; simp [List.lookup] at h; simp [h]
    · have hne : (k == k0) = false := by simpa using hk
      simp only [List.lookup, hne] at h
      exact List.mem_cons_of_mem _ (ih h)

theorem lookup_none_not_mem (items : List (Key × Option Val)) (k : Key)
    (h : items.lookup k = none) : ∀ p ∈ items, p.1 ≠ k := by
  rw [List.lookup_eq_none_iff] at h
  intro p hp heq
  have := h p hp
  simp [heq] at this

theorem ingest_trel {t : Tree} {s : Nat} {m : KMap} (h : TRel t s m) (g : Nat) (hg : s ≤ g)
    (items : List (Key × Option Val)) (hne : items ≠ []) (hnd : (items.map (·.1)).Nodup) :
    TRel (t.ingest g items) (g + 1) (putAll m items) := by
  have h1 : TRel (t.rotate.flush 0) s m := trel_flush (trel_rotate h) 0 (Nat.le_refl _)
  obtain ⟨ha, hs⟩ := rotate_flush_shape t 0
  have hing : t.ingest g items =
      { t.rotate.flush 0 with tables := (items.map fun (k, v) => itemEntry g k v) :: (t.rotate.flush 0).tables } := by
    simp [Tree.ingest, hne]
  rw [hing]
  generalize t.rotate.flush 0 = t1 at h1 ha hs
  obtain ⟨⟨ho, hd⟩, hb, habs⟩ := h1
  have hc1 : t1.comps = [] :: t1.tables := by simp [Tree.comps, ha, hs]
  have hf1 : t1.comps.flatten = t1.tables.flatten := by simp [hc1]
  rw [hf1] at hd hb
  rw [hc1] at ho
  generalize hR : (items.map fun (x : Key × Option Val) => match x with | (k, v) => itemEntry g k v) = R
  have hc2 : ({ t1 with tables := R :: t1.tables } : Tree).comps = [] :: R :: t1.tables := by
    simp [Tree.comps, ha, hs]
  have hf2 : ({ t1 with tables := R :: t1.tables } : Tree).comps.flatten = R ++ t1.tables.flatten := by
    simp [hc2]
  have hRmem : ∀ e ∈ R, e.seqno = g ∧ ∃ v, (e.key, v) ∈ items ∧ e = itemEntry g e.key v := by
    intro e he
    rw [← hR] at he
    obtain ⟨⟨k, v⟩, hp, rfl⟩ := List.mem_map.mp he
    exact ⟨itemEntry_seqno _ _ _, v, by rw [itemEntry_key]; exact hp, by rw [itemEntry_key]⟩
  have hdist : Distinct (R ++ t1.tables.flatten) := by
    rw [Distinct, List.pairwise_append]
    refine ⟨?_, hd, ?_⟩
    · rw [← hR, List.pairwise_map]
      have : items.Pairwise fun a b => a.1 ≠ b.1 := by
        have := hnd
        rw [List.Nodup, List.pairwise_map] at this
        exact this
      refine this.imp ?_
      intro a b hab hk
      obtain ⟨ka, va⟩ := a
      obtain ⟨kb, vb⟩ := b
      simp only [itemEntry_key] at hk
      exact absurd hk hab
    · intro a ha' b hb' _
      have := (hRmem a ha').1
      have := hb b hb'
      omega
  refine ⟨⟨?_, by rw [hf2]; exact hdist⟩, ?_, ?_⟩
  · rw [hc2]
    refine ⟨by simp, ?_, ho.2⟩
    intro e he d hdm e' he' _
    have := (hRmem e he).1
    have := hb e' (List.mem_flatten.mpr ⟨d, hdm, he'⟩)
    omega
  · intro e he
    rw [hf2] at he
    simp only [List.mem_append] at he
    rcases he with he | he
    · have := (hRmem e he).1; omega
    · have := hb e he; omega
  · intro k
    rw [putAll_get m items hnd k]
    simp only [Tree.absGet, hf2]
    cases hl : items.lookup k with
    | some v =>
      simp only
      have hmem := lookup_some_mem items k v hl
      have heR : itemEntry g k v ∈ R := by rw [← hR]; exact List.mem_map.mpr ⟨(k, v), hmem, rfl⟩
      have : newestIn none k (R ++ t1.tables.flatten) = some (itemEntry g k v) := by
        rw [newestIn_iff none k _ hdist]
        refine ⟨by simp [heR], itemEntry_key _ _ _, rfl, fun d hdm _ _ => ?_⟩
        rw [itemEntry_seqno]
        simp only [List.mem_append] at hdm
        rcases hdm with hdm | hdm
        · exact Nat.le_of_eq (hRmem d hdm).1
        · have := hb d hdm; omega
      rw [this]
      simp [itemEntry_toVal]
    | none =>
      simp only
      have hnot := lookup_none_not_mem items k hl
      rw [← habs k]
      simp only [Tree.absGet, hf1]
      congr 1
      symm
      apply newestIn_sub none k _ _ hdist hd (fun x hx => by simp [hx])
      intro e he
      have := he.1
      simp only [List.mem_append] at this
      rcases this with hm | hm
      · obtain ⟨_, v, hv, _⟩ := hRmem e hm
        exact absurd he.2.1 (hnot (e.key, v) hv)
      · exact hm

end Fjall.Mvcc
